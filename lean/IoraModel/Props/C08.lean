import IoraModel.Lemmas.TimingWheel
import IoraModel.Lemmas.TimingWheelSat
import IoraModel.Lemmas.TimingWheelRestart
import IoraModel.Lemmas.TimerService
import IoraModel.Lemmas.TimerHeap
import IoraModel.Lemmas.TimerDrain
import IoraModel.Lemmas.TimerSys
import IoraModel.Lemmas.SteadyTimer
import IoraModel.Gen.Timer
/-!
# C08 — Timers never fire early, twice, or after a successful cancel

Property theorems only (helper lemmas: `Lemmas/TimingWheel.lean`, `Lemmas/TimerService.lean`).
Models: `Model/TimingWheel.lean` (the hierarchical wheel as repaired by F21/F22/F32) and `Model/TimerService.lean`
(the epoll timer service as repaired by F23/F41); shape facts come from the regenerated `Gen/Timer.lean`.

Wheel theorems quantify over EVERY operation list `ops : List Op` — any interleaving of
`start / schedule / cancel / reschedule / advance / drain / stop`, with every clock value an input of the operation
(no monotonicity assumed), any delay (negative, zero, beyond the wheel span) and any geometry.
-/
namespace Iora.C08
open Iora Iora.Wheel

/-! ## Wheel -/

/-- **Gen conformance (wheel).** The working tree has the shapes the model assumes: `schedule` re-tests `_accepting`
under `_wheelMutex` (F32); `collectFromBucket` re-inserts when `deadline - now > _tickDuration` (F21); both bucket
loops that may re-insert walk a detached vector (F22); `cascadeDown`/`drain` fire on `deadline <= now`.  Atomicity of the model's
steps: every wheel function that reads or writes `_entryMap`, the buckets, the tick counters or `_lastAdvanceTime` declares
`std::lock_guard lock(_wheelMutex)` BEFORE its first such access and in a scope that contains all of them
(`wheelMutexSections`), and callbacks are fired outside every such scope. -/
theorem G_wheel_shapes :
    Gen.Timer.wheelScheduleRechecksUnderLock = true ∧ Gen.Timer.wheelLevel0NotDueOp = ">" ∧ Gen.Timer.wheelLevel0NotDueRhs = "_tickDuration" ∧
    Gen.Timer.wheelLevel0Detached = true ∧ Gen.Timer.wheelCascadeDetached = true ∧ Gen.Timer.wheelCascadeDueOp = "<=" ∧
    Gen.Timer.wheelDrainDueOp = "<=" ∧ Gen.Timer.wheelCatchUpAbove = 1 ∧
    Gen.Timer.wheelAdvanceOrder = ["collectFromBucket", "level0.currentTick++", "cascadeDown"] ∧
    Gen.Timer.wheelMutexSections = ["schedule", "cancel", "reschedule", "advance", "start", "drain", "clearAllEntries", "reset", "pendingCount"] ∧
    Gen.Timer.wheelFiresOutsideLock = true := by decide

/-- **W6 (lifecycle order, Gen conformance).** `stop()` and `drain()` clear `_accepting` first, then join the tick thread
(`stopTickThread`: flag, notify, join), and only then clear/collect the entries: once they return no tick thread exists,
so without a dispatcher no callback is running or starts later. -/
theorem W6_lifecycle_order :
    Gen.Timer.wheelStopOrder = ["accepting=false", "stopTickThread", "clearAllEntries", "state=STOPPED"] ∧
    Gen.Timer.wheelDrainOrder = ["accepting=false", "stopTickThread", "lock", "entryMap.clear"] ∧
    Gen.Timer.wheelStopTickThreadOrder = ["running=false", "notify_all", "join"] := by decide

/-- **W0 (well-formedness).** In every reachable state there is one tick counter per level and every linked entry sits
on an existing level, so the default of `curAt` is never used. -/
theorem W0_levels_in_range (c : Cfg) (hl : 0 < c.levels) (ops : List Op) :
    (run c ops).1.cur.length = c.levels ∧ ∀ e ∈ (run c ops).1.entries, e.level < c.levels :=
  ⟨(inv_run c ops).curLen, (inv_run c ops).lvl hl⟩

/-- **W0' (valid geometries).** For a geometry the constructor accepts, the model's `% slots` is the code's `& _tickMask`
(`_tickMask = ticksPerWheel - 1`), and there is at least one slot.  Invalid geometries (tick ≤ 0, slot count not a power of two, no
level) are outside what the model claims about the C++; the wheel theorems below hold for them as statements about the model only. -/
theorem W0_mask_is_mod (c : Cfg) (h : c.Valid) (n : Nat) : n &&& (c.slots - 1) = n % c.slots ∧ 0 < c.slots := by
  obtain ⟨_, _, k, hk⟩ := h
  rw [hk]
  exact ⟨Nat.and_two_pow_sub_one_eq_mod n k, Nat.pow_pos (by decide)⟩

example : (⟨10, 8, 2⟩ : Cfg).Valid := ⟨by decide, by decide, 3, rfl⟩

/-- **W1 (conservation).** After every history, the ids still linked in the wheel together with the ids that have left
it (fired, cancelled with `true`, drained, cleared by `stop`) are — as a multiset — exactly the ids handed out, and no id
was handed out twice: every scheduled timer is at every moment in exactly one place, never duplicated, never silently
dropped. -/
theorem W1_conservation (c : Cfg) (ops : List Op) :
    (ids (run c ops).1 ++ left (run c ops).2).Perm (issued (run c ops).2) ∧ (issued (run c ops).2).Nodup :=
  ⟨(inv_run c ops).perm, (inv_run c ops).nodup⟩

/-- **W1' (at most once).** Over a whole history no id is handed to `fireCallback` twice, every fired id was issued, and a
fired id is no longer pending. -/
theorem W1_fires_at_most_once (c : Cfg) (ops : List Op) :
    (fired (run c ops).2).Nodup ∧ ∀ a ∈ fired (run c ops).2, a ∈ issued (run c ops).2 ∧ a ∉ ids (run c ops).1 := by
  have i := inv_run c ops
  have hnd := i.ids_nodup
  have hl : (left (run c ops).2).Nodup := (List.nodup_append.mp hnd).2.1
  refine ⟨?_, ?_⟩
  · rw [List.nodup_iff_count] at hl ⊢
    exact fun a => Nat.le_trans (fired_count_le a _) (hl a)
  · intro a ha
    have hal := fired_sub_left _ a ha
    exact ⟨i.perm.subset (List.mem_append_right _ hal), fun hp => (List.nodup_append.mp hnd).2.2 a hp a hal rfl⟩

/-- non-vacuity: a history in which two timers fire (one of them rescheduled first) and one is cancelled -/
example : fired (run ⟨10, 8, 2⟩ [.start 0, .sched 0 5, .sched 0 25, .sched 0 300, .resched 1000000 2 12, .cancel 3,
    .adv 10000000, .adv 20000000, .adv 30000000]).2 = [1, 2] := by decide

/-- **W2a.** `cancel` / `reschedule` answer `true` exactly when the id is pending (linked in some bucket). -/
theorem W2_cancel_iff_pending (w : Wheel) (id : Nat) : (cancel w id).2 = true ↔ id ∈ ids w := by
  unfold cancel ids
  split
  · rename_i h; simpa using unlink_none.mp h
  · rename_i x r h
    have := unlink_some h
    simp only [true_iff]
    exact this.1 ▸ List.mem_map_of_mem this.2.1

theorem W2_resched_iff_pending (c : Cfg) (w : Wheel) (now : Int) (id : Nat) (d : Int) : (reschedule c w now id d).2 = true ↔ id ∈ ids w := by
  unfold reschedule ids
  split
  · rename_i h; simpa using unlink_none.mp h
  · rename_i x r h
    have := unlink_some h
    simp only [true_iff]
    exact this.1 ▸ List.mem_map_of_mem this.2.1

/-- **W2b.** After `cancel(id)` returned `true`, whatever happens next (`rest` is any continuation), the id is never
pending again and is never handed to `fireCallback`. -/
theorem W2_cancelled_never_fires (c : Cfg) (ops : List Op) (id : Nat) (rest : List Op)
    (h : (cancel (run c ops).1 id).2 = true) :
    id ∉ ids (run c (ops ++ .cancel id :: rest)).1 ∧ id ∉ fired (trace c (cancel (run c ops).1 id).1 rest) := by
  have i := inv_run c (ops ++ .cancel id :: rest)
  have hnd := i.ids_nodup
  have hh : (run c (ops ++ .cancel id :: rest)).2 = (run c ops).2 ++ [(.cancel id, .bool true)] ++ trace c (cancel (run c ops).1 id).1 rest := by
    rw [run_append, runFrom_trace]
    simp only [trace, step, h, List.append_assoc, List.cons_append, List.nil_append]
  have hin : id ∈ left ((run c ops).2 ++ [(.cancel id, .bool true)]) := by
    rw [left_snoc]; exact List.mem_append_right _ (by simp [leftOf])
  rw [hh] at hnd
  have hsplit : left ((run c ops).2 ++ [(.cancel id, .bool true)] ++ trace c (cancel (run c ops).1 id).1 rest) =
      left ((run c ops).2 ++ [(.cancel id, .bool true)]) ++ left (trace c (cancel (run c ops).1 id).1 rest) := by
    simp [left]
  rw [hsplit] at hnd
  obtain ⟨_, h2, h3⟩ := List.nodup_append.mp hnd
  refine ⟨fun hp => h3 id hp id (List.mem_append_left _ hin) rfl, fun hf => ?_⟩
  exact (List.nodup_append.mp h2).2.2 id hin id (fired_sub_left _ id hf) rfl

/-- non-vacuity: a cancel that succeeds -/
example : (cancel (run ⟨10, 8, 2⟩ [.start 0, .sched 0 50]).1 1).2 = true := by decide

/-- **W2c.** `cancel(id) = false` means the id was never handed out, or it has already left the wheel (fired,
cancelled before, drained or cleared): a pending timer is never reported as unknown. -/
theorem W2_false_means_gone (c : Cfg) (ops : List Op) (id : Nat) (h : (cancel (run c ops).1 id).2 = false) :
    id ∉ issued (run c ops).2 ∨ id ∈ left (run c ops).2 := by
  have hn : id ∉ ids (run c ops).1 := fun hp => by
    rw [(W2_cancel_iff_pending _ id).mpr hp] at h; cases h
  by_cases hi : id ∈ issued (run c ops).2
  · right
    have := (inv_run c ops).perm.symm.subset hi
    exact (List.mem_append.mp this).resolve_left hn
  · exact Or.inl hi

/-- **W3 (not early).** Whatever the history and whenever `advance()` is called — on time, late by any number of ticks
(catch-up), early, with a clock that jumped — every entry it hands to `fireCallback` carries exactly the deadline the caller's
latest successful `schedule`/`reschedule` of that id asked for (`lastDeadline` is computed from the history alone), and
`now ≥ deadline − tick`.  A rescheduled timer therefore never fires on its old schedule. -/
theorem W3_not_early (c : Cfg) (hc : 0 ≤ c.tick) (ops : List Op) (now : Int) :
    ∀ e ∈ (advance c (run c ops).1 now).2,
      lastDeadline (run c ops).2 e.id = some e.deadline ∧ e.deadline - now ≤ c.tick * nsPerMs := by
  intro e he
  obtain ⟨hk, hd, _⟩ := advance_spec c (run c ops).1 now
  obtain ⟨e0, h0, hid, hdl⟩ := mem_of_keys hk (List.mem_append_right _ he)
  exact ⟨hid ▸ hdl ▸ (inv_run c ops).dl e0 h0, (hd e he).not_early hc⟩

/-- non-vacuity and tightness: a 15 ms timer scheduled 1 ms before a 2.5-tick-late `advance` is NOT fired by it (it would be
14 ms early; the unrepaired code fired it) and fires two ticks later -/
example : (advance ⟨10, 8, 2⟩ (run ⟨10, 8, 2⟩ [.start 0, .sched 24000000 15]).1 25000000).2 = [] ∧
          (fired (run ⟨10, 8, 2⟩ [.start 0, .sched 24000000 15, .adv 25000000, .adv 35000000]).2) = [1] := by decide

/-- **W3 for `drain`.** `drain` fires only entries whose (caller-requested) deadline has passed. -/
theorem W3_drain_not_early (c : Cfg) (ops : List Op) (now : Int) (b : Nat) :
    ∀ e ∈ (drain (run c ops).1 now b).2.fired, lastDeadline (run c ops).2 e.id = some e.deadline ∧ e.deadline ≤ now := by
  intro e he
  obtain ⟨hm, hd⟩ := drain_fired_due _ now b e he
  exact ⟨(inv_run c ops).dl e hm, hd⟩

/-- **W5.** An entry fired from a higher level (by `cascadeDown`) is not early at all: `deadline ≤ now`. -/
theorem W5_cascade_exact (c : Cfg) (w : Wheel) (now : Int) : ∀ e ∈ (advance c w now).2, 0 < e.level → e.deadline ≤ now := by
  intro e he hl
  rcases (advance_spec c w now).2.1 e he with ⟨h0, _⟩ | ⟨_, h⟩
  · omega
  · exact h

/-- **W4 (termination).** In the repaired code both bucket loops of `advance` iterate over a detached list (structural
`List.foldl` in the model: one iteration per entry that was in the bucket), and the level recursion of `cascadeDown` needs at
most `levels` calls: more fuel never changes the result, i.e. the model's fuel-0 exit is the `level >= _numWheels` exit. -/
theorem W4_cascade_terminates (c : Cfg) (now : Int) (s : Wheel × List Entry) :
    ∀ k, cascadeDown c now (c.levels + k) 1 s = cascadeDown c now c.levels 1 s
  | 0 => rfl
  | k + 1 => by
    rw [← W4_cascade_terminates c now s k]
    exact cascadeDown_fuel c now (c.levels + k) 1 s (by omega)

/-- **F22 on record.** The walk of the UNREPAIRED `cascadeDown` over the live bucket does not terminate for two entries
whose remaining delay is beyond the wheel span: for every number of iterations `f` it is still running.  (Witness replayed
against the real code by the check: corpus/C08/F22-*.json answers `hang` on the unrepaired tree.) -/
theorem W4_legacy_walk_livelock : ∀ f : Nat, legacyWalk legacyCfg 160000000 1 0 f legacyA (some 1) [] = none :=
  fun f => (legacy_livelock f).1

/-- **W7a.** `schedule` on a wheel that is not accepting returns `InvalidTimerId` and changes nothing. -/
theorem W7_refused (c : Cfg) (w : Wheel) (now d : Int) (h : w.accepting = false) : schedule c w now d = (w, 0) :=
  schedule_refused c w now d h

/-- **W7b.** Once `stop()` or `drain()` has run, whatever follows, the wheel never accepts again and nothing is ever linked in
it: every later `schedule` is refused (W7a) rather than accepted and lost. -/
theorem W7_stopped_forever (c : Cfg) (ops : List Op) (op : Op) (hop : op = .stop ∨ ∃ n b, op = .drain n b) (rest : List Op) :
    (run c (ops ++ op :: rest)).1.accepting = false ∧ (run c (ops ++ op :: rest)).1.entries = [] := by
  rw [run_append]
  simp only [runFrom]
  have := dead_runFrom c rest (step c (run c ops).1 op).1 ((run c ops).2 ++ [(op, (step c (run c ops).1 op).2)])
    (by rcases hop with h | ⟨n, b, h⟩ <;> subst h <;> simp [step, stop, drain])
    (by rcases hop with h | ⟨n, b, h⟩ <;> subst h <;> simp [step, stop, drain])
    (by rcases hop with h | ⟨n, b, h⟩ <;> subst h <;> simp [step, stop, drain])
  exact ⟨this.2, this.1⟩

/-- **W7c (all interleavings of `schedule()` with `stop()`).** With the flag re-tested under `_wheelMutex` (the shape `Gen`
reports for the working tree), for EVERY schedule of the two threads: once `stop()` has returned, no entry of the racing
`schedule()` is linked in the wheel — it was either refused or inserted before the clear and cleared. -/
theorem W7_concurrent (sched : List Bool) :
    (Race.runSched Gen.Timer.wheelScheduleRechecksUnderLock {} sched).t = .done →
    (Race.runSched Gen.Timer.wheelScheduleRechecksUnderLock {} sched).stored = false :=
  Race.good_safe _ (Race.good_run sched {} Race.good_init)

/-- **F32 on record.** Without the re-test there is a schedule after which `stop()` has returned, `schedule()` has returned a
valid id, and the entry is linked in the stopped wheel (it never fires). -/
theorem W7_without_retest_witness :
    let x := Race.runSched false {} [false, true, true, true, false, false, false]
    x.t = .done ∧ x.s = .accepted ∧ x.stored = true := by decide

/-! ### wheel, round 2 (c08w block): saturating deadline (FC08c) -/

/-- **W8a (FC08c: the deadline computation never wraps).** For every clock value a `steady_clock::time_point` can hold
(`0 ≤ now ≤ tpMax = 2^63 - 1` ns) and EVERY delay — `milliseconds::max()`, `milliseconds::min()`, 300 years — the deadline that
`schedule`/`reschedule` store (`deadlineAfter`, the value `W3_not_early` shows every fired entry carries) is a time point between the
epoch and `TimePoint::max()`, and `deadline - now'` is representable for every clock value `now'` a later `advance()`/`drain()` can read;
it IS `now + delay` whenever that is a representable time point at or after the epoch, and otherwise (delay too large) lies in the last
millisecond before `TimePoint::max()`.  This replaces the former assumption `now + delay < 2^63`. -/
theorem W8_deadline_never_wraps (now d : Int) (h0 : 0 ≤ now) (h1 : now ≤ tpMax) :
    (0 ≤ deadlineAfter now d ∧ deadlineAfter now d ≤ tpMax ∧
      ∀ now', 0 ≤ now' → now' ≤ tpMax → -tpMax ≤ deadlineAfter now d - now' ∧ deadlineAfter now d - now' ≤ tpMax) ∧
    (0 ≤ now + d * nsPerMs → now + d * nsPerMs ≤ tpMax → deadlineAfter now d = now + d * nsPerMs) ∧
    (tpMax < now + d * nsPerMs → tpMax - nsPerMs < deadlineAfter now d) :=
  ⟨deadlineAfter_bounds now d h0 h1, deadlineAfter_exact now d h0 h1, fun h => (deadlineAfter_saturates now d h0 h1 h).1⟩

/-- **W8b (never early w.r.t. the REQUESTED deadline, no overflow assumption).** If the guard of `W3_not_early` lets an entry
scheduled at `now` with delay `d ≥ 0` fire at clock `now'`, then `now'` is within one tick (+ the 1 ms granularity of the clamp)
of `min(now + d, TimePoint::max())`: a timer asked for beyond the end of the clock's range cannot fire before the clock is
within a tick and a millisecond of its end — in particular not "at once", as the unrepaired `Clock::now() + delay` made it. -/
theorem W8_request_not_early (tick now d now' : Int) (h0 : 0 ≤ now) (h1 : now ≤ tpMax) (hd : 0 ≤ d)
    (hg : deadlineAfter now d - now' ≤ tick * nsPerMs) :
    min (now + d * nsPerMs) tpMax - now' < (tick + 1) * nsPerMs := by
  have := (deadlineAfter_is_min now d h0 h1 hd).2
  unfold nsPerMs at *
  omega

/-- non-vacuity / the witness of FC08c: `schedule(milliseconds::max())` at virtual clock 0 on the harness's epoch (30 days)
stores a deadline 292 years ahead, and 40 on-time ticks (five level-0 revolutions) later nothing has fired -/
example : (run ⟨10, 8, 2⟩ [.start 2592000000000000, .sched 2592000000000000 9223372036854775807]).1.entries.map (·.deadline) = [9223372036854000000] ∧
          fired (run ⟨10, 8, 2⟩ ([.start 2592000000000000, .sched 2592000000000000 9223372036854775807] ++
            (List.range 40).map (fun (i : Nat) => Op.adv (2592000000000000 + ((i : Int) + 1) * 10000000)))).2 = [] := by decide

/-- **Gen conformance (wheel, round 2).** `schedule` takes its id with ONE atomic read-modify-write `_nextId.fetch_add(1, ..)` — the
allocation sits outside `_wheelMutex`, so W1's "no id is handed out twice" holds for concurrent callers only because of this shape
(a `load` followed by a `store` hands one id to two callers; harness op `mtsched`) — and nothing but `reset()` writes `_nextId`
otherwise; `schedule`/`reschedule` compute the deadline with the saturating `deadlineAfter` (FC08c) whose body is the clamp
`now + std::clamp(delay, -behind, ahead)` that `Wheel.deadlineAfter` mirrors; `reset()` asserts STOPPED, clears every entry, zeroes the tick counters, unsets `_lastAdvanceTime`,
restarts the ids at 1 and publishes RESET, in that order; `clearAllEntries` empties the id map and every bucket of every level under
`_wheelMutex`; `start()` leaves exactly CREATED and RESET. -/
theorem G_wheel_shapes_r2 :
    Gen.Timer.wheelIdAllocAtomic = true ∧ Gen.Timer.wheelDeadlineSaturates = true ∧ Gen.Timer.wheelDeadlineIsClamp = true ∧
    Gen.Timer.wheelResetOrder = ["assert-STOPPED", "clearAllEntries", "currentTick=0", "lastAdvance=unset", "nextId=1", "state=RESET"] ∧
    Gen.Timer.wheelClearOrder = ["lock", "freeEntry", "entryMap.clear", "head=null", "tail=null"] ∧
    Gen.Timer.wheelStartFrom = ["CREATED", "RESET"] := by decide

/-- **Gen conformance (KV store's TTL wheel).** The default geometry `KVStoreConfig` hands to the `TimingWheel` constructor
(`ttlTickDuration`, `ttlTicksPerWheel`, `ttlNumWheels`, regenerated from kvstore.hpp) satisfies the constructor's preconditions
`Cfg.Valid` — tick > 0, a power-of-two slot count (any exponent up to 64), at least one level — which is what `W0_mask_is_mod`
needs for the model's `% slots` to be the code's `& _tickMask`.  The check runs this geometry in lockstep (GEOMETRIES takes it from
the same generated values). -/
theorem G_kv_wheel_geometry_valid :
    (⟨Gen.Timer.kvWheelTickMs, Gen.Timer.kvWheelSlots, Gen.Timer.kvWheelLevels⟩ : Cfg).Valid := by
  refine ⟨by decide, by decide, ?_⟩
  have h : (List.range 65).any (fun k => Gen.Timer.kvWheelSlots == 2 ^ k) = true := by decide
  obtain ⟨k, _, hk⟩ := List.any_eq_true.mp h
  exact ⟨k, by simpa using hk⟩

/-! ### wheel, round 2 (c08w block): restart — `stop()`/`drain()` → `reset()` → `start()`

`reset()` restarts the ids at 1, so ids are unique only within an EPOCH (between two successful `reset()` calls).  A life of one wheel
object is a list `rops : List ROp` of ordinary operations and `reset`s (`Lemmas/TimingWheelRestart.lean`); `(rrun c rops).h` is the
`(op, answer)` history of the CURRENT epoch, `(rrun c rops).w` the wheel.  Every prefix of a life is a life, so a statement about "the
current epoch of every life" is a statement about every epoch. -/

/-- **WR0 (`reset()` drops nothing, leaves nothing).** In every reachable life a STOPPED wheel — the only state in which `reset()` may be
called — holds no entry and does not accept: everything scheduled in the closing epoch has already left by a route W1 accounts for
(fired, cancelled with `true`, drained, cleared by `stop()`), so `reset()`'s own clear never loses a timer silently.  And a successful
`reset()` leaves no entry linked, every tick counter 0, `_lastAdvanceTime` unset, the next id 1, state RESET, still not accepting:
nothing from before the reset is linked afterwards. -/
theorem WR0_reset_drops_nothing (c : Cfg) (rops : List ROp) (hs : (rrun c rops).w.state = .stopped) :
    ((rrun c rops).w.entries = [] ∧ (rrun c rops).w.accepting = false) ∧
    (rrun c (rops ++ [.reset])).w.entries = [] ∧ (rrun c (rops ++ [.reset])).h = [] ∧ (rrun c (rops ++ [.reset])).w.nextId = 1 ∧
    (rrun c (rops ++ [.reset])).w.lastAdvance = none ∧ (∀ l, curAt (rrun c (rops ++ [.reset])).w l = 0) ∧
    (rrun c (rops ++ [.reset])).w.state = .reset ∧ (rrun c (rops ++ [.reset])).w.accepting = false := by
  have g := (good_rrun c rops).stoppedEmpty hs
  have hr : rrun c (rops ++ [.reset]) = ⟨reset (rrun c rops).w, [], (rrun c rops).epochs + 1⟩ := by
    simp only [rrun, rrunFrom, List.foldl_append, List.foldl_cons, List.foldl_nil, rstep]
    simp only [rrun, rrunFrom] at hs
    simp [hs]
  obtain ⟨h1, h2, h3, h4, _, h6, h7⟩ := reset_clears (rrun c rops).w hs
  rw [hr]
  exact ⟨g, h1, rfl, h2, h3, h4, h6, h7.trans g.2⟩

/-- **WR1 (conservation and at-most-once in every epoch, across any number of restarts).** W1 and W1' for the current epoch of every
life: pending ids + ids that left = ids issued in this epoch, no id issued twice in this epoch, no id fired twice in this epoch, a fired
id was issued in this epoch and is no longer pending. -/
theorem WR1_every_epoch (c : Cfg) (rops : List ROp) :
    (ids (rrun c rops).w ++ left (rrun c rops).h).Perm (issued (rrun c rops).h) ∧ (issued (rrun c rops).h).Nodup ∧
    (fired (rrun c rops).h).Nodup ∧ ∀ a ∈ fired (rrun c rops).h, a ∈ issued (rrun c rops).h ∧ a ∉ ids (rrun c rops).w :=
  ⟨(inv_rrun c rops).perm, (inv_rrun c rops).nodup, (inv_rrun c rops).fired_nodup.1, (inv_rrun c rops).fired_nodup.2⟩

/-- **WR1' (ids DO restart).** Uniqueness of ids over the whole life of a wheel object is false: after stop → reset → start the first
`schedule` returns id 1 again.  A caller that keeps an id across `reset()` can cancel a different timer with it. -/
theorem WR1_ids_restart_witness :
    (step ⟨10, 8, 2⟩ (rrun ⟨10, 8, 2⟩ [.op (.start 0), .op (.sched 0 50)]).w (.sched 0 70)).2 matches .id 2 ∧
    (step ⟨10, 8, 2⟩ (rrun ⟨10, 8, 2⟩ [.op (.start 0), .op (.sched 0 50), .op .stop, .reset, .op (.start 5)]).w (.sched 5 70)).2 matches .id 1 := by
  decide

/-- **WR3 (not early, across restarts).** In every life, every entry `advance()` hands to `fireCallback` carries exactly the deadline that
the latest successful `schedule`/`reschedule` of its id asked for IN THE CURRENT EPOCH (`lastDeadline` of the current epoch's history),
and `now ≥ deadline − tick`: an id issued after a restart never fires on a deadline that belonged to its namesake of an earlier epoch. -/
theorem WR3_not_early_across_restarts (c : Cfg) (hc : 0 ≤ c.tick) (rops : List ROp) (now : Int) :
    ∀ e ∈ (advance c (rrun c rops).w now).2,
      lastDeadline (rrun c rops).h e.id = some e.deadline ∧ e.deadline - now ≤ c.tick * nsPerMs :=
  (inv_rrun c rops).not_early hc now

/-- **WR2 (cancel across restarts).** In every life `cancel(id) = true` iff the id is pending now (W2a holds in every state), and
`cancel(id) = false` means the id was not issued in the current epoch or has left in it: an id that was pending when an earlier epoch was
stopped is not cancellable after the restart unless the new epoch issued it again. -/
theorem WR2_false_means_gone_in_epoch (c : Cfg) (rops : List ROp) (id : Nat) (h : (cancel (rrun c rops).w id).2 = false) :
    id ∉ issued (rrun c rops).h ∨ id ∈ left (rrun c rops).h := by
  have hn : id ∉ ids (rrun c rops).w := fun hp => by
    rw [(W2_cancel_iff_pending _ id).mpr hp] at h; cases h
  by_cases hi : id ∈ issued (rrun c rops).h
  · right
    have := (inv_rrun c rops).perm.symm.subset hi
    exact (List.mem_append.mp this).resolve_left hn
  · exact Or.inl hi

/-- non-vacuity: two epochs; id 1 of the first epoch (deadline 50 ms) is pending at `stop()`; id 1 of the second epoch is scheduled at
60 ms for 200 ms later; the ticks at 70 … 290 ms (all past the OLD deadline) fire nothing, the tick at 300 ms fires it (deadline 260 ms; filed on level 1, it comes down with the
next cascade) -/
example :
    let pre : List ROp := [.op (.start 0), .op (.sched 0 50), .op .stop, .reset, .op (.start 60000000), .op (.sched 60000000 200)]
    fired (rrun ⟨10, 8, 2⟩ (pre ++ (List.range 23).map (fun (i : Nat) => ROp.op (.adv (70000000 + (i : Int) * 10000000))))).h = [] ∧
    fired (rrun ⟨10, 8, 2⟩ (pre ++ (List.range 24).map (fun (i : Nat) => ROp.op (.adv (70000000 + (i : Int) * 10000000))))).h = [1] ∧
    (rrun ⟨10, 8, 2⟩ pre).epochs = 1 := by decide

/-! ## Timer service

Theorems quantify over EVERY list of atomic steps `ops : List Tsvc.Op` — the locked sections of `scheduleAt`,
`schedulePeriodic`, `cancel`, of the loop thread (`collect`, with its clock value as input), of `drain()` (gate, sweep, wait
outcome, restore) and of `stop()` (flag, halt, join+publish), plus the start and end of each handler outside the lock — in any
order: every interleaving of any number of caller threads with the loop thread is such a list. -/

section Service
open Iora.Tsvc

/-- **Gen conformance (service).** `scheduleAt`/`schedulePeriodic` re-test `_accepting` under `_mutex`; `cancel` decides under
`_mutex`; `collectDueLocked` breaks on `top.tp > now`, erases the record before it hands the handler over, re-arms after that;
both collect sites pre-announce `_executingCallbacks` inside the same locked block; `safeRun`'s guard decrements, then
locks/unlocks `_mutex`, then notifies; a timed-out `drain` restores `_accepting` under `_mutex`; `stop()` clears `_accepting` under
`_mutex` before it halts the loop and publishes Stopped + not-accepting together after the join (F23); periodic invocations go
through the cancel guard (F41), which `cancel` closes for every periodic entry it finds — also one a `drain` sweep has already marked.  Atomicity of the model's
steps: every section the model treats as one step declares its `_mutex` lock before its first access to
`_records/_periodicTimers/_heap/_nextId/_accepting/_lifecycleState` and in a scope containing all of them (`svcMutexSections`);
handlers run outside every such scope; the restore `_accepting = true` sits INSIDE the braces of `if (CAS Draining → Running)`. -/
theorem G_service_shapes :
    Gen.Timer.svcScheduleAtRechecksUnderLock = true ∧ Gen.Timer.svcSchedulePeriodicRechecksUnderLock = true ∧
    Gen.Timer.svcCancelOrder = ["lock", "records.find", "canceled=true", "periodic.erase"] ∧
    Gen.Timer.svcCollectBreakOp = ">" ∧
    Gen.Timer.svcCollectOrder = ["heapPop", "records.erase", "canceled-test", "push", "re-arm"] ∧
    Gen.Timer.svcPreAnnounceUnderLock = true ∧
    Gen.Timer.svcSafeRunOrder = ["fetch_sub", "lock-unlock", "notify_all"] ∧
    Gen.Timer.svcDrainRestoresAcceptingOnTimeout = true ∧ Gen.Timer.svcDrainSweepOp = ">" ∧
    Gen.Timer.svcStopClearsAccepting = true ∧ Gen.Timer.svcStopPublishesStoppedUnderLock = true ∧
    Gen.Timer.svcPeriodicCancelGuard = true ∧ Gen.Timer.svcCancelClosesGuardAlways = true ∧
    Gen.Timer.svcMutexSections = ["scheduleAt", "schedulePeriodic", "cancel", "drain.gate", "drain.sweep", "drain.wait", "drain.restore",
      "stop.flag", "markStopped", "reset", "getInFlightCount", "runLoop.collect"] ∧
    Gen.Timer.svcHandlersRunOutsideLock = true ∧ Gen.Timer.svcDrainRestoreInsideCas = true := by decide

/-- **S1 (at most once, nothing collected is lost).** After every history, the invocations whose handler started, those skipped
because `cancel` closed their guard, and those still waiting in the loop thread's `ready` list are — as a multiset — exactly
the collected invocations, and no invocation `(id, firing index)` was collected twice.  So a one-shot handler starts at most
once, the k-th firing of a periodic timer starts at most once, and a collected handler is never dropped. -/
theorem S1_collected_exactly_once (L : Limits) (ops : List Tsvc.Op) :
    (started (Tsvc.run L ops).2 ++ skipped (Tsvc.run L ops).2 ++ (Tsvc.run L ops).1.ready).Perm (collected (Tsvc.run L ops).2) ∧
    ((collected (Tsvc.run L ops).2).map ekey).Nodup ∧ ((started (Tsvc.run L ops).2).map ekey).Nodup := by
  obtain ⟨_, i⟩ := Tsvc.inv_run L ops
  refine ⟨i.perm, i.q.nodup, ?_⟩
  have h1 : ((started (Tsvc.run L ops).2 ++ skipped (Tsvc.run L ops).2 ++ (Tsvc.run L ops).1.ready).map ekey).Nodup :=
    (i.perm.map ekey).nodup_iff.mpr i.q.nodup
  simp only [List.map_append, List.append_assoc] at h1
  exact (List.nodup_append.mp h1).1

/-- **S2 (never early).** Whatever the history and whatever clock value the loop thread reads, every invocation it collects is
due (`tp ≤ now`); its time point is `t0 + k · iv` where `(t0, iv)` is what the CALLER asked for according to the history
alone — for `scheduleAt(tp)`: `t0 = tp`, `iv = 0`; for `schedulePeriodic(interval)` called at clock `t0`: `iv = interval` and
`k = 1, 2, …` is the firing index.  Hence the k-th firing of a periodic timer happens no earlier than k intervals after it
was scheduled. -/
theorem S2_collected_is_due (L : Limits) (ops : List Tsvc.Op) (now : Int) (atExit : Bool) :
    ∀ e ∈ (collect (Tsvc.run L ops).1 now atExit).2.1,
      e.tp ≤ now ∧ e.tp = e.t0 + e.k * e.iv ∧ reqOf (Tsvc.run L ops).2 e.id = some (e.t0, e.iv) := by
  obtain ⟨w, i⟩ := Tsvc.inv_run L ops
  intro e he
  unfold collect at he
  split at he
  · cases he
  · have sp := collect_spec _ _ now w i
    exact ⟨sp.due e he, sp.arith e he, sp.rout e he⟩

/-- non-vacuity: a periodic timer scheduled at clock 1 ms with interval 2 ms; a collect at 7.5 ms hands over firings 1, 2, 3
(due at 3, 5, 7 ms) and nothing else -/
example : ((collect (Tsvc.run ⟨100, 10, 86400000000000⟩ [.schedPer 1000000 2000000]).1 7500000).2.1.map (fun e => (e.id, e.k, e.tp))) =
    [(1, 1, 3000000), (1, 2, 5000000), (1, 3, 7000000)] := by decide

/-- **S3a (successful cancel).** After `cancel(id)` has answered `true` in any reachable state — reached by ANY history `ops`, in
particular one in which a `drain()` (or the `drain(5000)` inside `stop()`) has passed its gate and swept, marking periodic entries
cancelled without closing their guards, has timed out and put the service back to Running, or is still waiting — whatever happens
next (`rest` is any continuation: other threads, further drain/stop steps, the loop thread, handlers already collected before the
cancel and waiting behind a slow handler), no handler of that id ever STARTS.  The proof uses the source fact
`Gen.Timer.svcCancelClosesGuardAlways` (lemma `cancel_true_dead`): with the guard closed only on the `!entry.canceled` transition
the statement is false (`S3_conditional_close_witness`). -/
theorem S3_cancelled_never_starts (L : Limits) (ops : List Tsvc.Op) (id : Nat) (rest : List Tsvc.Op)
    (h : (Tsvc.cancel (Tsvc.run L ops).1 id).2 = true) :
    ∀ e ∈ started (Tsvc.trace L (Tsvc.cancel (Tsvc.run L ops).1 id).1 rest), e.id ≠ id := by
  obtain ⟨w, i⟩ := Tsvc.inv_run L ops
  obtain ⟨d, hle⟩ := cancel_true_dead _ _ id w i h
  exact dead_trace L id rest _ d hle

/-- non-vacuity (the drain-sweep window): A (one-shot) and P (periodic) are collected together, A's handler is running, P's invocation
waits in `ready`; a `drain` passes its gate and sweeps (P's periodic entry is now marked cancelled, its guard still open);
`cancel(P)` answers `true` and closes the guard; after A has returned the loop thread SKIPS P's invocation.  `rest` in S3a may
contain any number of `drainGate / drainSweep / drainTimeout / drainRestore / stopFlag …` steps before and after the cancel. -/
example :
    let s := (Tsvc.run ⟨100, 10, 86400000000000⟩ [.schedAt 0 5000000, .schedPer 0 5000000, .collect 5000000 false, .hstart, .drainGate, .drainSweep 5000000 50000000]).1
    s.periodic.map (fun p => (p.id, p.canceled)) = [(2, true)] ∧ s.closed = [] ∧ s.ready.map (·.id) = [2] ∧
    (Tsvc.cancel s 2).2 = true ∧
    (hstart (hend (Tsvc.cancel s 2).1)).2.skippedId = some 2 := by decide

/-- **On record (seeded change C08-b).** If `cancel` closed the guard only on the transition `!entry.canceled` (the other possible
position of the store, `cancelWith false`), the same history lets P's handler START after `cancel(P)` returned `true`. -/
theorem S3_conditional_close_witness :
    let s := (Tsvc.run ⟨100, 10, 86400000000000⟩ [.schedAt 0 5000000, .schedPer 0 5000000, .collect 5000000 false, .hstart, .drainGate, .drainSweep 5000000 50000000]).1
    (Tsvc.cancelWith false s 2).2 = true ∧
    (hstart (hend (Tsvc.cancelWith false s 2).1)).2.startedId = some 2 := by decide

/-- non-vacuity (the F41 window): a one-shot and a periodic timer are collected together; the one-shot handler is running, the
periodic invocation waits in `ready`; `cancel` of the periodic timer answers `true` -/
example : (Tsvc.cancel (Tsvc.run ⟨100, 10, 86400000000000⟩ [.schedAt 0 5000000, .schedPer 0 5000000, .collect 5000000 false, .hstart]).1 2).2 = true ∧
          (Tsvc.run ⟨100, 10, 86400000000000⟩ [.schedAt 0 5000000, .schedPer 0 5000000, .collect 5000000 false, .hstart]).1.ready.map (·.id) = [2] := by decide

/-- **S3b (failed cancel).** If `cancel(id)` answers `false`, no live record and no periodic entry of that id exists: the timer was
never issued, was cancelled before (by `cancel` or by a `drain` sweep), or has already been collected — and a collected
invocation is started, skipped-by-cancel or waiting (S1), never dropped. -/
theorem S3_false_means_not_pending (L : Limits) (ops : List Tsvc.Op) (id : Nat) (h : (Tsvc.cancel (Tsvc.run L ops).1 id).2 = false) :
    (∀ r ∈ (Tsvc.run L ops).1.records, r.id = id → r.canceled = true) ∧ ∀ p ∈ (Tsvc.run L ops).1.periodic, p.id ≠ id := by
  obtain ⟨w, _⟩ := Tsvc.inv_run L ops
  unfold Tsvc.cancel Tsvc.cancelWith at h
  simp only at h
  cases hp : findPer (Tsvc.run L ops).1.periodic id with
  | some p => simp [hp] at h
  | none =>
    simp only [hp] at h
    refine ⟨?_, findPer_none hp⟩
    intro r hr hid
    cases hf : findRec (Tsvc.run L ops).1.records id with
    | none => exact absurd hid (findRec_none hf r hr)
    | some rc =>
      simp only [hf, Bool.not_eq_false'] at h
      obtain ⟨hrc, hrcid⟩ := findRec_some hf
      have : r = rc := rec_unique w.core.rnd hr hrc (hid.trans hrcid.symm)
      rw [this]; exact h

/-- **S3c (never silently dropped).** A record leaves `_records` only inside `collect`, and then it is either handed over (it was
live) or it had been cancelled; no other step removes a record. -/
theorem S3_record_accounting (L : Limits) (ops : List Tsvc.Op) (now : Int) (atExit : Bool) :
    ∀ r ∈ (Tsvc.run L ops).1.records,
      r ∈ (collect (Tsvc.run L ops).1 now atExit).1.records ∨ (r.canceled = false ∧ r.hnd ∈ (collect (Tsvc.run L ops).1 now atExit).2.1) ∨
      (r.canceled = true ∧ r ∈ (collect (Tsvc.run L ops).1 now atExit).2.2) := by
  obtain ⟨w, i⟩ := Tsvc.inv_run L ops
  intro r hr
  unfold collect
  split
  · exact Or.inl hr
  · exact (collect_spec _ _ now w i).acct r hr

theorem S3_other_steps_keep_records (L : Limits) (s : Svc) (op : Tsvc.Op) (hop : ∀ now ax, op ≠ .collect now ax) :
    ∀ r ∈ s.records, ∃ r' ∈ (Tsvc.step L s op).1.records, r'.id = r.id ∧ r'.tp = r.tp :=
  records_kept L s op hop

/-- **S4a (drain).** `drain()` reports success only from a state with no live record, `_executingCallbacks = 0`, nothing waiting in
`ready` and no handler running. -/
theorem S4_drain_success (L : Limits) (ops : List Tsvc.Op) (h : (drainDone (Tsvc.run L ops).1).2 = true) :
    liveCount (Tsvc.run L ops).1 = 0 ∧ (Tsvc.run L ops).1.executing = 0 ∧ (Tsvc.run L ops).1.ready = [] ∧ (Tsvc.run L ops).1.inflight = none := by
  obtain ⟨w, _⟩ := Tsvc.inv_run L ops
  unfold drainDone at h
  split at h
  · rename_i hg
    have hp := hg.2
    simp only [drainPred, Bool.and_eq_true, beq_iff_eq] at hp
    have hacc := w.acct
    rw [hp.2] at hacc
    have h1 : (Tsvc.run L ops).1.ready.length = 0 := by omega
    have h2 : (Tsvc.run L ops).1.inflight.toList.length = 0 := by omega
    refine ⟨hp.1, hp.2, List.eq_nil_of_length_eq_zero h1, ?_⟩
    cases hin : (Tsvc.run L ops).1.inflight with
    | none => rfl
    | some x => rw [hin] at h2; simp at h2
  · cases h

/-- **S4b / S6 (stop).** Once `stop()` has returned (`stopFinish` succeeded: the loop thread is joined and Stopped is published),
whatever any thread does afterwards: no handler starts, the service stays Stopped and never accepts again. -/
theorem S4_after_stop (L : Limits) (ops : List Tsvc.Op) (rest : List Tsvc.Op) (h : (stopFinish (Tsvc.run L ops).1).2 = true) :
    started (Tsvc.trace L (stopFinish (Tsvc.run L ops).1).1 rest) = [] ∧
    ∀ hist, (Tsvc.runFrom L (stopFinish (Tsvc.run L ops).1).1 hist rest).1.life = .stopped ∧
            (Tsvc.runFrom L (stopFinish (Tsvc.run L ops).1).1 hist rest).1.accepting = false := by
  obtain ⟨w, _⟩ := Tsvc.inv_run L ops
  have w' : Wf (stopFinish (Tsvc.run L ops).1).1 := by
    have := wf_step L _ .stopFinish w
    simpa [Tsvc.step] using this
  have hs : (stopFinish (Tsvc.run L ops).1).1.life = .stopped := by
    unfold stopFinish at h ⊢
    split
    · rfl
    · rename_i hg; simp [hg] at h
  exact stopped_trace L rest _ w' hs

/-- `stop()` returns only after the loop thread has exited, which it does only with nothing collected left to run -/
theorem S4_stop_waits_for_handlers (L : Limits) (ops : List Tsvc.Op) (h : (stopFinish (Tsvc.run L ops).1).2 = true) :
    (Tsvc.run L ops).1.exited = true ∧ (Tsvc.run L ops).1.ready = [] ∧ (Tsvc.run L ops).1.inflight = none ∧ (Tsvc.run L ops).1.executing = 0 := by
  obtain ⟨w, _⟩ := Tsvc.inv_run L ops
  unfold stopFinish at h
  split at h
  · rename_i hg
    obtain ⟨_, h2, h3⟩ := w.ex1 hg.2
    have := w.acct
    rw [h2, h3] at this
    exact ⟨hg.2, h2, h3, by simpa using this⟩
  · cases h

/-- non-vacuity: a complete stop with a handler collected on the exit path -/
example : (stopFinish (Tsvc.run ⟨100, 10, 86400000000000⟩
    [.schedAt 0 1000000, .drainGate, .drainSweep 0 5000000000, .stopFlag, .stopHalt, .collect 2000000 true, .hstart, .hend, .loopExit]).1).2 = true := by decide

/-- **S4d (after a successful drain).** Once `drain()` has reported success, whatever any thread does afterwards (further drains, `stop`,
`cancel`, the loop thread), no handler ever starts: the service is not accepting, not Running, every record is cancelled, nothing is
collected or running — and every step preserves that. -/
theorem S4_after_drain_nothing_starts (L : Limits) (ops : List Tsvc.Op) (rest : List Tsvc.Op) (h : (drainDone (Tsvc.run L ops).1).2 = true) :
    started (Tsvc.trace L (drainDone (Tsvc.run L ops).1).1 rest) = [] :=
  quiet_trace L rest _ (drainDone_quiet _ (Tsvc.inv_run L ops).1 (drainBusy_run L ops) h)

/-- non-vacuity: a drain that succeeds after the last handler has finished -/
example : (drainDone (Tsvc.run ⟨100, 10, 86400000000000⟩
    [.schedAt 0 1000000, .drainGate, .drainSweep 0 5000000, .collect 1000000 false, .hstart, .hend]).1).2 = true := by decide

/-! ### S3b: the clause that is false (finding FC08a) -/

/-- **S3b, full clause** ("if cancel reports failure on a running service the handler has run or will run exactly once — a scheduled
timer is never silently dropped while the service runs"), for one-shot timers: on a Running service, `cancel(id) = false` for an
id that `scheduleAt` handed out means the invocation was collected (then it is started exactly once or still waiting, S1) or an
earlier `cancel(id)` answered `true`. -/
def C08_S3b_statement : Prop :=
  ∀ (L : Limits) (ops : List Tsvc.Op) (id : Nat),
    (Tsvc.run L ops).1.life = .running → id ∈ issued1 (Tsvc.run L ops).2 → (Tsvc.cancel (Tsvc.run L ops).1 id).2 = false →
    id ∈ (collected (Tsvc.run L ops).2).map (·.id) ∨ id ∈ userCancelled (Tsvc.run L ops).2

/-- the witness: timer 1 (3 ms, its handler is running) and timer 2 (one hour); `drain(5 ms)` passes its gate and sweeps — timer 2
is beyond the drain deadline and is marked cancelled — then times out because handler 1 is still running, and restores
Running + accepting.  Timer 2 is gone: `cancel(2)` answers `false`, it was never collected and nobody cancelled it. -/
def S3b_witness : List Tsvc.Op :=
  [.schedAt 0 3000000, .schedAt 0 3600000000000, .collect 3000000 false, .hstart, .drainGate, .drainSweep 3000000 5000000,
   .drainTimeout, .drainRestore]

/-- **S3b refuted (finding FC08a).** A `drain(timeout > 0)` that times out has already cancelled the far-future one-shot records (and
marked every periodic entry) and then puts the service back to Running. -/
theorem C08_S3b_refuted : ¬ C08_S3b_statement := by
  intro h
  have := h ⟨100, 10, 86400000000000⟩ S3b_witness 2 (by decide) (by decide) (by decide)
  revert this
  decide

/-- the witness state is what the clause talks about: Running and accepting again, timer 2's record still there but cancelled -/
example : (Tsvc.run ⟨100, 10, 86400000000000⟩ S3b_witness).1.life = .running ∧ (Tsvc.run ⟨100, 10, 86400000000000⟩ S3b_witness).1.accepting = true ∧
    (Tsvc.run ⟨100, 10, 86400000000000⟩ S3b_witness).1.records.map (fun r => (r.id, r.canceled)) = [(2, true)] := by decide

/-- **S3b, partial.** Without a `drain(timeout > 0)` sweep in the history (`noSweep`: every `drainSweep` step has `timeout ≤ 0`, i.e.
`drain(0)`, or there is none) the clause holds in every state, Running or not: an issued one-shot id for which `cancel` answers
`false` was collected or was cancelled by a `cancel` that answered `true`. -/
theorem C08_S3b_partial (L : Limits) (ops : List Tsvc.Op) (id : Nat) (hns : noSweep ops)
    (hi : id ∈ issued1 (Tsvc.run L ops).2) (hc : (Tsvc.cancel (Tsvc.run L ops).1 id).2 = false) :
    id ∈ (collected (Tsvc.run L ops).2).map (·.id) ∨ id ∈ userCancelled (Tsvc.run L ops).2 := by
  have n := noLoss_run L ops hns
  rcases n.u2 id hi with ⟨r, hr, hrid⟩ | h' | h'
  · exact Or.inr (hrid ▸ n.u1 r hr ((S3_false_means_not_pending L ops id hc).1 r hr hrid))
  · exact Or.inl h'
  · exact Or.inr h'

/-- non-vacuity: a history with `drain(0)`, a collected timer and a successful cancel; `cancel` of the collected one answers `false` -/
example : noSweep [.schedAt 0 1, .schedAt 0 9, .drainGate, .drainSweep 0 0, .collect 5 false, .cancel 2] ∧
    (Tsvc.cancel (Tsvc.run ⟨100, 10, 86400000000000⟩ [.schedAt 0 1, .schedAt 0 9, .drainGate, .drainSweep 0 0, .collect 5 false, .cancel 2]).1 1).2 = false := by
  refine ⟨?_, by decide⟩
  intro op hm now t he
  subst he
  simp only [List.mem_cons, List.mem_nil_iff, or_false, reduceCtorEq, false_or, Op.drainSweep.injEq] at hm
  omega

/-- **S5a (heap order).** In every reachable state `_heap` is in heap order for `less` (no element is less than its parent), whatever
sequence of `siftUp`/`siftDown`/`heapPop` produced it; so `_heap.front()` is a minimum. -/
theorem S5_heap_order (L : Limits) (ops : List Tsvc.Op) : HeapOk (Tsvc.run L ops).1.heap := hok_run L ops

/-- **S5b (no silent loss).** When the loop of `collectDueLocked(now)` leaves through `break` or the empty heap, no record with
`tp ≤ now` remains: together with S3c every live record that was due has been handed over.  (The loop always leaves that way
when all periodic intervals are positive; with an interval ≤ 0 the C++ loop does not terminate — observation F42.) -/
theorem S5_no_due_record_left (L : Limits) (ops : List Tsvc.Op) (now : Int)
    (hc : (collectLoop now collectFuel { records := (Tsvc.run L ops).1.records, periodic := (Tsvc.run L ops).1.periodic,
                                         heap := (Tsvc.run L ops).1.heap }).complete = true) :
    ∀ r ∈ (collectLoop now collectFuel { records := (Tsvc.run L ops).1.records, periodic := (Tsvc.run L ops).1.periodic,
                                         heap := (Tsvc.run L ops).1.heap }).records, now < r.tp := by
  obtain ⟨w, i⟩ := Tsvc.inv_run L ops
  exact collect_complete_none_due _ _ now w i (hok_run L ops) hc

/-- non-vacuity: five timers, a collect in the middle: it completes, hands over the three that are due, keeps the two later ones -/
example :
    let s := (Tsvc.run ⟨100, 10, 86400000000000⟩ [.schedAt 0 5, .schedAt 0 3, .schedAt 0 9, .schedAt 0 1, .schedAt 0 7]).1
    let c := collectLoop 5 collectFuel { records := s.records, periodic := s.periodic, heap := s.heap }
    c.complete = true ∧ c.out.map (·.id) = [4, 2, 1] ∧ c.records.map (·.id) = [3, 5] := by decide

/-- **S6 (refusal).** A service that is not accepting stores nothing and answers 0. -/
theorem S6_refused (L : Limits) (s : Svc) (now x : Int) (h : s.accepting = false) :
    scheduleAt L s now x = (s, 0) ∧ schedulePeriodic L s now x = (s, 0) := by
  simp [scheduleAt, schedulePeriodic, h]

end Service

/-! ## Second layer: restart (`stop → reset → start`), wake-up plumbing, concurrent `scheduleAt` -/

section Sys
open Iora.Tsvc Iora.Tsys

/-- **Gen conformance (second layer).** `programTimerfd` bumps a zero `it_value` to 1 ns; `scheduleAt`, `schedulePeriodic`, `cancel`,
`drain` and `stop` call `poke()` after their locked section; `reset()` clears `_records`, `_periodicTimers`, `_heap` and restarts
`_nextId` at 0 (seeded change C08-d drops the heap); `stop()`'s internal drain is `drain(5000)`. -/
theorem G_sys_shapes :
    Gen.Timer.svcTimerfdZeroGuard = true ∧ Gen.Timer.svcTimerfdZeroNs = 1 ∧
    Gen.Timer.svcPokeSites = ["scheduleAt", "schedulePeriodic", "cancel", "drain", "stop"] ∧
    Gen.Timer.svcResetClears = ["records", "periodic", "heap", "nextId"] ∧ Gen.Timer.svcStopDrainMs = 5000 := by decide

/-- **R1 (every epoch is a fresh service).** For EVERY history of the restartable service — any interleaving of first-layer steps, pokes,
loop wake-ups, `reset()` and `start()`, any number of restarts — outside the Reset state the state and the history of the current epoch
are exactly a run of the first-layer model from the constructor's state.  Hence every theorem about `Tsvc.run` (S1–S6) holds in every
epoch (`R_transfer`). -/
theorem R_epoch_is_fresh_run (L : Limits) (ops : List Tsys.Op) (h : (Tsys.run L ops).isReset = false) :
    ∃ sops, Tsvc.run L sops = ((Tsys.run L ops).s, (Tsys.run L ops).hist) := by
  rcases Tsys.refines L ops with ⟨_, r⟩ | ⟨h1, _⟩
  · exact r
  · rw [h] at h1; cases h1

/-- **R2 (transfer).** Whatever holds of every first-layer run holds of the current epoch of every history with restarts. -/
theorem R_transfer (L : Limits) (P : Svc × Tsvc.Hist → Prop) (hP : ∀ sops, P (Tsvc.run L sops)) (ops : List Tsys.Op)
    (h : (Tsys.run L ops).isReset = false) : P ((Tsys.run L ops).s, (Tsys.run L ops).hist) := by
  obtain ⟨sops, hs⟩ := R_epoch_is_fresh_run L ops h
  rw [← hs]; exact hP sops

/-- **R3 (S2 across restarts: an id issued after a restart never fires at a deadline of an earlier epoch).** In every history with
restarts, every invocation the loop collects is due (`tp ≤ now`) and `tp = t0 + k·iv` where `(t0, iv)` is what the caller asked for
IN THE CURRENT EPOCH (`reqOf` of the epoch's own history: a request of an earlier epoch for the same numeric id does not count). -/
theorem R_S2_across_restarts (L : Limits) (ops : List Tsys.Op) (h : (Tsys.run L ops).isReset = false) (now : Int) (atExit : Bool) :
    ∀ e ∈ (collect (Tsys.run L ops).s now atExit).2.1,
      e.tp ≤ now ∧ e.tp = e.t0 + e.k * e.iv ∧ reqOf (Tsys.run L ops).hist e.id = some (e.t0, e.iv) :=
  R_transfer L (fun p => ∀ e ∈ (collect p.1 now atExit).2.1, e.tp ≤ now ∧ e.tp = e.t0 + e.k * e.iv ∧ reqOf p.2 e.id = some (e.t0, e.iv))
    (fun sops => S2_collected_is_due L sops now atExit) ops h

/-- **R4 (S1 and S3 across restarts).** In the current epoch of every history with restarts: collected = started + skipped + waiting with
no (id, firing) twice; and after `cancel(id) = true` no handler of that id starts in any first-layer continuation. -/
theorem R_S1_S3_across_restarts (L : Limits) (ops : List Tsys.Op) (h : (Tsys.run L ops).isReset = false) :
    ((started (Tsys.run L ops).hist ++ skipped (Tsys.run L ops).hist ++ (Tsys.run L ops).s.ready).Perm (collected (Tsys.run L ops).hist) ∧
     ((started (Tsys.run L ops).hist).map ekey).Nodup) ∧
    ∀ id rest, (Tsvc.cancel (Tsys.run L ops).s id).2 = true →
      ∀ e ∈ started (Tsvc.trace L (Tsvc.cancel (Tsys.run L ops).s id).1 rest), e.id ≠ id :=
  R_transfer L (fun p => ((started p.2 ++ skipped p.2 ++ p.1.ready).Perm (collected p.2) ∧ ((started p.2).map ekey).Nodup) ∧
      ∀ id rest, (Tsvc.cancel p.1 id).2 = true → ∀ e ∈ started (Tsvc.trace L (Tsvc.cancel p.1 id).1 rest), e.id ≠ id)
    (fun sops => ⟨⟨(S1_collected_exactly_once L sops).1, (S1_collected_exactly_once L sops).2.2⟩,
                  fun id rest hc => S3_cancelled_never_starts L sops id rest hc⟩) ops h

/-- **R5.** `reset()` followed by `start()` on a reachable Stopped service (no `drain()` still in progress) leaves EXACTLY the
constructor's state: no record, no periodic entry, no heap item, no closed guard, `_nextId = 0` — nothing of the old epoch survives. -/
theorem R_reset_start_is_constructor_state (L : Limits) (sops : List Tsvc.Op) (hl : (Tsvc.run L sops).1.life = .stopped)
    (hd : (Tsvc.run L sops).1.dpc = .idle) : startSvc (resetSvc (Tsvc.run L sops).1) = {} :=
  Tsys.reset_start_fresh _ (Tsvc.inv_run L sops).1 hl hd

/-- non-vacuity of R1–R5: a complete stop (a cancelled timer's heap item and a far-future timer are left behind), `reset()`, `start()`,
a new timer: it gets id 1 again and the heap holds only the new item -/
example :
    let y := Tsys.run ⟨100, 10, 86400000000000⟩ [.svc (.schedAt 0 4000000), .svc (.cancel 1), .svc (.schedAt 0 9000000000), .svc .drainGate,
      .svc (.drainSweep 0 5000000000), .svc .drainDone, .svc .stopFlag, .svc .stopHalt, .svc (.collect 1 true), .svc .loopExit, .svc .stopFinish,
      .reset, .start, .svc (.schedAt 5 15000000)]
    y.isReset = false ∧ y.epoch = 1 ∧ y.s.heap = [⟨15000000, 1⟩] ∧ y.s.records.map (·.id) = [1] := by decide

/-- **On record (seeded change C08-d).** A `reset()` that does not clear `_heap` (clears = records, periodic, nextId): after the same
restart the heap still holds the OLD item `(4 ms, id 1)`; the new timer — id 1 again, due at 15 ms — is collected at 4 ms. -/
theorem R_without_heap_clear_witness :
    let s0 := (Tsvc.run ⟨100, 10, 86400000000000⟩ [.schedAt 0 4000000, .cancel 1, .drainGate, .drainSweep 0 5000000000, .drainDone, .stopFlag, .stopHalt,
      .collect 1 true, .loopExit, .stopFinish]).1
    let s1 := startSvc (resetSvcWith ["records", "periodic", "nextId"] s0)
    let s2 := (scheduleAt ⟨100, 10, 86400000000000⟩ s1 5 15000000).1
    (collect s2 4000000 false).2.1.map (fun e => (e.id, e.tp)) = [(1, 15000000)] := by decide

/-- **WK1 (wake-up invariant).** For EVERY history: while the loop thread sleeps in `epoll_wait` and the heap is not empty, a wake-up is
pending (`poked`: the eventfd is readable), or owed (a client thread is between its locked section and its `poke()`), or the timerfd is
armed no later than the heap top's time point — or 1 ns after the clock value `programTimerfd` read, when the top was already due then
(the zero guard).  And the eventfd is closed only after the loop thread has been joined. -/
theorem WK_parked_has_wakeup (L : Limits) (ops : List Tsys.Op) (hp : (Tsys.run L ops).lpc = .parked) (t : HeapItem)
    (ht : (Tsys.run L ops).s.heap.head? = some t) :
    (Tsys.run L ops).poked = true ∨ 0 < (Tsys.run L ops).owed ∨
    ∃ a, (Tsys.run L ops).armed = some a ∧ (a ≤ t.tp ∨ a ≤ (Tsys.run L ops).armNow + 1) :=
  (Tsys.winv_run L ops).wk hp t ht

/-- **WK2 (a due record wakes the loop: never silently lost).** For every history: if the loop thread sleeps in `epoll_wait`, no client
thread still owes its `poke()`, and some record (live or not) has `tp ≤ now` at a clock value `now` later than the one the loop armed
with, then `epoll_wait` returns: the eventfd is readable or the timerfd has expired.  (With S5b/S3c the pass that follows hands every
live due record over.) -/
theorem WK_due_record_wakes (L : Limits) (ops : List Tsys.Op) (hr : (Tsys.run L ops).isReset = false) (hp : (Tsys.run L ops).lpc = .parked)
    (ho : (Tsys.run L ops).owed = 0) (now : Int) (hn : (Tsys.run L ops).armNow < now)
    (r : Rec) (hm : r ∈ (Tsys.run L ops).s.records) (hdue : r.tp ≤ now) :
    wakeEnabled (Tsys.run L ops) now = true := by
  obtain ⟨sops, hs⟩ := R_epoch_is_fresh_run L ops hr
  have hs1 : (Tsvc.run L sops).1 = (Tsys.run L ops).s := by rw [hs]
  have w := (Tsvc.inv_run L sops).1
  have ok := hok_run L sops
  rw [hs1] at w ok
  obtain ⟨t, ht, hle⟩ := Tsys.top_le_record w ok hm
  unfold wakeEnabled
  rcases WK_parked_has_wakeup L ops hp t ht with h | h | ⟨a, ha, hb⟩
  · simp [h]
  · omega
  · have : a ≤ now := by rcases hb with hb | hb <;> omega
    simp [ha, expired, this]

/-- non-vacuity of WK2, the window of hand mutant A: timer 1's handler runs while timer 2 comes due; the loop arms at 3 ms with the top
(2 ms) already due: the timerfd is programmed for 3 ms + 1 ns (not disarmed), and it wakes the loop -/
example :
    let y := Tsys.run ⟨100, 10, 86400000000000⟩ [.svc (.schedAt 0 1000000), .poke, .svc (.schedAt 0 2000000), .poke, .arm 0, .wake 1000000,
      .svc (.collect 1000000 false), .svc .hstart, .svc .hend, .arm 3000000]
    y.lpc = .parked ∧ y.poked = false ∧ y.owed = 0 ∧ y.armed = some 3000001 ∧ wakeEnabled y 3000001 = true := by decide

/-- **On record (hand mutant A of the review).** Without the zero guard a heap top that is already due programs `it_value = 0`, which
DISARMS the timerfd: the loop sleeps with a due timer and nothing to wake it. -/
theorem WK_without_zero_guard_witness (now tp : Int) (id : Nat) (h : tp ≤ now) :
    armValueWith false 1 now (some ⟨tp, id⟩) = none ∧ armValueWith true 1 now (some ⟨tp, id⟩) = some (now + 1) := by
  have : ¬ tp > now := by omega
  simp [armValueWith, this]

/-- **S6c (concurrent `scheduleAt`).** `scheduleAt` tests `_accepting` lock-free, then takes `_mutex` and tests it AGAIN: whatever other
threads did in between (`rest`: any steps), once `stop()` has returned the locked section stores nothing and answers 0 — a timer is
refused, never accepted by a stopped service.  And the two halves executed back to back are `scheduleAt`. -/
theorem S6_concurrent (L : Limits) (ops rest : List Tsvc.Op) (tp : Int) (h : (stopFinish (Tsvc.run L ops).1).2 = true) (hist : Tsvc.Hist) :
    scheduleAtLocked L (Tsvc.runFrom L (stopFinish (Tsvc.run L ops).1).1 hist rest).1 tp =
      ((Tsvc.runFrom L (stopFinish (Tsvc.run L ops).1).1 hist rest).1, 0) := by
  have := ((S4_after_stop L ops rest h).2 hist).2
  simp [scheduleAtLocked, this]

theorem S6_split (L : Limits) (s : Svc) (now tp : Int) :
    scheduleAt L s now tp = if scheduleAtPre L s now tp then scheduleAtLocked L s tp else (s, 0) := by
  unfold scheduleAt scheduleAtPre scheduleAtLocked
  cases s.accepting <;> by_cases h : tp - now > L.maxTimeoutNs <;> simp [h]

/-- non-vacuity of S6c: the racing thread passes the lock-free test on the running service; a complete `stop()` follows; the locked
section then refuses -/
example :
    scheduleAtPre ⟨100, 10, 86400000000000⟩ ({} : Svc) 0 5 = true ∧
    (stopFinish (Tsvc.run ⟨100, 10, 86400000000000⟩ [.drainGate, .drainSweep 0 5000000000, .drainDone, .stopFlag, .stopHalt, .collect 1 true, .loopExit]).1).2 = true := by
  decide

end Sys

/-! ## SteadyTimer (as repaired by FC08b) -/

section SteadyT
open Iora.Tsvc Iora.Steady

/-- **ST1 (a successful cancel is final).** For every history of the SteadyTimer layer (service steps of any thread, arms, re-arms and
cancels of any number of SteadyTimer objects): if `SteadyTimer[i].cancel()` answers `true` for the wait with service id `tok`, then in
EVERY continuation the user's handler of that wait never starts — whether the record was still pending (the service-level cancel
succeeded) or had already been collected by the loop thread (the wrapper finds the shared state `Canceled`). -/
theorem ST_cancel_true_never_starts (L : Limits) (ops : List Steady.Op) (i tok : Nat) (rest : List Steady.Op)
    (ht : getTok (Steady.run L ops) i = some tok) (h : (Steady.cancel (Steady.run L ops) i).2 = true) :
    tok ∉ userStarted (Steady.trace L (Steady.cancel (Steady.run L ops) i).1 rest) := by
  have r := reach_run L ops
  apply never_trace
  have hg : Gen.Timer.steadyCancelReportsSuppressed = true := by decide
  have hle : tok ≤ (Steady.run L ops).s.nextId := r.kb tok (r.tk i tok ht)
  unfold Steady.cancel at h ⊢
  rw [hg] at h ⊢
  have hs : (Steady.cancelWith true (Steady.run L ops) i).1.s = (Tsvc.cancel (Steady.run L ops).s tok).1 := by
    rw [cancel_s, ht]
  by_cases hsup : armState (Steady.run L ops).arms tok = some .armed
  · left
    refine ⟨?_, by rw [cancel_nextId]; exact hle, kb_cancel _ i _ r.kb⟩
    simp only [Steady.cancelWith, ht, hsup, beq_self_eq_true, if_true]
    exact armState_setArm_same _ tok _ _ hsup
  · right
    have hok : (Tsvc.cancel (Steady.run L ops).s tok).2 = true := by
      simp only [Steady.cancelWith, ht, if_true, Bool.or_eq_true, beq_iff_eq] at h
      rcases h with h | h
      · exact h
      · exact absurd h hsup
    obtain ⟨sops, hso⟩ := r.ref
    obtain ⟨w, hi⟩ := Tsvc.inv_run L sops
    rw [hso] at w hi
    obtain ⟨d, dle⟩ := cancel_true_dead _ _ tok w hi hok
    exact ⟨by rw [hs]; exact d, by rw [hs]; exact dle⟩

/-- **ST2 (a failed cancel).** `cancel() = false` means: nothing is armed (no token: never armed, refused by the service, or cancelled
before), or the wait's shared state is no longer `Armed` — the wrapper has STARTED the user's handler (it ran or is running, once: S1), or
an earlier `cancel()` had won — and the service-level cancel found no live record.  In particular never "false, and the handler is
silently suppressed" (the FC08b defect). -/
theorem ST_cancel_false_means_not_armed (L : Limits) (ops : List Steady.Op) (i : Nat) (h : (Steady.cancel (Steady.run L ops) i).2 = false) :
    getTok (Steady.run L ops) i = none ∨
    ∃ tok, getTok (Steady.run L ops) i = some tok ∧ (Tsvc.cancel (Steady.run L ops).s tok).2 = false ∧
      (armState (Steady.run L ops).arms tok = some .started ∨ armState (Steady.run L ops).arms tok = some .cancelled) := by
  have r := reach_run L ops
  have hg : Gen.Timer.steadyCancelReportsSuppressed = true := by decide
  unfold Steady.cancel at h
  rw [hg] at h
  cases ht : getTok (Steady.run L ops) i with
  | none => exact Or.inl rfl
  | some tok =>
    right
    simp only [Steady.cancelWith, ht, if_true, Bool.or_eq_false_iff, beq_eq_false_iff_ne, ne_eq] at h
    obtain ⟨x, hx⟩ := armState_of_key _ tok (r.tk i tok ht)
    refine ⟨tok, rfl, h.1, ?_⟩
    rw [hx] at h ⊢
    cases x with
    | armed => exact absurd rfl h.2
    | started => exact Or.inl rfl
    | cancelled => exact Or.inr rfl

/-- non-vacuity of ST1/ST2, the FC08b window: timer 1 (a plain one-shot) and the SteadyTimer wait (id 2) are collected together, handler
1 is running, wait 2 sits in the loop's ready list: the service-level cancel fails, the repaired `cancel()` answers `true`, and the
wrapper then does not call the handler; in the window where the handler has started `cancel()` answers `false` -/
example :
    let l := Steady.run ⟨100, 10, 86400000000000⟩ [.svc (.schedAt 0 1000000), .sat 0 0 1000000, .svc (.collect 1000000 false), .svc .hstart]
    getTok l 0 = some 2 ∧ (Tsvc.cancel l.s 2).2 = false ∧ (Steady.cancel l 0).2 = true ∧
    userStarted (Steady.trace ⟨100, 10, 86400000000000⟩ (Steady.cancel l 0).1 [.svc .hend, .svc .hstart]) = [] ∧
    (Steady.cancel (Steady.runFrom ⟨100, 10, 86400000000000⟩ l [.svc .hend, .svc .hstart]) 0).2 = false := by decide

/-- **On record (finding FC08b, repaired).** The unrepaired `cancel()` — the flag stored first, the answer the service-level answer alone
(`cancelWith false`) — answers `false` in that window, and the user's handler never starts: "cancel = false" and the timer is silently
dropped. -/
theorem ST_legacy_cancel_witness :
    let l := Steady.run ⟨100, 10, 86400000000000⟩ [.svc (.schedAt 0 1000000), .sat 0 0 1000000, .svc (.collect 1000000 false), .svc .hstart]
    (Steady.cancelWith false l 0).2 = false ∧
    userStarted (Steady.trace ⟨100, 10, 86400000000000⟩ (Steady.cancelWith false l 0).1 [.svc .hend, .svc .hstart, .svc .hend]) = [] := by decide

end SteadyT

/-! ### the periodic guard is read a few instructions before the handler is called (review 2, finding 5) -/

section GuardWindow
open Iora.Tsvc

/-- **S3p, the clause at instruction granularity** for PERIODIC timers.  The stored function of a periodic timer is
`if (!cancelFlag->load()) fn();`: the guard is read, THEN the user's handler is called.  The first-layer step `hstart` takes both as
one atomic step.  At instruction granularity the clause "cancel = true ⇒ the handler never starts afterwards" needs: whenever the loop
thread has read the guard of a waiting invocation as open, a `cancel(id)` that runs before `fn()` is entered must not answer `true`. -/
def C08_S3p_statement : Prop :=
  ∀ (L : Limits) (ops : List Tsvc.Op) (h : Hnd) (rest : List Hnd),
    (Tsvc.run L ops).1.ready = h :: rest → (Tsvc.run L ops).1.inflight = none →
    (h.guarded && (Tsvc.run L ops).1.closed.contains h.id) = false →      -- the loop thread reads the guard: open
    (Tsvc.cancel (Tsvc.run L ops).1 h.id).2 = false                        -- … then no cancel may still succeed

/-- **S3p refuted.** A periodic timer is collected; the loop thread reads its guard (open) and is descheduled before `fn()`; `cancel(1)`
answers `true` (the periodic entry is there); the loop thread goes on and calls the handler. -/
theorem C08_S3p_refuted : ¬ C08_S3p_statement := by
  intro h
  have := h ⟨100, 10, 86400000000000⟩ [.schedPer 0 5000000, .collect 5000000 false] ⟨1, 5000000, true, 1, 0, 5000000⟩ [] (by decide) (by decide) (by decide)
  revert this
  decide

/-- **S3p, partial** = `S3_cancelled_never_starts`: with the guard read and the call of the user's handler taken as ONE step (the window is
a handful of instructions on the loop thread; the real-time monitor RT3 allows 5 ms for it), after `cancel(id) = true` no handler of the
id starts in any continuation. -/
theorem C08_S3p_partial (L : Limits) (ops : List Tsvc.Op) (id : Nat) (rest : List Tsvc.Op)
    (h : (Tsvc.cancel (Tsvc.run L ops).1 id).2 = true) :
    ∀ e ∈ started (Tsvc.trace L (Tsvc.cancel (Tsvc.run L ops).1 id).1 rest), e.id ≠ id :=
  S3_cancelled_never_starts L ops id rest h

end GuardWindow

end Iora.C08
