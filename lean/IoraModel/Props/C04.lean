import IoraModel.Lemmas.ConnectSyncH
import IoraModel.Model.TsyncFacts
/-!
# C04 — Synchronous connect yields a live session or a definite error in time

Property theorems only; the model is `Model/ConnectSync.lean` (REPAIRED code: fix F16).  Every theorem quantifies over ALL
step sequences `steps : List Step` from the initial state — every interleaving of any number of application threads inside
`connectSync` / `connectSyncCancellable` (at the granularity of `syncMutex` sections, with the mutex explicit), the I/O thread
processing the engine FIFO and running the `onConnect` / `onClose` handlers, handshakes that complete, fail, never complete or
complete late, peers that close, timeouts and spurious wake-ups as scheduler choices, token cancellation and the teardown fence.
Statements are about the event log the steps append to; a statement about "earlier" events holds because it holds of every
prefix of every run (the log only grows).
-/


namespace Iora.C04.Core
open Iora Iora.ConnectSync
/-! The theorems about `run` — the control model as the skeleton facts describe it.  `Iora.C04.*` below restates each for
`runC cfg` under `cfg.Good`, which `skeleton_conforms` discharges for the configuration the driver runs (`genCfg`). -/

/-- **T1.** A connectSync call returns `ok sid` only for the session its own `engine->connect` created, only after the
`onConnect` handler delivered that session's completion to it, and never for a session for which any connectSync has issued
`engine->close` — neither before nor after (the statement holds of every extension of the run). -/
theorem T1_ok_is_live (steps : List Step) (c sid' sid : Nat)
    (h : Ev.attemptRet c (some sid') (.ok sid) ∈ (run init steps).log) :
    sid' = sid ∧ Ev.created c sid ∈ (run init steps).log ∧ Ev.hConnect sid ∈ (run init steps).log ∧
    Ev.delivered sid true ∈ (run init steps).log ∧ ∀ c', Ev.engineClose c' sid ∉ (run init steps).log := by
  have I := reachable_inv steps
  obtain ⟨h1, h2, h3⟩ := I.T1 c sid' sid h
  subst h1
  exact ⟨rfl, (I.R1 c _ _ h).1, (I.D1 _).1 h2, h2, h3⟩

/-- **T2 (suppression, connect).** The global connect callback is never invoked for a session a connectSync created. -/
theorem T2_no_global_connect (steps : List Step) (c sid : Nat)
    (h : Ev.globalConnect sid ∈ (run init steps).log) : Ev.created c sid ∉ (run init steps).log :=
  (reachable_inv steps).G1 sid (Or.inr h) c

/-- **T2 (suppression, close).** If the global close callback is invoked for a session a connectSync created, that session's
completion had been delivered to the caller (its result is fixed as `ok sid`), and the call that created it never returns
anything but `ok sid`: the callback never fires for an id that was not handed to its caller. (True of the repaired handlers:
the unrepaired `onConnect` erased an abandoned record, F16.) -/
theorem T2_global_close_only_for_handed_out (steps : List Step) (c sid : Nat)
    (h : Ev.globalClose sid ∈ (run init steps).log) (hc : Ev.created c sid ∈ (run init steps).log) :
    Ev.delivered sid true ∈ (run init steps).log ∧
    ∀ r, Ev.attemptRet c (some sid) r ∈ (run init steps).log → r = .ok sid := by
  have I := reachable_inv steps
  have hd := I.G2 sid (Or.inr h) c hc
  exact ⟨hd, fun r hr => I.FIX c sid r hr hd⟩

/-- **T3.** Every Timeout return is preceded by this call's `engine->close(sid)`; and once the engine has drained its FIFO,
a session for which `engine->close` was issued is closed — Connect is processed before Close, nothing is left open. -/
theorem T3_timeout_closes (steps : List Step) (c sid : Nat)
    (h : Ev.attemptRet c (some sid) (.err .timeout) ∈ (run init steps).log) :
    Ev.engineClose c sid ∈ (run init steps).log :=
  (reachable_inv steps).T3a c sid h

theorem T3_nothing_left_open (steps : List Step) (c sid : Nat)
    (h : Ev.engineClose c sid ∈ (run init steps).log) (hq : (run init steps).fifo = []) :
    (run init steps).eng sid = .closed := by
  rcases (reachable_inv steps).Q1 c sid h with h1 | h1
  · rw [hq] at h1; cases h1
  · exact h1

/-- **T4 (register before completion).** In no schedule does the `onConnect` handler of a connectSync-created session run its
critical section before the session is registered in `pendingConnects` (the caller holds `syncMutex` from `engine->connect`
until it waits). -/
theorem T4_register_before_completion (steps : List Step) (c sid : Nat)
    (h : Ev.hConnect sid ∈ (run init steps).log) (hc : Ev.created c sid ∈ (run init steps).log) :
    Ev.registered c sid ∈ (run init steps).log :=
  (reachable_inv steps).T4 c sid h hc

/-- **T5 (no stranded caller, safety half).** In every reachable state a caller asleep in `wait_for` whose predicate holds
(its completion was delivered, or teardown set the fence) has a notify on its way: the I/O thread is between the handler's
critical section and its `notify_one` for exactly this waiter. (The fence itself notifies under the lock.) -/
theorem T5_no_lost_wakeup (steps : List Step) (c sid : Nat)
    (hp : ((run init steps).callers c).pc = .parked sid false)
    (hpred : ((run init steps).callers c).done ≠ none ∨ (run init steps).shuttingDown = true) :
    (run init steps).io = .connNotify c sid ∨ (run init steps).io = .closeNotify c sid :=
  (reachable_inv steps).W c sid hp hpred

/-- a connectSync call has returned to its caller (plain call finished, or back in the cancellable wrapper's loop) -/
def returned (p : Pc) : Prop := p = .finished ∨ p = .wloop

/-- **T5 / "in time" (step bound; wall-clock slack is NOT proved — partial).** From ANY state in which `syncMutex` is free, a
parked caller that takes its timeout returns within three of its own steps (wake, `engine->close`, relock), whatever happened
before; and a caller that holds the mutex releases it within three of its own steps. -/
theorem T5_step_bound (s : State) (c sid : Nat) (a : Bool) (hp : (s.callers c).pc = .parked sid a) (hl : s.lock = none) :
    returned ((run s [.cWake c true, .cClose c, .cRelock c]).callers c).pc := by
  simp only [run, step]
  have h1 : doWake s c true = afterWait s c sid := by
    unfold doWake; simp [hp, hl]
  rw [h1]
  unfold afterWait
  dsimp only
  split
  · have := ret_returned { s with activeConnects := s.activeConnects - 1 } c (some sid) ‹_›
    rw [doClose_of_returned _ _ this, doRelock_of_returned _ _ this]; exact this
  · split
    · generalize hs' : ret _ c (some sid) (.err .shuttingDown) = s'
      have : returned (s'.callers c).pc := by rw [← hs']; exact ret_returned _ _ _ _
      rw [doClose_of_returned _ _ this, doRelock_of_returned _ _ this]; exact this
    · simp only [doClose, setC_same, doRelock, hl]
      exact ret_returned _ _ _ _

theorem T5_lock_released (steps : List Step) (c : Nat) (hl : (run init steps).lock = some c) :
    (run (run init steps) [.cConnect c, .cRegister c, .cPark c]).lock = none := by
  have hK := ((reachable_inv steps).K c).2 hl
  generalize run init steps = s at hK hl ⊢
  simp only [run, step]
  cases hpc : (s.callers c).pc <;> simp [hpc, holds] at hK
  · simp [doConnect, doRegister, doPark, hpc]
  · simp [doConnect, doRegister, doPark, hpc]
  · simp [doConnect, doRegister, doPark, hpc]

/-- **T5 (fence).** A connectSync that acquires the mutex after the fence returns ShuttingDown without calling the engine. -/
theorem T5_fence_rejects (s : State) (c : Nat) (hp : (s.callers c).pc = .start) (hl : s.lock = none)
    (hs : s.shuttingDown = true) :
    (step s (.cEnter c)).fifo = s.fifo ∧ (step s (.cEnter c)).nextSid = s.nextSid ∧
    Ev.attemptRet c none (.err .shuttingDown) ∈ (step s (.cEnter c)).log ∧ returned ((step s (.cEnter c)).callers c).pc := by
  have h1 : step s (.cEnter c) = ret s c none (.err .shuttingDown) := by
    simp [step, doEnter, hp, hl, hs]
  rw [h1]
  refine ⟨rfl, rfl, ?_, ret_returned _ _ _ _⟩
  simp [ret, mem_retEvs]

/-- **T6 (cancellable wrapper).** It returns `ok sid` only if its last sub-attempt returned `ok sid` (hence, by T1, never for a
sub-attempt it abandoned with `engine->close`); it returns Cancelled only if the token was cancelled; entered with a cancelled
token it returns Cancelled without touching the engine. -/
theorem T6_wrapper_ok (steps : List Step) (c sid : Nat) (h : Ev.wrapRet c (.ok sid) ∈ (run init steps).log) :
    Ev.attemptRet c (some sid) (.ok sid) ∈ (run init steps).log ∧ ∀ c', Ev.engineClose c' sid ∉ (run init steps).log := by
  have I := reachable_inv steps
  have h1 := I.T6a c sid h
  exact ⟨h1, (I.T1 c sid sid h1).2.2⟩

theorem T6_cancelled_only_if_cancelled (steps : List Step) (c : Nat)
    (h : Ev.wrapRet c (.err .cancelled) ∈ (run init steps).log) : ((run init steps).callers c).cancelled = true :=
  (reachable_inv steps).T6b c h

theorem T6_precancelled (s : State) (c : Nat) (hp : (s.callers c).pc = .idle ∨ (s.callers c).pc = .finished)
    (hc : (s.callers c).cancelled = true) :
    (step s (.call c true)).log = s.log ++ [.wrapRet c (.err .cancelled)] ∧ (step s (.call c true)).fifo = s.fifo := by
  rcases hp with hp | hp <;> simp [step, doCall, hp, hc]


end Iora.C04.Core

namespace Iora.C04
open Iora Iora.ConnectSync

set_option maxRecDepth 100000 in
/-- The model is INSTANTIATED from the skeleton regenerated from `transport_impl.hpp` (`Model/ConnectSync.lean`: `genCfg`, `stepC`):
`connectSync` holds `syncMutex` continuously from before the entry-fence check through `engine->connect`, the registration and
the ParkGuard into `wait_for`; after the wait there is exactly ONE unlock window, it contains only `engine->close`, and
`abandoned` is set before it; both handlers complete the waiter under the lock, notify it outside, and `onConnect` checks
`abandoned` before erasing; `wait_for` waits on that lock for exactly the caller's `timeout`, the cancellable wrapper polls in
100 ms sub-intervals against `deadline = now + timeout` with `min(remaining, subInterval)`; host, port and TLS mode reach
`engine->connect` unchanged, an engine error is returned as is, the id is the engine's and the timeout exit closes that id. -/
theorem skeleton_conforms : genCfg.Good := by
  unfold Cfg.Good genCfg
  exact ⟨by decide, by decide, by decide, by decide, by decide, by decide, by decide⟩

set_option maxRecDepth 100000 in
/-- **Engine contract, from the source.** The instance regenerated from `tcp_engine.hpp` / `udp_engine.hpp` holds: `close(sid)` of
both engines is exactly `return enqueue(close(sid))`, `connect()` only takes an id and enqueues, the Close arm of `process()`
closes the session it finds (only timer-originated closes are filtered). This is what `Cfg.engine` is computed from; every C04
theorem is stated under it (`Cfg.Good`). -/
theorem engine_contract_from_source :
    ConnectSyncFacts.genEngine =
      { closeEnqueues := true, connectEnqueues := true, processCloses := true, timersTagged := true } := by decide

/-- **Exact skeleton pins (review item C).** Head and tail of `connectSync`, the pending branches of both handlers and the
statement order of `connectSyncCancellable` are equal, event by event, to the lists in `Model/ConnectSyncFacts.lean`; `timeout` is
assigned only by the saturation clamp. -/
theorem skeleton_exact :
    ConnectSyncFacts.connectHeadExact = true ∧ ConnectSyncFacts.connectTailExact = true ∧
    ConnectSyncFacts.onConnectPendingExact = true ∧ ConnectSyncFacts.onClosePendingExact = true ∧
    ConnectSyncFacts.wrapperOrderExact = true ∧ ConnectSyncFacts.timeoutOnlyClamped = true ∧
    ConnectSyncFacts.noProtocolBypass = true := by decide

/-- FC03b: both connect functions saturate their timeout before it enters clock arithmetic (`wait_for`'s `now() + rel_time`, the
wrapper's `now() + timeout`), so `std::chrono::milliseconds::max()` — "no timeout" — cannot wrap the deadline into the past. -/
theorem timeouts_saturate : TsyncFacts.connectTimeoutsSaturate = true := by decide

/-- **T1.** (every `cfg.Good`, every schedule) A connectSync call returns `ok sid` only for the session its own `engine->connect`
created, only after the `onConnect` handler delivered that session's completion to it, and never for a session for which any
connectSync has issued `engine->close`. -/
theorem T1_ok_is_live (cfg : Cfg) (hg : cfg.Good) (steps : List Step) (c sid' sid : Nat)
    (h : Ev.attemptRet c (some sid') (.ok sid) ∈ (runC cfg init steps).log) :
    sid' = sid ∧ Ev.created c sid ∈ (runC cfg init steps).log ∧ Ev.hConnect sid ∈ (runC cfg init steps).log ∧
    Ev.delivered sid true ∈ (runC cfg init steps).log ∧ ∀ c', Ev.engineClose c' sid ∉ (runC cfg init steps).log := by
  rw [runC_good hg] at h ⊢; exact Core.T1_ok_is_live steps c sid' sid h

/-- **T2 (suppression, connect).** The global connect callback is never invoked for a session a connectSync created. -/
theorem T2_no_global_connect (cfg : Cfg) (hg : cfg.Good) (steps : List Step) (c sid : Nat)
    (h : Ev.globalConnect sid ∈ (runC cfg init steps).log) : Ev.created c sid ∉ (runC cfg init steps).log := by
  rw [runC_good hg] at h ⊢; exact Core.T2_no_global_connect steps c sid h

/-- **T2 (suppression, close)** — the property's clause as stated; the stricter ORDERED reading is refuted, see `T2_ordered_refuted`. If the global close callback is invoked for a session a
connectSync created, that session's completion had been delivered to the caller (its result is fixed as `ok sid`), and the call
that created it returns nothing but `ok sid`: the callback never fires for an id that is not handed to its caller. (True of the
repaired handlers, F16.) What is NOT true: that the id had ALREADY been returned when the callback fires. -/
theorem T2_global_close_only_for_handed_out (cfg : Cfg) (hg : cfg.Good) (steps : List Step) (c sid : Nat)
    (h : Ev.globalClose sid ∈ (runC cfg init steps).log) (hc : Ev.created c sid ∈ (runC cfg init steps).log) :
    Ev.delivered sid true ∈ (runC cfg init steps).log ∧
    ∀ r, Ev.attemptRet c (some sid) r ∈ (runC cfg init steps).log → r = .ok sid := by
  rw [runC_good hg] at h hc ⊢; exact Core.T2_global_close_only_for_handed_out steps c sid h hc

/-- The ORDERED reading of "the global close callback is never invoked for a session a synchronous connect did not hand to its
caller": whenever `globalClose sid` is logged for a connectSync-created session, `ret ok sid` is already in the log. -/
def T2_ordered_statement : Prop :=
  ∀ (steps : List Step) (pre post : List Ev) (c sid : Nat),
    (run init steps).log = pre ++ Ev.globalClose sid :: post → Ev.created c sid ∈ pre →
    Ev.attemptRet c (some sid) (.ok sid) ∈ pre

/-- the witness: the connect completes and the handler delivers it (the record is erased), the peer closes at once, the `onClose`
handler finds no record and fires the GLOBAL close callback — and only then does the caller wake up and return `ok 1` -/
def orderedWitness : List Step :=
  [.call 0 false, .cEnter 0, .cConnect 0, .cRegister 0, .cPark 0, .ioPop true, .ioComplete 1, .ioStep, .ioStep,
   .ioPeerClose 1, .ioStep, .ioStep, .cWake 0 false]

/-- **T2 (ordered) is REFUTED** (observation FC04a; C04 as stated allows returning a session the PEER has already closed and only forbids the callbacks for a session that is NOT handed out, which is `T2_global_close_only_for_handed_out`): the code — `onConnect` erases the pending record when it completes the waiter,
`onClose` consults only that record — lets the application see `onClose(sid)` for an id it has not yet been given (it is given
it immediately afterwards, for a session that is already dead). `T2_global_close_only_for_handed_out` is the partial statement. -/
theorem T2_ordered_refuted : ¬ T2_ordered_statement := by
  intro h
  have := h orderedWitness
    [.created 0 1, .registered 0 1, .hConnect 1, .delivered 1 true, .hClose 1] [.attemptRet 0 (some 1) (.ok 1)] 0 1
    (by decide) (by decide)
  revert this; decide

/-- **T3.** Every Timeout return of connectSync's OWN timeout exit is preceded by this call's `engine->close(sid)` (an
engine-reported connect timeout arrives as the handler-delivered close error, a different result of the model). -/
theorem T3_timeout_closes (cfg : Cfg) (hg : cfg.Good) (steps : List Step) (c sid : Nat)
    (h : Ev.attemptRet c (some sid) (.err .timeout) ∈ (runC cfg init steps).log) :
    Ev.engineClose c sid ∈ (runC cfg init steps).log := by
  rw [runC_good hg] at h ⊢; exact Core.T3_timeout_closes steps c sid h

/-- **T3 (FIFO).** Once the engine has drained its FIFO, a session for which `engine->close` was issued is closed. -/
theorem T3_nothing_left_open (cfg : Cfg) (hg : cfg.Good) (steps : List Step) (c sid : Nat)
    (h : Ev.engineClose c sid ∈ (runC cfg init steps).log) (hq : (runC cfg init steps).fifo = []) :
    (runC cfg init steps).eng sid = .closed := by
  rw [runC_good hg] at h hq ⊢; exact Core.T3_nothing_left_open steps c sid h hq

/-- **T3 (a call that does not hand the session out leaves nothing open).** For every connectSync attempt that is over and did
not return `ok sid` — timed out, failed, refused, woken by teardown, or abandoned by a cancelled / timed-out
`connectSyncCancellable` (whose sub-attempts all end this way): this call issued `engine->close(sid)` (hence, FIFO drained, the
session is closed), or the engine itself closed the session, or teardown has begun (engine stop closes everything). -/
theorem T3_non_ok_leaves_nothing_open (cfg : Cfg) (hg : cfg.Good) (steps : List Step) (c sid : Nat)
    (hc : Ev.created c sid ∈ (runC cfg init steps).log) (hover : att ((runC cfg init steps).callers c).pc ≠ some sid) :
    Ev.attemptRet c (some sid) (.ok sid) ∈ (runC cfg init steps).log ∨ Ev.engineClose c sid ∈ (runC cfg init steps).log ∨
    (runC cfg init steps).eng sid = .closed ∨ (runC cfg init steps).shuttingDown = true := by
  rw [runC_good hg] at hc hover ⊢
  have I := reachable_inv steps
  have I2 := reachable_inv2 steps
  obtain ⟨r, hr⟩ := I2.CL c sid hc hover
  cases r with
  | ok sid' =>
    have := (I.T1 c sid sid' hr).1
    subst this; exact Or.inl hr
  | err e =>
    cases e with
    | timeout => exact Or.inr (Or.inl (I.T3a c sid hr))
    | shuttingDown => exact Or.inr (Or.inr (Or.inr (I2.RS c _ hr)))
    | cancelled => exact absurd hr (I2.RCn c _)
    | closed => exact Or.inr (Or.inr (Or.inl (I.E3 sid ((I.D1 sid).2.1 (I2.RC2 c sid hr)))))
    | refused => have := I2.RF c _ hr; cases this

/-- **T3 (the clause as stated: a timed-out attempt leaves no open connection behind).** Under the engine contract, once the
engine has drained its FIFO the session of every connectSync attempt that returned its own Timeout is CLOSED in the engine. -/
theorem T3_timed_out_attempt_is_closed (cfg : Cfg) (hg : cfg.Good) (steps : List Step) (c sid : Nat)
    (h : Ev.attemptRet c (some sid) (.err .timeout) ∈ (runC cfg init steps).log) (hq : (runC cfg init steps).fifo = []) :
    (runC cfg init steps).eng sid = .closed :=
  T3_nothing_left_open cfg hg steps c sid (T3_timeout_closes cfg hg steps c sid h) hq

/-- the conforming configuration, spelled out (what `genCfg` evaluates to on a conforming tree: `skeleton_conforms`) -/
def genCfgTrue : Cfg :=
  { lockHeld := true, closeWindow := true, handlers := true, timing := true, args := true, engine := true, noBypass := true }

/-- a configuration that satisfies every fact EXCEPT the engine contract: `close()` may return without queueing (seed C04-d) -/
def cfgDroppingClose : Cfg :=
  { lockHeld := true, closeWindow := true, handlers := true, timing := true, args := true, engine := false, noBypass := true }

/-- the schedule of seed C04-d: the caller times out and calls `engine->close` BEFORE the I/O thread has executed the queued
Connect; afterwards the Connect is executed and the handshake completes -/
def droppedCloseWitness : List Step :=
  [.call 0 false, .cEnter 0, .cConnect 0, .cRegister 0, .cPark 0, .cWake 0 true, .cClose 0, .cRelock 0,
   .ioPop true, .ioComplete 1, .ioStep]

/-- **The engine contract is NECESSARY.** With an engine whose `close(sid)` drops the command for an id that is not yet in its
session table, `T3_timed_out_attempt_is_closed` is false: the call returns Timeout, the FIFO drains, and the session is
ESTABLISHED with nobody owning it (and its abandoned `pendingConnects` record is never erased). -/
theorem dropped_close_refutes_T3 :
    let s := runC cfgDroppingClose init droppedCloseWitness
    Ev.attemptRet 0 (some 1) (.err .timeout) ∈ s.log ∧ Ev.engineClose 0 1 ∈ s.log ∧ s.fifo = [] ∧ s.io = .idle ∧
    s.eng 1 = .established ∧ (s.pend 1).isSome = true := by decide

/-- **T1, second half (ok ⇒ a live session the transport does not close by itself).** Every reachable state, every step: a session
that is ESTABLISHED in the engine stays established unless the step is the PEER closing it or the I/O thread popping a Close
command for it (only `engine->close` of a connectSync timeout exit enqueues one — and by `T1_ok_is_live` none exists for a
returned session). In particular the engine's own connect-timeout timer (`timerClose sid`: tagged ConnectTimeout, hence ignored by
`process()` once the connect completed) cannot close a session `connectSync` has returned. Needs `Cfg.engine` (`timersTagged`). -/
theorem T1_established_closed_only_by_peer_or_close_cmd (cfg : Cfg) (hg : cfg.Good) (s : State) (st : Step) (sid : Nat)
    (he : s.eng sid = .established) :
    (stepC cfg s st).eng sid = .established ∨ st = .ioPeerClose sid ∨
    (∃ b, st = .ioPop b ∧ s.fifo.head? = some (.close sid)) := by
  rw [stepC_good hg]
  cases st with
  | ioPop b =>
    simp only [step, doPop]
    split
    · rename_i sid' rest hio hf
      by_cases hs : sid' = sid
      · subst hs; simp [he]
      · split
        · split <;> simp [setE, Ne.symm hs, he]
        · simp [he]
    · rename_i sid' rest hio hf
      by_cases hs : sid' = sid
      · subst hs; exact Or.inr (Or.inr ⟨b, rfl, by simp [hf]⟩)
      · split <;> simp [setE, Ne.symm hs, he]
    · exact Or.inl he
  | ioComplete sid' =>
    simp only [step, doComplete]
    split
    · rename_i hio hc
      by_cases hs : sid' = sid
      · subst hs; rw [he] at hc; cases hc
      · simp [setE, Ne.symm hs, he]
    · exact Or.inl he
  | ioFail sid' =>
    simp only [step, doFail]
    split
    · rename_i hio hc
      by_cases hs : sid' = sid
      · subst hs; rw [he] at hc; cases hc
      · simp [setE, Ne.symm hs, he]
    · exact Or.inl he
  | timerClose sid' =>
    simp only [step, doFail]
    split
    · rename_i hio hc
      by_cases hs : sid' = sid
      · subst hs; rw [he] at hc; cases hc
      · simp [setE, Ne.symm hs, he]
    · exact Or.inl he
  | ioPeerClose sid' =>
    by_cases hs : sid' = sid
    · subst hs; exact Or.inr (Or.inl rfl)
    · simp only [step, doPeerClose]
      split
      · simp [setE, Ne.symm hs, he]
      · exact Or.inl he
  | ioStep =>
    simp only [step, doIoStep]
    split
    · unfold connHandler; split
      · split <;> exact Or.inl he
      · exact Or.inl he
    · unfold closeHandler; split
      · split <;> exact Or.inl he
      · exact Or.inl he
    · rename_i c' sid' _
      refine Or.inl ?_
      show (notify s c' sid').eng sid = .established
      unfold notify; split <;> (try split) <;> exact he
    · rename_i c' sid' _
      refine Or.inl ?_
      show (notify s c' sid').eng sid = .established
      unfold notify; split <;> (try split) <;> exact he
    · exact Or.inl he
    · exact Or.inl he
    · exact Or.inl he
  | call c w => simp only [step, doCall]; split <;> (try split) <;> exact Or.inl he
  | cancel c => exact Or.inl he
  | cEnter c => simp only [step, doEnter]; split <;> (try split) <;> exact Or.inl he
  | cConnect c => simp only [step, doConnect]; split <;> exact Or.inl he
  | cRefuse c => simp only [step, doRefuse]; split <;> exact Or.inl he
  | cRegister c => simp only [step, doRegister]; split <;> exact Or.inl he
  | cPark c => simp only [step, doPark]; split <;> exact Or.inl he
  | cWake c t =>
    simp only [step, doWake]; split
    · split
      · unfold afterWait; dsimp only; split
        · exact Or.inl he
        · split <;> exact Or.inl he
      · exact Or.inl he
    · exact Or.inl he
  | cClose c => simp only [step, doClose]; split <;> exact Or.inl he
  | cRelock c => simp only [step, doRelock]; split <;> exact Or.inl he
  | wLoop c d => simp only [step, doWLoop]; split <;> (try split) <;> (try split) <;> exact Or.inl he
  | fence => simp only [step, doFence]; split <;> exact Or.inl he

/-- the schedule of seed C04-e: the connect completes, `connectSync` returns `ok 1` — and then the I/O thread processes the Close
the engine's connect-timeout timer had enqueued while it was busy -/
def staleTimerWitness : List Step :=
  [.call 0 false, .cEnter 0, .cConnect 0, .cRegister 0, .cPark 0, .ioPop true, .ioComplete 1, .ioStep, .ioStep, .cWake 0 false,
   .timerClose 1, .ioStep, .ioStep]

/-- **The origin tag of the timer handlers is NECESSARY.** With an untagged timer close (`Cfg.engine` false, seed C04-e) the call
returns `ok 1`, nobody — neither the peer nor the application nor connectSync — closes session 1, and yet the transport closes it
by itself and reports it through the GLOBAL close callback. Under the contract the same schedule leaves it established. -/
theorem untagged_timer_close_refutes_T1 :
    (let s := runC cfgDroppingClose init staleTimerWitness
     Ev.attemptRet 0 (some 1) (.ok 1) ∈ s.log ∧ s.eng 1 = .closed ∧ Ev.globalClose 1 ∈ s.log ∧
     s.log.filter (fun e => match e with | .engineClose _ _ => true | _ => false) = []) ∧
    (let s := runC genCfgTrue init staleTimerWitness
     Ev.attemptRet 0 (some 1) (.ok 1) ∈ s.log ∧ s.eng 1 = .established ∧ Ev.globalClose 1 ∉ s.log) := by decide

/-- a configuration that satisfies every fact EXCEPT `noBypass`: the tree before repair FC04b on a UDP transport -/
def cfgBypass : Cfg :=
  { lockHeld := true, closeWindow := true, handlers := true, timing := true, args := true, engine := true, noBypass := false }

/-- C04's first and third clause, as one statement about a configuration: `ok sid` is returned only after the `onConnect`
handler ran for `sid`, and the global connect callback never fires for a connectSync-created session -/
def C04_udp_statement (cfg : Cfg) : Prop :=
  ∀ (steps : List Step) (c sid : Nat),
    (Ev.attemptRet c (some sid) (.ok sid) ∈ (runC cfg init steps).log → Ev.hConnect sid ∈ (runC cfg init steps).log) ∧
    (Ev.globalConnect sid ∈ (runC cfg init steps).log → Ev.created c sid ∉ (runC cfg init steps).log) ∧
    (Ev.globalClose sid ∈ (runC cfg init steps).log → Ev.created c sid ∈ (runC cfg init steps).log →
      Ev.delivered sid true ∈ (runC cfg init steps).log)

/-- **FC04b — the unrepaired UDP bypass violates C04** (three witnesses: `ok 1` before anything happened; then the connect
completes and the GLOBAL connect callback fires for the connectSync-created id; or the host does not resolve and the GLOBAL close
callback reports it for a session that never existed). -/
theorem C04_udp_refuted : ¬ C04_udp_statement cfgBypass := by
  intro h
  have h1 := (h [.call 0 false, .cEnter 0] 0 1).1
  revert h1; decide

theorem C04_udp_refuted_global_connect :
    let s := runC cfgBypass init [.call 0 false, .cEnter 0, .ioPop true, .ioComplete 1, .ioStep, .ioStep]
    Ev.attemptRet 0 (some 1) (.ok 1) ∈ s.log ∧ Ev.created 0 1 ∈ s.log ∧ Ev.globalConnect 1 ∈ s.log := by decide

theorem C04_udp_refuted_unresolved :
    let s := runC cfgBypass init [.call 0 false, .cEnter 0, .ioPop false, .ioStep, .ioStep]
    Ev.attemptRet 0 (some 1) (.ok 1) ∈ s.log ∧ Ev.globalClose 1 ∈ s.log ∧ Ev.hConnect 1 ∉ s.log ∧ s.eng 1 = .closed := by decide

/-- **FC04b repaired: the statement holds of every `Good` configuration** (in particular of `genCfg`, whatever the protocol). -/
theorem C04_udp_holds_when_repaired (cfg : Cfg) (hg : cfg.Good) : C04_udp_statement cfg := by
  intro steps c sid
  refine ⟨fun h => (T1_ok_is_live cfg hg steps c sid sid h).2.2.1, fun h => T2_no_global_connect cfg hg steps c sid h,
    fun h hc => (T2_global_close_only_for_handed_out cfg hg steps c sid h hc).1⟩

/-- **T4 (register before completion).** -/
theorem T4_register_before_completion (cfg : Cfg) (hg : cfg.Good) (steps : List Step) (c sid : Nat)
    (h : Ev.hConnect sid ∈ (runC cfg init steps).log) (hc : Ev.created c sid ∈ (runC cfg init steps).log) :
    Ev.registered c sid ∈ (runC cfg init steps).log := by
  rw [runC_good hg] at h hc ⊢; exact Core.T4_register_before_completion steps c sid h hc

/-- **T5 (no stranded caller, safety half).** -/
theorem T5_no_lost_wakeup (cfg : Cfg) (hg : cfg.Good) (steps : List Step) (c sid : Nat)
    (hp : ((runC cfg init steps).callers c).pc = .parked sid false)
    (hpred : ((runC cfg init steps).callers c).done ≠ none ∨ (runC cfg init steps).shuttingDown = true) :
    (runC cfg init steps).io = .connNotify c sid ∨ (runC cfg init steps).io = .closeNotify c sid := by
  rw [runC_good hg] at hp hpred ⊢; exact Core.T5_no_lost_wakeup steps c sid hp hpred

/-- **T5 / "in time" — PARTIAL.** Proved: from ANY state in which `syncMutex` is free, a parked caller that takes its timeout
returns within three of its own steps; a caller holding the mutex releases it within three of its own steps. Tied, not proved:
that the wait lasts the caller's `timeout` (skeleton fact `connectTimingArgs` on the `wait_for` argument and the wrapper's
sub-interval arithmetic; DetSched virtual-time monitor; real-time monitor on the sequential op). Wall-clock slack: not proved. -/
theorem T5_step_bound (cfg : Cfg) (hg : cfg.Good) (s : State) (c sid : Nat) (a : Bool) (hp : (s.callers c).pc = .parked sid a)
    (hl : s.lock = none) : Core.returned ((runC cfg s [.cWake c true, .cClose c, .cRelock c]).callers c).pc := by
  rw [runC_good hg]; exact Core.T5_step_bound s c sid a hp hl

theorem T5_lock_released (cfg : Cfg) (hg : cfg.Good) (steps : List Step) (c : Nat) (hl : (runC cfg init steps).lock = some c) :
    (runC cfg (runC cfg init steps) [.cConnect c, .cRegister c, .cPark c]).lock = none := by
  rw [runC_good hg, runC_good hg] at *; exact Core.T5_lock_released steps c hl

/-- **T5 (fence).** -/
theorem T5_fence_rejects (cfg : Cfg) (hg : cfg.Good) (s : State) (c : Nat) (hp : (s.callers c).pc = .start) (hl : s.lock = none)
    (hs : s.shuttingDown = true) :
    (stepC cfg s (.cEnter c)).fifo = s.fifo ∧ (stepC cfg s (.cEnter c)).nextSid = s.nextSid ∧
    Ev.attemptRet c none (.err .shuttingDown) ∈ (stepC cfg s (.cEnter c)).log ∧
    Core.returned ((stepC cfg s (.cEnter c)).callers c).pc := by
  rw [stepC_good hg]; exact Core.T5_fence_rejects s c hp hl hs

/-- **M3 (the `engine->connect` error branch).** When the engine refuses (e.g. `TcpEngine::connect` on a closed queue after a plain
`stop()`), the call returns that error at once: the mutex is released, nothing is registered or counted, nothing was enqueued
and no session id exists for this attempt. -/
theorem T_connect_refused (cfg : Cfg) (hg : cfg.Good) (s : State) (c : Nat) (hp : (s.callers c).pc = .haveLock) :
    let s' := stepC cfg s (.cRefuse c)
    s'.lock = none ∧ s'.pend = s.pend ∧ s'.activeConnects = s.activeConnects ∧ s'.fifo = s.fifo ∧ s'.nextSid = s.nextSid ∧
    Ev.attemptRet c none (.err .refused) ∈ s'.log ∧ Core.returned (s'.callers c).pc := by
  rw [stepC_good hg]
  simp only [step, doRefuse, hp, ret, setC_same]
  refine ⟨trivial, trivial, trivial, trivial, trivial, ?_, retPc_cases _ _⟩
  simp [mem_retEvs]

/-- **H2 (the requested TLS mode).** Argument layer, every schedule: the session an attempt is working on — in particular the one a
call returns `ok sid` for — was created by an `engine->connect` carrying the TLS mode THIS call requested. -/
theorem T_tls_mode_as_requested (cfg : Cfg) (hg : cfg.Good) (steps : List (Step × Nat)) (c sid : Nat) (a : Bool)
    (hp : ((xrun cfg xinit steps).core.callers c).pc = .parked sid a) :
    (xrun cfg xinit steps).sessTls sid = (xrun cfg xinit steps).reqTls c :=
  (xrun_inv hg steps xinit Inv_init InvX_init).2 c sid (by simp [hp, att])

/-- **H2 for the session a call RETURNS.** Argument layer, every schedule: at the step that logs `ret ok sid` for caller `c`, the
session `sid` was created by an `engine->connect` carrying the TLS mode this call requested (uses `Cfg.args`: host, port and TLS
mode reach `engine->connect` unchanged). -/
theorem T_tls_mode_of_returned_session (cfg : Cfg) (hg : cfg.Good) (steps : List (Step × Nat)) (st : Step) (n c sid : Nat)
    (hnew : Ev.attemptRet c (some sid) (.ok sid) ∈ (xstep cfg (xrun cfg xinit steps) st n).core.log)
    (hold : Ev.attemptRet c (some sid) (.ok sid) ∉ (xrun cfg xinit steps).core.log) :
    (xrun cfg xinit steps).sessTls sid = (xrun cfg xinit steps).reqTls c := by
  have I := xrun_inv hg steps xinit Inv_init InvX_init
  rw [xstep_core, stepC_good hg] at hnew
  rcases aret_origin _ _ _ _ _ hnew with h | h
  · exact absurd h hold
  · exact I.2 c sid h

/-- **Definite error (L8).** Every schedule: a connectSync attempt returns the engine-reported error class only after the engine's
`onClose` handler ran for THIS attempt's session and completed its waiter; the engine has closed that session; and the reason
class recorded for it — the one the driver prints as the call's error (Connect, Resolve, Timeout, TLSHandshake, …) — can no
longer change. `T_reason_is_written_by_the_closing_step` says where it came from. -/
theorem T_error_is_the_reported_one (cfg : Cfg) (hg : cfg.Good) (steps : List (Step × Nat)) (c sid : Nat)
    (h : Ev.attemptRet c (some sid) (.err .closed) ∈ (xrun cfg xinit steps).core.log) :
    Ev.hClose sid ∈ (xrun cfg xinit steps).core.log ∧ Ev.delivered sid false ∈ (xrun cfg xinit steps).core.log ∧
    (xrun cfg xinit steps).core.eng sid = .closed ∧
    ∀ st n, (xstep cfg (xrun cfg xinit steps) st n).reason sid = (xrun cfg xinit steps).reason sid := by
  have hcore : (xrun cfg xinit steps).core = run init (steps.map (·.1)) := by
    rw [xrun_core, runC_good hg]; rfl
  rw [hcore] at h ⊢
  have I := reachable_inv (steps.map (·.1))
  have I2 := reachable_inv2 (steps.map (·.1))
  have hd := I2.RC2 c sid h
  have hh := (I.D1 sid).2.1 hd
  have he := I.E3 sid hh
  refine ⟨hh, hd, he, fun st n => reason_frozen cfg _ st n sid (by rw [hcore]; exact he)⟩

/-- the reason class of a session is the number carried by the step that BEGINS its close handler (a failing Connect, a Close
command found in the table, a failing or peer-closed connection) — and such a step exists only for a session the engine has not
closed yet, so the reason is written exactly once -/
theorem T_reason_is_written_by_the_closing_step (cfg : Cfg) (x : XState) (st : Step) (n sid : Nat)
    (h : closeBegins x.core st = some sid) : (xstep cfg x st n).reason sid = n ∧ x.core.eng sid ≠ .closed :=
  ⟨reason_written cfg x st n sid h, closeBegins_not_closed _ _ _ h⟩

/-- **T6 (cancellable wrapper).** -/
theorem T6_wrapper_ok (cfg : Cfg) (hg : cfg.Good) (steps : List Step) (c sid : Nat)
    (h : Ev.wrapRet c (.ok sid) ∈ (runC cfg init steps).log) :
    Ev.attemptRet c (some sid) (.ok sid) ∈ (runC cfg init steps).log ∧ ∀ c', Ev.engineClose c' sid ∉ (runC cfg init steps).log := by
  rw [runC_good hg] at h ⊢; exact Core.T6_wrapper_ok steps c sid h

theorem T6_cancelled_only_if_cancelled (cfg : Cfg) (hg : cfg.Good) (steps : List Step) (c : Nat)
    (h : Ev.wrapRet c (.err .cancelled) ∈ (runC cfg init steps).log) : ((runC cfg init steps).callers c).cancelled = true := by
  rw [runC_good hg] at h ⊢; exact Core.T6_cancelled_only_if_cancelled steps c h

/-- **T6 (Cancelled is decided by the wrapper's own token checks, never in place of a sub-attempt's result).** Every schedule: the
step that logs `wrapRet c Cancelled` is the pre-cancel check of `call c true` or the loop check `wLoop c false` taken from the
wrapper's loop head — so the sub-attempt before it had returned its own Timeout (`T3_timeout_closes`: its session was closed by
`engine->close`). A sub-attempt that returns `ok sid` is always handed on as `ok sid` (seed C04-b broke exactly this). -/
theorem T6_cancelled_only_at_token_checks (cfg : Cfg) (hg : cfg.Good) (steps : List Step) (st : Step) (c : Nat)
    (hnew : Ev.wrapRet c (.err .cancelled) ∈ (stepC cfg (runC cfg init steps) st).log)
    (hold : Ev.wrapRet c (.err .cancelled) ∉ (runC cfg init steps).log) :
    (st = .wLoop c false ∧ ((runC cfg init steps).callers c).pc = .wloop) ∨
    (st = .call c true ∧ (((runC cfg init steps).callers c).pc = .idle ∨ ((runC cfg init steps).callers c).pc = .finished)) := by
  rw [stepC_good hg, runC_good hg] at hnew
  rw [runC_good hg] at hold ⊢
  rcases wrapCancelled_origin (reachable_inv steps) st c hnew with h | h | h
  · exact absurd h hold
  · exact Or.inl h
  · exact Or.inr h

/-- a configuration that satisfies every fact EXCEPT the wrapper's statement order (`Cfg.timing`): token before result (seed C04-b) -/
def cfgTokenFirst : Cfg :=
  { lockHeld := true, closeWindow := true, handlers := true, timing := false, args := true, engine := true, noBypass := true }

/-- **The wrapper's statement order is NECESSARY** ("a cancelled attempt leaves no open connection behind"): with the token looked at
before the sub-attempt's result, a wrapper cancelled while its sub-attempt completes returns Cancelled although that sub-attempt
returned `ok 1` — nobody issued `engine->close(1)`, the FIFO is empty and session 1 stays ESTABLISHED, owned by no one. -/
theorem token_first_refutes_cancel_clause :
    let s := runC cfgTokenFirst init [.call 0 true, .cEnter 0, .cConnect 0, .cRegister 0, .cPark 0, .cancel 0, .ioPop true,
      .ioComplete 1, .ioStep, .ioStep, .cWake 0 false]
    Ev.wrapRet 0 (.err .cancelled) ∈ s.log ∧ Ev.wrapRet 0 (.ok 1) ∉ s.log ∧
    s.log.filter (fun e => match e with | .engineClose _ _ => true | _ => false) = [] ∧ s.fifo = [] ∧
    s.io = .idle ∧ s.eng 1 = .established := by decide

theorem T6_precancelled (cfg : Cfg) (hg : cfg.Good) (s : State) (c : Nat)
    (hp : (s.callers c).pc = .idle ∨ (s.callers c).pc = .finished) (hc : (s.callers c).cancelled = true) :
    (stepC cfg s (.call c true)).log = s.log ++ [.wrapRet c (.err .cancelled)] ∧ (stepC cfg s (.call c true)).fifo = s.fifo := by
  rw [stepC_good hg]; exact Core.T6_precancelled s c hp hc

/-! ### non-vacuity: concrete runs satisfying the hypotheses -/
/-- a successful call: `ret ok 1` is in the log (T1, T4, T6 hypotheses) -/
example : Ev.attemptRet 0 (some 1) (.ok 1) ∈
    (run init [.call 0 false, .cEnter 0, .cConnect 0, .cRegister 0, .cPark 0, .ioPop true, .ioComplete 1, .ioStep, .ioStep, .cWake 0 false]).log := by
  decide
/-- parked with its completion delivered and the notify still pending (T5_no_lost_wakeup hypotheses) -/
example : let s := run init [.call 0 false, .cEnter 0, .cConnect 0, .cRegister 0, .cPark 0, .ioPop true, .ioComplete 1, .ioStep]
    (s.callers 0).pc = .parked 1 false ∧ (s.callers 0).done = some (.ok 1) ∧ s.io = .connNotify 0 1 := by decide
/-- a timeout run: `engine->close` issued, FIFO drained, session closed, nothing global (T3 hypotheses) -/
example : let s := run init [.call 0 false, .cEnter 0, .cConnect 0, .cRegister 0, .cPark 0, .cWake 0 true, .cClose 0, .cRelock 0,
      .ioPop true, .ioPop true, .ioStep, .ioStep]
    Ev.attemptRet 0 (some 1) (.err .timeout) ∈ s.log ∧ Ev.engineClose 0 1 ∈ s.log ∧ s.fifo = [] ∧ s.eng 1 = .closed ∧
    Ev.globalClose 1 ∉ s.log := by decide
/-- the F16 history on the repaired model: timeout, the connect completes in the unlock window, the Close is processed — the
abandoned record survives the late `onConnect`, `onClose` reaps it, no global callback fires -/
example : let s := run init [.call 0 false, .cEnter 0, .cConnect 0, .cRegister 0, .cPark 0, .cWake 0 true, .ioPop true,
      .ioComplete 1, .ioStep, .cClose 0, .cRelock 0, .ioPop true, .ioStep, .ioStep]
    Ev.attemptRet 0 (some 1) (.err .timeout) ∈ s.log ∧ Ev.reaped 1 ∈ s.log ∧ Ev.globalClose 1 ∉ s.log ∧
    Ev.globalConnect 1 ∉ s.log := by decide
/-- a global close of a handed-out session (T2 hypotheses): the caller returned `ok 1`, later the peer closes -/
example : let s := run init [.call 0 false, .cEnter 0, .cConnect 0, .cRegister 0, .cPark 0, .ioPop true, .ioComplete 1, .ioStep,
      .ioStep, .cWake 0 false, .ioPeerClose 1, .ioStep, .ioStep]
    Ev.globalClose 1 ∈ s.log ∧ Ev.created 0 1 ∈ s.log ∧ Ev.attemptRet 0 (some 1) (.ok 1) ∈ s.log := by decide
/-- a refused connect and a fence rejection -/
example : (run init [.call 0 false, .cEnter 0, .cRefuse 0]).log = [.attemptRet 0 none (.err .refused)] ∧
    (run init [.call 0 false, .cEnter 0, .cRefuse 0]).lock = none := by decide
example : (run init [.fence, .call 0 false, .cEnter 0]).log = [.fenceSet, .attemptRet 0 none (.err .shuttingDown)] := by decide
/-- the cancellable wrapper: one sub-attempt times out, the token is cancelled, the loop check returns Cancelled; the abandoned
sub-attempt's `engine->close` is in the log (T3_non_ok_leaves_nothing_open, T6 hypotheses) -/
example : let s := run init [.call 0 true, .cEnter 0, .cConnect 0, .cRegister 0, .cPark 0, .cWake 0 true, .cClose 0, .cRelock 0,
      .cancel 0, .wLoop 0 false]
    Ev.wrapRet 0 (.err .cancelled) ∈ s.log ∧ Ev.engineClose 0 1 ∈ s.log ∧ (s.callers 0).cancelled = true := by decide
/-- the engine-reported error: the connect is refused (reason 1) while the caller is parked; it returns `err closed` and the recorded
reason is 1 (T_error_is_the_reported_one, T_reason_is_written_by_the_closing_step hypotheses) -/
example : let x := xrun genCfg xinit [(.call 0 false, 0), (.cEnter 0, 0), (.cConnect 0, 0), (.cRegister 0, 0), (.cPark 0, 0),
      (.ioPop true, 5), (.ioFail 1, 1), (.ioStep, 0), (.ioStep, 0), (.cWake 0 false, 0)]
    Ev.attemptRet 0 (some 1) (.err .closed) ∈ x.core.log ∧ x.reason 1 = 1 ∧ x.core.eng 1 = .closed := by decide
example : closeBegins (xrun genCfg xinit [(.call 0 false, 0), (.cEnter 0, 0), (.cConnect 0, 0), (.cRegister 0, 0), (.cPark 0, 0),
      (.ioPop true, 5)]).core (.ioFail 1) = some 1 := by decide
/-- a call requesting TLS mode 2 returns ok for a session created with mode 2 (T_tls_mode_of_returned_session hypotheses) -/
example : let pre : List (Step × Nat) := [(.call 0 false, 2), (.cEnter 0, 0), (.cConnect 0, 0), (.cRegister 0, 0), (.cPark 0, 0),
      (.ioPop true, 5), (.ioComplete 1, 0), (.ioStep, 0), (.ioStep, 0)]
    Ev.attemptRet 0 (some 1) (.ok 1) ∈ (xstep genCfg (xrun genCfg xinit pre) (.cWake 0 false) 0).core.log ∧
    Ev.attemptRet 0 (some 1) (.ok 1) ∉ (xrun genCfg xinit pre).core.log ∧ (xrun genCfg xinit pre).sessTls 1 = 2 := by decide
/-- the argument layer: a call requesting TLS mode 1 -/
example : let x := xrun genCfg xinit [(.call 0 false, 1), (.cEnter 0, 0), (.cConnect 0, 0), (.cRegister 0, 0), (.cPark 0, 0)]
    (x.core.callers 0).pc = .parked 1 false ∧ x.sessTls 1 = 1 ∧ x.reqTls 0 = 1 := by decide

end Iora.C04
