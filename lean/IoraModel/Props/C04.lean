import IoraModel.Lemmas.ConnectSync
import IoraModel.Model.TsyncFacts
/-!
# C04 — Synchronous connect yields a live session or a definite error in time

Property theorems only; the model is `Model/ConnectSync.lean` (REPAIRED code: fix F16).  Every theorem quantifies over ALL
step sequences `steps : List Step` from the initial state — every interleaving of any number of application threads inside
`connectSync` / `connectSyncCancellable` (at the granularity of `syncMutex` sections, with the mutex explicit), the I/O thread
processing the engine FIFO and running the `onConnect` / `onClose` handlers, handshakes that complete, fail, never complete or
complete late, peers that close, timeouts and spurious wake-ups as scheduler choices, token cancellation and the teardown fence.
Statements are about the event log the steps append to; a statement about "earlier" events holds because it holds of every
prefix of every run (the log only grows).
-/
namespace Iora.C04
open Iora Iora.ConnectSync

/-- The lock/notify skeleton regenerated from `transport_impl.hpp` has the shape the model assumes: `connectSync` holds
`syncMutex` continuously from before the entry-fence check through `engine->connect`, the registration and the ParkGuard into
`wait_for`; after the wait there is exactly ONE unlock window, it contains only `engine->close`, and `abandoned` is set before
it; both handlers complete the waiter under the lock, notify it outside, and `onConnect` checks `abandoned` before erasing. -/
theorem skeleton_conforms :
    TsyncFacts.connectLockHeld = true ∧ TsyncFacts.connectCloseWindow = true ∧ TsyncFacts.handlersCompleteUnderLock = true := by
  decide

/-- **T1.** A connectSync call returns `ok sid` only for the session its own `engine->connect` created, only after the
`onConnect` handler delivered that session's completion to it, and never for a session for which any connectSync has issued
`engine->close` — neither before nor after (the statement holds of every extension of the run). -/
theorem T1_ok_is_live (steps : List Step) (c sid' sid : Nat)
    (h : Ev.attemptRet c (some sid') (.ok sid) ∈ (run init steps).log) :
    sid' = sid ∧ Ev.created c sid ∈ (run init steps).log ∧ Ev.hConnect sid ∈ (run init steps).log ∧
    Ev.delivered sid true ∈ (run init steps).log ∧ ∀ c', Ev.engineClose c' sid ∉ (run init steps).log := by
  have I := reachable_inv steps
  obtain ⟨h1, h2, h3⟩ := I.T1 c sid' sid h
  subst h1
  exact ⟨rfl, (I.R1 c _ _ h).1, (I.D1 _).1 h2, h2, h3⟩

/-- **T2 (suppression, connect).** The global connect callback is never invoked for a session a connectSync created. -/
theorem T2_no_global_connect (steps : List Step) (c sid : Nat)
    (h : Ev.globalConnect sid ∈ (run init steps).log) : Ev.created c sid ∉ (run init steps).log :=
  (reachable_inv steps).G1 sid (Or.inr h) c

/-- **T2 (suppression, close).** If the global close callback is invoked for a session a connectSync created, that session's
completion had been delivered to the caller (its result is fixed as `ok sid`), and the call that created it never returns
anything but `ok sid`: the callback never fires for an id that was not handed to its caller. (True of the repaired handlers:
the unrepaired `onConnect` erased an abandoned record, F16.) -/
theorem T2_global_close_only_for_handed_out (steps : List Step) (c sid : Nat)
    (h : Ev.globalClose sid ∈ (run init steps).log) (hc : Ev.created c sid ∈ (run init steps).log) :
    Ev.delivered sid true ∈ (run init steps).log ∧
    ∀ r, Ev.attemptRet c (some sid) r ∈ (run init steps).log → r = .ok sid := by
  have I := reachable_inv steps
  have hd := I.G2 sid (Or.inr h) c hc
  exact ⟨hd, fun r hr => I.FIX c sid r hr hd⟩

/-- **T3.** Every Timeout return is preceded by this call's `engine->close(sid)`; and once the engine has drained its FIFO,
a session for which `engine->close` was issued is closed — Connect is processed before Close, nothing is left open. -/
theorem T3_timeout_closes (steps : List Step) (c sid : Nat)
    (h : Ev.attemptRet c (some sid) (.err .timeout) ∈ (run init steps).log) :
    Ev.engineClose c sid ∈ (run init steps).log :=
  (reachable_inv steps).T3a c sid h

theorem T3_nothing_left_open (steps : List Step) (c sid : Nat)
    (h : Ev.engineClose c sid ∈ (run init steps).log) (hq : (run init steps).fifo = []) :
    (run init steps).eng sid = .closed := by
  rcases (reachable_inv steps).Q1 c sid h with h1 | h1
  · rw [hq] at h1; cases h1
  · exact h1

/-- **T4 (register before completion).** In no schedule does the `onConnect` handler of a connectSync-created session run its
critical section before the session is registered in `pendingConnects` (the caller holds `syncMutex` from `engine->connect`
until it waits). -/
theorem T4_register_before_completion (steps : List Step) (c sid : Nat)
    (h : Ev.hConnect sid ∈ (run init steps).log) (hc : Ev.created c sid ∈ (run init steps).log) :
    Ev.registered c sid ∈ (run init steps).log :=
  (reachable_inv steps).T4 c sid h hc

/-- **T5 (no stranded caller, safety half).** In every reachable state a caller asleep in `wait_for` whose predicate holds
(its completion was delivered, or teardown set the fence) has a notify on its way: the I/O thread is between the handler's
critical section and its `notify_one` for exactly this waiter. (The fence itself notifies under the lock.) -/
theorem T5_no_lost_wakeup (steps : List Step) (c sid : Nat)
    (hp : ((run init steps).callers c).pc = .parked sid false)
    (hpred : ((run init steps).callers c).done ≠ none ∨ (run init steps).shuttingDown = true) :
    (run init steps).io = .connNotify c sid ∨ (run init steps).io = .closeNotify c sid :=
  (reachable_inv steps).W c sid hp hpred

/-- a connectSync call has returned to its caller (plain call finished, or back in the cancellable wrapper's loop) -/
def returned (p : Pc) : Prop := p = .finished ∨ p = .wloop

/-- **T5 / "in time" (step bound; wall-clock slack is NOT proved — partial).** From ANY state in which `syncMutex` is free, a
parked caller that takes its timeout returns within three of its own steps (wake, `engine->close`, relock), whatever happened
before; and a caller that holds the mutex releases it within three of its own steps. -/
theorem T5_step_bound (s : State) (c sid : Nat) (a : Bool) (hp : (s.callers c).pc = .parked sid a) (hl : s.lock = none) :
    returned ((run s [.cWake c true, .cClose c, .cRelock c]).callers c).pc := by
  simp only [run, step]
  have h1 : doWake s c true = afterWait s c sid := by
    unfold doWake; simp [hp, hl]
  rw [h1]
  unfold afterWait
  dsimp only
  split
  · have := ret_returned { s with activeConnects := s.activeConnects - 1 } c (some sid) ‹_›
    rw [doClose_of_returned _ _ this, doRelock_of_returned _ _ this]; exact this
  · split
    · generalize hs' : ret _ c (some sid) (.err .shuttingDown) = s'
      have : returned (s'.callers c).pc := by rw [← hs']; exact ret_returned _ _ _ _
      rw [doClose_of_returned _ _ this, doRelock_of_returned _ _ this]; exact this
    · simp only [doClose, setC_same, doRelock, hl]
      exact ret_returned _ _ _ _

theorem T5_lock_released (steps : List Step) (c : Nat) (hl : (run init steps).lock = some c) :
    (run (run init steps) [.cConnect c, .cRegister c, .cPark c]).lock = none := by
  have hK := ((reachable_inv steps).K c).2 hl
  generalize run init steps = s at hK hl ⊢
  simp only [run, step]
  cases hpc : (s.callers c).pc <;> simp [hpc, holds] at hK
  · simp [doConnect, doRegister, doPark, hpc]
  · simp [doConnect, doRegister, doPark, hpc]
  · simp [doConnect, doRegister, doPark, hpc]

/-- **T5 (fence).** A connectSync that acquires the mutex after the fence returns ShuttingDown without calling the engine. -/
theorem T5_fence_rejects (s : State) (c : Nat) (hp : (s.callers c).pc = .start) (hl : s.lock = none)
    (hs : s.shuttingDown = true) :
    (step s (.cEnter c)).fifo = s.fifo ∧ (step s (.cEnter c)).nextSid = s.nextSid ∧
    Ev.attemptRet c none (.err .shuttingDown) ∈ (step s (.cEnter c)).log ∧ returned ((step s (.cEnter c)).callers c).pc := by
  have h1 : step s (.cEnter c) = ret s c none (.err .shuttingDown) := by
    simp [step, doEnter, hp, hl, hs]
  rw [h1]
  refine ⟨rfl, rfl, ?_, ret_returned _ _ _ _⟩
  simp [ret, mem_retEvs]

/-- **T6 (cancellable wrapper).** It returns `ok sid` only if its last sub-attempt returned `ok sid` (hence, by T1, never for a
sub-attempt it abandoned with `engine->close`); it returns Cancelled only if the token was cancelled; entered with a cancelled
token it returns Cancelled without touching the engine. -/
theorem T6_wrapper_ok (steps : List Step) (c sid : Nat) (h : Ev.wrapRet c (.ok sid) ∈ (run init steps).log) :
    Ev.attemptRet c (some sid) (.ok sid) ∈ (run init steps).log ∧ ∀ c', Ev.engineClose c' sid ∉ (run init steps).log := by
  have I := reachable_inv steps
  have h1 := I.T6a c sid h
  exact ⟨h1, (I.T1 c sid sid h1).2.2⟩

theorem T6_cancelled_only_if_cancelled (steps : List Step) (c : Nat)
    (h : Ev.wrapRet c (.err .cancelled) ∈ (run init steps).log) : ((run init steps).callers c).cancelled = true :=
  (reachable_inv steps).T6b c h

theorem T6_precancelled (s : State) (c : Nat) (hp : (s.callers c).pc = .idle ∨ (s.callers c).pc = .finished)
    (hc : (s.callers c).cancelled = true) :
    (step s (.call c true)).log = s.log ++ [.wrapRet c (.err .cancelled)] ∧ (step s (.call c true)).fifo = s.fifo := by
  rcases hp with hp | hp <;> simp [step, doCall, hp, hc]

end Iora.C04
