import IoraModel.Model.EngineLifecycle
import IoraModel.Model.CloseFanout
import IoraModel.Model.LifecycleSites
import IoraModel.Lemmas.EngineSteps
import IoraModel.Lemmas.EngineCloseReq
import IoraModel.Lemmas.FdTags
import IoraModel.Lemmas.EngineStale
import IoraModel.Lemmas.EngineFlags
import IoraModel.Lemmas.CloseFanout
import IoraModel.Lemmas.CloseDeliver
import IoraModel.Lemmas.CloseDeliverCompose
/-!
# C02 — Every session gets exactly one close; nothing before announce or after close

The theorems quantify over EVERY configuration `cfg` (TLS contexts present or not, backpressure policy, limits, and the flags that
describe the source variant: TLS refusal, name binding, guarded peer-index erase - the driver fixes them to what the site table
proved equal to the source says) and EVERY history `is : List In` of the step system of
`Model/EngineLifecycle.lean`: application-thread API calls (connect / connectViaListener / close / send / stop), timer-thread
closes, and I/O-thread handler invocations, each carrying an arbitrary list of environment answers (kernel, OpenSSL, clocks,
fault-injection hooks) - i.e. over all interleavings and all fault sequences.  `g.tr` is the sequence of observable events
(connect() returns and the engine-level callbacks) of the history.  The ONLY theorem with a hypothesis about the environment is
`T3_data_after_announce_tcp`; the hypothesis (`Tcp.envOkHistory`) is a predicate on the INPUT history, not on the output.
-/
namespace Iora.C02
open Iora.Lifecycle Iora.Lifecycle.Sites

/-! ## tie to the source (translator) -/

/-- Tie (translator): the lifecycle sites found in tcp_engine.hpp are exactly the ones the model's table lists, in order,
with the same enclosing function, kind and guard (the guard includes every earlier block that ends in a jump). -/
theorem closeSites_covered_tcp : Iora.Gen.CloseSites.tcpSites = tcpTable.map (·.1) := by decide

/-- Tie (translator): same for udp_engine.hpp. -/
theorem closeSites_covered_udp : Iora.Gen.CloseSites.udpSites = udpTable.map (·.1) := by decide

/-- Every close transition of the model is the image of exactly one source site of its engine, and every source close site is a
model transition: the table is a bijection between `closeNow(`/`closeCb(` call sites and `Site` constructors (the `closeNow(`
of process() stands for the four `procClose` origins). -/
theorem closeSites_bijective :
    (closeRoles tcpTable).Nodup ∧ (closeRoles udpTable).Nodup ∧
    (∀ s : Site, s ∈ closeRoles tcpTable ∨ s ∈ closeRoles udpTable ∨ ∃ o, s = .procClose o) := by
  refine ⟨by decide, by decide, ?_⟩
  intro s; cases s <;> first | (left; decide) | (right; left; decide) | (right; right; exact ⟨_, rfl⟩)

/-- Tie (translator): the loops, the fd dispatch, the command dispatch, the shutdown drain, connect()/enqueue() and the Transport
close handler / observe / unobserve / setSessionData (with the mutexes they take) have the call order the model (and the stepped
harness) assumes; a new connect is registered for EPOLLIN|EPOLLOUT and updateInterest keeps EPOLLOUT while `connectPending`
(what lets a kernel honour the environment contract of T3c). -/
theorem skeletons_conform :
    Iora.Gen.CloseSites.tcpLoopUnbatched = loopUnbatched ∧ Iora.Gen.CloseSites.udpLoopUnbatched = loopUnbatched ∧
    Iora.Gen.CloseSites.tcpLoopBatched = loopBatched ∧ Iora.Gen.CloseSites.udpLoopBatched = loopBatched ∧
    Iora.Gen.CloseSites.tcpHandleFdEvent = handleFdEvent ∧ Iora.Gen.CloseSites.udpHandleFdEvent = handleFdEvent ∧
    Iora.Gen.CloseSites.tcpProcess = tcpProcess ∧ Iora.Gen.CloseSites.udpProcess = udpProcess ∧
    Iora.Gen.CloseSites.tcpShutdownDrain = shutdownDrain ∧ Iora.Gen.CloseSites.udpShutdownDrain = shutdownDrain ∧
    Iora.Gen.CloseSites.tcpConnect = tcpConnect ∧ Iora.Gen.CloseSites.udpConnect = udpConnect ∧
    Iora.Gen.CloseSites.udpConnectVia = udpConnectVia ∧
    Iora.Gen.CloseSites.tcpEnqueue = tcpEnqueue ∧ Iora.Gen.CloseSites.udpEnqueue = udpEnqueue ∧
    Iora.Gen.CloseSites.tcpConnectEpollMask = tcpConnectEpollMask ∧ Iora.Gen.CloseSites.tcpUpdateInterest = tcpUpdateInterest ∧
    Iora.Gen.CloseSites.fanout = fanout ∧ Iora.Gen.CloseSites.observe = observe ∧
    Iora.Gen.CloseSites.unobserve = unobserve ∧ Iora.Gen.CloseSites.setSessionData = setSessionData := by decide

/-- Tie (translator), restart: the shutdown drain leaves no fd tag of a freed session behind (tcp: the F35 repair), so that a
restarted engine (`apiStart`) starts from empty maps as the model says. -/
theorem drainErasesTags : Iora.Gen.CloseSites.tcpDrainErasesTags = true ∧ Iora.Gen.CloseSites.udpDrainErasesTags = true := by decide

/-- **fd reuse** (review F6b; the layer below the lifecycle model: which session a kernel event on an fd NUMBER reaches).  For
every history of session creations on fd numbers the kernel hands out (never one that is still open - reuse of CLOSED numbers is
the point), `closeNow`s and shutdown drains (each followed by a possible restart: start() does not touch the maps), the session
`handleFdEvent` dispatches an event on `fd` to is in the session map, not closed, and owns exactly that fd - a stale event on a
reused fd number reaches the live NEW owner, never a freed or closed session.  The model instance is DEFINED from the translator
fact `drain erases the tags` of either engine (`drainErasesTags`). -/
theorem fd_tags_point_at_live_owner (erases : Bool)
    (he : erases = Iora.Gen.CloseSites.tcpDrainErasesTags ∨ erases = Iora.Gen.CloseSites.udpDrainErasesTags)
    (ops : List Iora.FdTags.Op) (fd : Iora.FdTags.Fd) (sid : Iora.FdTags.Sid)
    (h : Iora.FdTags.dispatch (Iora.FdTags.run { erases := erases } ops) fd = some sid) :
    ∃ s, (Iora.FdTags.run { erases := erases } ops).sess sid = some s ∧ s.fd = fd ∧ s.closed = false := by
  have e : erases = true := by
    rcases he with he | he
    · rw [he]; exact drainErasesTags.1
    · rw [he]; exact drainErasesTags.2
  exact (Iora.FdTags.inv_run ops (t := { erases := erases }) e (Iora.FdTags.inv_init erases)).tag_live fd sid h

/-- ... and every open session is reachable: it is tagged under its own (open) fd -/
theorem fd_tags_cover_open_sessions (ops : List Iora.FdTags.Op) (sid : Iora.FdTags.Sid) (s : Iora.FdTags.Sess)
    (hs : (Iora.FdTags.run { erases := Iora.Gen.CloseSites.tcpDrainErasesTags } ops).sess sid = some s) (hc : s.closed = false) :
    Iora.FdTags.dispatch (Iora.FdTags.run { erases := Iora.Gen.CloseSites.tcpDrainErasesTags } ops) s.fd = some sid :=
  ((Iora.FdTags.inv_run ops (t := { erases := Iora.Gen.CloseSites.tcpDrainErasesTags }) drainErasesTags.1
    (Iora.FdTags.inv_init _)).open_tagged sid s hs hc).2

/-- the variant WITHOUT the tag erase in the drain (the code before repair F35) -/
def F35_statement : Prop :=
  ∀ (ops : List Iora.FdTags.Op) (fd : Iora.FdTags.Fd) (sid : Iora.FdTags.Sid),
    Iora.FdTags.dispatch (Iora.FdTags.run { erases := false } ops) fd = some sid →
    ∃ s, (Iora.FdTags.run { erases := false } ops).sess sid = some s ∧ s.fd = fd ∧ s.closed = false

/-- F35: session 1 on fd 5, stop (drain), start, session 2 gets fd 5 again: `emplace` does not overwrite the stale tag, the event of
session 2 is dispatched to the freed session 1 -/
theorem F35_refuted : ¬ F35_statement := by
  intro h
  obtain ⟨s, hs, _⟩ := h [.insert 1 5, .drain, .insert 2 5] 5 1 (by decide)
  have hn : (Iora.FdTags.run { erases := false } [.insert 1 5, .drain, .insert 2 5]).sess 1 = none := by decide
  rw [hn] at hs; cases hs

example : Iora.FdTags.dispatch (Iora.FdTags.run {} [.insert 1 5, .drain, .insert 2 5, .insert 3 6, .closeNow 2, .insert 4 5]) 5 = some 4 := by decide

/-- Tie (translator): `_nextSessionId` is a `std::atomic<SessionId>` in both engines (connect() on application threads and accepts on
the I/O thread allocate from it concurrently: the model's allocation steps are atomic), and every direct close-callback call site
works on its own copy of `_cbs.onClose` taken under `_cbMutex`. -/
theorem atomics_and_callback_copies :
    Iora.Gen.CloseSites.tcpNextIdAtomic = true ∧ Iora.Gen.CloseSites.udpNextIdAtomic = true ∧
    Iora.Gen.CloseSites.tcpCloseCbCalls = Iora.Gen.CloseSites.tcpOnCloseCopies ∧
    Iora.Gen.CloseSites.udpCloseCbCalls = Iora.Gen.CloseSites.udpOnCloseCopies := by decide

/-- Tie (translator), the API surface the step system takes as atomic actions: `close(sid)` of both engines is exactly one
`enqueue(Close sid)` (what `T2_close_request_honoured` is about); the three TimerService handlers are exactly one
`enqueue(Close sid origin)` with the origin the model's `In.timer` carries; `start()` re-opens the queue and creates the loop
without touching the session maps or the id counter; and `_nextSessionId` is used NOWHERE except its declaration (initial value =
the model's) and the post-increments the site table lists - no store, no assignment, no reset: ids cannot be reused, also not
across stop()/start() (review F4, mutant `_nextSessionId.store(1)` in start()). -/
theorem api_skeletons_conform :
    Iora.Gen.CloseSites.tcpClose = tcpClose ∧ Iora.Gen.CloseSites.udpClose = udpClose ∧
    Iora.Gen.CloseSites.tcpTimerHandlers = tcpTimerHandlers ∧
    Iora.Gen.CloseSites.tcpStart = tcpStart ∧ Iora.Gen.CloseSites.udpStart = udpStart ∧
    Iora.Gen.CloseSites.tcpNextIdInit = (init {}).nextId ∧ Iora.Gen.CloseSites.udpNextIdInit = (init {}).nextId ∧
    Iora.Gen.CloseSites.tcpNextIdOtherUses = 0 ∧ Iora.Gen.CloseSites.udpNextIdOtherUses = 0 ∧
    Iora.Gen.CloseSites.tcpNextIdAllocs = (tcpTable.filter (·.1.kind == "idAlloc")).length ∧
    Iora.Gen.CloseSites.udpNextIdAllocs = (udpTable.filter (·.1.kind == "idAlloc")).length := by decide

/-- Tie (translator): both `_peerIndex.erase` sites of UdpEngine (closeNow, shutdownDrain) erase the entry only when it maps to the
closing session (repair F17) - the two configuration flags the lockstep driver instantiates the model with (`peerEraseGuarded`,
`peerEraseGuardedDrain`); the theorems hold for either value, the pin makes a flip of the source visible at the proof layer too. -/
theorem udp_peer_erase_guarded :
    Iora.Gen.CloseSites.udpPeerEraseGuardedCloseNow = true ∧ Iora.Gen.CloseSites.udpPeerEraseGuardedDrain = true := by decide

/-! ## the engines: an engine is `Tcp.step` or `Udp.step` -/

/-- the two engines -/
inductive Engine | tcp | udp

def Engine.step : Engine → G → In → G
  | .tcp => Tcp.step
  | .udp => Udp.step

/-- the state after a history -/
def after (e : Engine) (cfg : Cfg) (is : List In) : G := run e.step (init cfg) is

theorem reachable (e : Engine) (cfg : Cfg) (is : List In) : SInv (after e cfg is) := by
  cases e
  · exact Tcp.sinv_run cfg is
  · exact Udp.sinv_run cfg is

/-- **T1** Never two: for every history, every session id occurs in at most one close notification. -/
theorem T1_at_most_one_close (e : Engine) (cfg : Cfg) (is : List In) :
    (closesOf (after e cfg is).tr).Nodup :=
  (reachable e cfg is).inv.cl_nd

/-- **T2** Never none after an orderly stop: once the shutdown drain has run (`phase = stopped`), every id the application has
seen - returned by connect()/connectViaListener(), or announced by an accept/connect callback - has been closed, and by T1
exactly once (`count = 1`).  This is the statement that is false of the code before the F30 repair (a `Connect` left in the
residual queue). -/
theorem T2_exactly_one_close_after_stop (e : Engine) (cfg : Cfg) (is : List In)
    (hstop : (after e cfg is).phase = .stopped) (sid : Sid)
    (hseen : sid ∈ retOf (after e cfg is).tr ∨ sid ∈ annOf (after e cfg is).tr) :
    (closesOf (after e cfg is).tr).count sid = 1 := by
  have h := reachable e cfg is
  obtain ⟨_, hb, hq, ht⟩ := h.stop.stopped hstop
  have hpend : pend (after e cfg is) = [] := by simp [pend, h.cur, hb, hq]
  have hmem : sid ∈ closesOf (after e cfg is).tr := by
    rcases hseen with hr | ha
    · rcases h.inv.ret_dom sid hr with h1 | ⟨s, hs⟩ | h3
      · rw [hpend] at h1; cases h1
      · rw [ht sid] at hs; cases hs
      · exact h3
    · rcases h.inv.ann_dom sid ha with ⟨s, hs⟩ | h3
      · rw [ht sid] at hs; cases hs
      · exact h3
  exact count_eq_one_of_nodup h.inv.cl_nd hmem

/-- T2, while running: an id the application has seen and that is not closed yet is still accounted for - its request is
pending in the command queue, or its session is in the table (so a later close / the drain will reach it). -/
theorem T2_open_ids_are_tracked (e : Engine) (cfg : Cfg) (is : List In) (sid : Sid)
    (hseen : sid ∈ retOf (after e cfg is).tr ∨ sid ∈ annOf (after e cfg is).tr)
    (hopen : sid ∉ closesOf (after e cfg is).tr) :
    sid ∈ pend (after e cfg is) ∨ ∃ s, (after e cfg is).table sid = some s ∧ s.closed = false := by
  have h := (reachable e cfg is).inv
  have key : ∀ s, (after e cfg is).table sid = some s → s.closed = false := by
    intro s hs
    cases hc : s.closed with
    | false => rfl
    | true => exact absurd ((h.tbl_cl sid s hs).1 hc) hopen
  rcases hseen with hr | ha
  · rcases h.ret_dom sid hr with h1 | ⟨s, hs⟩ | h3
    · exact Or.inl h1
    · exact Or.inr ⟨s, hs, key s hs⟩
    · exact absurd h3 hopen
  · rcases h.ann_dom sid ha with ⟨s, hs⟩ | h3
    · exact Or.inr ⟨s, hs, key s hs⟩
    · exact absurd h3 hopen

theorem Engine.sinv_step (e : Engine) (g : G) (i : In) (h : SInv g) : SInv (e.step g i) := by
  cases e
  · exact Tcp.sinv_step g i h
  · exact Udp.sinv_step g i h

/-- **T2, an accepted close() request is honoured** (review F3; what seeded change C04-d breaks).  Take any history `is₁`, an id the
application has seen by then (connect()/connectViaListener() returned it, or a callback announced it), a call `close(sid)` at a moment
the command queue accepts it (`cmdsClosed = false`: `close()` answers true), and any continuation `is₂` - other API calls, timers,
I/O events, faults, stop, restart - at whose end the I/O thread has no work left (`queue = batch = []`: every queued command has been
taken by process(), or the drain has run).  Then the id HAS its close notification (by T1 exactly one).  The request cannot be lost:
it is queued FIFO behind the id's own Connect, so when process() reaches it the session is in the table - or already closed. -/
theorem T2_close_request_honoured (e : Engine) (cfg : Cfg) (is₁ is₂ : List In) (sid : Sid)
    (hseen : sid ∈ retOf (after e cfg is₁).tr ∨ sid ∈ annOf (after e cfg is₁).tr)
    (hopen : (after e cfg is₁).cmdsClosed = false)
    (hdone : (after e cfg (is₁ ++ In.apiClose sid :: is₂)).queue = [] ∧ (after e cfg (is₁ ++ In.apiClose sid :: is₂)).batch = []) :
    sid ∈ closesOf (after e cfg (is₁ ++ In.apiClose sid :: is₂)).tr := by
  have hrun : after e cfg (is₁ ++ In.apiClose sid :: is₂) = run e.step (e.step (after e cfg is₁) (.apiClose sid)) is₂ := by
    simp [after, run, List.foldl_append]
  have hstep : e.step (after e cfg is₁) (.apiClose sid) = apiPlain (.close sid .app) (after e cfg is₁) := by
    cases e <;> simp [Engine.step, Tcp.step, Udp.step, stepShared]
  have h1 := reachable e cfg is₁
  have h2 : SInv (apiPlain (.close sid .app) (after e cfg is₁)) := by rw [← hstep]; exact e.sinv_step _ _ h1
  have htr : (apiPlain (.close sid .app) (after e cfg is₁)).tr = (after e cfg is₁).tr := by
    unfold apiPlain enqueue; split <;> rfl
  have hseen2 : Seen sid (apiPlain (.close sid .app) (after e cfg is₁)) := by
    unfold Seen; rw [htr]; exact hseen
  have hh := hon_run e.step e.sinv_step
    (fun sid g i hs hse hho => by
      cases e
      · exact Tcp.hon_step g i hs hse hho
      · exact Udp.hon_step g i hs hse hho)
    sid _ h2 hseen2 (hon_after_apiClose sid _ hopen) is₂
  rw [hrun, hstep] at hdone ⊢
  rcases hh with h | ⟨pre, post, he, _⟩
  · exact h
  · rw [hdone.1, hdone.2] at he
    cases pre <;> simp at he

/-- the hypotheses of `T2_close_request_honoured` are satisfiable by a non-trivial history - connect, close() while the Connect is
still queued (the shape of seed C04-d), one process() - and the conclusion is the `Unknown/app` close of `procClose` -/
example : (after .tcp {} ([.apiConnect .none false] ++ In.apiClose 1 :: [.ioSwap, .ioCmd [.again, .ok, .ok], .ioCmd []])).tr =
    [.ret 1 true, .announce 1 .connect, .close 1 (.procClose .app)] := by decide
example : (after .tcp {} ([.apiConnect .none false] ++ In.apiClose 1 :: [.ioSwap, .ioCmd [.again, .ok, .ok], .ioCmd []])).queue = [] ∧
    (after .tcp {} ([.apiConnect .none false] ++ In.apiClose 1 :: [.ioSwap, .ioCmd [.again, .ok, .ok], .ioCmd []])).batch = [] := by decide
/-- FC02b: a connect by name whose resolver thread cannot be created (`A.throw`) ends with the close of its id -/
example : (after .tcp {} [.apiConnect .none true, .ioSwap, .ioCmd [.throw]]).tr = [.ret 1 true, .close 1 .resolveThrow] := by decide

/-- **T3a** Nothing after the close - unconditionally, for every history and every environment: every engine callback (accept,
connect, data, close) is for an id that has not been closed before it. -/
theorem T3_nothing_after_close (e : Engine) (cfg : Cfg) (is : List In)
    (pre : List Out) (o : Out) (post : List Out) (hsplit : (after e cfg is).tr = pre ++ o :: post)
    (sid : Sid) (hsid : evSid o = some sid) : sid ∉ closesOf pre := by
  have h := (reachable e cfg is).inv.ord.closed
  have h2 : okClosed ([] ++ pre) o := allFrom_split okClosed [] _ h pre o post hsplit
  rw [List.nil_append] at h2
  exact h2 sid hsid

/-- every reachable state satisfies the flag invariants (no dangling access, no second connect callback) -/
theorem reachable2 (e : Engine) (cfg : Cfg) (is : List In) : Good2 (after e cfg is) := by
  cases e
  · exact Tcp.good2_run cfg is
  · exact (Udp.goodU_run cfg is).good2

/-- **T3b** At most one accept callback and at most one connect callback per id - unconditionally. (A TLS session accepted by a
listener gets both: `onAccept` when the TCP connection is accepted, `onConnect` when its handshake completes.) -/
theorem T3_announce_at_most_once (e : Engine) (cfg : Cfg) (is : List In)
    (pre : List Out) (sid : Sid) (k : AnnKind) (post : List Out) (hsplit : (after e cfg is).tr = pre ++ Out.announce sid k :: post) :
    Out.announce sid k ∉ pre := by
  have h := (reachable e cfg is).inv.ord.once (reachable2 e cfg is).nodup
  have h2 : okOnce ([] ++ pre) (Out.announce sid k) := allFrom_split okOnce [] _ h pre _ post hsplit
  rw [List.nil_append] at h2
  exact h2

/-- **T3c (UDP)** Data only after the accept/connect callback - unconditionally on the UDP engine. -/
theorem T3_data_after_announce_udp (cfg : Cfg) (is : List In)
    (pre : List Out) (sid : Sid) (post : List Out) (hsplit : (after .udp cfg is).tr = pre ++ Out.data sid :: post) :
    sid ∈ annOf pre := by
  have h := (reachable .udp cfg is).inv.ord.data (Udp.goodU_run cfg is).noenv
  have h2 : okData ([] ++ pre) (Out.data sid) := allFrom_split okData [] _ h pre _ post hsplit
  rw [List.nil_append] at h2
  exact h2

/-- **T3c (TCP)** Data only after the accept/connect callback, in every history whose steps honour the ENVIRONMENT CONTRACT
`Tcp.envOk` - an input hypothesis, evaluated on the state before each step: the kernel does not return payload from a socket whose
connect has not completed (see `Tcp.envOkSession`).  It concerns plain client sessions with a pending connect only; TLS and
accepted sessions need no hypothesis.  (The harness checks the same fact on the real engine with no excuse: an `onData` before
`onConnect` on real loopback sockets is reported as a property violation.) -/
theorem T3_data_after_announce_tcp (cfg : Cfg) (is : List In) (henv : Tcp.envOkHistory Tcp.step (init cfg) is = true)
    (pre : List Out) (sid : Sid) (post : List Out) (hsplit : (after .tcp cfg is).tr = pre ++ Out.data sid :: post) :
    sid ∈ annOf pre := by
  have he : (after .tcp cfg is).envBad = false := Tcp.env_run (init cfg) is (good2_init cfg) henv
  have h := (reachable .tcp cfg is).inv.ord.data he
  have h2 : okData ([] ++ pre) (Out.data sid) := allFrom_split okData [] _ h pre _ post hsplit
  rw [List.nil_append] at h2
  exact h2

/-- state form of T3a: a live table entry has never been closed (so no handler can emit for a closed id) -/
theorem T3_live_entries_not_closed (e : Engine) (cfg : Cfg) (is : List In) (sid : Sid) (s : Sess)
    (hlive : (after e cfg is).table sid = some s) (hopen : s.closed = false) :
    sid ∉ closesOf (after e cfg is).tr := by
  intro hm
  have := ((reachable e cfg is).inv.tbl_cl sid s hlive).2 hm
  rw [hopen] at this; cases this

/-- **T4** Ids are never reused: the ids the application sees allocated (every connect() call, every accept) are strictly
increasing along the history - so pairwise distinct - and every id that occurs anywhere is below the allocation counter. -/
theorem T4_ids_strictly_increase (e : Engine) (cfg : Cfg) (is : List In) :
    (allocsOf (after e cfg is).tr).Pairwise (· < ·) ∧
    (∀ sid, sid ∈ allocsOf (after e cfg is).tr → sid < (after e cfg is).nextId) ∧
    (∀ sid, sid ∈ closesOf (after e cfg is).tr → sid < (after e cfg is).nextId) ∧
    (∀ sid, sid ∈ annOf (after e cfg is).tr → sid < (after e cfg is).nextId) :=
  let h := (reachable e cfg is).inv
  ⟨h.alloc_sorted, h.alloc_lt, h.cl_lt, h.ann_lt⟩

/-- **T6** The gauge: after every history `sessionsCurrent` equals the number of sessions in the table that are not closed
(so it can neither under-count nor go negative), every announced and not yet closed session is among them, and after the
drain it is zero. -/
theorem T6_gauge (e : Engine) (cfg : Cfg) (is : List In) :
    (after e cfg is).current = (liveCount (after e cfg is) : Int) ∧
    (∀ sid, sid ∈ annOf (after e cfg is).tr → sid ∉ closesOf (after e cfg is).tr → live (after e cfg is) sid = true) ∧
    ((after e cfg is).phase = .stopped → (after e cfg is).current = 0) := by
  have h := reachable e cfg is
  refine ⟨h.inv.gauge, ?_, ?_⟩
  · intro sid ha hc
    rcases h.inv.ann_dom sid ha with ⟨s, hs⟩ | h3
    · have : s.closed = false := by
        cases e1 : s.closed with
        | false => rfl
        | true => exact absurd ((h.inv.tbl_cl sid s hs).1 e1) hc
      simp [live, hs, this]
    · exact absurd h3 hc
  · intro hs
    obtain ⟨_, _, _, ht⟩ := h.stop.stopped hs
    rw [h.inv.gauge]
    have : liveCount (after e cfg is) = 0 := by
      unfold liveCount
      rw [List.countP_eq_zero]
      intro x _
      simp [live, ht x]
    simp [this]

/-- No dangling session access: the model sets `stale` exactly where the C++ would use a `Session*` after the session was erased
from the map (or `cr.sid` of a request that is not in flight).  No history does: after every `closeNow` the handlers return or
re-look the session up before touching it again.  (Together with the acceptor this is what the `!stale` flag of the driver and
ASan on the real engine check from the other side: mutant M2, a dropped `return` after the EPOLLHUP close, is caught there.) -/
theorem no_dangling_session_access (e : Engine) (cfg : Cfg) (is : List In) : (after e cfg is).stale = false := by
  exact (reachable2 e cfg is).good.nostale

/-- UDP peer index (with or without the F17 repair): a datagram is only ever routed to a live, announced session of that peer. -/
theorem udp_index_points_at_live_sessions (cfg : Cfg) (is : List In) (k : Key) (sid : Sid)
    (h : (after .udp cfg is).index k = some sid) :
    ∃ s, (after .udp cfg is).table sid = some s ∧ s.closed = false ∧ s.announced = true ∧ s.pkey = some k :=
  (reachable .udp cfg is).inv.idx_live k sid h

/-! ### the hypotheses are satisfiable, the statements are not vacuous -/

/-- the F30 history: connect, stop; the I/O thread drains; a second connect() lands after the drain's process() - it is returned
to the application (`ret 2 true`) and closed by the residual loop. -/
def f30History : List In :=
  [.apiConnect .none false, .ioSwap, .ioCmd [.again, .ok, .ok], .apiStop, .ioDrainBegin, .ioCmd [], .ioDrainClose 1,
   .apiConnect .none false, .ioDrainFinish]

example : (after .tcp {} f30History).phase = .stopped := by decide
/-- restart: ids keep counting, the second run is drained like the first -/
example : (after .tcp {} (f30History ++ [.apiStart, .apiConnect .none false, .apiStop, .ioDrainBegin, .ioCmd [], .ioCmd [], .ioDrainFinish])).tr =
    [.ret 1 true, .announce 1 .connect, .close 1 .drainSession, .ret 2 true, .close 2 .drainResidual,
     .ret 3 true, .close 3 .drainSession] := by decide
example : (after .tcp {} f30History).tr =
    [.ret 1 true, .announce 1 .connect, .close 1 .drainSession, .ret 2 true, .close 2 .drainResidual] := by decide
example : (2 : Sid) ∈ retOf (after .tcp {} f30History).tr := by decide
example : Tcp.envOkHistory Tcp.step (init {}) f30History = true := by decide
/-- a history that breaks the environment contract: payload bytes on a client socket before its connect completed (EPOLLIN without
EPOLLOUT on a socket the engine registered for both) -/
example : Tcp.envOkHistory Tcp.step (init {})
    [.apiConnect .none false, .ioSwap, .ioCmd [.again, .ok, .again], .ioSession 1 true false false [.data]] = false := by decide
/-- ... and one that honours it although data arrives in the same event as the connect completion -/
example : Tcp.envOkHistory Tcp.step (init {})
    [.apiConnect .none false, .ioSwap, .ioCmd [.again, .ok, .again], .ioSession 1 true true false [.ok, .ok, .ok, .data, .again]] = true := by decide
example : (after .tcp {} [.apiConnect .none false, .ioSwap, .ioCmd [.again, .ok, .again], .ioSession 1 true true false [.ok, .ok, .ok, .data, .again]]).tr =
    [.ret 1 true, .announce 1 .connect, .data 1] := by decide

/-! ## the Transport close fan-out (T5) -/
open Iora.Fanout in
/-- **T5** One close: the callbacks are the global close callback first (if one is installed), then every observer that is
registered when the global callback returns, in registration order, each exactly once, then the cleanup of the user data that is
set when the last observer returns (if it has a cleanup function and a non-null pointer) - for every state and whatever the
callbacks themselves do (observe / unobserve / setSessionData from inside callbacks). -/
theorem T5_fanout_shape (sid : Fanout.Sid) (f : F) :
    (closeFan sid f).2.filter isCb =
      (if f.hasGlobal then [Fanout.Out.global sid] else []) ++ ((globalPart sid f).1.observers sid).map (Fanout.Out.observer sid) ++
      cleanupOf sid (observerPart sid (globalPart sid f).1).1 :=
  closeFan_shape sid f

open Iora.Fanout in
/-- T5, exactly once: after a close the session's observers and user data are gone from the maps - a second close notification
for the same id (impossible by T1) would reach the global callback only. -/
theorem T5_fanout_once (sid : Fanout.Sid) (f : F) (hi : f.inside = []) :
    (closeFan sid (closeFan sid f).1).2 = if f.hasGlobal then [Fanout.Out.global sid] else [] :=
  closeFan_once sid f hi

open Iora.Fanout in
/-- T5, "registered, in registration order, each once" for every history of observe / unobserve / setSessionData / close
(including calls from inside callbacks): the observer list of a session is strictly increasing in observer id - ids are handed
out in call order - and agrees with the id -> session index (an id is in a list iff it is registered and not unregistered). -/
theorem T5_observers_registration_order (g : Bool) (ops : List Op) (sid : Fanout.Sid) :
    ((runOps { hasGlobal := g } ops).observers sid).Pairwise (· < ·) ∧
    (∀ o, o ∈ (runOps { hasGlobal := g } ops).observers sid ↔ (runOps { hasGlobal := g } ops).obsIndex o = some sid) := by
  have h := finv_run ops (finv_init g)
  exact ⟨h.sorted sid, fun o => ⟨h.idx_of_mem sid o, h.mem_of_idx o sid⟩⟩

open Iora.Fanout in
example : (closeFan 7 (runOps { hasGlobal := true } [.act (.observe 7), .act (.observe 7), .act (.setData 7 3 true), .act (.unobserve 1)])).2 =
    [.global 7, .observer 7 2, .cleanup 7 3] := by decide

/-! ## nothing after the close, at the Transport level (T3 for the callbacks the APPLICATION sees) -/

set_option maxRecDepth 8192 in
/-- Tie (translator): the syncMutex block of the Transport close handler and the entry of `Transport::setReadMode` are, statement by
statement, what `Model/CloseDeliver.lean` mirrors; in particular the close handler erases the session's read mode unconditionally
(seeded change C02-c makes it conditional on an empty buffer), `setReadMode` returns (true, having done nothing) for a closed
tombstone before it touches `readModes` (repair FC02a), and the handler runs that block BEFORE the global close callback and the
observers (repair FC03c; the `fanout` token skeleton of `skeletons_conform` pins the same order with the locks) - the three facts
`T3_no_delivery_after_close_transport` needs (`Deliver.Sound`). -/
theorem delivery_skeletons_conform :
    Iora.Gen.CloseSites.closeStep6 = closeStep6 ∧ Iora.Gen.CloseSites.setReadModeEntry = setReadModeEntry ∧
    Iora.Gen.CloseSites.closeErasesModeAlways = true ∧ Iora.Gen.CloseSites.setReadModeRefusesTombstone = true ∧
    Iora.Gen.CloseSites.closeMarksBeforeCallbacks = true := by decide

/-- the model instance the driver runs is the sound one: its three variant flags are the Gen facts -/
theorem delivery_variant_sound (c : Iora.Deliver.Cfg)
    (h1 : c.eraseAlways = Iora.Gen.CloseSites.closeErasesModeAlways) (h2 : c.tombGuard = Iora.Gen.CloseSites.setReadModeRefusesTombstone)
    (h3 : c.markFirst = Iora.Gen.CloseSites.closeMarksBeforeCallbacks) :
    Iora.Deliver.Sound c := by
  rw [Iora.Deliver.Sound, h1, h2, h3]
  exact ⟨delivery_skeletons_conform.2.2.1, delivery_skeletons_conform.2.2.2.1, delivery_skeletons_conform.2.2.2.2⟩

open Iora.Deliver in
/-- **T3 (Transport)** Nothing is delivered after the close, at the level of the callbacks the application registers with
`Transport`: for every configuration of the sound variant (incl. the handler order of repair FC03c: marked closed BEFORE the close
callbacks) and EVERY history of engine callbacks (accept, connect, data, and the close handler as its TWO halves `closeMark` /
`closeCbs` - for any ids, any payloads) and complete application calls (`setReadMode` to any mode, `receiveSync` of any length, on
any id, open, closed or unknown - ALSO between the two halves of a handler run, i.e. on another thread while the close callbacks
are about to run or running) in which the handler runs have the order of the configuration (`HandlerOrder cfg.markFirst`) and the
ENGINE honours its contract `EngineContract` (no accept / connect / data for an id once its close handler has been entered - what
`T3_nothing_after_close` proves of both engines), no accept, connect or data callback for an id follows the start of its close
callbacks (`closeH sid`: the global close callback and the observers of T5 fire there).  In particular the bytes a Sync / Disabled
session had buffered when it closed are never flushed through the data callback by a `setReadMode(sid, Async)` that runs while or
after the close callbacks run, whatever mode switches precede it - they stay readable through `receiveSync` (C03 T2/T7). -/
theorem T3_no_delivery_after_close_transport (cfg : Deliver.Cfg) (hs : Sound cfg) (ops : List Deliver.Op) (hc : EngineContract ops)
    (ho : HandlerOrder cfg.markFirst ops)
    (pre : List Deliver.Out) (sid : Deliver.Sid) (post : List Deliver.Out)
    (hsplit : Deliver.run (Deliver.init cfg) ops = pre ++ Deliver.Out.closeH sid :: post) :
    ∀ e ∈ post, ¬ delFor sid e :=
  traceOk_split (run_traceOk ops (Deliver.init cfg) hs.state
    (valid_init_of_contract cfg ops hc (windowEmpty_of_order ops (by rw [← hs.2.2]; exact ho))) (inv_init cfg)) pre sid post hsplit

open Iora.Deliver in
/-- **T3 (engine ∘ Transport)** The engine hypothesis of `T3_no_delivery_after_close_transport` is a THEOREM of the engine model: take
any engine (TCP or UDP), any configuration and any history `is` of it, and any Transport history `ops` (handler runs in the order of
the sound configuration) whose engine-originated ops are - in order, with arbitrary payloads and arbitrary `setReadMode` /
`receiveSync` calls in between, also inside a handler run - the callbacks of that engine history (`opShape` / `outShape` project
both sides to (close?, id); of the two halves of a handler run the FIRST one, `closeMark`, is the engine's close event, the other
maps to nothing).  Then no accept / connect / data callback of the application follows the close callbacks of its id.  No
hypothesis about the engine is left. -/
theorem T3_no_delivery_after_close_end_to_end (e : Engine) (cfg : Lifecycle.Cfg) (is : List In)
    (dcfg : Deliver.Cfg) (hs : Sound dcfg) (ops : List Deliver.Op) (ho : HandlerOrder dcfg.markFirst ops)
    (hproj : ops.filterMap (opShape dcfg.markFirst) = (after e cfg is).tr.filterMap outShape)
    (pre : List Deliver.Out) (sid : Deliver.Sid) (post : List Deliver.Out)
    (hsplit : Deliver.run (Deliver.init dcfg) ops = pre ++ Deliver.Out.closeH sid :: post) :
    ∀ ev ∈ post, ¬ delFor sid ev :=
  T3_no_delivery_after_close_transport dcfg hs ops
    (contract_of_engine_trace (after e cfg is).tr (reachable e cfg is).inv.ord.closed ops
      (markBefore_of_order ops (by rw [← hs.2.2]; exact ho)) (by rw [← hs.2.2]; exact hproj)) ho pre sid post hsplit

open Iora.Deliver in
/-- the projection hypothesis is satisfiable by a non-trivial pair: the F30 engine history (two sessions, both closed by the drain)
under a Transport history with mode switches and receives in between - one of them INSIDE the handler run of session 1 -/
example : ([.engConnect 1, .setMode 1 .sync, .closeMark 1, .setMode 1 .async, .closeCbs 1, .recv 1 4, .closeMark 2, .closeCbs 2] : List Deliver.Op).filterMap (opShape true) =
    (after .tcp {} f30History).tr.filterMap outShape := by decide
open Iora.Deliver in
example : HandlerOrder true [.engConnect 1, .setMode 1 .sync, .closeMark 1, .setMode 1 .async, .closeCbs 1, .recv 1 4, .closeMark 2, .closeCbs 2] := by decide
open Iora.Deliver in
/-- ... and with payload: connect completion and data in one event, any bytes on the Transport side -/
example : ([.setMode 1 .disabled, .engConnect 1, .engData 1 [7, 8]] : List Deliver.Op).filterMap (opShape true) =
    (after .tcp {} [.apiConnect .none false, .ioSwap, .ioCmd [.again, .ok, .again], .ioSession 1 true true false [.ok, .ok, .ok, .data, .again]]).tr.filterMap outShape := by decide

open Iora.Deliver in
/-- state form: after every such history an id whose close callbacks have been started either has no read mode and a closed tombstone
(which `setReadMode` leaves alone), or nothing buffered at all - there is nothing a flush could deliver. -/
theorem T3_closed_ids_cannot_flush (cfg : Deliver.Cfg) (hs : Sound cfg) (ops : List Deliver.Op) (hc : EngineContract ops)
    (ho : HandlerOrder cfg.markFirst ops) (sid : Deliver.Sid) (hclosed : Op.closeCbs sid ∈ ops) :
    let t := runState (Deliver.init cfg) ops
    (t.modes sid = none ∧ tomb t sid = true) ∨ bufData t sid = [] :=
  have ho' : HandlerOrder true ops := by rw [← hs.2.2]; exact ho
  runState_safe ops (Deliver.init cfg) hs.state (valid_init_of_contract cfg ops hc (windowEmpty_of_order ops ho')) (inv_init cfg) sid
    ((runState_marked ops (Deliver.init cfg) sid).mpr (Or.inr (mark_mem_of_cbs_mem ops (markBefore_of_order ops ho') sid hclosed)))

/-! ### the window of the callbacks-first order (the code before repair FC03c) -/

open Iora.Deliver in
/-- the full-strength statement for the OLD handler order (global close callback and observers first, the closed mark / tombstone /
`readModes.erase` afterwards), everything else as in `T3_no_delivery_after_close_transport`, application calls inside the window
included -/
def T3_window_statement : Prop :=
  ∀ (cfg : Deliver.Cfg), cfg.eraseAlways = true → cfg.tombGuard = true → cfg.markFirst = false →
  ∀ (ops : List Deliver.Op), EngineContract ops → HandlerOrder cfg.markFirst ops →
  ∀ (pre : List Deliver.Out) (sid : Deliver.Sid) (post : List Deliver.Out),
    Deliver.run (Deliver.init cfg) ops = pre ++ Deliver.Out.closeH sid :: post → ∀ e ∈ post, ¬ delFor sid e

open Iora.Deliver in
/-- **refuted** (finding F2 of the second review; the defect repair FC03c removes): Sync, two bytes arrive, the handler starts its
close callbacks, ANOTHER thread completes `setReadMode(5, Async)` - no tombstone yet, so the FC02a guard does not apply and the
ordered flush hands the tail to the data callback after the close callback - and only then the handler marks the buffer closed. -/
theorem T3_window_refuted : ¬ T3_window_statement := by
  intro h
  have h1 := h { markFirst := false } rfl rfl rfl
    [.setMode 5 .sync, .engData 5 [170, 187], .closeCbs 5, .setMode 5 .async, .closeMark 5]
    (contract_of_check _ (by decide)) (by decide)
    [.modeRet 5 true] 5 [.dataCb 5 [170, 187], .modeRet 5 true] (by decide)
  exact h1 (.dataCb 5 [170, 187]) (by simp) rfl

open Iora.Deliver in
/-- the trace of the witness, spelled out: close callback, THEN the data callback -/
example : Deliver.run (Deliver.init { markFirst := false }) [.setMode 5 .sync, .engData 5 [170, 187], .closeCbs 5, .setMode 5 .async, .closeMark 5] =
    [.modeRet 5 true, .closeH 5, .dataCb 5 [170, 187], .modeRet 5 true] := by decide
open Iora.Deliver in
/-- ... the same calls around a handler run of the repaired order: the switch inside the handler is vacuous, the tail stays for receiveSync -/
example : Deliver.run (Deliver.init {}) (.setMode 5 .sync :: .engData 5 [170, 187] :: handlerOps true 5 [.setMode 5 .async] ++ [.recv 5 8, .recv 5 8]) =
    [.modeRet 5 true, .modeRet 5 true, .closeH 5, .recvRet 5 (.bytes [170, 187]), .recvRet 5 .peerClosed] := by decide

open Iora.Deliver in
/-- **partial** (what holds of the callbacks-first order, and of ANY order): if no op stands inside a window - at every op, every id
whose close callbacks have been started has been marked closed too, unless the op is that very mark (`WindowEmpty`; for the
callbacks-first order: the two halves of every handler run are adjacent in the history, the old sequential model) - then nothing is
delivered after the close.  The order flag plays no role: `T3_no_delivery_after_close_transport` is the instance "mark-first
histories have no window". -/
theorem T3_window_partial (cfg : Deliver.Cfg) (he : cfg.eraseAlways = true) (hg : cfg.tombGuard = true)
    (ops : List Deliver.Op) (hc : EngineContract ops) (hw : WindowEmpty ops)
    (pre : List Deliver.Out) (sid : Deliver.Sid) (post : List Deliver.Out)
    (hsplit : Deliver.run (Deliver.init cfg) ops = pre ++ Deliver.Out.closeH sid :: post) :
    ∀ e ∈ post, ¬ delFor sid e :=
  traceOk_split (run_traceOk ops (Deliver.init cfg) ⟨he, hg⟩ (valid_init_of_contract cfg ops hc hw) (inv_init cfg)) pre sid post hsplit

open Iora.Deliver in
/-- the partial theorem's hypothesis is satisfiable by a callbacks-first history with calls before and after the (empty) window -/
example : WindowEmpty (.setMode 5 .sync :: .engData 5 [1] :: handlerOps false 5 [] ++ [.setMode 5 .async, .recv 5 1]) := by
  intro pre o post h s hc
  have : s = 5 := by
    have hm : Op.closeCbs s ∈ (.setMode 5 .sync :: .engData 5 [1] :: handlerOps false 5 [] ++ [.setMode 5 .async, .recv 5 1] : List Deliver.Op) := by
      rw [h]; exact List.mem_append_left _ hc
    simpa [handlerOps] using hm
  subst this
  match pre, h with
  | [], h => simp at hc
  | [_], h => simp [handlerOps] at h hc; simp [← h.1] at hc
  | [_, _], h => simp [handlerOps] at h hc; simp [← h.1, ← h.2.1] at hc
  | [_, _, _], h => simp [handlerOps] at h; right; exact h.2.2.2.1.symm
  | _ :: _ :: _ :: a :: r, h => simp [handlerOps] at h; left; simp [← h.2.2.2.1]

open Iora.Deliver in
/-- the engine contract is needed: data the ENGINE reports after its own close goes straight to the data callback (Async) -/
example : Deliver.run (Deliver.init {}) [.closeMark 5, .closeCbs 5, .engData 5 [1]] = [.closeH 5, .dataCb 5 [1]] := by decide
open Iora.Deliver in
/-- FC02a, the unrepaired variant (`tombGuard := false`): Sync, two bytes arrive, close, then Sync and Async again - the tail is
flushed through the data callback after the close -/
example : Deliver.run (Deliver.init { tombGuard := false }) [.setMode 5 .sync, .engData 5 [170, 187], .closeMark 5, .closeCbs 5, .setMode 5 .sync, .setMode 5 .async] =
    [.modeRet 5 true, .closeH 5, .modeRet 5 true, .dataCb 5 [170, 187], .modeRet 5 true] := by decide
open Iora.Deliver in
/-- ... the same history on the repaired code: both switches are vacuous (true, nothing registered, nothing flushed), the tail stays for
receiveSync, then PeerClosed -/
example : Deliver.run (Deliver.init {}) [.setMode 5 .sync, .engData 5 [170, 187], .closeMark 5, .closeCbs 5, .setMode 5 .sync, .setMode 5 .async, .recv 5 8, .recv 5 8] =
    [.modeRet 5 true, .closeH 5, .modeRet 5 true, .modeRet 5 true, .recvRet 5 (.bytes [170, 187]), .recvRet 5 .peerClosed] := by decide
open Iora.Deliver in
/-- seeded change C02-c (`eraseAlways := false`): the mode survives the close of an undrained session and ONE switch to Async flushes -/
example : Deliver.run (Deliver.init { eraseAlways := false, tombGuard := false }) [.setMode 5 .sync, .engData 5 [1], .closeMark 5, .closeCbs 5, .setMode 5 .async] =
    [.modeRet 5 true, .closeH 5, .dataCb 5 [1], .modeRet 5 true] := by decide
open Iora.Deliver in
/-- the hypotheses are satisfiable by a non-trivial history (data before the close, a call inside the handler run, calls after it) -/
example : EngineContract [.engAccept 5, .setMode 5 .sync, .engData 5 [1], .closeMark 5, .setMode 5 .async, .closeCbs 5, .setMode 5 .async, .recv 5 1] :=
  contract_of_check _ (by decide)
open Iora.Deliver in
example : HandlerOrder true [.engAccept 5, .setMode 5 .sync, .engData 5 [1], .closeMark 5, .setMode 5 .async, .closeCbs 5, .setMode 5 .async, .recv 5 1] := by decide

end Iora.C02
