import IoraModel.Lemmas.KvFiles
/-!
# C12 — The key-value store is a map with absolute expiry, across restarts

Property theorems only (lemmas: `Lemmas/KvStore.lean`, `Lemmas/KvFiles.lean`, `Lemmas/KvLog.lean`).  Model:
`Model/KvStore.lean` (the running store, mirroring `kvstore.hpp`), `Model/KvLog.lean` (files), specification
`Model/KvSpec.lean` (the plain reference map).  Constants come from the regenerated `Gen/Kv.lean`.
-/
namespace Iora.C12
open Iora Iora.Kv

/-- a concrete configuration for non-vacuity examples placed before `exCfg` -/
def exCfg0 : Cfg := { lim := Lim.gen, crc := fun _ => 0, maxCache := 0, maxLog := 64, inlineCompact := true }

/-- **Gen obligation.** The limits and format constants extracted from the working tree satisfy what the proofs need:
`load` re-admits every key, value and record the API admits (in particular `loadTotalLenMax` covers the largest record
`writeLogEntry` can produce), lengths fit their 32-bit fields, and every plausible expiry is representable as a
`system_clock::time_point` (`maxPlausibleEpochMs ≤ timePointMaxMs`: neither `fromEpochMs` in `load` nor a TTL deadline can overflow). -/
theorem gen_limits_ok : Lim.gen.OK := by
  constructor <;> decide

/-- **Gen obligation.** Format facts the model hard-wires: op letters and which of them carry an expiry / a value, field
widths, snapshot versions, the no-expiry sentinel, the two shape facts of `load` the model depends on (torn tail cut
before the log is reopened; expiry judged once, after the replay), the saturating TTL deadline and `maxCacheSize == 0` = cache off. -/
theorem gen_format_ok :
    Gen.Kv.opsWritten = [opD, opE, opS, opX].map (·.toNat) ∧ Gen.Kv.opsAccepted = [opD, opE, opS, opX].map (·.toNat) ∧
    Gen.Kv.opsWithExpiry = [opE, opX].map (·.toNat) ∧ Gen.Kv.opsWithValue = [opE, opS].map (·.toNat) ∧
    (Gen.Kv.lenWidth, Gen.Kv.keyLenWidth, Gen.Kv.expiryWidth, Gen.Kv.valLenWidth, Gen.Kv.crcWidth) = (4, 4, 8, 4, 4) ∧
    Gen.Kv.snapVersionWritten = 2 ∧ Gen.Kv.snapVersionsAccepted = [1, 2] ∧ Gen.Kv.noExpirySentinel = sentinel ∧
    Gen.Kv.validateMin = 10 ∧ Gen.Kv.loadTruncatesTornTail = true ∧ Gen.Kv.loadSweepsOnceAtEnd = true ∧
    Gen.Kv.ttlDeadlineSaturates = true ∧ Gen.Kv.cacheSizeZeroDisables = true := by
  decide

/-- **M1 (refinement).** For every configuration (any cache size, any compaction threshold, inline or background
compaction, any CRC function), every start time, every sequence of cache-victim choices and every history of `set`,
`set`+TTL, batches, `get`, `remove`, prefix removal, `clear`, `expireAt`, `persist`, `compact`, clock advances of any size,
eviction callbacks for any key with any timer generation, and clean close/reopen: the store's abstract state
(memory filtered by `expiry > now`) is exactly what the plain reference map holds after the same history, every result
is the one the reference map allows, and the invariants (cache coherence, `_expiry ⊆ _kv`, files replay to memory) hold. -/
theorem M1_refinement (cfg : Cfg) (hl : cfg.lim.OK) (now : Int) (hn : 0 < now) (choices : List Nat) (ops : List Op)
    (hok : RunOK cfg (W.init cfg now choices) ops) :
    (run cfg (W.init cfg now choices) ops).abs = specRun cfg.lim { m := fun _ => none, now := now } ops
      ∧ OutsOK cfg (W.init cfg now choices) { m := fun _ => none, now := now } ops
      ∧ Inv cfg (run cfg (W.init cfg now choices) ops) := by
  obtain ⟨a, b, c⟩ := run_ok cfg hl ops _ (init_inv cfg now hn choices) hok
  rw [init_abs] at b c
  exact ⟨b, c, a⟩

/-- **M1 (reads).** In every reachable state all read paths — `exists`, `ttl`, `getBatch`, `keys`, `keysWithPrefix`,
`size` (and `get`, which is a step because it fills the cache: see `M1_refinement`/`OutOK`) — return what the reference
map returns at the moment of the read. -/
theorem M1_reads (cfg : Cfg) (w : W) (hi : Inv cfg w) :
    (∀ k, rdExists w.mem w.now k = specExists w.abs k) ∧
    (∀ k, rdTtl w.mem w.now k = specTtl w.abs k) ∧
    (∀ ks, rdGetBatch w.mem w.now ks = specGetBatch w.abs ks) ∧
    (∀ p, SpecKeys w.abs p (keysWithPrefix w.mem w.now p)) ∧
    SpecKeys w.abs [] (rdKeys w.mem w.now) ∧
    rdSize w.mem w.now = (rdKeys w.mem w.now).length :=
  ⟨rdExists_spec w hi.mem, rdTtl_spec w hi.mem, rdGetBatch_spec w hi.mem, keysWithPrefix_spec w hi.mem,
   rdKeys_spec w hi.mem, rdSize_spec w hi.mem⟩

/-- **M2 (expired keys are invisible; eviction never touches a live key).** Whatever the wheel does — any key, any timer
generation, early, late, stale, repeated — the eviction callback leaves the abstract state unchanged (so every read path
answers the same whether or not eviction has run), and a key that is live stays in `_kv` with its value. -/
theorem M2_eviction_invisible (cfg : Cfg) (w : W) (hi : Inv cfg w) (k : Key) (gen : Nat) :
    (step cfg w (.evictFire k gen)).1.abs = w.abs ∧
    ∀ k' v, w.mem.kv.get? k' = some v → w.mem.expired w.now k' = false →
      (step cfg w (.evictFire k gen)).1.mem.kv.get? k' = some v :=
  ⟨(evictFire_ok cfg { w with tr := [] } hi.mem k gen).2, fun k' v h1 h2 => evictFire_live cfg { w with tr := [] } k gen k' v h1 h2⟩

/-- **M2 (clock).** Advancing the clock by any amount does to the store exactly what it does to the reference map:
entries whose expiry has passed disappear from every read path at that instant, with no eviction step needed. -/
theorem M2_clock (cfg : Cfg) (w : W) (dt : Nat) :
    (step cfg w (.advance dt)).1.abs = { m := fun k => live (w.now + dt) (w.abs.m k), now := w.now + dt } :=
  advance_ok w dt

/-- **M3 (plain overwrite clears an earlier expiry; values byte for byte).** After `set k v` the key holds exactly `v`
with no expiry, whatever it held before. -/
theorem M3_overwrite (cfg : Cfg) (hl : cfg.lim.OK) (w : W) (hi : Inv cfg w) (k : Key) (v : Val)
    (hok : StepOK cfg w (.set k v)) (hv : validate cfg.lim k v = none) :
    (step cfg w (.set k v)).1.abs.m k = some (v, none) ∧
    (step cfg (step cfg w (.set k v)).1 (.get k)).2 = .value (some v) := by
  obtain ⟨h1, h2, _⟩ := step_ok cfg hl w hi (.set k v) hok
  have habs : (step cfg w (.set k v)).1.abs.m k = some (v, none) := by
    rw [h2]; simp [specStep, hv, Spec.upd]
  refine ⟨habs, ?_⟩
  obtain ⟨_, _, h5⟩ := step_mem_ok cfg (step cfg w (.set k v)).1 h1.mem h1.cacheOff (.get k) (by intro h; cases h)
  simp only [OutOK] at h5
  rw [h5, habs]; rfl

/-- **M3 (TTL write is there, however large the TTL).** After `set k v ttl` with any `ttl > 0` — `std::chrono::seconds::max()`
included — the key holds exactly `v` with deadline `min (now + ttl) lastRepresentableInstant`: the deadline saturates instead of
wrapping into the past (FC12b), so an acknowledged TTL write is never immediately absent (as long as the clock itself is
before the last representable instant). -/
theorem M3_ttl_deadline (cfg : Cfg) (hl : cfg.lim.OK) (w : W) (hi : Inv cfg w) (k : Key) (v : Val) (ttl : Int)
    (hok : StepOK cfg w (.setTtl k v ttl)) (hv : validate cfg.lim k v = none) (ht : 0 < ttl) (hn : w.now < cfg.lim.maxPlausible) :
    (step cfg w (.setTtl k v ttl)).1.abs.m k = some (v, some (deadlineAfter cfg.lim w.now ttl)) ∧
    w.now < deadlineAfter cfg.lim w.now ttl := by
  obtain ⟨_, h2, _⟩ := step_ok cfg hl w hi (.setTtl k v ttl) hok
  have hlt : w.now < deadlineAfter cfg.lim w.now ttl := by unfold deadlineAfter; omega
  refine ⟨?_, hlt⟩
  rw [h2]
  have h0 : ¬ ttl ≤ 0 := by omega
  have hnow : (W.abs w).now = w.now := rfl
  simp [specStep, hv, h0, Spec.upd, live, hnow, hlt]

/-- non-vacuity: a TTL of 8·10⁹ s (≈ 253 years, the coordinator's witness) satisfies the hypotheses on a fresh store -/
example : StepOK exCfg0 (W.init exCfg0 1000 []) (.setTtl [0x6b] [0x76] 8000000000) ∧ validate exCfg0.lim [0x6b] [0x76] = none ∧
    (1000 : Int) < exCfg0.lim.maxPlausible := ⟨⟨by decide, trivial⟩, by decide, by decide⟩

/-- **M4 (restart).** A clean close followed by a new instance on the same directory — at the current time, i.e. after
any clock advance — shows exactly the same abstract state: nothing is lost, nothing expired comes back, expiries are
the same absolute instants. -/
theorem M4_restart (cfg : Cfg) (hl : cfg.lim.OK) (w : W) (hi : Inv cfg w) :
    (step cfg w .reopen).1.abs = w.abs ∧ (step cfg w .reopen).2 = .ok ∧ Inv cfg (step cfg w .reopen).1 := by
  obtain ⟨a, b, c, d⟩ := reopen_ok cfg hl { w with tr := [] } hi.mem (FInv.resetTr cfg w hi.file)
  exact ⟨c, d, ⟨a, b, cacheOff_step cfg w hi.cacheOff .reopen⟩⟩

/-- **M4 (restart, over histories).** Corollary of `M1_refinement`: `reopen` may occur anywhere in a history, any number
of times, with clock advances of any size in between, and the store still equals the reference map — for which `reopen`
is the identity. -/
theorem M4_spec_identity (l : Lim) (s : SpecSt) : specStep l s .reopen = s := rfl

/-- **M5 (compaction).** Compaction changes nothing a reader can see; afterwards memory holds no expired key, and the
new snapshot alone holds exactly the live entries (value and expiry) — so nothing dropped can reappear from the files. -/
theorem M5_compaction (cfg : Cfg) (w : W) (hi : Inv cfg w) :
    (step cfg w .compact).1.abs = w.abs ∧
    (∀ k, (step cfg w .compact).1.mem.expired w.now k = false) ∧
    (∀ k, (snapState (survivors w.mem w.now)).look k = live w.now (w.mem.look k)) ∧
    (step cfg w .compact).1.fs = { snap := some (encodeSnap cfg.lim (survivors w.mem w.now)), log := some [], tmp := none } := by
  refine ⟨abs_compact cfg { w with tr := [] }, ?_, ?_, compact_fs cfg { w with tr := [] }⟩
  · intro k
    show (compactLocked cfg { w with tr := [] }).mem.expired w.now k = false
    unfold Mem.expired
    simp only [compactLocked]
    rw [Map.get?_filter_key w.mem.expiry (fun a => !w.mem.expired w.now a)]
    cases hx : w.mem.expired w.now k with
    | true => simp
    | false =>
      simp only [Bool.not_false, ↓reduceIte]
      unfold Mem.expired at hx
      exact hx
  · intro k
    rw [look_snapState_survivors cfg { w with tr := [] } hi.file.nodup k, look_compact, live_look_eq]
    show (if w.mem.expired w.now k = true then none else w.mem.look k) = _
    cases hx : w.mem.expired w.now k with
    | true => simp
    | false =>
      simp only [Bool.false_eq_true, ↓reduceIte, Bool.not_false, Bool.and_true]
      cases hh : w.mem.kv.has k with
      | true => rfl
      | false => simp [look_none_of_not_has _ _ hh]

/-! ## non-vacuity -/

/-- a concrete configuration: the limits of the working tree, a trivial CRC, cache of one entry, inline compaction at 64 bytes -/
def exCfg : Cfg := { lim := Lim.gen, crc := fun _ => 0, maxCache := 1, maxLog := 64, inlineCompact := true }

/-- the hypotheses of `M1_refinement` are satisfiable by a history that sets, overwrites with a TTL, lets it lapse,
re-arms, compacts inline and evicts -/
example : RunOK exCfg (W.init exCfg 1000 [])
    [.set [1] [2], .setTtl [1] [3] 5, .set [7, 7] [], .advance 6000, .expireAt [7, 7] 9000, .evictFire [1] 1, .persist [7, 7]] := by
  refine ⟨⟨by decide, trivial⟩, ⟨by decide, by decide⟩, ⟨by decide, trivial⟩, ⟨by decide, trivial⟩, ⟨by decide, by decide⟩,
    ⟨by decide, trivial⟩, ⟨by decide, trivial⟩, trivial⟩

example : validate Lim.gen [1] [2] = none := by decide

end Iora.C12
