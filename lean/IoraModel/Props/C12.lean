import IoraModel.Lemmas.KvFiles
import IoraModel.Lemmas.KvRace
import IoraModel.Lemmas.KvRaceN
/-!
# C12 — The key-value store is a map with absolute expiry, across restarts

Property theorems only (lemmas: `Lemmas/KvStore.lean`, `Lemmas/KvFiles.lean`, `Lemmas/KvLog.lean`).  Model:
`Model/KvStore.lean` (the running store, mirroring `kvstore.hpp`), `Model/KvLog.lean` (files), specification
`Model/KvSpec.lean` (the plain reference map), `Model/KvRace.lean` (lock skeleton of `get()` on a cache miss ∥ one writer;
lemmas `Lemmas/KvRace.lean`), `Model/KvRaceN.lean` (the same step relations for any number of threads making any sequences
of calls; lemmas `Lemmas/KvRaceN.lean`).  Constants and lock scopes come from the regenerated `Gen/Kv.lean`.
-/
namespace Iora.C12
open Iora Iora.Kv

/-- a concrete configuration for non-vacuity examples placed before `exCfg` -/
def exCfg0 : Cfg := { lim := Lim.gen, crc := fun _ => 0, maxCache := 0, maxLog := 64, inlineCompact := true }

/-- **Gen obligation.** The limits and format constants extracted from the working tree satisfy what the proofs need:
`load` re-admits every key, value and record the API admits (in particular `loadTotalLenMax` covers the largest record
`writeLogEntry` can produce), lengths fit their 32-bit fields, and every plausible expiry is representable as a
`system_clock::time_point` (`maxPlausibleEpochMs ≤ timePointMaxMs`: neither `fromEpochMs` in `load` nor a TTL deadline can overflow). -/
theorem gen_limits_ok : Lim.gen.OK := by
  constructor <;> decide

/-- **Gen obligation.** Format facts the model hard-wires: op letters and which of them carry an expiry / a value, field
widths, snapshot versions, the no-expiry sentinel, the two shape facts of `load` the model depends on (torn tail cut
before the log is reopened; expiry judged once, after the replay), the saturating TTL deadline and `maxCacheSize == 0` = cache off. -/
theorem gen_format_ok :
    Gen.Kv.opsWritten = [opD, opE, opS, opX].map (·.toNat) ∧ Gen.Kv.opsAccepted = [opD, opE, opS, opX].map (·.toNat) ∧
    Gen.Kv.opsWithExpiry = [opE, opX].map (·.toNat) ∧ Gen.Kv.opsWithValue = [opE, opS].map (·.toNat) ∧
    (Gen.Kv.lenWidth, Gen.Kv.keyLenWidth, Gen.Kv.expiryWidth, Gen.Kv.valLenWidth, Gen.Kv.crcWidth) = (4, 4, 8, 4, 4) ∧
    Gen.Kv.snapVersionWritten = 2 ∧ Gen.Kv.snapVersionsAccepted = [1, 2] ∧ Gen.Kv.noExpirySentinel = sentinel ∧
    Gen.Kv.validateMin = 10 ∧ Gen.Kv.loadTruncatesTornTail = true ∧ Gen.Kv.loadSweepsOnceAtEnd = true ∧
    Gen.Kv.ttlDeadlineSaturates = true ∧ Gen.Kv.cacheSizeZeroDisables = true := by
  decide

/-- **M1 (refinement).** For every configuration (any cache size, any compaction threshold, inline or background
compaction, any CRC function), every start time, every sequence of cache-victim choices and every history of `set`,
`set`+TTL, batches, `get`, `remove`, prefix removal, `clear`, `expireAt`, `persist`, `compact`, clock advances of any size,
eviction callbacks for any key with any timer generation, and clean close/reopen: the store's abstract state
(memory filtered by `expiry > now`) is exactly what the plain reference map holds after the same history, every result
is the one the reference map allows, and the invariants (cache coherence, `_expiry ⊆ _kv`, files replay to memory) hold. -/
theorem M1_refinement (cfg : Cfg) (hl : cfg.lim.OK) (now : Int) (hn : 0 < now) (choices : List Nat) (ops : List Op)
    (hok : RunOK cfg (W.init cfg now choices) ops) :
    (run cfg (W.init cfg now choices) ops).abs = specRun cfg.lim { m := fun _ => none, now := now } ops
      ∧ OutsOK cfg (W.init cfg now choices) { m := fun _ => none, now := now } ops
      ∧ Inv cfg (run cfg (W.init cfg now choices) ops) := by
  obtain ⟨a, b, c⟩ := run_ok cfg hl ops _ (init_inv cfg now hn choices) hok
  rw [init_abs] at b c
  exact ⟨b, c, a⟩

/-- **M1 (reads).** In every reachable state all read paths — `exists`, `ttl`, `getBatch`, `keys`, `keysWithPrefix`,
`size` (and `get`, which is a step because it fills the cache: see `M1_refinement`/`OutOK`) — return what the reference
map returns at the moment of the read. -/
theorem M1_reads (cfg : Cfg) (w : W) (hi : Inv cfg w) :
    (∀ k, rdExists w.mem w.now k = specExists w.abs k) ∧
    (∀ k, rdTtl w.mem w.now k = specTtl w.abs k) ∧
    (∀ ks, rdGetBatch w.mem w.now ks = specGetBatch w.abs ks) ∧
    (∀ p, SpecKeys w.abs p (keysWithPrefix w.mem w.now p)) ∧
    SpecKeys w.abs [] (rdKeys w.mem w.now) ∧
    rdSize w.mem w.now = (rdKeys w.mem w.now).length :=
  ⟨rdExists_spec w hi.mem, rdTtl_spec w hi.mem, rdGetBatch_spec w hi.mem, keysWithPrefix_spec w hi.mem,
   rdKeys_spec w hi.mem, rdSize_spec w hi.mem⟩

/-- **M2 (expired keys are invisible; eviction never touches a live key).** Whatever the wheel does — any key, any timer
generation, early, late, stale, repeated — the eviction callback leaves the abstract state unchanged (so every read path
answers the same whether or not eviction has run), and a key that is live stays in `_kv` with its value. -/
theorem M2_eviction_invisible (cfg : Cfg) (w : W) (hi : Inv cfg w) (k : Key) (gen : Nat) :
    (step cfg w (.evictFire k gen)).1.abs = w.abs ∧
    ∀ k' v, w.mem.kv.get? k' = some v → w.mem.expired w.now k' = false →
      (step cfg w (.evictFire k gen)).1.mem.kv.get? k' = some v :=
  ⟨(evictFire_ok cfg { w with tr := [] } hi.mem k gen).2, fun k' v h1 h2 => evictFire_live cfg { w with tr := [] } k gen k' v h1 h2⟩

/-- **M2 (clock).** Advancing the clock by any amount does to the store exactly what it does to the reference map:
entries whose expiry has passed disappear from every read path at that instant, with no eviction step needed. -/
theorem M2_clock (cfg : Cfg) (w : W) (dt : Nat) :
    (step cfg w (.advance dt)).1.abs = { m := fun k => live (w.now + dt) (w.abs.m k), now := w.now + dt } :=
  advance_ok w dt

/-- **M3 (plain overwrite clears an earlier expiry; values byte for byte).** After `set k v` the key holds exactly `v`
with no expiry, whatever it held before. -/
theorem M3_overwrite (cfg : Cfg) (hl : cfg.lim.OK) (w : W) (hi : Inv cfg w) (k : Key) (v : Val)
    (hok : StepOK cfg w (.set k v)) (hv : validate cfg.lim k v = none) :
    (step cfg w (.set k v)).1.abs.m k = some (v, none) ∧
    (step cfg (step cfg w (.set k v)).1 (.get k)).2 = .value (some v) := by
  obtain ⟨h1, h2, _⟩ := step_ok cfg hl w hi (.set k v) hok
  have habs : (step cfg w (.set k v)).1.abs.m k = some (v, none) := by
    rw [h2]; simp [specStep, hv, Spec.upd]
  refine ⟨habs, ?_⟩
  obtain ⟨_, _, h5⟩ := step_mem_ok cfg (step cfg w (.set k v)).1 h1.mem h1.cacheOff (.get k) (by intro h; cases h)
  simp only [OutOK] at h5
  rw [h5, habs]; rfl

/-- **M3 (TTL write is there, however large the TTL).** After `set k v ttl` with any `ttl > 0` — `std::chrono::seconds::max()`
included — the key holds exactly `v` with deadline `min (now + ttl) lastRepresentableInstant`: the deadline saturates instead of
wrapping into the past (FC12b), so an acknowledged TTL write is never immediately absent (as long as the clock itself is
before the last representable instant). -/
theorem M3_ttl_deadline (cfg : Cfg) (hl : cfg.lim.OK) (w : W) (hi : Inv cfg w) (k : Key) (v : Val) (ttl : Int)
    (hok : StepOK cfg w (.setTtl k v ttl)) (hv : validate cfg.lim k v = none) (ht : 0 < ttl) (hn : w.now < cfg.lim.maxPlausible) :
    (step cfg w (.setTtl k v ttl)).1.abs.m k = some (v, some (deadlineAfter cfg.lim w.now ttl)) ∧
    w.now < deadlineAfter cfg.lim w.now ttl := by
  obtain ⟨_, h2, _⟩ := step_ok cfg hl w hi (.setTtl k v ttl) hok
  have hlt : w.now < deadlineAfter cfg.lim w.now ttl := by unfold deadlineAfter; omega
  refine ⟨?_, hlt⟩
  rw [h2]
  have h0 : ¬ ttl ≤ 0 := by omega
  have hnow : (W.abs w).now = w.now := rfl
  simp [specStep, hv, h0, Spec.upd, live, hnow, hlt]

/-- non-vacuity: a TTL of 8·10⁹ s (≈ 253 years, the coordinator's witness) satisfies the hypotheses on a fresh store -/
example : StepOK exCfg0 (W.init exCfg0 1000 []) (.setTtl [0x6b] [0x76] 8000000000) ∧ validate exCfg0.lim [0x6b] [0x76] = none ∧
    (1000 : Int) < exCfg0.lim.maxPlausible := ⟨⟨by decide, trivial⟩, by decide, by decide⟩

/-- **M4 (restart).** A clean close followed by a new instance on the same directory — at the current time, i.e. after
any clock advance — shows exactly the same abstract state: nothing is lost, nothing expired comes back, expiries are
the same absolute instants. -/
theorem M4_restart (cfg : Cfg) (hl : cfg.lim.OK) (w : W) (hi : Inv cfg w) :
    (step cfg w .reopen).1.abs = w.abs ∧ (step cfg w .reopen).2 = .ok ∧ Inv cfg (step cfg w .reopen).1 := by
  obtain ⟨a, b, c, d⟩ := reopen_ok cfg hl { w with tr := [] } hi.mem (FInv.resetTr cfg w hi.file)
  exact ⟨c, d, ⟨a, b, cacheOff_step cfg w hi.cacheOff .reopen⟩⟩

/-- **M4 (restart, over histories).** Corollary of `M1_refinement`: `reopen` may occur anywhere in a history, any number
of times, with clock advances of any size in between, and the store still equals the reference map — for which `reopen`
is the identity. -/
theorem M4_spec_identity (l : Lim) (s : SpecSt) : specStep l s .reopen = s := rfl

/-- **M5 (compaction).** Compaction changes nothing a reader can see; afterwards memory holds no expired key, and the
new snapshot alone holds exactly the live entries (value and expiry) — so nothing dropped can reappear from the files. -/
theorem M5_compaction (cfg : Cfg) (w : W) (hi : Inv cfg w) :
    (step cfg w .compact).1.abs = w.abs ∧
    (∀ k, (step cfg w .compact).1.mem.expired w.now k = false) ∧
    (∀ k, (snapState (survivors w.mem w.now)).look k = live w.now (w.mem.look k)) ∧
    (step cfg w .compact).1.fs = { snap := some (encodeSnap cfg.lim (survivors w.mem w.now)), log := some [], tmp := none } := by
  refine ⟨abs_compact cfg { w with tr := [] }, ?_, ?_, compact_fs cfg { w with tr := [] }⟩
  · intro k
    show (compactLocked cfg { w with tr := [] }).mem.expired w.now k = false
    unfold Mem.expired
    simp only [compactLocked]
    rw [Map.get?_filter_key w.mem.expiry (fun a => !w.mem.expired w.now a)]
    cases hx : w.mem.expired w.now k with
    | true => simp
    | false =>
      simp only [Bool.not_false, ↓reduceIte]
      unfold Mem.expired at hx
      exact hx
  · intro k
    rw [look_snapState_survivors cfg { w with tr := [] } hi.file.nodup k, look_compact, live_look_eq]
    show (if w.mem.expired w.now k = true then none else w.mem.look k) = _
    cases hx : w.mem.expired w.now k with
    | true => simp
    | false =>
      simp only [Bool.false_eq_true, ↓reduceIte, Bool.not_false, Bool.and_true]
      cases hh : w.mem.kv.has k with
      | true => rfl
      | false => simp [look_none_of_not_has _ _ hh]

/-! ## M6: `get()` on a cache miss racing a writer of the same key -/

/-- **Gen obligation (lock scopes).** What the translator extracts from `kvstore.hpp` about the guards on `_mutex` and
`_cacheMutex`: `get()` looks the key up and refills the cache inside ONE guard on `_mutex`; its fast path holds `_cacheMutex`
only; every writer changes `_cache`, `_kv` and `_expiry` while it holds `_mutex` exclusively; every access to `_cache` holds
`_cacheMutex` (writes: exclusively); every read of `_kv` / `_expiry` outside the constructor-only functions (`exists`, `ttl`,
`size`, `getBatch`, `keys`, ...) holds `_mutex` (`readersHoldStoreLock`).  These are the hypotheses under which a public method is one atomic step of the
sequential model as far as the read cache is concerned (`M6_get_miss_race`). -/
theorem gen_locks_ok :
    Gen.Kv.getRefillsCacheUnderStoreLock = true ∧ Gen.Kv.getFastPathTakesCacheLockOnly = true ∧
    Gen.Kv.writersTouchCacheUnderStoreLock = true ∧ Gen.Kv.storeWritesUnderStoreLock = true ∧
    Gen.Kv.cacheAccessUnderCacheLock = true ∧ Gen.Kv.readersHoldStoreLock = true := by
  decide

/-- **M6 (cache coherence under every schedule).** For the lock scopes of the working tree (`Race.Shape.gen`): whatever
the key holds (`kv`), whatever coherent cache entry it has, whatever a writer stores for it (`set`, `set`+TTL, `setBatch`,
`remove`, `expireAt`, `persist`, `clear`, eviction: `o.OK`), and for EVERY interleaving of the steps of `get()`'s cache-miss
path (lock `_mutex` shared, copy value and expiry, lock `_cacheMutex`, assign `_cache[k]`, unlock, unlock) with the
writer's steps (lock `_mutex`, store, lock `_cacheMutex`, update/erase `_cache[k]`, unlock, unlock), stopped anywhere:
the cache entry of the key is absent or equal to the stored entry (value and expiry) whenever the writer is not between its
two assignments; when the writer has returned, `_kv` holds what it stored.  So no `get`/`getString` can serve a removed
key, an overwritten value or a lapsed expiry from the cache after the writer's call has returned. -/
theorem M6_get_miss_race (fresh : Ent → Bool) (o : Race.WOp) (ho : o.OK) (kv cache : Option Ent)
    (h0 : cache = none ∨ cache = kv) (sched : List Bool) :
    let s := Race.run Race.Shape.gen fresh o (Race.St.init kv cache) sched
    ((s.w ≠ .wroteKv ∧ s.w ≠ .hasC) → s.Coherent) ∧ (s.w = .done → s.kv = o.kv) :=
  Race.race_coherent Race.Shape.gen (by decide) (by decide) fresh o ho kv cache h0 sched

/-- **M6 (progress).** Under the same lock scopes the two calls cannot block each other for ever: in every reachable
state in which a call has not returned at least one of the two threads can move (both take `_mutex` before
`_cacheMutex`), and the schedule "reader to its end, then writer to its end" makes both return. -/
theorem M6_progress (fresh : Ent → Bool) (o : Race.WOp) (ho : o.OK) (kv cache : Option Ent)
    (h0 : cache = none ∨ cache = kv) (sched : List Bool) :
    (let s := Race.run Race.Shape.gen fresh o (Race.St.init kv cache) sched
     ¬ (s.r = .done ∧ s.w = .done) →
       (Race.stepR Race.Shape.gen fresh s).r ≠ s.r ∨ (Race.stepW Race.Shape.gen o s).w ≠ s.w) ∧
    (let s := Race.run Race.Shape.gen fresh o (Race.St.init kv cache) (List.replicate 7 true ++ List.replicate 7 false)
     s.r = .done ∧ s.w = .done) :=
  ⟨fun hnd => Race.race_no_deadlock Race.Shape.gen (by decide) (by decide) fresh o _
      (Race.inv_run Race.Shape.gen (by decide) (by decide) fresh o ho sched _ (Race.inv_init _ o kv cache h0)) hnd,
   Race.race_terminates Race.Shape.gen (by decide) (by decide) fresh o kv cache⟩

/-- **M6 (the other lock scope is refuted).** If `get()` releases `_mutex` before it refills the cache, a schedule exists
after which both calls have returned, the key has been removed and the cache still holds its old value: the hypothesis
`getRefillsCacheUnderStoreLock` of `M6_get_miss_race` cannot be dropped. -/
theorem M6_unlocked_refill_refuted :
    ∃ (o : Race.WOp) (kv : Option Ent) (sched : List Bool), o.OK ∧
      let s := Race.run { refillUnderStoreLock := false, writerCacheUnderStoreLock := true } (fun _ => true) o (Race.St.init kv none) sched
      s.r = .done ∧ s.w = .done ∧ s.kv = none ∧ s.cache = kv ∧ kv ≠ none ∧ ¬ s.Coherent :=
  Race.race_refuted

/-- **M6 (any number of threads, any calls, every schedule).** The same lock skeleton with `n` threads for every `n`; each
thread makes any sequence of calls: the fast path of `get(k)` (a read of `_cache[k]` under `_cacheMutex`), `get(k)` on the
cache-miss path, any writer of `k` (`a.OK`: it erases the cache entry or sets it to what it stored), any erasure of `k`'s
cache entry under `_cacheMutex` (LRU victim of a call on another key).  For
the lock scopes of the working tree and EVERY schedule of their steps, stopped anywhere: (1) `k`'s cache entry is absent or
exactly the stored entry whenever no writer stands between its two assignments; (2) in particular whenever no call is in
flight (quiescence: what the harness' coherence monitor checks after the racing threads were joined); (3) `_mutex` has at
most one exclusive holder and then no shared holder; (4) `_cacheMutex` has at most one holder. -/
theorem M6_any_threads (n : Nat) (kv cache : Option Ent) (h0 : cache = none ∨ cache = kv) (sched : List RaceN.Act)
    (hok : ∀ a ∈ sched, a.OK) :
    let s := RaceN.run Race.Shape.gen (RaceN.St.init n kv cache) sched
    ((∀ i, i < n → (s.th i).mid = false) → s.Coherent) ∧
    ((∀ i, i < n → (s.th i).finished = true) → s.Coherent) ∧
    (∀ i j, i < n → j < n → (s.th i).holdsX Race.Shape.gen = true →
      (s.th j).holdsS Race.Shape.gen = false ∧ (i ≠ j → (s.th j).holdsX Race.Shape.gen = false)) ∧
    (∀ i j, i < n → j < n → i ≠ j → (s.th i).holdsC = true → (s.th j).holdsC = false) :=
  RaceN.raceN_coherent Race.Shape.gen (by decide) (by decide) n kv cache h0 sched hok

/-- the hypotheses of `M6_any_threads` are satisfiable by a schedule in which things happen: three threads, two `get(k)` and
one `set(k, [2])`; both readers take `_mutex` shared, the writer is blocked, reader 0 refills the cache with the old value,
the readers return, the writer runs to its end: the cache then holds the NEW value, no call is in flight -/
example :
    let sched : List RaceN.Act :=
      [.call 0 .get, .call 1 .get, .call 2 (.write { kv := some ([2], none), cache := some ([2], none) }),
       .move 0 true, .move 1 true, .move 2 true, .move 0 true, .move 1 true, .move 0 true, .move 0 true, .move 2 true,
       .move 0 true, .move 0 true, .move 1 true, .move 1 true, .move 1 true, .move 1 true,
       .move 2 true, .move 2 true, .move 2 true, .move 2 true, .move 2 true, .move 2 true]
    let s := RaceN.run Race.Shape.gen (RaceN.St.init 3 (some ([1], none)) none) sched
    (∀ a ∈ sched, a.OK) ∧ s.kv = some ([2], none) ∧ s.cache = some ([2], none) ∧
      (RaceN.run Race.Shape.gen (RaceN.St.init 3 (some ([1], none)) none) (sched.take 11)).cache = some ([1], none) := by
  refine ⟨?_, ?_⟩
  · intro a ha
    simp only [List.mem_cons, List.not_mem_nil, or_false] at ha
    rcases ha with h | h | h | h | h | h | h | h | h | h | h | h | h | h | h | h | h | h | h | h | h | h | h <;> subst h <;>
      first | trivial | exact Or.inr rfl
  · simp [RaceN.run, RaceN.apply, RaceN.stepTh, RaceN.nextR, RaceN.nextW, RaceN.St.init, RaceN.St.put, RaceN.St.setTh, RaceN.St.noX,
      RaceN.St.noS, RaceN.St.noC, RaceN.Th.finished, RaceN.Th.holdsX, RaceN.Th.holdsS, RaceN.Th.holdsC, Race.rHoldsMu, Race.rHoldsC,
      Race.wHoldsMu, Race.wHoldsC, RaceN.Call.start, Race.Shape.gen, Gen.Kv.getRefillsCacheUnderStoreLock,
      Gen.Kv.writersTouchCacheUnderStoreLock, List.range, List.range.loop]

/-- **M6 (any number of threads: the other lock scope is refuted).** With the refill outside the store lock two of the threads
suffice: a schedule exists after which no call is in flight, the key is removed and its cache entry still holds the old value. -/
theorem M6_any_threads_unlocked_refill_refuted :
    ∃ (kv : Option Ent) (sched : List RaceN.Act), (∀ a ∈ sched, a.OK) ∧
      let s := RaceN.run { refillUnderStoreLock := false, writerCacheUnderStoreLock := true } (RaceN.St.init 2 kv none) sched
      (∀ i, i < 2 → (s.th i).finished = true) ∧ s.kv = none ∧ s.cache = kv ∧ ¬ s.Coherent :=
  RaceN.raceN_refuted

/-- **M6 (the writers' lock scope is needed too).** If a writer releases `_mutex` before it updates the cache, two writers and
no reader suffice: `set(k, v)` ∥ `remove(k)` end, with no call in flight, with the key gone and the cache serving `v`.  So
`writersTouchCacheUnderStoreLock` cannot be dropped either (the two-thread model, one writer, cannot show this). -/
theorem M6_any_threads_unlocked_writer_refuted :
    ∃ (v : Ent) (sched : List RaceN.Act), (∀ a ∈ sched, a.OK) ∧
      let s := RaceN.run { refillUnderStoreLock := true, writerCacheUnderStoreLock := false } (RaceN.St.init 2 none none) sched
      (∀ i, i < 2 → (s.th i).finished = true) ∧ s.kv = none ∧ s.cache = some v ∧ ¬ s.Coherent :=
  RaceN.raceN_writer_scope_refuted

/-- **M6 (linearizability of one key to an atomic register).** `St.lin` is a ghost of the n-thread skeleton (no step reads
it).  For the lock scopes of the working tree, every `n`, every schedule, every reachable state: (1) what the fast path of
`get(k)` reads from `_cache[k]` is absent (a miss: the call goes on to the authoritative path) or `lin`; (2) what the miss
path is about to load from `_kv[k]` is `lin`; (3) `lin` is what `_kv[k]` holds whenever no writer stands between its two
assignments, in particular when no call is in flight.  Together with `M6_register_steps` (`lin` changes in exactly one step
of each writer's call — its assignment to `_cache[k]`, strictly between the call's first and last step — and becomes what
that writer stores) every `get` returns the value of an atomic register at a moment inside the call, and every writer
updates that register at a moment inside its call: the calls on one key are linearizable to the map specification's entry
for that key, which is what makes "every public method is one atomic step" (the sequential model, M1–M5) sound for the
values `get` returns, not only for the state at rest. -/
theorem M6_linearizable (n : Nat) (kv cache : Option Ent) (h0 : cache = none ∨ cache = kv) (sched : List RaceN.Act)
    (hok : ∀ a ∈ sched, a.OK) :
    let s := RaceN.run Race.Shape.gen (RaceN.St.init n kv cache) sched
    (s.cache = none ∨ s.cache = s.lin) ∧
    (∀ i tmp, i < n → s.th i = .rd .hasS tmp → s.kv = s.lin) ∧
    ((∀ i, i < n → (s.th i).mid = false) → s.lin = s.kv) :=
  RaceN.raceN_linearizable Race.Shape.gen (by decide) (by decide) n kv cache h0 sched hok

/-- **M6 (the register changes once per writer, inside its call).** An action leaves `lin` alone, or it is the step "writer
`i` assigns `_cache[k]`" (program counter `hasC`: the call has taken `_mutex` and `_cacheMutex` and has not released them) and
`lin` becomes what that writer stores.  Holds for every state and every lock scope. -/
theorem M6_register_steps (sh : Race.Shape) (s : RaceN.St) (a : RaceN.Act) :
    (RaceN.apply sh s a).lin = s.lin ∨
      ∃ i fresh o, a = .move i fresh ∧ i < s.n ∧ s.th i = .wr .hasC o ∧ (RaceN.apply sh s a).lin = o.kv :=
  RaceN.lin_apply sh s a

/-- **M6 (no deadlock, any number of threads).** In every reachable state of the n-thread skeleton in which some thread is
inside a call, some thread is not blocked (given the processor it moves, whatever its expiry test answers): every call takes
`_mutex` before `_cacheMutex`, a holder of `_cacheMutex` never waits, and a holder of `_mutex` waits for `_cacheMutex` only. -/
theorem M6_any_threads_progress (n : Nat) (kv cache : Option Ent) (h0 : cache = none ∨ cache = kv) (sched : List RaceN.Act)
    (hok : ∀ a ∈ sched, a.OK) :
    let s := RaceN.run Race.Shape.gen (RaceN.St.init n kv cache) sched
    ∀ i, i < n → (s.th i).finished = false → ∃ j, j < n ∧ RaceN.Moves Race.Shape.gen s j := by
  intro s i hin hf
  have hi : RaceN.Inv Race.Shape.gen s :=
    RaceN.inv_run Race.Shape.gen (by decide) (by decide) sched _ hok (RaceN.inv_init Race.Shape.gen n kv cache h0)
  have hn : s.n = n := RaceN.run_n Race.Shape.gen sched _
  obtain ⟨j, hj, hm⟩ := RaceN.raceN_no_deadlock Race.Shape.gen (by decide) (by decide) s hi i (hn ▸ hin) hf
  exact ⟨j, hn ▸ hj, hm⟩


/-! ## non-vacuity -/

/-- a concrete configuration: the limits of the working tree, a trivial CRC, cache of one entry, inline compaction at 64 bytes -/
def exCfg : Cfg := { lim := Lim.gen, crc := fun _ => 0, maxCache := 1, maxLog := 64, inlineCompact := true }

/-- the hypotheses of `M1_refinement` are satisfiable by a history that sets, overwrites with a TTL, lets it lapse,
re-arms, compacts inline and evicts -/
example : RunOK exCfg (W.init exCfg 1000 [])
    [.set [1] [2], .setTtl [1] [3] 5, .set [7, 7] [], .advance 6000, .expireAt [7, 7] 9000, .evictFire [1] 1, .persist [7, 7]] := by
  refine ⟨⟨by decide, trivial⟩, ⟨by decide, by decide⟩, ⟨by decide, trivial⟩, ⟨by decide, trivial⟩, ⟨by decide, by decide⟩,
    ⟨by decide, trivial⟩, ⟨by decide, trivial⟩, trivial⟩

example : validate Lim.gen [1] [2] = none := by decide

end Iora.C12
