import IoraModel.Props.C11
import IoraModel.Props.C13
import IoraModel.Lemmas.KvJfsStore
/-!
# C11, clause J1: "the JSON store reopens to the last completed flush … never an empty store"

`JsonFileStore` flushes `_store.dump(2)`; its constructor reads the whole file through `Json::parseOrThrow(content, ownFileLimits())`
and falls back to an EMPTY store on a parse error.  `Props/C11.lean` proves which BYTES the store file holds at every crash point;
`Props/C13.lean` proves that the serialisation of every representable value parses back to that value WITHIN the parse limits.
The constructor's limits are generated (`Gen.Kv.jsonCtor*`); after repair FC11c they are `SIZE_MAX` each, so "within the limits"
follows from "fits into a 64-bit address space" (`Jfs.weight v < 2^64`, true of every value a process holds) — the theorems below
carry no limit hypothesis any more.  (With the default `ParseLimits` — the unrepaired constructor, `file >> _store` —
`Jfs.ctorLimits_eq` does not build: a 10 001-key store reopened EMPTY, `C13.W2_stream_operators_gap`.)
-/
namespace Iora.C11
open Iora

/-- **Gen obligation.** `JsonFileStore`'s constructor re-reads its own file with no limit at all (every `ParseLimits` field is
`SIZE_MAX`), and `saveToFile` writes `dump(n)` with some `n ≥ 0` (pretty-printed with `n` spaces; the theorems hold for every such `n`). -/
theorem gen_json_ctor_ok :
    Jfs.ctorLimits = Jfs.limAll (2 ^ 64 - 1) ∧ 0 ≤ Gen.Kv.jsonSaveDumpIndent :=
  ⟨Jfs.ctorLimits_eq, Jfs.dumpIndent_nonneg⟩

/-- **Gen obligation (flusher thread, repair FC11e).** `flushThreadFunc` flushes the registered stores while holding `registryMutex`
(so `unregisterStore()`, the first thing a destructor does, cannot return while that store is being flushed: no use after destruction)
and only ever TRIES to take that mutex (`unregisterStore()` joins the thread while holding it: waiting for it deadlocked the destructor of
the last store).  Liveness / memory safety of the registry are not clauses of C11; the fact is pinned because the correspondence run
destroys and re-creates stores next to a live flusher thread. -/
theorem gen_json_flusher_ok : Gen.Kv.jsonFlusherHoldsRegistryNeverWaits = true := by decide

/-- **J1 ∘ J2 (every crash point of a flush).** For every document `v` made of finite numbers that fits into the address space
(`Jfs.DocOK`), under C13's explicit libc facts, every directory and every crash point of the flush of `v`: a new process (the
CONSTRUCTOR: read, parse with its own limits, fall back to empty on error) starts with exactly what it would have started with
before the flush, or with exactly `v` — never with the fall-back's empty store because of the flush. -/
theorem J1_reparse (ops : Json.FloatOps) (hl : Json.Spec.LibcOk ops) (v : Json.Json) (hv : Jfs.DocOK v) (fs : Kv.Fs) (k cut : Nat) :
    Jfs.openStore ops (Kv.crashImage fs (Jfs.saveToFile (Jfs.text ops v)) k cut) = Jfs.openStore ops fs ∨
    Jfs.openStore ops (Kv.crashImage fs (Jfs.saveToFile (Jfs.text ops v)) k cut) = ⟨v, false⟩ := by
  rcases J1_flush_atomic fs (Jfs.text ops v) k cut with h | h
  · exact .inl (Jfs.openStore_congr ops _ _ h)
  · exact .inr (Jfs.openStore_of_loaded ops hl v hv _ h)

/-- after any sequence of completed flushes the constructor loads the last flushed document -/
theorem J1_last_reparse (ops : Json.FloatOps) (hl : Json.Spec.LibcOk ops) (v : Json.Json) (hv : Jfs.DocOK v) (fs : Kv.Fs) (datas : List Bytes) :
    Jfs.openStore ops (Jfs.flushAll fs (datas ++ [Jfs.text ops v])) = ⟨v, false⟩ :=
  Jfs.openStore_of_loaded ops hl v hv _ (J1_last_flush fs datas _)

/-- **J2 (the store with state: set / remove / flush / destructor / constructor).** Start a store on ANY directory, run ANY history
of `set`, `remove` and `flush()` calls (every document along the way `DocOK`): a clean close (the destructor flushes a dirty
store) followed by a new instance gives back exactly the document the store held — whatever was or was not flushed before. -/
theorem J2_history_reopen (ops : Json.FloatOps) (hl : Json.Spec.LibcOk ops) (fs0 : Kv.Fs) (hist : List Jfs.Op)
    (hok : Jfs.HistOK ops (Jfs.openStore ops fs0) fs0 hist) :
    let r := Jfs.runOps ops (Jfs.openStore ops fs0) fs0 hist
    (Jfs.reopen ops r.1 r.2).1 = ⟨r.1.doc, false⟩ := by
  intro r
  have h := Jfs.Coherent.run ops hl hist _ _ (Jfs.Coherent.open ops fs0) hok
  exact Jfs.reopen_doc ops hl r.1 r.2 h.1 h.2

/-- **J2 (crash inside any flush of any history).** After any such history, a crash at any point of the NEXT flush (or of the
destructor's flush): a new instance starts with the document of the last COMPLETED flush (what a new instance would have
loaded had the process died just before this flush) or with the document being flushed. -/
theorem J2_history_crash (ops : Json.FloatOps) (hl : Json.Spec.LibcOk ops) (fs0 : Kv.Fs) (hist : List Jfs.Op)
    (hok : Jfs.HistOK ops (Jfs.openStore ops fs0) fs0 hist) (k cut : Nat) :
    let r := Jfs.runOps ops (Jfs.openStore ops fs0) fs0 hist
    Jfs.openStore ops (Kv.crashImage r.2 (Jfs.saveToFile (Jfs.text ops r.1.doc)) k cut) = Jfs.openStore ops r.2 ∨
    Jfs.openStore ops (Kv.crashImage r.2 (Jfs.saveToFile (Jfs.text ops r.1.doc)) k cut) = ⟨r.1.doc, false⟩ := by
  intro r
  have h := Jfs.Coherent.run ops hl hist _ _ (Jfs.Coherent.open ops fs0) hok
  exact J1_reparse ops hl r.1.doc h.2 r.2 k cut

/-- the hypotheses are satisfiable by a non-trivial history: a key set, flushed, a second key, the first removed -/
example : Jfs.HistOK Json.Spec.toyOps (Jfs.openStore Json.Spec.toyOps {}) {}
    [.set [0x61] (.str [0x78]), .flush, .set [0x62] (.int (-5)), .remove [0x61]] := by
  simp [Jfs.HistOK, Jfs.Store.step, Jfs.openStore, Jfs.loaded, Jfs.Store.empty, Jfs.Store.remove, Jfs.DocOK, Json.setKey,
    Json.insertOrAssign, Json.Json.Good, Json.Json.GoodMembers, Jfs.weight, Jfs.weightMembers]

/-! ## the flusher thread against the application thread (seed C11-d) -/

/-- **J3 (two roles, every interleaving).** The flusher thread's `tryFlushIfDirty()` and the application's `set()` / `flush()` /
destructor, interleaved in ANY order at the granularity "dump taken — `<file>.tmp` written — renamed", with the lock scope of the
working tree (`Gen.Kv.jsonSaveCallersHoldMutex`): at every moment the store file is the dump of a state NO OLDER than the last
completed `flush()` (`acked ≤ file`) and never from the future; and whenever nobody is inside a flush and the store is clean, the
file is the dump of the current document. -/
theorem J3_flush_race (evs : List Jfs.Race.Ev) :
    let s := Jfs.Race.runGen {} evs
    s.acked ≤ s.file ∧ s.file ≤ s.mem ∧ (s.fg = .idle → s.bg = .idle → s.dirty = false → s.file = s.mem) := by
  intro s
  have hg : Gen.Kv.jsonSaveCallersHoldMutex = true := by decide
  have h : Jfs.Race.Inv s := by
    show Jfs.Race.Inv (Jfs.Race.run Gen.Kv.jsonSaveCallersHoldMutex {} evs)
    rw [hg]; exact Jfs.Race.Inv.init.run evs
  exact ⟨h.1, h.2.1, h.2.2.1⟩

/-- the full statement of J3 for a given lock scope -/
def J3_statement (locked : Bool) : Prop :=
  ∀ evs : List Jfs.Race.Ev, (Jfs.Race.run locked {} evs).acked ≤ (Jfs.Race.run locked {} evs).file

/-- **J3 needs the lock.** When the file operations of a save run after `_mutex` has been released (seed C11-d and its variant that
keeps the `ofstream` inside `saveToFile`), the schedule `set; bg takes its dump; set; flush() completes; bg writes and renames`
leaves generation 1 in the file although `flush()` of generation 2 had completed — with nobody in a flush and `_dirty == false`,
so nothing will ever repair it. -/
theorem J3_unlocked_refuted : ¬ J3_statement false := by
  intro h
  have := h Jfs.Race.witness
  have hw := Jfs.Race.witness_unlocked
  omega

theorem J3_locked : J3_statement true := fun evs => (Jfs.Race.Inv.init.run evs).1

end Iora.C11
