import IoraModel.Props.C11
import IoraModel.Props.C13
/-!
# C11, clause J1 composed with C13-J2: "never empty or unreadable"

`JsonFileStore` flushes `_store.dump(2)` and its constructor parses the file, falling back to an EMPTY store on a parse error.
`Props/C11.lean` proves which BYTES the store file holds at every crash point; `Props/C13.lean` proves that the serialisation of
every representable value parses back to that value.  Together: the document a new process loads is the old file's, or exactly
the flushed value.  (Kept in its own module so that C11's core does not depend on C13's files.)
-/
namespace Iora.C11
open Iora

/-- **J1 ∘ J2.** For every representable document `v` (finite numbers) within the parse limits, under C13's explicit libc facts `LibcOk`, every pretty/compact setting, every directory and
every crash point of the flush of `serialize v`: the store file is untouched, or it holds a text that parses to exactly `v` — so
the constructor's "parse error ⇒ empty store" fall-back can never fire on a file this code wrote. -/
theorem J1_reparse (ops : Json.FloatOps) (hl : Json.Spec.LibcOk ops) (lim : Json.Limits) (o : Json.Opts) (wi : Json.Spec.Ws) (hind : wi.render = o.indent)
    (hns : o.sortKeys = false) (v : Json.Json) (hg : v.Good) (hw : v.within lim 0 0) (fs : Kv.Fs) (k cut : Nat) :
    Jfs.loaded (Kv.crashImage fs (Jfs.saveToFile (Json.serialize ops o 0 v)) k cut) = Jfs.loaded fs ∨
    ∃ d, Jfs.loaded (Kv.crashImage fs (Jfs.saveToFile (Json.serialize ops o 0 v)) k cut) = some d ∧ Json.parse ops lim d = .ok v := by
  rcases J1_flush_atomic fs (Json.serialize ops o 0 v) k cut with h | h
  · exact .inl h
  · exact .inr ⟨_, h, C13.J2_roundtrip ops hl lim o wi hind hns v hg hw⟩

/-- after any sequence of completed flushes the file parses to the last flushed document -/
theorem J1_last_reparse (ops : Json.FloatOps) (hl : Json.Spec.LibcOk ops) (lim : Json.Limits) (o : Json.Opts) (wi : Json.Spec.Ws) (hind : wi.render = o.indent)
    (hns : o.sortKeys = false) (v : Json.Json) (hg : v.Good) (hw : v.within lim 0 0) (fs : Kv.Fs) (datas : List Bytes) :
    ∃ d, Jfs.loaded (Jfs.flushAll fs (datas ++ [Json.serialize ops o 0 v])) = some d ∧ Json.parse ops lim d = .ok v :=
  ⟨_, J1_last_flush fs datas _, C13.J2_roundtrip ops hl lim o wi hind hns v hg hw⟩

end Iora.C11
