import IoraModel.Props.C20
import IoraModel.Lemmas.AssetsServe
/-!
# C20, serve layer — the HTTP glue in front of `Assets::getStatic` adds no way out of the root

`Application::serveStatic`'s handler (model: `serveStaticAt`, `Model/AssetsServe.lean`) percent-decodes the RAW wildcard suffix
`req.pathRest` EXACTLY ONCE (`urlDecode`; the HTTP server never decodes: generated fact `httpServerDecodeCalls = 0`), runs a cheap
pre-check and hands the DECODED path to `getStatic`.  Statements only; lemmas in `Lemmas/AssetsServe.lean`; constants, operands,
status codes and the step order in the regenerated `Gen/AssetsServe.lean`.

Not in the model (see the header of the model file): the `If-None-Match`/304 branch (no body at all), the other response headers,
the q-value grammar of `gzipAcceptable` (its boolean answer is the input `acceptGzip`), Mustache (for `render` the generated
census `renderAssetsUses` says that every access goes through `getTemplate`, whose containment is `A3_template` / `A5_history`).
-/
namespace Iora.C20
open Iora Iora.Assets

/-! ## S1 — the decoder removes exactly one level -/

/-- **S1.** `urlDecode` (= `percentDecode(·, false)`) for ALL byte strings, as one left-to-right pass:
(1) the output is never longer than the input; (2) a byte other than `%` is copied; (3) `%XY` with two hex digits becomes the ONE
byte `16·X + Y` and the pass continues after `Y` — the produced byte is never decoded again; (4) a `%` that is NOT followed by two
hex digits (end of string, `%2`, `%zz`, `%%41`) is kept literally and the pass continues right after it; (5) a string without
`%` is unchanged; (6) `+` is not a space.  (2)–(4) cover every non-empty input, so they determine the function. -/
theorem S1_decode_once :
    (∀ p, (urlDecode p).length ≤ p.length) ∧
    (∀ c rest, c ≠ 37 → urlDecode (c :: rest) = c :: urlDecode rest) ∧
    (∀ h l rest a b, hexNibble h = some a → hexNibble l = some b →
      urlDecode (37 :: h :: l :: rest) = b8 (16 * a + b) :: urlDecode rest ∧ 16 * a + b < 256) ∧
    (∀ rest, ¬ TwoHex rest → urlDecode (37 :: rest) = 37 :: urlDecode rest) ∧
    (∀ p, (37 : UInt8) ∉ p → urlDecode p = p) ∧
    urlDecode [97, 43, 98] = [97, 43, 98] :=
  ⟨urlDecode_length_le, urlDecode_cons_ne,
   fun h l rest a b ha hb => ⟨urlDecode_hex h l rest a b ha hb, by have := hexNibble_lt h a ha; have := hexNibble_lt l b hb; omega⟩,
   urlDecode_literal, urlDecode_no_escape, by decide⟩

/-- the hex digits: `0-9`, `a-f`, `A-F` (both cases), nothing else -/
theorem S1_hex_digits (c : UInt8) :
    hexNibble c =
      if 48 ≤ c.toNat ∧ c.toNat ≤ 57 then some (c.toNat - 48)
      else if 97 ≤ c.toNat ∧ c.toNat ≤ 102 then some (c.toNat - 97 + 10)
      else if 65 ≤ c.toNat ∧ c.toNat ≤ 70 then some (c.toNat - 65 + 10)
      else none := hexNibble_eq c

/-- **S1 (NOT idempotent: exactly one level).** `%252e` ↦ `%2e` ↦ `.`: a second application would decode further, so the handler
must — and does (`Gen_serve_skeleton`: `decodeDepth = 1`, no decode in the HTTP server) — apply it once.  Also: `%2E`/`%2e` both
give `.`, `%2` / `%` / `%zz` stay, `%2e%2e%2f` is `../`, `%00` is a NUL byte, `%5c` a backslash. -/
theorem S1_not_idempotent :
    urlDecode [37, 50, 53, 50, 101] = [37, 50, 101] ∧ urlDecode (urlDecode [37, 50, 53, 50, 101]) = [46] ∧
    urlDecode [37, 50, 69] = [46] ∧ urlDecode [37, 50] = [37, 50] ∧ urlDecode [37] = [37] ∧
    urlDecode [37, 122, 122] = [37, 122, 122] ∧ urlDecode [37, 50, 101, 37, 50, 101, 37, 50, 102] = [46, 46, 47] ∧
    urlDecode [37, 48, 48] = [0] ∧ urlDecode [37, 53, 99] = [92] ∧ urlDecode [37, 37, 52, 49] = [37, 65] := by decide

/-- non-vacuity of the hypotheses of S1 (3) and (4) -/
example : hexNibble 50 = some 2 ∧ hexNibble 101 = some 14 ∧ ¬ TwoHex [50] ∧ ¬ TwoHex [122, 122] := by
  refine ⟨by decide, by decide, ?_, ?_⟩
  · rintro ⟨h, l, r, a, b, e, _, _⟩; cases e
  · rintro ⟨h, l, r, a, b, e, ha, _⟩; cases e
    have hz : hexNibble 122 = none := by decide
    rw [hz] at ha; cases ha

/-! ## S5 — the glue's pre-check is redundant -/

/-- **S5.** Whatever the pre-check of the handler refuses (`hasDotDotSegment(d) || d.front() == '/'`), `getStatic`'s own lexical
filter refuses too: the pre-check never decides containment, it only answers 400 earlier. -/
theorem S5_prefilter_redundant (d : Bytes) (h : hasDotDotSegment d = true ∨ d.head? = some 47) : lexicallyRejected d = true := by
  apply precheck_imp_rejected
  simp only [precheck, Bool.or_eq_true, Gen.AssetsServe.precheckLeading]
  rcases h with h | h
  · exact Or.inl h
  · exact Or.inr (by simp [h])

example : hasDotDotSegment [97, 47, 46, 46] = true ∧ ([47, 97] : Bytes).head? = some 47 ∧ hasDotDotSegment [46, 46, 46] = false := by decide

/-! ## S2 — the status code says what happened to the DECODED path -/

/-- **S2.** For ALL raw paths, instances, snapshots: the status is 200, 400 or 404;
200 ⇔ the once-decoded path passes the pre-check and `getStatic` of the DECODED path found a blob — and then the decoded path
passes the lexical filter, i.e. (A1) it has no leading `/`, no NUL, no backslash and no `..` segment;
400 ⇔ pre-check or `Rejected`;  404 ⇔ `NotFound`. -/
theorem S2_serve_status (sn : Snaps) (a : Assets) (raw : Bytes) (acc : Bool) :
    let d := urlDecode raw
    let r := (serveStaticAt sn a raw acc).1
    (r.status = 200 ∨ r.status = 400 ∨ r.status = 404) ∧
    (r.status = 200 ↔ precheck d = false ∧ ∃ b, (getStaticAt sn a d).1 = .found b) ∧
    (r.status = 200 → lexicallyRejected d = false ∧
      d.head? ≠ some 47 ∧ (0 : UInt8) ∉ d ∧ (92 : UInt8) ∉ d ∧ dotdot ∉ splitSlash d) ∧
    (r.status = 400 ↔ precheck d = true ∨ (getStaticAt sn a d).1 = .rejected) ∧
    (r.status = 404 ↔ precheck d = false ∧ (getStaticAt sn a d).1 = .notFound) := by
  intro d r
  have key : r.status = 200 → ∃ b, (getStaticAt sn a d).1 = .found b := by
    intro h
    rcases serveStaticAt_cases sn a raw acc with ⟨_, e⟩ | ⟨_, _, _, e⟩ | ⟨_, _, _, e⟩ | ⟨_, b, _, hg, _⟩
    · simp [r, e] at h
    · simp [r, e] at h
    · simp [r, e] at h
    · exact ⟨b, by simp [d, hg]⟩
  refine ⟨?_, ?_, ?_, ?_, ?_⟩
  · rcases serveStaticAt_cases sn a raw acc with ⟨_, e⟩ | ⟨_, _, _, e⟩ | ⟨_, _, _, e⟩ | ⟨_, _, _, _, e⟩ <;> simp [r, e]
  · rcases serveStaticAt_cases sn a raw acc with ⟨hp, e⟩ | ⟨hp, _, hg, e⟩ | ⟨hp, _, hg, e⟩ | ⟨hp, b, _, hg, e⟩
    · simp [r, d, e, hp]
    · simp [r, d, e, hp, hg]
    · simp [r, d, e, hp, hg]
    · simp [r, d, e, hp, hg]
  · intro h
    obtain ⟨b, hb⟩ := key h
    have hl := getStaticAt_found_not_rejected sn a d b hb
    exact ⟨hl, (A1_lexical_filter d).mp hl⟩
  · rcases serveStaticAt_cases sn a raw acc with ⟨hp, e⟩ | ⟨hp, _, hg, e⟩ | ⟨hp, _, hg, e⟩ | ⟨hp, b, _, hg, e⟩
    · simp [r, d, e, hp]
    · simp [r, d, e, hp, hg]
    · simp [r, d, e, hp, hg]
    · simp [r, d, e, hp, hg]
  · rcases serveStaticAt_cases sn a raw acc with ⟨hp, e⟩ | ⟨hp, _, hg, e⟩ | ⟨hp, _, hg, e⟩ | ⟨hp, b, _, hg, e⟩
    · simp [r, d, e, hp]
    · simp [r, d, e, hp, hg]
    · simp [r, d, e, hp, hg]
    · simp [r, d, e, hp, hg]

/-- non-vacuity in `exFs` (`/s/a` holds `[7]`, `/s/l -> /o/x` escapes): `a` and `%61` are served; `%2e%2e/o/x` is refused by the
pre-check; the escaping link `l` is `Rejected` (400); `%252e%252e/o/x` decodes ONCE to `%2e%2e/o/x`, a name that does not exist (404) -/
example :
    (serveStatic exFs (.filesystem exSt) [97] false).1.status = 200 ∧
    (serveStatic exFs (.filesystem exSt) [37, 54, 49] false).1 = ⟨200, [7], false, Gen.Assets.mimeDefault⟩ ∧
    (serveStatic exFs (.filesystem exSt) [37, 50, 101, 37, 50, 101, 47, 111, 47, 120] false).1.status = 400 ∧
    (serveStatic exFs (.filesystem exSt) [108] false).1.status = 400 ∧
    (serveStatic exFs (.filesystem exSt) [37, 50, 53, 50, 101, 37, 50, 53, 50, 101, 47, 111, 47, 120] false).1.status = 404 := by
  decide

/-! ## S3 — the body -/

/-- **S3.** Status 200 ⇒ the body is taken from THE blob `b` that `getStatic` returned for the once-decoded path: its bytes, or —
only if the client accepts gzip — its gzip bytes (and then, and only then, `Content-Encoding: gzip`); the content type is the
blob's; the new `Assets` state is the one `getStatic` left.  Any other status carries one of the two fixed strings: no file byte. -/
theorem S3_serve_body (sn : Snaps) (a : Assets) (raw : Bytes) (acc : Bool) :
    let r := (serveStaticAt sn a raw acc).1
    (r.status = 200 → ∃ b a', getStaticAt sn a (urlDecode raw) = (.found b, a') ∧ (serveStaticAt sn a raw acc).2 = a' ∧
      r.mime = b.mime ∧ ((r.body = b.bytes ∧ r.gzip = false) ∨ (acc = true ∧ b.gz = some r.body ∧ r.gzip = true))) ∧
    (r.status ≠ 200 → r.gzip = false ∧
      (r.body = [66, 97, 100, 32, 114, 101, 113, 117, 101, 115, 116] ∨ r.body = [78, 111, 116, 32, 70, 111, 117, 110, 100])) := by
  intro r
  rcases serveStaticAt_cases sn a raw acc with ⟨_, e⟩ | ⟨_, _, _, e⟩ | ⟨_, _, _, e⟩ | ⟨_, b, a', hg, e⟩
  · simp [r, e, Gen.AssetsServe.precheckBody]
  · simp [r, e, Gen.AssetsServe.rejectedBody]
  · simp [r, e, Gen.AssetsServe.notFoundBody]
  · refine ⟨fun _ => ⟨b, a', hg, by simp [e], by simp [r, e], ?_⟩, fun h => absurd (by simp [r, e]) h⟩
    cases hz : b.gz with
    | none => exact Or.inl (by simp [r, e, selectBody, hz])
    | some g =>
      cases acc with
      | false => exact Or.inl (by simp [r, e, selectBody, hz])
      | true => exact Or.inr (by simp [r, e, selectBody, hz])

/-- the world `exFs` with a gzip sibling `/s/a.gz` holding `[3]` -/
def exFsGz : Fs := exFs.set [[97, 46, 103, 122], [115]] (.file [3])
/-- both branches of the selection are reachable, and so is a refusal -/
example :
    (serveStatic exFsGz (.filesystem exSt) [97] true).1 = ⟨200, [3], true, Gen.Assets.mimeDefault⟩ ∧
    (serveStatic exFsGz (.filesystem exSt) [97] false).1 = ⟨200, [7], false, Gen.Assets.mimeDefault⟩ ∧
    (serveStatic exFsGz (.filesystem exSt) [110] true).1.status = 404 := by decide

/-! ## S4 — the link to C20: what a 200 carries is inside the root -/

/-- **S4.** Filesystem mode, file system at rest (`Snaps.const fs`), nothing cached, canonical root (what `fromDirectory`
delivers, A0): for ALL raw request paths, a 200 response's body is the content of a REGULAR FILE STRICTLY INSIDE the static
root — the file `realpath(<root>/<decoded path>)` or its `.gz` sibling.  (S3 composed with `A3_static` and `NamedFile.inside`.) -/
theorem S4_serve_contained (fs : Fs) (st : FsState) (bn : List Name) (raw : Bytes) (acc : Bool)
    (hroot : RootOK st.staticsRoot bn) (hcache : st.staticCache = [])
    (h : (serveStatic fs (.filesystem st) raw acc).1.status = 200) :
    Inside fs bn (serveStatic fs (.filesystem st) raw acc).1.body ∧
    ∃ b, NamedFile fs st.staticsRoot bn (urlDecode raw) b ∧
      ((serveStatic fs (.filesystem st) raw acc).1.body = b.bytes ∨ b.gz = some (serveStatic fs (.filesystem st) raw acc).1.body) := by
  obtain ⟨b, a', hg, _, _, hb⟩ := (S3_serve_body (Snaps.const fs) (.filesystem st) raw acc).1 h
  obtain ⟨hn, hnamed⟩ := A3_static fs st bn (urlDecode raw) b a' hroot hcache hg
  have hgood := NamedFile.inside hroot hn hnamed
  unfold serveStatic
  rcases hb with ⟨e, _⟩ | ⟨_, e, _⟩
  · exact ⟨by rw [e]; exact hgood.1, b, hnamed, Or.inl e⟩
  · exact ⟨hgood.2 _ e, b, hnamed, Or.inr e⟩

/-- non-vacuity: the hypotheses hold in `exFs` for the raw path `%61` (and `exRoot : RootOK exSt.staticsRoot [[115]]`) -/
example : exSt.staticCache = [] ∧ (serveStatic exFs (.filesystem exSt) [37, 54, 49] false).1.status = 200 := by decide

/-- **S4 (every interleaving point).** The same through the handler while the environment acts DURING the lookup (one snapshot per
system call, `LeafOnly` between them — the quantifier of `A4_every_point`): a 200 body is the content of a regular file strictly
inside the root in the snapshot of the `open` that read it (`o` for the identity bytes, `z` for the gzip sibling). -/
theorem S4_serve_every_point (sn : Snaps) (st : FsState) (bn : List Name) (raw : Bytes) (acc : Bool)
    (hroot : RootOK st.staticsRoot bn) (hcache : st.staticCache = [])
    (hL : LeafOnly sn (pathAppend st.staticsRoot (urlDecode raw)) bn)
    (h : (serveStaticAt sn (.filesystem st) raw acc).1.status = 200) :
    Inside sn.o bn (serveStaticAt sn (.filesystem st) raw acc).1.body ∨
    Inside sn.z bn (serveStaticAt sn (.filesystem st) raw acc).1.body := by
  obtain ⟨b, a', hg, _, _, hb⟩ := (S3_serve_body sn (.filesystem st) raw acc).1 h
  have hin := A4_every_point sn st bn (urlDecode raw) b a' hroot hcache hL hg
  rcases hb with ⟨e, _⟩ | ⟨_, e, _⟩
  · exact Or.inl (by rw [e]; exact hin.1)
  · exact Or.inr (hin.2 _ e)

/-- non-vacuity: the leaf `/s/a` is swapped for a link to the secret just before the sibling test (point G): the hypotheses hold
and the handler still answers 200 with the bytes `[7]` read before the swap -/
example : LeafOnly (Snaps.switchAt exFs exSwap .G) (pathAppend exSt.staticsRoot (urlDecode [97])) [[115]] ∧
    (serveStaticAt (Snaps.switchAt exFs exSwap .G) (.filesystem exSt) [97] true).1 = ⟨200, [7], false, Gen.Assets.mimeDefault⟩ :=
  ⟨A4_leaf_swap_admissible exFs [[97], [115]] (.link [47, 111, 47, 120]) .G _ [[115]] (by decide) (by decide)
    (fun hs => absurd hs (by decide)), by decide⟩

/-! ## Conformance of the regenerated facts with what the model and the proofs assume -/

/-- `percentDecode`: `%`, `i + 2 < n`, digits at `i+1` / `i+2`, `(hi << 4) | lo`, `i += 3`, a stray `%` is copied as `%`;
`urlDecode` passes `plusIsSpace = false` -/
theorem Gen_percent_shape :
    Gen.AssetsServe.escapeByte = 37 ∧ Gen.AssetsServe.lookAhead = 2 ∧ Gen.AssetsServe.lookCmp = "<" ∧
    Gen.AssetsServe.hiOffset = 1 ∧ Gen.AssetsServe.loOffset = 2 ∧ Gen.AssetsServe.hiShift = 4 ∧ Gen.AssetsServe.advance = 3 ∧
    Gen.AssetsServe.literalByte = 37 ∧ Gen.AssetsServe.plusByte = 43 ∧ Gen.AssetsServe.spaceByte = 32 ∧
    Gen.AssetsServe.urlDecodePlusIsSpace = false ∧
    Gen.AssetsServe.hexRanges = [(48, 57, 0), (97, 102, 10), (65, 70, 10)] := by decide

/-- `hasDotDotSegment` splits at `/` and refuses the segment `..` — the same separator and segment as `lexicallyRejected` -/
theorem Gen_dotdot : Gen.AssetsServe.ddSeparator = Gen.Assets.segmentSeparator ∧
    [Gen.AssetsServe.ddRefused] = Gen.Assets.forbiddenSegments ∧ Gen.AssetsServe.precheckLeading = 47 := by decide

/-- the handler: decode `req.pathRest` ONCE, pre-check and `getStatic` on the DECODED path, one `_assets.` access, the step
order, the refusals' codes, the gzip selection, every write of status / body; `render` reaches the assets only through
`getTemplate`; the HTTP server never decodes -/
theorem Gen_serve_skeleton :
    Gen.AssetsServe.decodeDepth = 1 ∧ Gen.AssetsServe.decodeArg = "req.pathRest" ∧
    Gen.AssetsServe.precheckArgs = ["decodedPath", "decodedPath", "decodedPath"] ∧ Gen.AssetsServe.getStaticArg = "decodedPath" ∧
    Gen.AssetsServe.precheckOnDecoded = true ∧ Gen.AssetsServe.getStaticOnDecoded = true ∧
    Gen.AssetsServe.serveAssetsUses = [("getStatic", "decodedPath")] ∧
    Gen.AssetsServe.serveOrder = ["urlDecode", "hasDotDotSegment", ".front()", "_assets.getStatic", "Status::Rejected",
      "Status::NotFound", "serveGzip =", "If-None-Match", "body =", "set_content(std::string(body)"] ∧
    (Gen.AssetsServe.precheckStatus, Gen.AssetsServe.rejectedStatus, Gen.AssetsServe.notFoundStatus, Gen.AssetsServe.okStatus)
      = (400, 400, 404, 200) ∧
    Gen.AssetsServe.serveGzipConjuncts = ["blob.gzipVariantExists", "blob.gzipBytes.has_value()",
      "gzipAcceptable(req.get_header_value(\"Accept-Encoding\"))"] ∧
    Gen.AssetsServe.gzipBytesWhenServeGzip = true ∧
    Gen.AssetsServe.serveWrites = ["res.status = 400", "res.set_content(\"Bad request\", \"text/plain; charset=utf-8\")",
      "res.status = 400", "res.set_content(\"Bad request\", \"text/plain; charset=utf-8\")",
      "res.status = 404", "res.set_content(\"Not Found\", \"text/plain; charset=utf-8\")",
      "res.status = 304", "res.body.clear()", "res.set_content(std::string(body), mime)"] ∧
    Gen.AssetsServe.renderAssetsUses = [("getTemplate", "templateName"), ("getTemplate", "name")] ∧
    Gen.AssetsServe.httpServerDecodeCalls = 0 := by decide

end Iora.C20
