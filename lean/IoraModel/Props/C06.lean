import IoraModel.Lemmas.UdpEngine
import IoraModel.Lemmas.UdpTokens
import IoraModel.Lemmas.UdpCount
import IoraModel.Lemmas.UdpArm
import IoraModel.Lemmas.UdpWake
/-!
# C06 — UDP keeps datagram boundaries and the peer-to-session mapping

Property theorems only (lemmas: `Lemmas/UdpEngine.lean`; model: `Model/UdpEngine.lean`; translated facts: `Gen/Udp.lean`).
`run cfg h` is the I/O thread run on the history `h` from a fresh engine; histories contain every kernel answer, so
"for all `h`" is "for all peers, sizes, contents, interleavings of opens/closes/sends/receives/expiry and all EAGAIN/error
patterns".  `Cfg` defaults are the repository's `TransportConfig` defaults (regenerated on every run).
-/
namespace Iora.C06
open Iora Iora.Udp

/-- the configuration the engine runs with by default (all fields from `Gen/Udp.lean`) -/
def defaultCfg : Cfg := {}

/-! ## Obligations on the translated facts

Every `Gen.Udp.*` value below is DERIVED by `tools/tr_udp.py` from the text of the working tree on each run (a boolean is the
result of matching the named shape, a list is what was found) — none is a literal of the translator.  A source shape the
translator cannot read at all is a translator error instead (also a broken tie). -/

/-- **G1.** The one receive buffer of `readFromListener` and of `onClient` is `buf.resize(_config.ioReadChunk)`, offered whole to
`recvfrom`/`recv`; the data callback gets exactly `BufferView{buf.data(), n}`; and the default `ioReadChunk` holds the largest UDP
datagram: no datagram of the property's size range (1…65507) can be truncated by it. -/
theorem G1_recv_buffer_holds_max_datagram :
    Gen.Udp.recvBufferListenerIsIoReadChunk = true ∧ Gen.Udp.recvBufferClientIsIoReadChunk = true ∧
    Gen.Udp.dataViewListenerIsReturnValue = true ∧ Gen.Udp.dataViewClientIsReturnValue = true ∧
    maxDatagram ≤ Gen.Udp.ioReadChunk := by decide

/-- **G2.** `closeNow` erases `_peerIndex[pkey]` only if the entry maps to the session being closed (the F17 repair). -/
theorem G2_closeNow_erase_guarded : Gen.Udp.closeNowEraseGuarded = true := by decide

/-- **G3.** `_peerIndex` is mutated only in the four functions the model mirrors; entries are only ever inserted under the not-found
result of `_peerIndex.find(key(addr))`; an arriving datagram of an indexed peer takes exactly the indexed session
(`sid = it->second`); no session cap is configured by default. -/
theorem G3_index_sites :
    Gen.Udp.peerIndexEraseSites.map (·.1) = ["closeNow", "shutdownDrain"] ∧
    Gen.Udp.peerIndexInsertSites = [("readFromListener", "absent"), ("viaDo", "absent")] ∧
    Gen.Udp.lookupUsesIndexedSession = true ∧ Gen.Udp.maxSessions = 0 := by decide

/-- **G4.** epoll interest: `addEpoll` in `addListenerDo`/`connectDo` arms `EPOLLIN`, and the mask rebuilt by
`updateListener`/`updateClient` keeps it (`EPOLLOUT` only under `wantWrite && !wq.empty()` — any other condition is a translator error). -/
theorem G4_interest_facts : ArmFacts defaultCfg := by
  unfold ArmFacts defaultCfg; decide

/-- **G5.** What reaches the kernel: every `send`/`sendto` of the mirrored functions passes exactly `MSG_NOSIGNAL` (no `MSG_MORE`
corking, no `MSG_CONFIRM`…), every `recv`/`recvfrom` passes flags `0` (no `MSG_PEEK`/`MSG_TRUNC`), every socket is a plain
non-blocking `SOCK_DGRAM`, and the only socket options set are the receive/send buffer sizes and `IPV6_V6ONLY` (no `UDP_GRO`,
`UDP_SEGMENT`, `UDP_CORK` — options that would let the kernel coalesce or split datagrams; loopback tests cannot see those). -/
theorem G5_kernel_interface :
    Gen.Udp.ioCallFlags = [("readFromListener", "recvfrom", "0"), ("onClient", "recv", "0"), ("sendDo", "sendto", "MSG_NOSIGNAL"),
      ("sendDo", "send", "MSG_NOSIGNAL"), ("flushListener", "sendto", "MSG_NOSIGNAL"), ("writeClient", "send", "MSG_NOSIGNAL")] ∧
    Gen.Udp.sockopts.all (fun x => [("SOL_SOCKET", "SO_RCVBUF"), ("SOL_SOCKET", "SO_SNDBUF"), ("IPPROTO_IPV6", "IPV6_V6ONLY")].contains x.2) = true ∧
    Gen.Udp.socketTypes.all (fun x => x.2 == "SOCK_DGRAM | SOCK_NONBLOCK | SOCK_CLOEXEC") = true := by decide

/-- **G6.** Address canonicalisation, as far as the SOURCE decides it: `key()` is the numeric host, `':'`, the numeric service of the
WHOLE address for both families; its two buffers are declared large enough for every numeric form (`NI_MAXHOST`/`NI_MAXSERV`, or
constants ≥ 63 / ≥ 6 — `INET_ADDRSTRLEN` is not: a v4-mapped or long IPv6 host would overflow it, getnameinfo would fail and `key()`
return `""`), and exactly their `sizeof` is what getnameinfo is told; a getnameinfo failure yields the empty string and BOTH users of
`key()` refuse an empty key before touching `_peerIndex` (`readFromListener`: report + drop; `viaDo`: close the id) — so distinct
peers can never share the empty key; `addressFromSockaddr` reports numeric host and port; a ServerPeer session stores the whole
source/target `sockaddr` it later sends to. What is NOT decided by the source — that getnameinfo's numeric output is injective — is
the hypothesis `KeyInjective` of the theorems below. -/
theorem G6_address_key :
    Gen.Udp.keyIsNumericHostColonPort = true ∧ Gen.Udp.keyBuffersHoldEveryNumericForm = true ∧ Gen.Udp.keyFailureReturnsEmpty = true ∧
    Gen.Udp.emptyKeyRefusedOnReceive = true ∧ Gen.Udp.emptyKeyRefusedOnVia = true ∧
    Gen.Udp.addressFromSockaddrIsHostAndPort = true ∧ Gen.Udp.sessionKeepsWholePeerAddress = true := by decide

/-- **G7.** Session and listener ids come from `std::atomic` counters starting at 1, and `_nextSessionId++` is the initialiser of the
id in exactly `connect()`, `connectViaListener()` (caller threads) and `readFromListener` (I/O thread) — the model's `nextSid`. -/
theorem G7_id_counters :
    Gen.Udp.nextSessionIdAtomic = true ∧ Gen.Udp.nextSessionIdInit = 1 ∧ Gen.Udp.nextListenerIdAtomic = true ∧
    Gen.Udp.nextListenerIdInit = 1 ∧
    Gen.Udp.nextSessionIdAllocators = ["connect", "connectViaListener", "readFromListener"] ∧ Gen.Udp.nextSessionIdMentions = 4 := by decide

/-! ## T1 — every accepted send is at most one datagram, byte-identical, addressed to the session's peer

Every step knows its position in the history; a datagram created by `sendDo` carries the position `tok` of its `cmdSend` input
(ghost data, never read by the control flow).  `sentOf outs` lists the `sent` events as `(socket, ⟨tok, dest, bytes⟩)`. -/

/-- **T1 (at most one).** For EVERY history — any mix of sends answered `ok`, `EAGAIN` or error, flushes with any answers, queue
overflows, closes, expiry — no two datagrams handed to the kernel belong to the same accepted send. -/
theorem T1_at_most_one (cfg : Cfg) (h : List In) : (sentOf (run cfg h).2).Pairwise (fun x y => x.2.tok ≠ y.2.tok) :=
  sent_tokens_distinct cfg h

/-- **T1 (byte-identical, right destination, right socket).** For EVERY history, a datagram `bytes → dest` leaving socket `src` with
token `t` means: input number `t` of the history is `cmdSend sid bytes _` (the SAME bytes), session `sid` was open when that command
ran, `dest` is the peer that session had then, and `src` is that session's socket (its own connected socket for a client session,
its owner listener's socket otherwise).  This holds for datagrams sent at once, for datagrams queued on `EAGAIN` and flushed any
number of steps later, and also when the session has been closed in between: a datagram waiting in a LISTENER queue is still sent
to the address it was queued with; the queue of a closed CLIENT session is discarded (zero datagrams, still "at most one"). -/
theorem T1_faithful (cfg : Cfg) (h : List In) (src : Src) (dest : Nat) (bytes : Bytes) (t : Nat)
    (hs : Out.sent src dest bytes t ∈ (run cfg h).2) :
    ∃ (sid : Nat) (ans : Ans) (s : Sess), h[t]? = some (In.cmdSend sid bytes ans) ∧
      (run cfg (h.take t)).1.sessions sid = some s ∧ s.peer = dest ∧ src = homeOf sid s :=
  sent_faithful cfg h src dest bytes t hs

/-- non-vacuity / what the code does when the session closes meanwhile (listener queue): accept S1 from peer 7, a send on S1 hits
EAGAIN, S1 is closed, the listener becomes writable — the datagram still goes out, to peer 7, with the bytes of input number 2. -/
example : (run defaultCfg [.listen false, .recvFrom 1 [(7, [1])], .cmdSend 1 [9, 9] .eagain, .close 1, .writableL 1 [.ok]]).2 =
    [.accept 1 7, .data 1 [1], .closed 1 .unknown, .sent (.lst 1) 7 [9, 9] 2] := by decide
/-- … and the queue of a closed client session is dropped -/
example : (run defaultCfg [.connect 5 false, .cmdSend 1 [3] .eagain, .close 1, .writableC 1 []]).2 =
    [.connected 1 5, .closed 1 .unknown] := by decide
/-- … while an open one flushes it exactly once -/
example : (run defaultCfg [.connect 5 false, .cmdSend 1 [3] .eagain, .writableC 1 [.eagain], .writableC 1 [.ok], .writableC 1 [.ok]]).2 =
    [.connected 1 5, .sent (.cli 1) 5 [3] 1] := by decide

/-! ## T2 — every received datagram is exactly one data event, whole, on a session of its sender -/

/-- **The assumption about `key()`.** `Cfg.key` is the engine's `key()` (getnameinfo's numeric host ':' service): the model does NOT
assume it injective. `KeyInjective cfg.key` — distinct socket addresses have distinct index keys — is an explicit hypothesis of
exactly the theorems that claim "on a session of THAT peer" (`T2_one_datagram`, `T2_burst`, `T3_next_datagram`, `T3_trace`).
What the code itself guarantees is pinned by `G6_address_key` (shape, buffer sizes large enough for every numeric form, an empty
key is refused); what the kernel/libc function does is exercised, not proved: harness peers 127.0.0.1:p / 127.0.0.2:p / [::1]:p and,
on a dual-stack listener, `::ffff:127.0.0.1:p` / `::ffff:127.0.0.2:p` (corpus `m3-…`, `c06c-long-numeric-hosts-dual-stack`, category
`dual`), with an independent monitor comparing every live session's `pkey` with the harness's own inet_ntop formatting. -/
example : KeyInjective defaultCfg.key := fun _ _ h => h

/-- **Why the hypothesis is needed (seed C06-c).** With a `key()` that maps two different addresses to one key (there: every numeric
host of 16+ characters → `""`), the second peer gets NO accept and its datagram is delivered on the FIRST peer's session. -/
theorem T2_refuted_without_injective_key :
    ∃ (cfg : Cfg) (h : List In) (lid a : Nat) (dg : Bytes) (sid : Nat), dg ≠ [] ∧ dg.length ≤ maxDatagram ∧ maxDatagram ≤ cfg.ioReadChunk ∧
      capReached cfg (run cfg h).1 = false ∧
      (recvOne cfg lid (run cfg h).1 (a, dg)).2 = [.data sid dg] ∧          -- no accept, delivered on `sid` …
      ((recvOne cfg lid (run cfg h).1 (a, dg)).1.sessions sid).map (·.peer) ≠ some a :=   -- … which is another peer's session
  ⟨{ key := fun _ => 0 }, [.listen false, .recvFrom 1 [(7, [1])]], 1, 8, [2], 1, by decide, by decide, by decide, by decide, by decide,
   by decide⟩

/-- **T2 (invariant).** In every reachable state each peer-index entry points to an OPEN ServerPeer session whose peer has exactly
that index key, and session ids are never reused. (This is what "not delivered on a session belonging to a different peer" rests on.) -/
theorem T2_index_sound (cfg : Cfg) (h : List In) :
    (∀ k sid, (run cfg h).1.peerIndex k = some sid →
        ∃ s, (run cfg h).1.sessions sid = some s ∧ cfg.key s.peer = k ∧ s.role = .serverPeer) ∧
    (∀ sid s, (run cfg h).1.sessions sid = some s → sid < (run cfg h).1.nextSid) :=
  ⟨(run_inv cfg h).idx, (run_inv cfg h).fresh⟩

/-- **T2 (ids are never reused).** A new session (accept, connect, connect-via-listener) always gets the id `nextSid`, which no open
session has (second conjunct above) and which only grows: -/
theorem T2_nextSid_monotone (cfg : Cfg) (tok : Nat) (st : State) (i : In) : st.nextSid ≤ (step cfg tok st i).1.nextSid := by
  have hclose : ∀ (st' : State) (x : Nat) (w : Why), (closeNow cfg st' x w).1.nextSid = st'.nextSid := by
    intro st' x w; unfold closeNow; split <;> rfl
  have hcloseAll : ∀ (l : List Nat) (st' : State) (w : Why), (closeAll cfg w st' l).1.nextSid = st'.nextSid := by
    intro l; induction l with
    | nil => intro _ _; rfl
    | cons x xs ih => intro st' w; simp only [closeAll, ih, hclose]
  have hrecvOne : ∀ (lid : Nat) (st' : State) (d : Nat × Bytes), st'.nextSid ≤ (recvOne cfg lid st' d).1.nextSid := by
    intro lid st' d; unfold recvOne; simp only
    split
    · exact Nat.le_refl _
    · split
      · split
        · exact Nat.le_refl _
        · exact Nat.le_succ _
      · split <;> exact Nat.le_refl _
  have hrecv : ∀ (lid : Nat) (ds : List (Nat × Bytes)) (st' : State), st'.nextSid ≤ (recvMany cfg lid st' ds).1.nextSid := by
    intro lid ds; induction ds with
    | nil => intro _; exact Nat.le_refl _
    | cons d ds ih => intro st'; simp only [recvMany]; exact Nat.le_trans (hrecvOne lid st' d) (ih _)
  have hcli : ∀ (x : Nat) (ds : List Bytes) (st' : State), (clientRecvMany cfg x st' ds).1.nextSid = st'.nextSid := by
    intro x ds; induction ds with
    | nil => intro _; rfl
    | cons d ds ih =>
      intro st'; simp only [clientRecvMany]
      rw [ih]; split
      · rfl
      · unfold touchClient; split <;> rfl
  cases i with
  | listen v6 => exact Nat.le_refl _
  | recvFrom lid dgs =>
    simp only [step]; split
    · exact Nat.le_refl _
    · split
      · exact hrecv lid dgs st
      · exact Nat.le_refl _
  | clientRecv x dgs =>
    simp only [step]; split
    · exact Nat.le_refl _
    · split
      · exact Nat.le_refl _
      · split
        · rw [hcli]; exact Nat.le_refl _
        · exact Nat.le_refl _
  | recvKeyFail lid n =>
    simp only [step]; split
    · exact Nat.le_refl _
    · split <;> exact Nat.le_refl _
  | viaKeyFail lid => exact Nat.le_succ _
  | connect a v6 => exact Nat.le_succ _
  | via lid a v6 =>
    simp only [step, viaDo]
    split
    · exact Nat.le_succ _
    · split
      · exact Nat.le_succ _
      · split <;> exact Nat.le_succ _
  | cmdSend x p ans =>
    simp only [step]; split
    · exact Nat.le_refl _
    · unfold sendDo
      cases st.sessions x with
      | none => exact Nat.le_refl _
      | some s =>
        dsimp only
        cases s.role with
        | client =>
          dsimp only
          cases kernelAns _ p ans with
          | ok => exact Nat.le_refl _
          | eagain =>
            dsimp only
            split
            · split
              · rw [hclose]; exact Nat.le_refl _
              · exact Nat.le_refl _
            · exact Nat.le_refl _
          | err => rw [hclose]; exact Nat.le_refl _
        | serverPeer =>
          dsimp only
          cases st.listeners s.owner with
          | none => rw [hclose]; exact Nat.le_refl _
          | some l =>
            dsimp only
            cases kernelAns _ p ans with
            | ok => exact Nat.le_refl _
            | eagain =>
              dsimp only
              split
              · split
                · rw [hclose]; exact Nat.le_refl _
                · exact Nat.le_refl _
              · exact Nat.le_refl _
            | err => rw [hclose]; exact Nat.le_refl _
  | writableL lid as =>
    simp only [step, flushListener]
    split
    · exact Nat.le_refl _
    · split <;> exact Nat.le_refl _
  | writableC x as =>
    simp only [step, writeClient]
    cases st.sessions x with
    | none => exact Nat.le_refl _
    | some s =>
      dsimp only
      cases s.role with
      | serverPeer => exact Nat.le_refl _
      | client =>
        dsimp only
        split
        · split
          · rw [hclose]; exact Nat.le_refl _
          · exact Nat.le_refl _
        · exact Nat.le_refl _
  | close x => simp only [step]; rw [hclose]; exact Nat.le_refl _
  | advance ms => exact Nat.le_refl _
  | gc => simp only [step, runGc]; rw [hcloseAll]; exact Nat.le_refl _
  | restart =>
    simp only [step, shutdownDrain]
    rw [(drainAll_sessions cfg _ st).2]; exact Nat.le_refl _

/-- **T2 (one datagram).** After ANY history, a datagram of 1…65507 bytes from `a` that the session cap does not refuse (no cap by
default) produces exactly one data event with exactly its bytes — never merged, split, truncated or duplicated — on a ServerPeer
session whose peer is `a`; an accept precedes it iff `a` was not in the index, and afterwards the index maps `a` to that session. -/
theorem T2_one_datagram (cfg : Cfg) (hK : KeyInjective cfg.key) (hchunk : maxDatagram ≤ cfg.ioReadChunk) (h : List In) (lid : Nat) (a : Nat)
    (dg : Bytes) (hne : dg ≠ []) (hlen : dg.length ≤ maxDatagram) (hadm : Admitted cfg (run cfg h).1 a) :
    ∃ (sid : Nat) (s : Sess), (recvOne cfg lid (run cfg h).1 (a, dg)).1.sessions sid = some s ∧ s.peer = a ∧ s.role = .serverPeer ∧
      (recvOne cfg lid (run cfg h).1 (a, dg)).1.peerIndex (cfg.key a) = some sid ∧
      (((run cfg h).1.peerIndex (cfg.key a) = some sid ∧ (recvOne cfg lid (run cfg h).1 (a, dg)).2 = [.data sid dg]) ∨
       ((run cfg h).1.peerIndex (cfg.key a) = none ∧ sid = (run cfg h).1.nextSid ∧
        (recvOne cfg lid (run cfg h).1 (a, dg)).2 = [.accept sid a, .data sid dg])) :=
  recvOne_spec cfg hK lid _ a dg (run_inv cfg h) hne (Nat.le_trans hlen hchunk) hadm

/-- **T2 (a failing `key()`).** A datagram for which `key()` itself fails (getnameinfo error → empty key) is reported and dropped, a
connect-via-listener to such a target is refused: nothing is ever indexed under the empty key, no session is created, the state of
every other peer is untouched (the FC06a repair; before it, all such peers shared ONE index entry). -/
theorem T2_key_failure_isolated (cfg : Cfg) (tok : Nat) (st : State) (lid n : Nat) :
    (step cfg tok st (.recvKeyFail lid n)).1 = st ∧ (∀ o ∈ (step cfg tok st (.recvKeyFail lid n)).2, o = Out.error) ∧
    (step cfg tok st (.viaKeyFail lid)).1 = { st with nextSid := st.nextSid + 1 } ∧
    (step cfg tok st (.viaKeyFail lid)).2 = [.closed st.nextSid .config] := by
  refine ⟨?_, ?_, rfl, rfl⟩
  · simp only [step]; split
    · rfl
    · split <;> rfl
  · intro o ho
    simp only [step] at ho
    split at ho
    · cases ho
    · split at ho
      · exact (List.mem_replicate.mp ho).2
      · cases ho

/-- **T2 (what "admitted" means).** After ANY history the counter the cap is tested against IS the number of open sessions; so the
only datagram that produces no event is one from an UNKNOWN peer arriving while a CONFIGURED cap (`maxSessions ≠ 0`, not the
default) is reached — admission control, and exactly that case: `recvOne` then leaves the state untouched. -/
theorem T2_counter_exact (cfg : Cfg) (h : List In) :
    (run cfg h).1.sessionsCurrent = countOpen (run cfg h).1.sessions (run cfg h).1.nextSid :=
  run_cinv cfg h

theorem T2_refused_exactly (cfg : Cfg) (st : State) (lid a : Nat) (dg : Bytes) (hne : dg.take cfg.ioReadChunk ≠ [])
    (hnot : ¬ Admitted cfg st a) : recvOne cfg lid st (a, dg) = (st, []) := by
  unfold Admitted at hnot
  simp only [not_or, Bool.not_eq_false, Option.isSome_iff_ne_none, ne_eq, Decidable.not_not] at hnot
  unfold recvOne
  simp [hne, hnot.1, hnot.2]

/-- non-vacuity of T2's hypotheses for the default configuration: the buffer bound holds and nothing is ever refused -/
example : maxDatagram ≤ defaultCfg.ioReadChunk := by decide
example (st : State) (a : Nat) : Admitted defaultCfg st a := Or.inl (by simp [capReached, defaultCfg, Gen.Udp.maxSessions])

/-- **T2 (a whole `recvfrom` loop, default = no cap).** One `EPOLLIN` that returns any list of datagrams from any senders: the data
events are exactly those datagrams — same number, same order, same bytes — each on a session whose peer is its sender. -/
theorem T2_burst (cfg : Cfg) (hK : KeyInjective cfg.key) (hcap : cfg.maxSessions = 0) (hchunk : maxDatagram ≤ cfg.ioReadChunk) (h : List In) (lid : Nat)
    (ds : List (Nat × Bytes)) (hv : ∀ d ∈ ds, d.2 ≠ [] ∧ d.2.length ≤ maxDatagram) :
    Pairwise2 (fun (d : Nat × Bytes) (e : Nat × Bytes) => e.2 = d.2 ∧
        ∃ s, (recvMany cfg lid (run cfg h).1 ds).1.sessions e.1 = some s ∧ s.peer = d.1 ∧ s.role = .serverPeer)
      ds (dataOf (recvMany cfg lid (run cfg h).1 ds).2) :=
  recvMany_spec cfg hK lid hcap ds _ (run_inv cfg h) (fun d hd => ⟨(hv d hd).1, Nat.le_trans (hv d hd).2 hchunk⟩)

/-- **T2 (client socket).** Datagrams read from a connected client socket come out as one data event each, on that session, whole. -/
theorem T2_client (cfg : Cfg) (hchunk : maxDatagram ≤ cfg.ioReadChunk) (st : State) (sid : Nat) (ds : List Bytes)
    (hv : ∀ d ∈ ds, d ≠ [] ∧ d.length ≤ maxDatagram) :
    (clientRecvMany cfg sid st ds).2 = ds.map (fun d => Out.data sid d) :=
  clientRecvMany_spec cfg sid ds st (fun d hd => ⟨(hv d hd).1, Nat.le_trans (hv d hd).2 hchunk⟩)

/-- **T2 (no crash).** `_sessions[sid]` in `readFromListener` never dereferences a missing session, after any history. -/
theorem T2_no_null_session (cfg : Cfg) (h : List In) (lid : Nat) (d : Nat × Bytes) :
    Out.nullDeref ∉ (recvOne cfg lid (run cfg h).1 d).2 :=
  recvOne_no_nullDeref cfg lid _ d (run_inv cfg h)

/-! ## T2' — a datagram that arrived is also SEEN: the epoll interest invariant -/

/-- **T2 (interest).** After ANY history every listener socket and every client socket has `EPOLLIN` in the interest mask last
handed to epoll, and `EPOLLOUT` exactly when `wantWrite && !wq.empty()` — whatever sequence of EAGAINs, flushes, overflows and
closes came before (in particular `updateListener`/`updateClient`, which rebuild the mask from scratch, never drop `EPOLLIN`). -/
theorem T2_interest (cfg : Cfg) (hf : ArmFacts cfg) (h : List In) :
    (∀ lid l, (run cfg h).1.listeners lid = some l → l.armIn = true ∧ l.armOut = (l.wantWrite && !l.wq.isEmpty)) ∧
    (∀ sid s, (run cfg h).1.sessions sid = some s → s.role = .client →
        s.armIn = true ∧ s.armOut = (s.wantWrite && !s.wq.isEmpty)) :=
  ⟨(run_arm cfg hf h).lst, (run_arm cfg hf h).cli⟩

/-- … hence a readable listener is always read: after any history the `EPOLLIN` step on an existing listener IS the `recvfrom`
loop (to which `T2_burst` applies); it is never skipped for lack of interest. Likewise for a client socket. -/
theorem T2_listener_always_read (cfg : Cfg) (hf : ArmFacts cfg) (h : List In) (lid : Nat) (l : Lst)
    (hl : (run cfg h).1.listeners lid = some l) (ds : List (Nat × Bytes)) :
    step cfg h.length (run cfg h).1 (.recvFrom lid ds) = recvMany cfg lid (run cfg h).1 ds := by
  simp [step, hl, ((run_arm cfg hf h).lst lid l hl).1]

theorem T2_client_always_read (cfg : Cfg) (hf : ArmFacts cfg) (h : List In) (sid : Nat) (s : Sess)
    (hs : (run cfg h).1.sessions sid = some s) (hr : s.role = .client) (ds : List Bytes) :
    step cfg h.length (run cfg h).1 (.clientRecv sid ds) = clientRecvMany cfg sid (run cfg h).1 ds := by
  simp [step, hs, hr, ((run_arm cfg hf h).cli sid s hs hr).1]

/-- non-vacuity, and the scenario that motivated it: a send on a listener session hits EAGAIN (the mask is rebuilt with EPOLLOUT),
the queue is flushed (rebuilt again) — the listener still has EPOLLIN armed and the next datagram is delivered. -/
example : (run defaultCfg [.listen false, .recvFrom 1 [(7, [1])], .cmdSend 1 [9] .eagain, .writableL 1 [.ok], .recvFrom 1 [(7, [2])]]).2 =
    [.accept 1 7, .data 1 [1], .sent (.lst 1) 7 [9] 2, .data 1 [2]] := by decide

/-! ## T3 — stability of the mapping -/

/-- **T3 (next datagram).** If the index maps `a` to `sid` (i.e. `sid` receives `a`'s datagrams — by T2 it is open), the next
datagram from `a`, on ANY listener, is delivered on `sid` with no accept, and the mapping stays. -/
theorem T3_next_datagram (cfg : Cfg) (hK : KeyInjective cfg.key) (hchunk : maxDatagram ≤ cfg.ioReadChunk) (h : List In) (lid a sid : Nat)
    (dg : Bytes) (hne : dg ≠ []) (hlen : dg.length ≤ maxDatagram) (hix : (run cfg h).1.peerIndex (cfg.key a) = some sid) :
    (recvOne cfg lid (run cfg h).1 (a, dg)).2 = [.data sid dg] ∧
      (recvOne cfg lid (run cfg h).1 (a, dg)).1.peerIndex (cfg.key a) = some sid := by
  obtain ⟨sid', s, _, _, _, hpost, hout⟩ := recvOne_spec cfg hK lid _ a dg (run_inv cfg h) hne (Nat.le_trans hlen hchunk)
    (Or.inr (by simp [hix]))
  rcases hout with ⟨h1, h2⟩ | ⟨h1, _, _⟩
  · rw [hix] at h1; cases h1; exact ⟨h2, hpost⟩
  · rw [hix] at h1; cases h1

/-- **T3 (one step).** After ANY history, whatever the I/O thread does next — in particular closing ANY other session, also one
with the same peer address — the mapping `k ↦ sid` (`k` = the key of a peer address) survives, unless that very step closes `sid`
(and then it reports `closed sid`). -/
theorem T3_step (cfg : Cfg) (hg : cfg.eraseGuarded = true) (h : List In) (i : In) (k sid : Nat)
    (hix : (run cfg h).1.peerIndex k = some sid) :
    (step cfg h.length (run cfg h).1 i).1.peerIndex k = some sid ∨ ∃ w, Out.closed sid w ∈ (step cfg h.length (run cfg h).1 i).2 :=
  step_stable cfg hg _ _ i k sid (run_inv cfg h) hix

/-- **T3 (histories).** After ANY history `h` with `a ↦ sid`, along ANY continuation `h'` during which `sid` is not closed (by the
application, by idle/age expiry, by a send error or back-pressure): the mapping is still `a ↦ sid` at the end — hence, by
`T3_next_datagram`, at every intermediate point every datagram from `a` lands on `sid` — and no session is accepted for `a`. -/
theorem T3_history (cfg : Cfg) (hg : cfg.eraseGuarded = true) (h h' : List In) (a sid : Nat)
    (hix : (run cfg h).1.peerIndex (cfg.key a) = some sid) (hopen : ∀ w, Out.closed sid w ∉ (runFrom cfg h.length (run cfg h).1 h').2) :
    (runFrom cfg h.length (run cfg h).1 h').1.peerIndex (cfg.key a) = some sid ∧
      ∀ s', Out.accept s' a ∉ (runFrom cfg h.length (run cfg h).1 h').2 :=
  runFrom_stable cfg hg a sid h' _ _ (run_inv cfg h) hix hopen

/-- **T3 (trace form).** After ANY history `h` with `a ↦ sid`, and ANY continuation `h'` that does not close `sid`: in a `recvfrom`
loop that then returns the datagrams `pre ++ d :: post` (any senders, any sizes), the datagram `d` from `a` — at whatever position —
produces exactly the one event `data sid d.bytes`, between the events of `pre` and those of `post`: on `sid`, whole, no accept. -/
theorem T3_trace (cfg : Cfg) (hK : KeyInjective cfg.key) (hg : cfg.eraseGuarded = true) (hchunk : maxDatagram ≤ cfg.ioReadChunk)
    (h h' : List In) (a sid : Nat) (hix : (run cfg h).1.peerIndex (cfg.key a) = some sid) (hopen : ∀ w, Out.closed sid w ∉ (runFrom cfg h.length (run cfg h).1 h').2)
    (lid : Nat) (pre post : List (Nat × Bytes)) (d : Nat × Bytes) (hd : d.1 = a) (hne : d.2 ≠ []) (hlen : d.2.length ≤ maxDatagram) :
    (recvMany cfg lid (runFrom cfg h.length (run cfg h).1 h').1 (pre ++ d :: post)).2 =
      (recvMany cfg lid (runFrom cfg h.length (run cfg h).1 h').1 pre).2 ++ [.data sid d.2] ++
      (recvMany cfg lid (recvOne cfg lid (recvMany cfg lid (runFrom cfg h.length (run cfg h).1 h').1 pre).1 d).1 post).2 :=
  (recvMany_trace cfg hK lid _ (runFrom_inv cfg h' _ _ (run_inv cfg h)) a sid
    (runFrom_stable cfg hg a sid h' _ _ (run_inv cfg h) hix hopen).1 pre post d hd hne (Nat.le_trans hlen hchunk)).2

/-- **T3 (every session stays).** After ANY history, whatever the I/O thread does next, an open session — a client-socket session
just like a ServerPeer one — is still in the table afterwards with the same peer, role and owner listener, unless that very step
closes it and reports `closed sid`. (For a client session this is the whole of "keeps receiving": its socket is its own, the kernel
delivers only its peer's datagrams to it, and `T2_client`/`T2_client_always_read` say they all come out on `sid`.) -/
theorem T3_session_stays (cfg : Cfg) (h : List In) (i : In) (sid : Nat) (s : Sess) (hs : (run cfg h).1.sessions sid = some s) :
    (∃ s', (step cfg h.length (run cfg h).1 i).1.sessions sid = some s' ∧ s'.peer = s.peer ∧ s'.role = s.role ∧ s'.owner = s.owner) ∨
    ∃ w, Out.closed sid w ∈ (step cfg h.length (run cfg h).1 i).2 :=
  step_stays cfg _ _ i (run_inv cfg h) sid s hs

/-- **T3 (shutdown site).** `stop()`+`start()` after ANY history leaves the peer index empty — for BOTH forms of the erase in
`shutdownDrain` (guarded as in the repair, or unconditional as before): that second erase site cannot break the mapping, every
session is closed there anyway (each with its `closed` event, by `T3_step`). -/
theorem T3_shutdown_index_empty (cfg : Cfg) (h : List In) (a : Nat) :
    (step cfg h.length (run cfg h).1 .restart).1.peerIndex a = none :=
  shutdownDrain_index_empty cfg _ (run_inv cfg h) a

/-- the guard hypothesis of T3 holds for the code as it is (G2) -/
example : defaultCfg.eraseGuarded = true := G2_closeNow_erase_guarded

/-- non-vacuity of T3 and the F17 scenario, on the repaired code: accept S1 from peer 7, connect-via-listener to 7 (S2), close S2 —
the index still maps 7 to S1, and the next datagram is data on S1 without accept. -/
def f17History : List In := [.listen false, .recvFrom 1 [(7, [1])], .via 1 7 false, .close 2]

example : (run { eraseGuarded := true } f17History).1.peerIndex 7 = some 1 ∧
    (step { eraseGuarded := true } 4 (run { eraseGuarded := true } f17History).1 (.recvFrom 1 [(7, [2])])).2 = [.data 1 [2]] := by
  decide

/-- **F17 (why the guard is needed).** With the unconditional erase of the unrepaired `closeNow`, T3 is FALSE: the same four-step
history leaves peer 7 without an index entry although session 1 is open and was never closed, and the next datagram from 7 is
accepted as a brand-new session 3. -/
theorem T3_refuted_without_guard :
    ¬ (∀ (h : List In) (i : In) (a sid : Nat), (run { eraseGuarded := false } h).1.peerIndex a = some sid →
        (step { eraseGuarded := false } h.length (run { eraseGuarded := false } h).1 i).1.peerIndex a = some sid ∨
        ∃ w, Out.closed sid w ∈ (step { eraseGuarded := false } h.length (run { eraseGuarded := false } h).1 i).2) := by
  intro hall
  rcases hall [.listen false, .recvFrom 1 [(7, [1])], .via 1 7 false] (.close 2) 7 1 (by decide) with h1 | ⟨w, h1⟩
  · revert h1; decide
  · cases w <;> (revert h1; decide)

example : (step { eraseGuarded := false } 4 (run { eraseGuarded := false } f17History).1 (.recvFrom 1 [(7, [2])])).2 =
    [.accept 3 7, .data 3 [2]] := by decide

/-! ## Wake-ups — which datagrams a receive loop sees (kernel queues, EPOLLET, the shape of the loops)

Everything above takes "the datagrams one `recvfrom` loop returns" as an input. `Model/UdpWake.lean` removes that assumption: the
environment only says which datagrams ARRIVE at a socket; they wait in the socket's kernel queue, epoll reports the socket, the
engine's loop — as the translator read it from the source — runs once, and what it does not take stays queued, silently under
EPOLLET until the next arrival. -/

/-- the wake-up layer with everything from `Gen/Udp.lean`: `useEdgeTriggered` and the shapes of both receive loops -/
def defaultW : WCfg := {}

/-- **G8.** Both receive loops (`readFromListener`, the EPOLLIN part of `onClient`) are unbounded loops around ONE `recv`/`recvfrom`
whose only exits are the EAGAIN break and the hard-error exit; a zero-length read does not leave them (for `onClient` that is the FC06b
repair: `continue`, not `break`). `onListener`/`onClient` handle EPOLLIN before EPOLLOUT of one (merged) event, `handleFdEvent` routes by
the descriptor's tag, `addEpoll`/`modEpoll` hand exactly `(fd, ev)` to `epoll_ctl`, and the base of every interest mask is exactly `EPOLLIN`
(`EPOLLET` is or-ed in under `useEdgeTriggered` only — a translator error otherwise —; no `EPOLLONESHOT`/`EPOLLEXCLUSIVE`, which would
disarm or divert the socket after one report). -/
theorem G8_read_loops_drain :
    defaultW.lloop.drains ∧ defaultW.cloop.drains ∧ Gen.Udp.listenerReadsBeforeWrites = true ∧ Gen.Udp.clientReadsBeforeWrites = true ∧
    Gen.Udp.handleFdEventRoutesByTag = true ∧ Gen.Udp.epollCtlWrappersPlain = true ∧
    Gen.Udp.maskBases.all (fun x => x.2 == "EPOLLIN") = true := by decide

/-- **T1 (API).** `send()` turns an accepted call into exactly ONE `Cmd::send` carrying one copy of exactly the caller's `n` bytes (and
nothing at all for `n == 0`); `sendAsync()` is one `send()` call — so "an accepted send" of the property IS one `cmdSend` input. -/
theorem T1_api_send_is_one_command : Gen.Udp.apiSendIsOneCommand = true ∧ Gen.Udp.apiSendAsyncIsOneSend = true := by decide

/-- **T2 (a wake-up conserves the queue).** Whatever the shape of the loop (any budget, zero-length ends it or not): what one wake-up
takes followed by what it leaves IS the kernel queue — nothing invented, dropped, duplicated or reordered between arrival and `recvMany`. -/
theorem T2_wake_conserves {α : Type} (isZero : α → Bool) (zeroEnds : Bool) (budget : Option Nat) (q : List α) :
    (takeLoop isZero zeroEnds budget q).1 ++ (takeLoop isZero zeroEnds budget q).2 = q :=
  takeLoop_partition isZero zeroEnds q budget

/-- **T3 (nothing readable is left behind).** With loops that drain (G8) and EPOLLIN armed (G4), after EVERY history of arrivals,
commands, flushes, expiry and restarts — edge-triggered or level-triggered — every kernel receive queue is empty: each wake-up has
read everything that had arrived. This is what "further datagrams keep arriving" needs under EPOLLET, where a left-over is not
reported again. -/
theorem T3_nothing_left_behind (w : WCfg) (hf : ArmFacts w.cfg) (hl : w.lloop.drains) (hc : w.cloop.drains) (h : List WIn) :
    (∀ lid, (wrun w h).1.lq lid = []) ∧ (∀ sid, (wrun w h).1.cq sid = []) :=
  (wrunFrom_refines w hf hl hc h 0 {} arm_init qempty_init).2.2

/-- **T3 (the arrival model is the engine model).** Under the same hypotheses a history of ARRIVALS produces exactly the events and
the engine state of `run` on the history in which every receive loop returns exactly what arrived: every theorem above (T1–T3, stated
for `run` and for `recvMany`/`clientRecvMany` on what a loop returns) holds for what ARRIVES, whole burst by whole burst. -/
theorem T3_wake_refines (w : WCfg) (hf : ArmFacts w.cfg) (hl : w.lloop.drains) (hc : w.cloop.drains) (h : List WIn) :
    (wrun w h).1.st = (run w.cfg (h.map WIn.toIn)).1 ∧ (wrun w h).2 = (run w.cfg (h.map WIn.toIn)).2 :=
  ⟨(wrunFrom_refines w hf hl hc h 0 {} arm_init qempty_init).1, (wrunFrom_refines w hf hl hc h 0 {} arm_init qempty_init).2.1⟩

/-- the hypotheses hold for the code as it is -/
example : ArmFacts defaultW.cfg ∧ defaultW.lloop.drains ∧ defaultW.cloop.drains :=
  ⟨G4_interest_facts, G8_read_loops_drain.1, G8_read_loops_drain.2.1⟩

/-- non-vacuity: a burst of three with a zero-length datagram in the middle on a client socket, and one on a listener -/
example : (wrun defaultW [.io (.connect 5 false), .arriveC 1 [[1], [], [2, 3]], .io (.listen false), .arriveL 1 [(7, [4]), (7, []), (8, [5])]]).2 =
    [.connected 1 5, .data 1 [1], .data 1 [], .data 1 [2, 3], .accept 2 7, .data 2 [4], .accept 3 8, .data 3 [5]] := by decide

/-- **T3 (keeps arriving, event level, one theorem).** After ANY history of arrivals, commands, flushes, expiry and restarts at whose
end `a ↦ sid` (by `T3_history` that is the case as long as `sid` itself has not been closed), a datagram of 1…65507 bytes from `a` that
ARRIVES at any existing listener socket is read by that very wake-up (nothing stays in the kernel queue), comes out as exactly the one
event `data sid bytes` — no accept, not on another session — and the mapping stays. -/
theorem T3_keeps_arriving (w : WCfg) (hf : ArmFacts w.cfg) (hl : w.lloop.drains) (hc : w.cloop.drains) (hK : KeyInjective w.cfg.key)
    (hchunk : maxDatagram ≤ w.cfg.ioReadChunk) (h : List WIn) (a sid lid : Nat) (l : Lst)
    (hix : (wrun w h).1.st.peerIndex (w.cfg.key a) = some sid) (hlst : (wrun w h).1.st.listeners lid = some l)
    (dg : Bytes) (hne : dg ≠ []) (hlen : dg.length ≤ maxDatagram) :
    (wstep w h.length (wrun w h).1 (.arriveL lid [(a, dg)])).2 = [.data sid dg] ∧
    (wstep w h.length (wrun w h).1 (.arriveL lid [(a, dg)])).1.lq lid = [] ∧
    (wstep w h.length (wrun w h).1 (.arriveL lid [(a, dg)])).1.st.peerIndex (w.cfg.key a) = some sid := by
  obtain ⟨hst, _⟩ := T3_wake_refines w hf hl hc h
  have hq : QEmpty (wrun w h).1 := T3_nothing_left_behind w hf hl hc h
  have harm : ArmInv (wrun w h).1.st := by rw [hst]; exact run_arm w.cfg hf _
  obtain ⟨r1, r2, r3⟩ := wstep_refines w hl hc h.length (wrun w h).1 (.arriveL lid [(a, dg)]) harm hq
  have hread := T2_listener_always_read w.cfg hf (h.map WIn.toIn) lid l (by rw [← hst]; exact hlst) [(a, dg)]
  have hnext := T3_next_datagram w.cfg hK hchunk (h.map WIn.toIn) lid a sid dg hne hlen (by rw [← hst]; exact hix)
  simp only [WIn.toIn] at r1 r2
  rw [hst] at r1 r2
  rw [List.length_map] at hread
  rw [hread] at r1 r2
  simp only [recvMany, List.append_nil] at r1 r2
  exact ⟨by rw [r2]; exact hnext.1, r3.1 lid, by rw [r1]; exact hnext.2⟩

/-- non-vacuity: the hypotheses of `T3_keeps_arriving` are met after a history with a burst, a zero-length datagram and a restart -/
example : (wrun defaultW [.io (.listen false), .arriveL 1 [(7, [1]), (7, []), (8, [2])], .io (.close 2), .arriveL 1 [(8, [3])]]).1.st.peerIndex
    (defaultW.cfg.key 7) = some 1 := by decide

/-- **FC06b (why `continue`).** With the unrepaired `break` after a zero-length read in `onClient` and EPOLLET (the default), T3 is
FALSE: a 5-byte datagram that arrived right behind a zero-length one is not delivered by that wake-up, stays in the kernel queue, is
not reported by the next `epoll_wait` round either, and comes out only when a THIRD datagram arrives. -/
theorem FC06b_refuted_with_zero_length_break :
    ¬ (∀ (h : List WIn), (wrun { et := true, lloop := ⟨none, false⟩, cloop := ⟨none, true⟩ } h).1.cq 1 = []) ∧
    (wrun { et := true, lloop := ⟨none, false⟩, cloop := ⟨none, true⟩ }
      [.io (.connect 5 false), .arriveC 1 [[], [1, 2, 3, 4, 5]], .arriveC 1 []]).2 = [.connected 1 5, .data 1 []] ∧
    (wrun { et := true, lloop := ⟨none, false⟩, cloop := ⟨none, true⟩ }
      [.io (.connect 5 false), .arriveC 1 [[], [1, 2, 3, 4, 5]], .arriveC 1 [], .arriveC 1 [[9]]]).2 =
      [.connected 1 5, .data 1 [], .data 1 [1, 2, 3, 4, 5], .data 1 [9]] := by
  refine ⟨fun hall => ?_, by decide, by decide⟩
  have := hall [.io (.connect 5 false), .arriveC 1 [[], [1, 2, 3, 4, 5]], .arriveC 1 []]
  revert this; decide

/-- … while a level-triggered socket is reported again by the next round and the left-over is delivered: the defect needs EPOLLET -/
example : (wrun { et := false, lloop := ⟨none, false⟩, cloop := ⟨none, true⟩ }
      [.io (.connect 5 false), .arriveC 1 [[], [1, 2, 3, 4, 5]], .arriveC 1 []]).2 = [.connected 1 5, .data 1 [], .data 1 [1, 2, 3, 4, 5]] := by decide

/-- **Why the loops must be unbounded (review finding A).** With a read budget per wake-up (`for (int budget = 0; budget < 3; ++budget)`)
and EPOLLET a burst of four leaves the fourth datagram in the kernel queue: no data event, no further report. -/
theorem T3_refuted_with_read_budget :
    ¬ (∀ (h : List WIn), (wrun { et := true, lloop := ⟨some 3, false⟩, cloop := ⟨none, false⟩ } h).1.lq 1 = []) ∧
    (wrun { et := true, lloop := ⟨some 3, false⟩, cloop := ⟨none, false⟩ }
      [.io (.listen false), .arriveL 1 [(7, [1]), (7, [2]), (7, [3]), (7, [4])], .arriveL 1 []]).2 =
      [.accept 1 7, .data 1 [1], .data 1 [2], .data 1 [3]] := by
  refine ⟨fun hall => ?_, by decide⟩
  have := hall [.io (.listen false), .arriveL 1 [(7, [1]), (7, [2]), (7, [3]), (7, [4])]]
  revert this; decide

end Iora.C06
