import IoraModel.Lemmas.AssetsRace
/-!
# C20 under N concurrent threads — the double-checked locking of the filesystem-mode caches

Property theorems only; the small-step model is `Model/AssetsRace.lean`, the lemmas `Lemmas/AssetsRace.lean`, the lock skeleton
(`Shape.gen`) is built from the facts the translator extracts into `Gen/Assets.lean` (`staticFind1UnderLock`, …, `reloadClears`).
Every theorem is for EVERY number of threads, EVERY schedule (`List Nat`: which thread moves next) and EVERY assignment of
operations and file-system snapshots to threads.  Granularity: taking `_fs->mutex` is a step; the body of one `lock_guard` scope
plus the unlock is one step; validation and `build` (all the file I/O) are one step each on the thread's own `Snaps`
(the interleaving of the environment with the system calls of ONE lookup is what `Snaps` + `LeafOnly` of A4 already cover).
-/
namespace Iora.C20
open Iora Iora.Assets Iora.Assets.Race

/-! ## A small concrete world for the examples: `/s/a` holds `[7]`, `/t/p` holds `[5]`, `/o/x` holds `[9]` (outside) -/
def rcFs : Fs := { entries := [([[115]], .dir), ([[97], [115]], .file [7]), ([[111]], .dir), ([[120], [111]], .file [9]),
                               ([[116]], .dir), ([[112], [116]], .file [5])] }
/-- the same world after the environment rewrote `/s/a` to `[8]` -/
def rcFs2 : Fs := rcFs.set [[97], [115]] (.file [8])
def rcSt : FsState := { root := [47], templatesRoot := [47, 116], staticsRoot := [47, 115], perRequest := false }
theorem rcRootS : RootOK rcSt.staticsRoot [[115]] :=
  ⟨by decide, fun n hn => by simp at hn; subst hn; exact ⟨⟨⟨by decide, by decide⟩, by decide, by decide⟩, by decide⟩⟩
theorem rcRootT : RootOK rcSt.templatesRoot [[116]] :=
  ⟨by decide, fun n hn => by simp at hn; subst hn; exact ⟨⟨⟨by decide, by decide⟩, by decide, by decide⟩, by decide⟩⟩

/-- thread A opens after the environment's change, B and C see the old tree, D reloads -/
def rcPool : List (RaceOp × Snaps) :=
  [(.static [97], Snaps.switchAt rcFs rcFs2 .O), (.static [97], Snaps.const rcFs), (.template [112], Snaps.const rcFs),
   (.reload, Snaps.const rcFs)]

/-- the lock skeleton of the working tree is the double-checked locking the theorems are about (every fact matters:
flipping any of `staticFind1UnderLock`, `staticBuildUnderLock`, `staticHasSecondFind`, `staticFind2EmplaceSameLock`,
`staticCacheInsert`, their `template…` twins, `reloadUnderLock`, `reloadClears` makes this fail to build). -/
theorem R0_shape_of_source : Shape.gen.ok = true := by decide

/-! ## R1 — one thread alone is the sequential model -/

/-- **R1.** In ANY pool, from any cache state with the mutex free, the steps of ONE thread run back-to-back yield exactly
`getStaticFilesystemAt` (result and cache), `getTemplateFilesystemAt`, resp. `reload` of the sequential model; the other
threads and the `unguarded` flag are untouched.  So every sequential theorem of C20 (A3–A5) transfers to every schedule in which
calls do not overlap. -/
theorem R1_sequential_refinement (s : State) (i : Nat) (sn : Snaps) (hfree : s.g.owner = none) :
    (∀ k, s.threads[i]? = some { op := .static k, sn := sn, pc := .start } →
      run Shape.gen s (List.replicate soloLen i) =
        { g := { s.g with st := (getStaticFilesystemAt sn s.g.st k).2 },
          threads := s.threads.set i { op := .static k, sn := sn, pc := .done (some (.inl (getStaticFilesystemAt sn s.g.st k).1)) } }) ∧
    (∀ k, s.threads[i]? = some { op := .template k, sn := sn, pc := .start } →
      run Shape.gen s (List.replicate soloLen i) =
        { g := { s.g with st := (getTemplateFilesystemAt sn s.g.st k).2 },
          threads := s.threads.set i { op := .template k, sn := sn, pc := .done (some (.inr (getTemplateFilesystemAt sn s.g.st k).1)) } }) ∧
    (s.threads[i]? = some { op := .reload, sn := sn, pc := .start } →
      run Shape.gen s (List.replicate soloLen i) =
        { g := { s.g with st := { s.g.st with staticCache := [], templateCache := [] } },
          threads := s.threads.set i { op := .reload, sn := sn, pc := .done none } }) := by
  have hg : s.g = { st := s.g.st, owner := none, unguarded := s.g.unguarded } := by rw [← hfree]
  refine ⟨fun k h => ?_, fun k h => ?_, fun h => ?_⟩
  · rw [run_solo _ _ _ _ _ h, hg, solo_static _ R0_shape_of_source]
  · rw [run_solo _ _ _ _ _ h, hg, solo_template _ R0_shape_of_source]
  · rw [run_solo _ _ _ _ _ h, hg, solo_reload _ R0_shape_of_source]

/-- the hypotheses of R1 hold of thread 1 of the example pool, and its solo run returns `/s/a`'s bytes and caches them -/
example : (State.init rcSt rcPool).g.owner = none ∧
    ((run Shape.gen (State.init rcSt rcPool) (List.replicate soloLen 1)).result 1
      = some (.inl (.found ⟨[7], Gen.Assets.mimeDefault, none⟩))) ∧
    (run Shape.gen (State.init rcSt rcPool) (List.replicate soloLen 1)).g.st.staticCache = [([97], ⟨[7], none⟩)] := by decide
example : (State.init rcSt rcPool).threads[1]? = some { op := .static [97], sn := Snaps.const rcFs, pc := .start } := rfl

/-! ## R2 — mutual exclusion, no unguarded map access, no file I/O under the lock -/

/-- **R2.** For the lock skeleton of the source, every pool, every schedule, in every reachable state: (a) no thread has ever
accessed `staticCache` / `templateCache` without owning `_fs->mutex` (the `unguarded` flag never rises: no data race on the
maps); (b) a thread is inside a `lock_guard` scope exactly when it owns the mutex, hence (c) at most one thread is inside a
critical section; (d) a thread that is about to `build` (`buildEntry` / `readFile`: all the file I/O) does not own the mutex. -/
theorem R2_mutual_exclusion (st : FsState) (ts : List (RaceOp × Snaps)) (sched : List Nat) :
    let s := run Shape.gen (State.init st ts) sched
    s.g.unguarded = false ∧
    (∀ (j : Nat) (t : Thread), s.threads[j]? = some t → (holds t.pc = true ↔ s.g.owner = some j)) ∧
    (∀ (j j' : Nat) (t t' : Thread), s.threads[j]? = some t → s.threads[j']? = some t' →
      holds t.pc = true → holds t'.pc = true → j = j') ∧
    (∀ (j : Nat) (t : Thread) (r : Bytes), s.threads[j]? = some t → t.pc = .build r → s.g.owner ≠ some j) := by
  intro s
  have h : MInv s := run_minv Shape.gen R0_shape_of_source sched _ (init_minv st ts)
  refine ⟨h.1, h.2, ?_, ?_⟩
  · intro j j' t t' hj hj' ht ht'
    have h1 := (h.2 j t hj).mp ht
    have h2 := (h.2 j' t' hj').mp ht'
    rw [h1] at h2; injection h2
  · intro j t r hj hpc ho
    have := (h.2 j t hj).mpr ho
    rw [hpc] at this; cases this

/-- **R2 (inductive form).** The mutex invariant is preserved by every step of every thread from ANY state that satisfies it
(not only from initial states). -/
theorem R2_invariant_step (s : State) (i : Nat) (h : MInv s) : MInv (step Shape.gen s i) :=
  step_minv Shape.gen R0_shape_of_source s i h

example : MInv (State.init rcSt rcPool) ∧ (State.init rcSt rcPool).threads.length = 4 := ⟨init_minv _ _, rfl⟩

/-- R2 is about a real mechanism: with the first `find` outside the lock the flag rises on a 1-thread schedule -/
example : (run { Shape.gen with static := { Shape.gen.static with find1UnderLock := false } }
    (State.init rcSt rcPool) [1, 1]).g.unguarded = true := by decide

/-! ## R3 — only good values in the caches, in the locals and in the results; never an entry of another key -/

/-- **R3.** For ANY lock skeleton, any families `GoodS k e` / `GoodT k d` indexed by the NAME: if every successful `build` of a
lookup of name `k` (from a path that this lookup validated) produces a value good for `k`, and the caches start good, then in
every reachable state every entry `(k, e)` of `staticCache` satisfies `GoodS k e`, every entry of `templateCache` satisfies
`GoodT`, every thread's built value is good for ITS name, and every result any thread has returned for name `k` is good for
`k`.  In particular no thread ever returns an entry that was built for, or stored under, a different key. -/
theorem R3_cache_good_invariant (GoodS : Bytes → CacheEntry → Prop) (GoodT : Bytes → Bytes → Prop)
    (sh : Shape) (s : State) (sched : List Nat)
    (hc : CacheGood GoodS GoodT s.g.st)
    (ht : ∀ t ∈ s.threads, ThreadGood GoodS GoodT s.g.st.staticsRoot s.g.st.templatesRoot t) :
    CacheGood GoodS GoodT (run sh s sched).g.st ∧
    (∀ t ∈ (run sh s sched).threads, ThreadGood GoodS GoodT s.g.st.staticsRoot s.g.st.templatesRoot t) ∧
    (∀ (j : Nat) (t : Thread) (k : Bytes) (ret : Ret), (run sh s sched).threads[j]? = some t →
      (t.op = .static k ∨ t.op = .template k) → t.pc = .done (some ret) → RetGood GoodS GoodT k ret) := by
  have h := run_good GoodS GoodT sh _ _ _ sched s ⟨rfl, rfl, rfl⟩ hc ht
  exact ⟨h.1.2, h.2, fun j t k ret hj hop hret =>
    run_results_good GoodS GoodT sh _ _ _ sched s ⟨rfl, rfl, rfl⟩ hc ht j t hj k hop ret hret⟩

/-- **R3 (one step).** The invariant is inductive: every step of every thread preserves it. -/
theorem R3_invariant_step (GoodS : Bytes → CacheEntry → Prop) (GoodT : Bytes → Bytes → Prop)
    (sh : Shape) (i : Nat) (t : Thread) (g : Shared) (rootS rootT : Bytes) (pr : Bool)
    (hg : Frame rootS rootT pr g.st ∧ CacheGood GoodS GoodT g.st) (ht : ThreadGood GoodS GoodT rootS rootT t) :
    (Frame rootS rootT pr (stepT sh i t g).2.st ∧ CacheGood GoodS GoodT (stepT sh i t g).2.st) ∧
    ThreadGood GoodS GoodT rootS rootT (stepT sh i t g).1 :=
  stepT_good GoodS GoodT sh i t g rootS rootT pr hg ht

/-- the hypotheses of R3 are satisfiable non-trivially: "an entry holds 7 or 8, a template holds 5" on the example pool -/
example : CacheGood (fun _ e => e.bytes = [7] ∨ e.bytes = [8]) (fun _ d => d = [5]) (State.init rcSt rcPool).g.st ∧
    ∀ t ∈ (State.init rcSt rcPool).threads,
      ThreadGood (fun _ e => e.bytes = [7] ∨ e.bytes = [8]) (fun _ d => d = [5]) rcSt.staticsRoot rcSt.templatesRoot t := by
  refine ⟨⟨fun k e h => by simp [State.init, rcSt] at h, fun k e h => by simp [State.init, rcSt] at h⟩, ?_⟩
  intro t ht
  simp only [State.init, rcPool, List.map, List.mem_cons, List.mem_nil_iff, or_false] at ht
  rcases ht with rfl | rfl | rfl | rfl
  · refine ⟨?_, trivial⟩
    intro r v hv hb
    have h1 : weaklyCanonicalAt rcFs rcFs (pathAppend rcSt.staticsRoot [97]) = .ok [47, 115, 47, 97] := by rfl
    have hr := hv.1
    simp only [Snaps.switchAt] at hr
    rw [h1] at hr; injection hr with hr; subst hr
    have h2 : buildVal false (Snaps.switchAt rcFs rcFs2 .O) [47, 115, 47, 97] = some (.s ⟨[8], none⟩) := by decide
    rw [h2] at hb; injection hb with hb; subst hb
    exact Or.inr rfl
  · refine ⟨?_, trivial⟩
    intro r v hv hb
    have h1 : weaklyCanonicalAt rcFs rcFs (pathAppend rcSt.staticsRoot [97]) = .ok [47, 115, 47, 97] := by rfl
    have hr := hv.1
    simp only [Snaps.const] at hr
    rw [h1] at hr; injection hr with hr; subst hr
    have h2 : buildVal false (Snaps.const rcFs) [47, 115, 47, 97] = some (.s ⟨[7], none⟩) := by decide
    rw [h2] at hb; injection hb with hb; subst hb
    exact Or.inl rfl
  · refine ⟨?_, trivial⟩
    intro r v hv hb
    have h1 : weaklyCanonicalAt rcFs rcFs (pathAppend rcSt.templatesRoot [112]) = .ok [47, 116, 47, 112] := by rfl
    have hr := hv.1
    simp only [Snaps.const] at hr
    rw [h1] at hr; injection hr with hr; subst hr
    have h2 : buildVal true (Snaps.const rcFs) [47, 116, 47, 112] = some (.t [5]) := by decide
    rw [h2] at hb; injection hb with hb; subst hb
    rfl
  · intro ret; simp

/-- **R3 (no cross-key value).** Instance of R3 that needs no hypothesis: for EVERY lock skeleton, pool and schedule, a value
returned by a thread that asked for name `k` was in the initial cache UNDER `k`, or was built by a thread of the pool that looks
up THE SAME name `k` (`RetGood` unfolds to: `found (blobOf e k)` with `BuiltForS … k e`, resp. `some d` with `BuiltForT … k d`). -/
theorem R3_no_cross_key (sh : Shape) (st0 : FsState) (ts : List (RaceOp × Snaps)) (sched : List Nat)
    (j : Nat) (t : Thread) (hj : (run sh (State.init st0 ts) sched).threads[j]? = some t) (k : Bytes)
    (hop : t.op = .static k ∨ t.op = .template k) (ret : Ret) (hret : t.pc = .done (some ret)) :
    RetGood (BuiltForS st0 ts) (BuiltForT st0 ts) k ret :=
  run_built_for_key sh st0 ts sched j t hj k hop ret hret

/-- a thread of the example pool that has returned, as R3_no_cross_key wants it -/
example : ∃ t, (run Shape.gen (State.init rcSt rcPool) [2, 2, 2, 2, 2, 2]).threads[2]? = some t ∧ t.op = .template [112] ∧
    t.pc = .done (some (.inr (some [5]))) := ⟨_, rfl, rfl, by decide⟩

/-! ## R4 — the second critical section: the winner's entry or its own; `emplace` never overwrites; all threads agree -/

/-- **R4.** In any pool, a thread that executes its second critical section (second `find` + `emplace` under ONE `lock_guard`,
as in the source) returns a value `w` that IS the entry of its key afterwards; and either another thread had inserted `w` under
the SAME key earlier in the schedule (the branch `chosen = it->second`: the cache is unchanged, what this thread built is
discarded), or the key was absent, `w` is what this thread built, and it is now inserted. -/
theorem R4_winner_or_own (s : State) (j : Nat) (t : Thread) (tmpl : Bool) (k : Bytes) (v : Val)
    (hj : s.threads[j]? = some t) (hop : t.op = lookupOp tmpl k) (hpc : t.pc = .cs2 v) (hk : v.isT = tmpl) :
    ∃ w, (step Shape.gen s j).result j = some (retOf k w) ∧ find tmpl (step Shape.gen s j).g.st k = some w ∧
      ((find tmpl s.g.st k = some w ∧ (step Shape.gen s j).g.st = s.g.st) ∨
       (find tmpl s.g.st k = none ∧ w = v ∧ (step Shape.gen s j).g.st = Race.insert Shape.gen k v s.g.st)) :=
  step_cs2 Shape.gen R0_shape_of_source s j t tmpl k v hj hop hpc hk

/-- **R4 (`emplace` never overwrites).** With the insertion primitive of the source, in every pool that contains no `reload`,
along every schedule, an entry that is present under a key stays exactly that entry — whatever any thread inserts under
whatever key, and independently of the second `find`. -/
theorem R4_emplace_never_overwrites (tmpl : Bool) (k : Bytes) (w : Val) (sched : List Nat) (s : State)
    (hnr : ∀ t ∈ s.threads, t.op ≠ .reload) (h : find tmpl s.g.st k = some w) :
    find tmpl (run Shape.gen s sched).g.st k = some w :=
  run_find_stable Shape.gen (ok_static R0_shape_of_source).2.2.2.2 (ok_template R0_shape_of_source).2.2.2.2
    tmpl k w sched s hnr h

/-- **R4 (agreement).** Cached mode, any pool without `reload`, any schedule, any reachable state: two calls that have returned
for the same key of the same map returned the SAME value, and it is the entry the cache holds for that key — unless one of them
found no file (not found / rejected).  (Between two reloads all threads agree on the entry of a key.) -/
theorem R4_threads_agree (st : FsState) (hpr : st.perRequest = false) (ts : List (RaceOp × Snaps))
    (hnr : ∀ x ∈ ts, x.1 ≠ .reload) (sched : List Nat) :
    let s := run Shape.gen (State.init st ts) sched
    ∀ (j j' : Nat) (t t' : Thread) (tmpl : Bool) (k : Bytes) (ret ret' : Ret),
      s.threads[j]? = some t → s.threads[j']? = some t' → t.op = lookupOp tmpl k → t'.op = lookupOp tmpl k →
      t.pc = .done (some ret) → t'.pc = .done (some ret') →
      (∃ w, ret = retOf k w ∧ ret' = retOf k w ∧ find tmpl s.g.st k = some w) ∨ isMiss tmpl ret ∨ isMiss tmpl ret' := by
  intro s j j' t t' tmpl k ret ret' hj hj' hop hop' hr hr'
  have h := run_agree Shape.gen R0_shape_of_source sched (State.init st ts) hpr (init_agree st ts hnr)
  exact agree_results s h.2 t t' (List.mem_of_getElem? hj) (List.mem_of_getElem? hj') tmpl k hop hop' ret ret' hr hr'

/-- three threads look `a` up while the environment rewrites it; whatever the interleaving below, all get B's bytes -/
def rcPool3 : List (RaceOp × Snaps) :=
  [(.static [97], Snaps.switchAt rcFs rcFs2 .O), (.static [97], Snaps.const rcFs), (.static [97], Snaps.const rcFs2)]
example : rcSt.perRequest = false ∧ (∀ x ∈ rcPool3, x.1 ≠ .reload) ∧
    (let s := run Shape.gen (State.init rcSt rcPool3) [0, 0, 0, 2, 2, 2, 1, 1, 1, 1, 1, 1, 0, 0, 0, 2, 2, 2, 0, 2]
     s.result 0 = some (.inl (.found ⟨[7], Gen.Assets.mimeDefault, none⟩)) ∧ s.result 1 = s.result 0 ∧ s.result 2 = s.result 0 ∧
     s.g.st.staticCache = [([97], ⟨[7], none⟩)] ∧ s.g.owner = none ∧ s.g.unguarded = false) := by
  refine ⟨rfl, ?_, by decide⟩
  intro x hx
  simp only [rcPool3, List.mem_cons, List.mem_nil_iff, or_false] at hx
  rcases hx with rfl | rfl | rfl <;> simp

/-- R4's hypotheses are met in the middle of that run: thread 0 sits in its second critical section with its own `[8]` -/
example : (run Shape.gen (State.init rcSt rcPool3) [0, 0, 0, 1, 1, 1, 1, 1, 1, 0, 0]).threads.map (fun t => t.pc)
    = [.cs2 (.s ⟨[8], none⟩), .done (some (.inl (.found ⟨[7], Gen.Assets.mimeDefault, none⟩))), .start] := by decide

/-! ## R5 — the link to C20: under every interleaving only once-inside bytes are served -/

/-- **R5.** From a filesystem-mode instance with canonical roots whose caches hold only once-inside bytes (e.g. are empty), for
EVERY lock skeleton, EVERY pool of threads about to start, EVERY schedule: if every lookup thread's name passed the lexical
filter and the environment is `LeafOnly` while THAT thread's lookup runs (its own snapshots, its own candidate — exactly the
hypotheses of A4's `getStaticFilesystemAt_good`), then every static blob and every template returned by ANY thread at ANY point
consists of bytes that were, in the file system current at an open of SOME thread's lookup (`seen`), the content of a regular
file strictly inside the static (resp. template) root; and so does everything in both caches. -/
theorem R5_concurrent_history_inside (sh : Shape) (bnS bnT : List Name) (s : State) (seen : List Fs)
    (hrS : RootOK s.g.st.staticsRoot bnS) (hrT : RootOK s.g.st.templatesRoot bnT)
    (hcS : ∀ k e, (k, e) ∈ s.g.st.staticCache → EntryGood (EverInside seen bnS) e)
    (hcT : ∀ k d, (k, d) ∈ s.g.st.templateCache → EverInside seen bnT d)
    (hstart : ∀ t ∈ s.threads, t.pc = .start)
    (hseen : ∀ t ∈ s.threads, t.sn.o ∈ seen ∧ t.sn.z ∈ seen)
    (hok : ∀ t ∈ s.threads, ThreadOK s.g.st.staticsRoot s.g.st.templatesRoot bnS bnT t)
    (sched : List Nat) :
    (∀ (j : Nat) (t : Thread), (run sh s sched).threads[j]? = some t → ∀ ret, t.pc = .done (some ret) →
      RetInside seen bnS bnT ret) ∧
    (∀ k e, (k, e) ∈ (run sh s sched).g.st.staticCache → EntryGood (EverInside seen bnS) e) ∧
    (∀ k d, (k, d) ∈ (run sh s sched).g.st.templateCache → EverInside seen bnT d) :=
  run_inside sh bnS bnT s seen hrS hrT hcS hcT hstart hseen hok sched

/-- the hypotheses of R5 hold of the example pool (one thread's file is rewritten between its validation and its open) -/
example : let s := State.init rcSt rcPool
    RootOK s.g.st.staticsRoot [[115]] ∧ RootOK s.g.st.templatesRoot [[116]] ∧
    (∀ t ∈ s.threads, t.pc = .start) ∧
    (∀ t ∈ s.threads, t.sn.o ∈ seenOf s.threads ∧ t.sn.z ∈ seenOf s.threads) ∧
    (∀ t ∈ s.threads, ThreadOK s.g.st.staticsRoot s.g.st.templatesRoot [[115]] [[116]] t) := by
  refine ⟨rcRootS, rcRootT, ?_, ?_, ?_⟩
  · intro t ht
    simp only [State.init, rcPool, List.map, List.mem_cons, List.mem_nil_iff, or_false] at ht
    rcases ht with rfl | rfl | rfl | rfl <;> rfl
  · intro t ht
    simp only [State.init, rcPool, List.map, List.mem_cons, List.mem_nil_iff, or_false] at ht
    rcases ht with rfl | rfl | rfl | rfl <;> simp [seenOf, State.init, rcPool]
  · intro t ht
    simp only [State.init, rcPool, List.map, List.mem_cons, List.mem_nil_iff, or_false] at ht
    rcases ht with rfl | rfl | rfl | rfl
    · exact ⟨by decide, set_preserves_dirs _ _ _ (by decide), set_preserves_dirs _ _ _ (by decide),
        fun hs => absurd hs (by decide)⟩
    · exact ⟨by decide, leafOnly_const _ _ _ (by decide) (by decide) (by decide)⟩
    · exact ⟨by decide, leafOnly_const _ _ _ (by decide) (by decide) (by decide)⟩
    · trivial

/-! ## R6 — the second `find` matters (concrete two-thread witness) -/

/-- A (thread 0) validates and misses in its first critical section; B (thread 1) runs a whole lookup and inserts `v1 = [7]`;
the environment rewrites the file; A builds `v2 = [8]`, enters its second critical section, finds B's entry and returns
`v1` — the branch `chosen = it->second`.  Both calls return the same bytes and the cache holds them. -/
def rcWitness : List Nat := [0, 0, 0, 1, 1, 1, 1, 1, 1, 0, 0, 0]
def rcPool2 : List (RaceOp × Snaps) := [(.static [97], Snaps.switchAt rcFs rcFs2 .O), (.static [97], Snaps.const rcFs)]

theorem R_second_find_matters :
    let s := run Shape.gen (State.init rcSt rcPool2) rcWitness
    s.result 0 = some (.inl (.found ⟨[7], Gen.Assets.mimeDefault, none⟩)) ∧
    s.result 1 = some (.inl (.found ⟨[7], Gen.Assets.mimeDefault, none⟩)) ∧
    s.g.st.staticCache = [([97], ⟨[7], none⟩)] ∧ s.g.unguarded = false ∧
    -- A had built something else:
    (run Shape.gen (State.init rcSt rcPool2) (rcWitness.take 11)).threads.map (fun t => t.pc)
      = [.cs2 (.s ⟨[8], none⟩), .done (some (.inl (.found ⟨[7], Gen.Assets.mimeDefault, none⟩)))] := by decide

/-- the same schedule WITHOUT the second `find` (insertion still `emplace`): A returns its own `[8]` although the cache keeps
B's `[7]` — two calls for one key disagree and A's result is not the cached entry (R4 fails) -/
example :
    let s := run { Shape.gen with static := { Shape.gen.static with hasSecondFind := false } } (State.init rcSt rcPool2) rcWitness
    s.result 0 = some (.inl (.found ⟨[8], Gen.Assets.mimeDefault, none⟩)) ∧
    s.result 1 = some (.inl (.found ⟨[7], Gen.Assets.mimeDefault, none⟩)) ∧
    find false s.g.st [97] = some (.s ⟨[7], none⟩) := by decide

/-- WITHOUT the second `find` and with an overwriting insertion: the entry of the key CHANGES from `[7]` to `[8]` after B
already returned `[7]` (`R4_emplace_never_overwrites` fails) -/
example :
    let s := run { Shape.gen with static := { Shape.gen.static with hasSecondFind := false, emplace := false } }
      (State.init rcSt rcPool2) rcWitness
    s.result 1 = some (.inl (.found ⟨[7], Gen.Assets.mimeDefault, none⟩)) ∧
    find false s.g.st [97] = some (.s ⟨[8], none⟩) := by decide

/-- second `find` and insertion in two lock scopes: both threads miss, both insert; A returns `[8]`, the cache keeps `[7]` -/
example :
    let s := run { Shape.gen with static := { Shape.gen.static with find2EmplaceSameLock := false } }
      (State.init rcSt rcPool2) [0, 0, 0, 0, 0, 0, 1, 1, 1, 1, 1, 1, 1, 1, 0, 0]
    s.result 0 = some (.inl (.found ⟨[8], Gen.Assets.mimeDefault, none⟩)) ∧
    s.result 1 = some (.inl (.found ⟨[7], Gen.Assets.mimeDefault, none⟩)) ∧
    find false s.g.st [97] = some (.s ⟨[7], none⟩) ∧ s.g.unguarded = false := by decide

/-! ## the gated schedule the driver replays -/

/-- `gatedRace` is a run of the machine on an explicit schedule, so R2–R5 apply to it. -/
theorem R7_gatedRace_is_schedule (fs0 fs1 : Fs) (st : FsState) (tmplA : Bool) (nameA : Bytes) (bOp : RaceOp) :
    ∃ m, m ≤ soloLen ∧
      let s0 : State := { g := { st := st }, threads :=
        [{ op := if tmplA then .template nameA else .static nameA, sn := ⟨fs0, fs0, fs0, fs1, fs1, fs1⟩ },
         { op := bOp, sn := Snaps.const fs0 }] }
      let s3 := run Shape.gen s0 (List.replicate m 0 ++ List.replicate soloLen 1 ++ List.replicate soloLen 0)
      (gatedRace fs0 fs1 st tmplA nameA bOp).st = s3.g.st ∧
      (gatedRace fs0 fs1 st tmplA nameA bOp).resB = s3.result 1 ∧
      (gatedRace fs0 fs1 st tmplA nameA bOp).resA = orMiss tmplA (s3.result 0) ∧
      (gatedRace fs0 fs1 st tmplA nameA bOp).gated = atBuild (run Shape.gen s0 (List.replicate m 0)) 0 :=
  gatedRace_is_schedule fs0 fs1 st tmplA nameA bOp

/-- B inserts first: A (gated at its build) returns B's `[7]`, not the `[8]` it read -/
example : let o := gatedRace rcFs rcFs2 rcSt false [97] (.static [97])
    o.gated = true ∧ o.resA = .inl (.found ⟨[7], Gen.Assets.mimeDefault, none⟩) ∧
    o.resB = some (.inl (.found ⟨[7], Gen.Assets.mimeDefault, none⟩)) ∧ o.st.staticCache = [([97], ⟨[7], none⟩)] := by decide
/-- B does nothing / reloads / looks a template up: A returns and caches what it read after the change -/
example : (gatedRace rcFs rcFs2 rcSt false [97] .none).resA = .inl (.found ⟨[8], Gen.Assets.mimeDefault, none⟩) ∧
    (gatedRace rcFs rcFs2 rcSt false [97] .reload).st.staticCache = [([97], ⟨[8], none⟩)] ∧
    (gatedRace rcFs rcFs2 rcSt false [97] (.template [112])).resB = some (.inr (some [5])) ∧
    (gatedRace rcFs rcFs2 rcSt false [97] (.template [112])).st.templateCache = [([112], [5])] := by decide
/-- A never reaches `build` (missing file; cache hit): not gated, B still runs -/
example : (gatedRace rcFs rcFs2 rcSt false [122] (.static [97])).gated = false ∧
    (gatedRace rcFs rcFs2 rcSt false [122] (.static [97])).resA = .inl .notFound ∧
    (gatedRace rcFs rcFs2 rcSt false [122] (.static [97])).resB = some (.inl (.found ⟨[7], Gen.Assets.mimeDefault, none⟩)) ∧
    (gatedRace rcFs rcFs2 { rcSt with staticCache := [([97], ⟨[1], none⟩)] } false [97] .reload).gated = false ∧
    (gatedRace rcFs rcFs2 { rcSt with staticCache := [([97], ⟨[1], none⟩)] } false [97] .reload).resA
      = .inl (.found ⟨[1], Gen.Assets.mimeDefault, none⟩) ∧
    (gatedRace rcFs rcFs2 { rcSt with staticCache := [([97], ⟨[1], none⟩)] } false [97] .reload).st.staticCache = [] := by decide
/-- per-request mode: gated right after validation, nothing is cached; template lookups are gated too -/
example : (gatedRace rcFs rcFs2 { rcSt with perRequest := true } false [97] (.static [97])).gated = true ∧
    (gatedRace rcFs rcFs2 { rcSt with perRequest := true } false [97] (.static [97])).resA
      = .inl (.found ⟨[8], Gen.Assets.mimeDefault, none⟩) ∧
    (gatedRace rcFs rcFs2 { rcSt with perRequest := true } false [97] (.static [97])).st.staticCache = [] ∧
    (gatedRace rcFs rcFs2 rcSt true [112] (.template [112])).gated = true ∧
    (gatedRace rcFs rcFs2 rcSt true [112] (.template [112])).resA = .inr (some [5]) := by decide

end Iora.C20
