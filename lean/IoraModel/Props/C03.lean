import IoraModel.Lemmas.SyncRecv
import IoraModel.Model.SyncRecvGen
/-!
# C03 — Synchronous receive is a lossless ordered stream that drains before EOF

Property theorems only; the model is `Model/SyncRecv.lean` (one step = one `syncMutex` critical section of
`transport_impl.hpp`, REPAIRED code: fixes F15 and F15b), instantiated from the regenerated lock/notify skeleton
(`Gen/TsyncSkel.lean` via `Model/TsyncFacts.lean`).  Every theorem quantifies over ALL step sequences
(`steps : List Step` — every interleaving of the I/O thread's data/close deliveries with the application's receives, wake-ups,
timeouts, spurious wake-ups, mode switches and flush steps, over any number of sessions) that respect the environment
contract `Disciplined` (engine: no data / second close after a close — zero-length chunks ARE legal arrivals; application: one
thread drives a session's blocking calls).
-/
namespace Iora.C03
open Iora Iora.SyncRecv

/-- The skeleton facts the model is instantiated from hold of the regenerated skeleton: predicate writes of `buf->cv`
(`hasData`, `overflow`, `closed`) are made under `syncMutex` and followed by a notify under the same lock; the handler reads
the mode and appends under one lock acquisition; the flush invokes the user callback with no Transport mutex held; `hasData` is
computed from the BUFFER after the append (FC03a); `receiveSync` keys its drain on the buffer being non-empty; and the flush
loop switches the mode to Async only in a critical section that found the buffer empty — never in the one that took bytes. -/
theorem skeleton_conforms :
    (∀ mb gc al, (genCfg mb gc al).Good) ∧ TsyncFacts.modeReadAndAppendUnderOneLock = true ∧
    TsyncFacts.flushCallbackUnlocked = true ∧ TsyncFacts.hasDataMirrorsBuffer = true ∧
    TsyncFacts.drainKeyedOnBuffer = true ∧ TsyncFacts.flushSwitchesModeOnlyOnEmptyPass = true := by
  refine ⟨fun mb gc al => ?_, by decide, by decide, by decide, by decide, by decide⟩
  exact ⟨show TsyncFacts.notifyOnData = true by decide, show TsyncFacts.notifyOnOverflow = true by decide,
    show TsyncFacts.notifyOnClose = true by decide⟩

/-- **T1 (stream, conservation).** After every disciplined step sequence, for every session: the bytes handed out (receive
results and callback deliveries, in real-time order), then the bytes a flusher holds, then the buffered bytes, then the chunk
the I/O thread is about to hand to the callback, are exactly the accepted bytes in arrival order — each once, none reordered —
and the accepted bytes are ALL arrived bytes as long as no chunk was dropped. Caller buffer lengths are arbitrary. -/
theorem T1_stream (cfg : Cfg) (hg : cfg.Good) (steps : List Step) (hd : Disciplined cfg init steps) (sid : Nat) :
    let s := (run cfg init steps).1
    let x := s.sess sid
    x.out ++ inflight x ++ bufData x ++ pd (pendO s sid) = x.accepted ∧ (x.gap = false → x.accepted = x.arrived) :=
  let h := run_inv hg steps init Inv_init hd sid
  ⟨h.E, h.A⟩

/-- **T1 (receiver's view).** At every point of every run, what has been handed out is a prefix of what arrived — unless the
application itself switched the session to Async after an overflow (`lateAsync`), which resumes callback delivery past the gap. -/
theorem T1_out_prefix (cfg : Cfg) (hg : cfg.Good) (steps : List Step) (hd : Disciplined cfg init steps) (sid : Nat)
    (hl : ((run cfg init steps).1.sess sid).lateAsync = false) :
    ∃ t, ((run cfg init steps).1.sess sid).arrived = ((run cfg init steps).1.sess sid).out ++ t := by
  have h := run_inv hg steps init Inv_init hd sid
  obtain ⟨t, ht⟩ := h.Pre hl
  refine ⟨inflight ((run cfg init steps).1.sess sid) ++ bufData ((run cfg init steps).1.sess sid) ++
    pd (pendO (run cfg init steps).1 sid) ++ t, ?_⟩
  rw [ht, ← h.E]; simp [List.append_assoc]

/-- **T2 (drain before EOF).** Whenever a step answers `PeerClosed` for a session, the session's buffer was empty in the state
the answer was computed in, and afterwards everything accepted has been handed out — all arrived bytes if nothing was dropped. -/
theorem T2_drain_before_eof (cfg : Cfg) (hg : cfg.Good) (steps : List Step) (st : Step)
    (hd : Disciplined cfg init (steps ++ [st])) (sid : Nat)
    (hev : Ev.recvRet sid .peerClosed ∈ (step cfg (run cfg init steps).1 st).2) :
    let s := (run cfg init steps).1
    let x' := (step cfg s st).1.sess sid
    bufData (s.sess sid) = [] ∧ x'.out = x'.accepted ∧ (x'.gap = false → x'.out = x'.arrived) := by
  have hd' := (disciplined_append cfg steps [st] init).mp hd
  have hi := run_inv hg steps init Inv_init hd'.1
  have hok : ok (run cfg init steps).1 st = true := hd'.2.1
  obtain ⟨h1, h2⟩ := peerClosed_drained hg hi st hok sid hev
  refine ⟨h1, h2, fun hgap => ?_⟩
  rw [h2]; exact (step_inv hg hi st hok sid).A hgap

/-- **T3 (flush order).** In every reachable state in which a live session is in Async mode, nothing is buffered and no flusher
holds bytes: the Sync→Async (and Disabled→Async) switch handed every earlier byte to the callback before the mode became Async,
so every byte that arrives later is delivered after them (`out ++ pending = accepted`). -/
theorem T3_flush_order (cfg : Cfg) (hg : cfg.Good) (steps : List Step) (hd : Disciplined cfg init steps) (sid : Nat)
    (hm : effMode ((run cfg init steps).1.sess sid) = .async) (hl : ((run cfg init steps).1.sess sid).dead = false) :
    let s := (run cfg init steps).1
    let x := s.sess sid
    bufData x = [] ∧ inflight x = [] ∧ x.out ++ pd (pendO s sid) = x.accepted := by
  have h := run_inv hg steps init Inv_init hd sid
  obtain ⟨h1, h2⟩ := h.I2 hm hl
  refine ⟨h1, h2, ?_⟩
  have := h.E; rw [h1, h2] at this; simpa using this

/-- **T4 (Disabled is silent).** A chunk that arrives while the session is Disabled changes no session, is not counted as
arrived, leaves nothing pending and produces no output. -/
theorem T4_disabled_silent (cfg : Cfg) (s : State) (sid : Nat) (chunk : Bytes) (hm : effMode (s.sess sid) = .disabled) :
    (step cfg s (.ioData sid chunk)).1.sess = s.sess ∧ (step cfg s (.ioData sid chunk)).2 = [] ∧
    (step cfg s (.ioData sid chunk)).1.ioPend = s.ioPend := by
  unfold step
  cases hp : s.ioPend with
  | some _ => simp [hp]
  | none =>
    have : ioDataS cfg s.shuttingDown (s.sess sid) chunk = (s.sess sid, .ignored) := by simp [ioDataS, hm]
    refine ⟨?_, rfl, ?_⟩
    · funext j; simp only [this, upd]; split <;> simp_all
    · simp [this]

/-- **T5 (overflow is sticky and reported).** No step clears `overflow` while the buffer exists, and a receive entered on an
overflowed, drained buffer answers `BufferOverflow` (before `PeerClosed`, whatever else happened). -/
theorem T5_overflow_sticky (cfg : Cfg) (s : State) (st : Step) (sid : Nat) (b b' : Buf)
    (hb : (s.sess sid).buf = some b) (ho : b.overflow = true) (hb' : ((step cfg s st).1.sess sid).buf = some b') :
    b'.overflow = true :=
  overflow_sticky cfg s st sid b b' hb ho hb'

theorem T5_overflow_reported (cfg : Cfg) (s : State) (sid len : Nat) (b : Buf) (hsh : s.shuttingDown = false)
    (hb : (s.sess sid).buf = some b) (hd : b.data = []) (ho : b.overflow = true)
    (hp : (s.sess sid).parked = none) (hf : flushing (s.sess sid) = false) :
    (step cfg s (.recvEnter sid len)).2 = [.recvRet sid .overflow] :=
  recv_overflow cfg s sid len b hsh hb hd ho hp hf

/-- **T5 (no post-gap bytes; true of the repaired `onData` handler, F15).** In every disciplined run no chunk is ever appended
to a session's sync buffer after one of its chunks was dropped; hence (`T1_out_prefix`) a synchronous reader is only ever given
bytes that arrived before the gap, then `BufferOverflow`. -/
theorem T5_no_post_gap_bytes (cfg : Cfg) (hg : cfg.Good) (steps : List Step) (hd : Disciplined cfg init steps) (sid : Nat) :
    ((run cfg init steps).1.sess sid).lateSync = false :=
  (run_inv hg steps init Inv_init hd sid).L

/-- **T6 (no lost wake-up).** In every reachable state, a parked receive whose wait predicate holds because of data, close or
overflow has been notified (it re-acquires the lock without waiting for its timeout). This uses the skeleton facts: each such
write is made under `syncMutex` and notified under the same lock. -/
theorem T6_no_lost_wakeup (cfg : Cfg) (hg : cfg.Good) (steps : List Step) (hd : Disciplined cfg init steps) (sid : Nat)
    (p : Parked) (b : Buf) (hp : ((run cfg init steps).1.sess sid).parked = some p)
    (hb : ((run cfg init steps).1.sess sid).buf = some b) (hpred : (b.hasData || b.closed || b.overflow) = true) :
    p.awake = true :=
  (run_inv hg steps init Inv_init hd sid).W p b hp hb hpred

/-- **T7 (late receive).** If no tombstone GC pass has run, then in every reachable state a receive entered on a closed session
that has not yet reported EOF and whose buffer is drained (and not overflowed) answers `PeerClosed` in its entry critical
section — it never parks, so it cannot block until its timeout. -/
theorem T7_late_receive (cfg : Cfg) (steps : List Step) (sid len : Nat)
    (hgc : (run cfg init steps).1.gcRan = false) (hsh : (run cfg init steps).1.shuttingDown = false)
    (hdead : ((run cfg init steps).1.sess sid).dead = true) (heof : ((run cfg init steps).1.sess sid).eof = false)
    (hdr : ∀ b, ((run cfg init steps).1.sess sid).buf = some b → b.data = [] ∧ b.overflow = false)
    (hp : ((run cfg init steps).1.sess sid).parked = none) (hf : flushing ((run cfg init steps).1.sess sid) = false) :
    (step cfg (run cfg init steps).1 (.recvEnter sid len)).2 = [.recvRet sid .peerClosed] := by
  obtain ⟨b, hb, hc⟩ := run_tomb steps init Tomb_init hgc sid hdead heof
  obtain ⟨hd, ho⟩ := hdr b hb
  exact recv_tombstone cfg _ sid len b hsh hb hd ho hc hp hf

/-! ### non-vacuity: concrete disciplined runs exercising the hypotheses -/

def cfg10 : Cfg := { maxBuf := 10, gcThreshold := 1024 }

/-- the F15 history (cap 10: `AAAAAAAA`, `BBBBB`, `CC`, receive, receive) is disciplined; the repaired model returns the eight
bytes that arrived before the gap, then BufferOverflow -/
example : disciplinedB cfg10 init
    [.setMode 7 .sync, .ioData 7 [65,65,65,65,65,65,65,65], .ioData 7 [66,66,66,66,66], .ioData 7 [67,67],
     .recvEnter 7 32, .recvEnter 7 32] = true := by decide
example : (run cfg10 init
    [.setMode 7 .sync, .ioData 7 [65,65,65,65,65,65,65,65], .ioData 7 [66,66,66,66,66], .ioData 7 [67,67],
     .recvEnter 7 32, .recvEnter 7 32]).2 =
    [.modeRet 7 true, .recvRet 7 (.ok [65,65,65,65,65,65,65,65]), .recvRet 7 .overflow] := by decide
/-- a parked receive woken by data, a mid-flush arrival, then close and the tombstone answer -/
example : disciplinedB cfg10 init
    [.setMode 1 .sync, .recvEnter 1 2, .ioData 1 [1,2,3], .recvWake 1 false, .setMode 1 .async, .flushStep 1, .flushStep 1,
     .ioData 1 [4], .flushStep 1, .flushStep 1, .flushStep 1, .flushStep 1, .flushStep 1, .ioData 1 [5], .ioDeliver,
     .ioClose 1, .recvEnter 1 9] = true := by decide
example : (run cfg10 init
    [.setMode 1 .sync, .recvEnter 1 2, .ioData 1 [1,2,3], .recvWake 1 false, .setMode 1 .async, .flushStep 1, .flushStep 1,
     .ioData 1 [4], .flushStep 1, .flushStep 1, .flushStep 1, .flushStep 1, .flushStep 1, .ioData 1 [5], .ioDeliver,
     .ioClose 1, .recvEnter 1 9]).2 =
    [.modeRet 1 true, .recvRet 1 (.ok [1,2]), .cbData 1 [3], .cbData 1 [4], .modeRet 1 true, .cbData 1 [5],
     .recvRet 1 .peerClosed] := by decide

/-- zero-length chunks are legal arrivals (FC03a): on an empty buffer the receive keeps waiting (no bogus ShuttingDown); behind
buffered bytes nothing is hidden — the bytes are returned, then EOF -/
example : disciplinedB cfg10 init [.setMode 1 .sync, .ioData 1 [], .recvEnter 1 4] = true ∧
    (run cfg10 init [.setMode 1 .sync, .ioData 1 [], .recvEnter 1 4]).2 = [.modeRet 1 true] := by decide
example : disciplinedB cfg10 init [.setMode 1 .sync, .ioData 1 [65, 65, 65, 65], .ioData 1 [], .ioClose 1, .recvEnter 1 8, .recvEnter 1 8] = true ∧
    (run cfg10 init [.setMode 1 .sync, .ioData 1 [65, 65, 65, 65], .ioData 1 [], .ioClose 1, .recvEnter 1 8, .recvEnter 1 8]).2 =
      [.modeRet 1 true, .recvRet 1 (.ok [65, 65, 65, 65]), .recvRet 1 .peerClosed] := by decide

end Iora.C03
