import IoraModel.Lemmas.SyncRecv
import IoraModel.Lemmas.SyncRecvW
import IoraModel.Lemmas.SyncRecvT8
import IoraModel.Lemmas.SyncRecvG3
import IoraModel.Model.SyncRecvGen
/-!
# C03 — Synchronous receive is a lossless ordered stream that drains before EOF

Property theorems only; the model is `Model/SyncRecv.lean` (one step = one `syncMutex` critical section of
`transport_impl.hpp`, REPAIRED code: fixes F15, F15b, FC03a, FC02a, FC03c, FC03d; FC03b concerns clock arithmetic, which the model does not contain), with
`receiveSyncCancellable` as a layer over it (`Model/SyncRecvW.lean`), instantiated from the regenerated lock/notify skeleton
(`Gen/TsyncSkel.lean` via `Model/TsyncFacts.lean`) and PINNED to it (`skeleton_pinned`).  Every theorem quantifies over ALL step
sequences (`steps : List Step` — every interleaving of the I/O thread's data/close deliveries with the application's receives,
wake-ups, timeouts, spurious wake-ups, mode switches and flush steps, over any number of sessions) that respect the environment
contract `Disciplined` (engine: no data / second close after a close — zero-length chunks ARE legal arrivals; the I/O thread is one
thread; application: one thread drives a session's blocking calls).  The ghost field `out` the stream theorems speak about is tied to
the emitted events (`T1_out_is_events`).  Time is not modelled: "in time" is tied by `skeleton_pinned` and monitors, not proved.
-/
namespace Iora.C03
open Iora Iora.SyncRecv

/-- The skeleton facts the model is instantiated from hold of the regenerated skeleton: predicate writes of `buf->cv`
(`hasData`, `overflow`, `closed`) are made under `syncMutex` and followed by a notify under the same lock; the handler reads
the mode and appends under one lock acquisition; the flush invokes the user callback with no Transport mutex held; `hasData` is
computed from the BUFFER after the append (FC03a); `receiveSync` keys its drain on the buffer being non-empty; and the flush
loop switches the mode to Async only in a critical section that found the buffer empty — never in the one that took bytes. -/
theorem skeleton_conforms :
    (∀ mb gc al, (genCfg mb gc al).Good) ∧ TsyncFacts.modeReadAndAppendUnderOneLock = true ∧
    TsyncFacts.flushCallbackUnlocked = true ∧ TsyncFacts.hasDataMirrorsBuffer = true ∧
    TsyncFacts.drainKeyedOnBuffer = true ∧ TsyncFacts.flushSwitchesModeOnlyOnEmptyPass = true := by
  refine ⟨fun mb gc al => ?_, by decide, by decide, by decide, by decide, by decide⟩
  exact ⟨show TsyncFacts.notifyOnData = true by decide, show TsyncFacts.notifyOnOverflow = true by decide,
    show TsyncFacts.notifyOnClose = true by decide⟩

set_option maxRecDepth 20000 in
/-- The four functions the model mirrors step by step — the `onData` handler, `receiveSync`, `setReadMode` and step 6 of the
`onClose` handler — have EXACTLY the lock / wait / notify / write / compare / return skeleton the model was written against
(equality with the literal lists in `Model/TsyncFacts.lean`), `receiveSyncCancellable` is exactly the loop `Model/SyncRecvW.lean`
mirrors, `receiveSync` waits under the caller's lock until `now() + timeout` and answers `Timeout` exactly for an unsignalled wait,
the timeouts are saturated before they enter clock arithmetic (FC03b), step 6 of the `onClose` handler erases the `readModes`
entry exactly once, under no condition, and `setReadMode` returns at once for a closed tombstone, before it touches `readModes` (T8, FC02a);
the close handler marks the session closed BEFORE it invokes the global close callback and the observers, both with no Transport mutex
held (FC03c); and every condition the model mirrors as a decision has exactly the text - operators and operands - it was written against. -/
theorem skeleton_pinned :
    TsyncFacts.c03SkeletonPinned = true ∧ TsyncFacts.recvWrapperShape = true ∧ TsyncFacts.recvTimingArgs = true ∧
    TsyncFacts.recvTimeoutsSaturate = true ∧ TsyncFacts.closeForgetsModeUnconditionally = true ∧
    TsyncFacts.setReadModeSkipsTombstone = true ∧ TsyncFacts.closeMarksBeforeCallbacks = true ∧
    TsyncFacts.c03ConditionsPinned = true := by
  exact ⟨by decide, by decide, by decide, by decide, by decide, by decide, by decide, by decide⟩

/-- **T1 (stream, conservation).** After every disciplined step sequence, for every session: the bytes handed out (receive
results and callback deliveries, in real-time order), then the bytes a flusher holds, then the buffered bytes, then the chunk
the I/O thread is about to hand to the callback, are exactly the accepted bytes in arrival order — each once, none reordered —
and the accepted bytes are ALL arrived bytes as long as no chunk was dropped. Caller buffer lengths are arbitrary. -/
theorem T1_stream (cfg : Cfg) (hg : cfg.Good) (steps : List Step) (hd : Disciplined cfg init steps) (sid : Nat) :
    let s := (run cfg init steps).1
    let x := s.sess sid
    x.out ++ inflight x ++ bufData x ++ pd (pendO s sid) = x.accepted ∧ (x.gap = false → x.accepted = x.arrived) :=
  let h := run_inv hg steps init Inv_init hd sid
  ⟨h.E, h.A⟩

/-- **T1 (receiver's view).** At every point of every run, what has been handed out is a prefix of what arrived — unless the
application itself switched the session to Async after an overflow (`lateAsync`), which resumes callback delivery past the gap. -/
theorem T1_out_prefix (cfg : Cfg) (hg : cfg.Good) (steps : List Step) (hd : Disciplined cfg init steps) (sid : Nat)
    (hl : ((run cfg init steps).1.sess sid).lateAsync = false) :
    ∃ t, ((run cfg init steps).1.sess sid).arrived = ((run cfg init steps).1.sess sid).out ++ t := by
  have h := run_inv hg steps init Inv_init hd sid
  obtain ⟨t, ht⟩ := h.Pre hl
  refine ⟨inflight ((run cfg init steps).1.sess sid) ++ bufData ((run cfg init steps).1.sess sid) ++
    pd (pendO (run cfg init steps).1 sid) ++ t, ?_⟩
  rw [ht, ← h.E]; simp [List.append_assoc]

/-- **T2 (drain before EOF).** Whenever a step answers `PeerClosed` for a session, the session's buffer was empty in the state
the answer was computed in, and afterwards everything accepted has been handed out — all arrived bytes if nothing was dropped. -/
theorem T2_drain_before_eof (cfg : Cfg) (hg : cfg.Good) (steps : List Step) (st : Step)
    (hd : Disciplined cfg init (steps ++ [st])) (sid : Nat)
    (hev : Ev.recvRet sid .peerClosed ∈ (step cfg (run cfg init steps).1 st).2) :
    let s := (run cfg init steps).1
    let x' := (step cfg s st).1.sess sid
    bufData (s.sess sid) = [] ∧ x'.out = x'.accepted ∧ (x'.gap = false → x'.out = x'.arrived) := by
  have hd' := (disciplined_append cfg steps [st] init).mp hd
  have hi := run_inv hg steps init Inv_init hd'.1
  have hok : ok (run cfg init steps).1 st = true := hd'.2.1
  obtain ⟨h1, h2⟩ := peerClosed_drained hg hi st hok sid hev
  refine ⟨h1, h2, fun hgap => ?_⟩
  rw [h2]; exact (step_inv hg hi st hok sid).A hgap

/-- **T3 (flush order).** In every reachable state in which a live session is in Async mode, nothing is buffered and no flusher
holds bytes: the Sync→Async (and Disabled→Async) switch handed every earlier byte to the callback before the mode became Async,
so every byte that arrives later is delivered after them (`out ++ pending = accepted`). -/
theorem T3_flush_order (cfg : Cfg) (hg : cfg.Good) (steps : List Step) (hd : Disciplined cfg init steps) (sid : Nat)
    (hm : effMode ((run cfg init steps).1.sess sid) = .async) (hl : ((run cfg init steps).1.sess sid).dead = false) :
    let s := (run cfg init steps).1
    let x := s.sess sid
    bufData x = [] ∧ inflight x = [] ∧ x.out ++ pd (pendO s sid) = x.accepted := by
  have h := run_inv hg steps init Inv_init hd sid
  obtain ⟨h1, h2⟩ := h.I2 hm hl
  refine ⟨h1, h2, ?_⟩
  have := h.E; rw [h1, h2] at this; simpa using this

/-- **T4 (Disabled is silent).** A chunk that arrives while the session is Disabled changes no session, is not counted as
arrived, leaves nothing pending and produces no output. -/
theorem T4_disabled_silent (cfg : Cfg) (s : State) (sid : Nat) (chunk : Bytes) (hm : effMode (s.sess sid) = .disabled) :
    (step cfg s (.ioData sid chunk)).1.sess = s.sess ∧ (step cfg s (.ioData sid chunk)).2 = [] ∧
    (step cfg s (.ioData sid chunk)).1.ioPend = s.ioPend := by
  unfold step
  cases hp : s.ioPend with
  | some _ => simp [hp]
  | none =>
    have : ioDataS cfg s.shuttingDown (s.sess sid) chunk = (s.sess sid, .ignored) := by simp [ioDataS, hm]
    refine ⟨?_, rfl, ?_⟩
    · funext j; simp only [this, upd]; split <;> simp_all
    · simp [this]

/-- **T5 (overflow is sticky and reported).** No step clears `overflow` while the buffer exists, and a receive entered on an
overflowed, drained buffer answers `BufferOverflow` (before `PeerClosed`, whatever else happened). -/
theorem T5_overflow_sticky (cfg : Cfg) (s : State) (st : Step) (sid : Nat) (b b' : Buf)
    (hb : (s.sess sid).buf = some b) (ho : b.overflow = true) (hb' : ((step cfg s st).1.sess sid).buf = some b') :
    b'.overflow = true :=
  overflow_sticky cfg s st sid b b' hb ho hb'

theorem T5_overflow_reported (cfg : Cfg) (s : State) (sid len : Nat) (b : Buf) (hsh : s.shuttingDown = false)
    (hb : (s.sess sid).buf = some b) (hd : b.data = []) (ho : b.overflow = true)
    (hp : (s.sess sid).parked = none) (hf : flushing (s.sess sid) = false) :
    (step cfg s (.recvEnter sid len)).2 = [.recvRet sid .overflow] :=
  recv_overflow cfg s sid len b hsh hb hd ho hp hf

/-- **T5 (no post-gap bytes; true of the repaired `onData` handler, F15).** In every disciplined run no chunk is ever appended
to a session's sync buffer after one of its chunks was dropped; hence (`T1_out_prefix`) a synchronous reader is only ever given
bytes that arrived before the gap, then `BufferOverflow`. -/
theorem T5_no_post_gap_bytes (cfg : Cfg) (hg : cfg.Good) (steps : List Step) (hd : Disciplined cfg init steps) (sid : Nat) :
    ((run cfg init steps).1.sess sid).lateSync = false :=
  (run_inv hg steps init Inv_init hd sid).L

/-- **T5 (a dropped chunk is never forgotten — tombstone GC included; FC03d repaired).** Every disciplined schedule, every session one of
whose chunks has been dropped (`gap`), outside teardown: EITHER a receive HAS answered `BufferOverflow` for the session (the event is in
the run), OR the overflowed buffer is still in the map — and then (`T5_overflow_reported`, `T5_overflow_wakes_parked`) the next receive
that finds it drained answers `BufferOverflow`, before `PeerClosed`. No hypothesis about the GC: the close handler's GC pass reclaims an
overflowed tombstone only after its overflow has been reported (`T5_gc_keeps_unreported_overflow`). The unrepaired gate reclaimed it as
soon as it was closed and drained: ok [1,2], then Timeout, and the dropped bytes were never reported (corpus/C03/FC03d-*.json). -/
theorem T5_gap_always_reported (cfg : Cfg) (hg : cfg.Good) (steps : List Step) (hd : Disciplined cfg init steps) (sid : Nat)
    (hgap : ((run cfg init steps).1.sess sid).gap = true) (hsh : (run cfg init steps).1.shuttingDown = false) :
    Ev.recvRet sid .overflow ∈ (run cfg init steps).2 ∨
      ∃ b, ((run cfg init steps).1.sess sid).buf = some b ∧ b.overflow = true := by
  have h3 := run_inv3 hg steps init Inv_init Inv3_init hd sid
  rcases h3.1 hgap with h | h | h
  · rw [hsh] at h; cases h
  · left
    rcases run_ovfSeen cfg sid steps init h with h' | h'
    · simp [init] at h'
    · exact h'
  · right
    unfold ovfBuf at h
    cases hb : ((run cfg init steps).1.sess sid).buf with
    | none => simp [hb] at h
    | some b => exact ⟨b, rfl, by simpa [hb] using h⟩

/-- **T5 (the GC gate).** A buffer the close handler's GC pass may reclaim is closed, drained, unused — and NOT an overflowed buffer whose
overflow no receive has answered yet. -/
theorem T5_gc_keeps_unreported_overflow (y : Sess) (b : Buf) (hb : y.buf = some b) (hr : reclaimable y = true) :
    b.closed = true ∧ b.hasData = false ∧ (b.overflow = true → b.reported = true) := by
  unfold reclaimable at hr
  cases ho : b.overflow <;> simp_all

/-- **T6 (no lost wake-up).** In every reachable state, a parked receive whose wait predicate holds because of data, close or
overflow has been notified (it re-acquires the lock without waiting for its timeout). This uses the skeleton facts: each such
write is made under `syncMutex` and notified under the same lock. -/
theorem T6_no_lost_wakeup (cfg : Cfg) (hg : cfg.Good) (steps : List Step) (hd : Disciplined cfg init steps) (sid : Nat)
    (p : Parked) (b : Buf) (hp : ((run cfg init steps).1.sess sid).parked = some p)
    (hb : ((run cfg init steps).1.sess sid).buf = some b) (hpred : (b.hasData || b.closed || b.overflow) = true) :
    p.awake = true :=
  (run_inv hg steps init Inv_init hd sid).W p b hp hb hpred

/-- **T7 (late receive).** If no tombstone GC pass has run, then in every reachable state a receive entered on a closed session
that has not yet reported EOF and whose buffer is drained (and not overflowed) answers `PeerClosed` in its entry critical
section — it never parks, so it cannot block until its timeout. -/
theorem T7_late_receive (cfg : Cfg) (steps : List Step) (sid len : Nat)
    (hgc : (run cfg init steps).1.gcRan = false) (hsh : (run cfg init steps).1.shuttingDown = false)
    (hdead : ((run cfg init steps).1.sess sid).dead = true) (heof : ((run cfg init steps).1.sess sid).eof = false)
    (hdr : ∀ b, ((run cfg init steps).1.sess sid).buf = some b → b.data = [] ∧ b.overflow = false)
    (hp : ((run cfg init steps).1.sess sid).parked = none) (hf : flushing ((run cfg init steps).1.sess sid) = false) :
    (step cfg (run cfg init steps).1 (.recvEnter sid len)).2 = [.recvRet sid .peerClosed] := by
  obtain ⟨b, hb, hc⟩ := run_tomb steps init Tomb_init hgc sid hdead heof
  obtain ⟨hd, ho⟩ := hdr b hb
  exact recv_tombstone cfg _ sid len b hsh hb hd ho hc hp hf

/-! ### the ghost field `out` is what an observer of the events sees -/

/-- **T1 (observable form).** `out` is not a free-floating ghost: in every run (disciplined or not) a session's `out` is exactly
the bytes of the emitted events — successful `receiveSync` results and data-callback deliveries for that session, in order. -/
theorem T1_out_is_events (cfg : Cfg) (steps : List Step) (sid : Nat) :
    ((run cfg init steps).1.sess sid).out = evBytes sid (run cfg init steps).2 := by
  simpa [init] using run_out_is_events cfg sid steps init

/-- one step: the step's own events are exactly what it appends to `out` (any state, any step) -/
theorem T1_step_out_is_events (cfg : Cfg) (s : State) (st : Step) (sid : Nat) :
    ((step cfg s st).1.sess sid).out = (s.sess sid).out ++ evBytes sid (step cfg s st).2 :=
  step_out_is_events cfg s st sid

/-- **T1 over events.** What the application has been handed (events only) followed by what is still held is what was accepted. -/
theorem T1_stream_events (cfg : Cfg) (hg : cfg.Good) (steps : List Step) (hd : Disciplined cfg init steps) (sid : Nat) :
    let s := (run cfg init steps).1
    let x := s.sess sid
    evBytes sid (run cfg init steps).2 ++ inflight x ++ bufData x ++ pd (pendO s sid) = x.accepted ∧
      (x.gap = false → x.accepted = x.arrived) := by
  have h := run_inv hg steps init Inv_init hd sid
  refine ⟨?_, h.A⟩
  rw [← T1_out_is_events]; exact h.E

/-- **T2 (no EOF after a gap).** Outside teardown a receive never answers `PeerClosed` for a session one of whose chunks was
dropped: the overflow is reported instead (sticky, checked before `closed`), so `PeerClosed` means ALL arrived bytes were handed
out. (`T2_drain_before_eof` carried `gap = false` as a side condition; this discharges it.) -/
theorem T2_peerClosed_means_everything (cfg : Cfg) (hg : cfg.Good) (steps : List Step) (st : Step)
    (hd : Disciplined cfg init (steps ++ [st])) (sid : Nat)
    (hev : Ev.recvRet sid .peerClosed ∈ (step cfg (run cfg init steps).1 st).2)
    (hsh : (run cfg init steps).1.shuttingDown = false) :
    let x' := (step cfg (run cfg init steps).1 st).1.sess sid
    x'.gap = false ∧ x'.out = x'.arrived := by
  have hd' := (disciplined_append cfg steps [st] init).mp hd
  have hi := run_inv hg steps init Inv_init hd'.1
  have hi2 := run_inv2 hg steps init Inv_init Inv2_init hd'.1
  have hok : ok (run cfg init steps).1 st = true := hd'.2.1
  have hgap := peerClosed_no_gap (cfg := cfg) hi2 hsh st sid hev
  obtain ⟨_, h2⟩ := peerClosed_drained hg hi st hok sid hev
  refine ⟨hgap, ?_⟩
  rw [h2]; exact (step_inv hg hi st hok sid).A hgap

/-- **T4 (a receive does not look at the mode).** In every reachable state a `receiveSync` entered on a session with buffered
bytes (no teardown, no other waiter, no flush) returns them — whatever the read mode, in particular `Disabled`: bytes buffered
before the switch to Disabled are still drained. -/
theorem T4_receive_ignores_mode (cfg : Cfg) (hg : cfg.Good) (steps : List Step) (hd : Disciplined cfg init steps) (sid len : Nat)
    (b : Buf) (hsh : (run cfg init steps).1.shuttingDown = false)
    (hb : ((run cfg init steps).1.sess sid).buf = some b) (hne : b.data ≠ [])
    (hp : ((run cfg init steps).1.sess sid).parked = none) (hf : ((run cfg init steps).1.sess sid).flush = none) :
    (step cfg (run cfg init steps).1 (.recvEnter sid len)).2 = [.recvRet sid (.ok (b.data.take (min len b.data.length)))] := by
  have hH := (run_inv hg steps init Inv_init hd sid).H b hb
  have hh : b.hasData = true := by simp [hH, hne]
  simp [step, recvEnterS, hsh, hb, waiters, hp, flushing, hf, pred, hh, drain, hne, evRecv]

/-- **T4 (Disabled → Async goes through the ordered flush).** `setReadMode(sid, Async)` on a Disabled session does not switch
the mode in its first critical section: it takes the flush path (the mode becomes Async only in a section that found the buffer
empty, `T3_flush_order`). (`ht`: the session has not been closed — a closed tombstone has no mode, `T8_close_forgets_mode`, and is
ignored, `T8_tombstone_gets_no_mode`.) -/
theorem T4_disabled_to_async_flushes (cfg : Cfg) (hal : cfg.allowSwitch = true) (s : State) (sid : Nat)
    (hm : effMode (s.sess sid) = .disabled) (ht : tomb (s.sess sid) = false) :
    (step cfg s (.setMode sid .async)).2 = [] ∧ ((step cfg s (.setMode sid .async)).1.sess sid).flush = some .begin ∧
      effMode ((step cfg s (.setMode sid .async)).1.sess sid) = .disabled := by
  have hfp : flushPath (s.sess sid) .async = true := by simp [flushPath, hm]
  have : setModeS cfg (s.sess sid) .async = ({ s.sess sid with flush := some .begin }, none) := by
    simp [setModeS, hal, hfp, ht]
  refine ⟨by simp [step, this, evMode], by simp [step, this], ?_⟩
  simp only [step, this, upd_same]
  simpa [effMode] using hm

/-- **T5 (a parked receiver is woken by the overflow).** In every reachable state a parked receive whose buffer has overflowed has
been notified, and its wake-up answers the buffered bytes if there are any, else `BufferOverflow` — never a time-out. -/
theorem T5_overflow_wakes_parked (cfg : Cfg) (hg : cfg.Good) (steps : List Step) (hd : Disciplined cfg init steps) (sid : Nat)
    (p : Parked) (b : Buf) (hp : ((run cfg init steps).1.sess sid).parked = some p)
    (hb : ((run cfg init steps).1.sess sid).buf = some b) (ho : b.overflow = true) (t : Bool) :
    p.awake = true ∧
      (step cfg (run cfg init steps).1 (.recvWake sid t)).2 =
        [.recvRet sid (if b.data ≠ [] then .ok (b.data.take (min p.len b.data.length)) else .overflow)] := by
  refine ⟨(run_inv hg steps init Inv_init hd sid).W p b hp hb (by simp [ho]), ?_⟩
  by_cases hne : b.data = []
  · simp [step, recvWakeS, hp, hb, pred, ho, drain, evRecv, hne]
  · simp [step, recvWakeS, hp, hb, pred, ho, drain, evRecv, hne]

/-! ### T8 — nothing is delivered for a session after its close -/

/-- **T8 (the close forgets the mode).** Once the I/O thread has processed the close of a session on which no flush is in progress,
the session is `Quiet` — and precisely: a closed tombstone, no flush, NO `readModes` entry whatever was buffered (the `onClose`
handler erases the entry UNCONDITIONALLY: `skeleton_pinned`), nothing pending for the callback. -/
theorem T8_close_forgets_mode (cfg : Cfg) (steps : List Step) (sid : Nat)
    (hd : Disciplined cfg init (steps ++ [.ioClose sid]))
    (hf : ((run cfg init steps).1.sess sid).flush = none) :
    Quiet (run cfg init (steps ++ [.ioClose sid])).1 sid ∧
    ((run cfg init (steps ++ [.ioClose sid])).1.sess sid).mode = none ∧
    tomb ((run cfg init (steps ++ [.ioClose sid])).1.sess sid) = true := by
  have hd' := (disciplined_append cfg steps [.ioClose sid] init).mp hd
  have hok : ok (run cfg init steps).1 (.ioClose sid) = true := hd'.2.1
  have hk : ((run cfg init steps).1.sess sid).dead = false ∧ (run cfg init steps).1.ioPend = none := by simpa [ok] using hok
  rw [run_append, run_cons, run_nil]
  simp only [step, hk.2, closeSess]
  have h := ioCloseS_quiet cfg ((run cfg init steps).1.sess sid) hf
  have hq : QuietS (ioCloseS cfg ((run cfg init steps).1.sess sid)) := Or.inl h.1
  exact ⟨⟨by simpa using hq, by simp [pendO]⟩, by simpa using h.2, by simpa using h.1.2.1⟩

/-- **T8 (a closed id gets no mode).** `setReadMode(sid, m)` — any `m` — on a session whose closed tombstone is still in the map is
vacuous: it answers (`true` when switching is allowed) in its first critical section, delivers nothing and changes NOTHING (FC02a,
repaired): no mode can be registered again for a dead id while its tail is buffered, so no later switch to Async can flush that tail
through the data callback. Any state, no hypothesis on the history. -/
theorem T8_tombstone_gets_no_mode (cfg : Cfg) (s : State) (sid : Nat) (m : Mode) (ht : tomb (s.sess sid) = true) :
    (step cfg s (.setMode sid m)).2 = [.modeRet sid cfg.allowSwitch] ∧ (step cfg s (.setMode sid m)).1.sess sid = s.sess sid := by
  have : setModeS cfg (s.sess sid) m = (s.sess sid, some cfg.allowSwitch) := by
    unfold setModeS; cases cfg.allowSwitch <;> simp [ht]
  simp [step, this, evMode]

/-- **T8 (nothing is delivered after the close).** Every disciplined schedule: after the close of `sid` has been processed — no flush
of that session being in progress at that moment — NO later step hands bytes of `sid` to the data callback, WHATEVER mode switches
follow, those of the dead id to Sync/Disabled and back to Async included (`setReadMode` ignores a closed tombstone; once the tombstone is
gone — EOF reported or GC — a buffer created again for the id stays empty because nothing arrives for a dead id): the buffered tail stays
retrievable through `receiveSync` only (T2/T7). The one remaining hypothesis is necessary: see the example below. -/
theorem T8_nothing_delivered_after_close (cfg : Cfg) (pre post : List Step) (sid : Nat)
    (hd : Disciplined cfg init ((pre ++ [.ioClose sid]) ++ post))
    (hf : ((run cfg init pre).1.sess sid).flush = none) :
    ∀ d, Ev.cbData sid d ∉ (run cfg (run cfg init (pre ++ [.ioClose sid])).1 post).2 := by
  have hd' := (disciplined_append cfg (pre ++ [.ioClose sid]) post init).mp hd
  exact quiet_run post _ (T8_close_forgets_mode cfg pre sid hd'.1 hf).1 hd'.2

/-- T8, one step: a quiet session stays quiet and the step — ANY disciplined step — delivers nothing of it -/
theorem T8_quiet_step (cfg : Cfg) (s : State) (sid : Nat) (hq : Quiet s sid) (st : Step) (hok : ok s st = true) :
    Quiet (step cfg s st).1 sid ∧ ∀ d, Ev.cbData sid d ∉ (step cfg s st).2 :=
  quiet_step hq st hok

/-! ### T8 measured from the close CALLBACK (FC03c, repaired: the handler marks the session closed BEFORE it invokes the callbacks) -/

/-- **T8 (the close callback is invoked by the handler only, after the mark).** `Ev.closeCb sid` — the invocation of the global close
callback and the session's observers — is emitted by exactly one kind of step, `ioCloseCb sid`, and only while the close handler is
past the `syncMutex` section that marked `sid` closed, erased its read mode and left the tombstone (`closePend`, set by `ioClose sid`
alone). Any state, any step. -/
theorem T8_cb_after_mark (cfg : Cfg) (s : State) (st : Step) (sid : Nat) (hev : Ev.closeCb sid ∈ (step cfg s st).2) :
    st = .ioCloseCb sid ∧ s.closePend = some sid :=
  closeCb_emitted hev

/-- **T8 (nothing is delivered after the close CALLBACK).** Every disciplined schedule, every step `st` that invokes the close callback
of `sid`: neither that step nor ANY later step hands bytes of `sid` to the data callback — whatever the application does from inside
the callback, from an observer, or on any thread that synchronises with them (mode switches of the id included) — unless a
`setReadMode(sid, Async)` flush was ALREADY in progress when the close was processed (`closeGrace`; necessary, see the example below).
This is the statement an application can observe: it is keyed on the callback, not on the handler's internal section. -/
theorem T8_cb_nothing_delivered_after_close_callback (cfg : Cfg) (pre post : List Step) (st : Step) (sid : Nat)
    (hd : Disciplined cfg init (pre ++ st :: post))
    (hev : Ev.closeCb sid ∈ (step cfg (run cfg init pre).1 st).2)
    (hg : (run cfg init pre).1.closeGrace = false) :
    ∀ d, Ev.cbData sid d ∉ (run cfg (run cfg init pre).1 (st :: post)).2 := by
  have hd' := (disciplined_append cfg pre (st :: post) init).mp hd
  have hk := run_closeK pre init CloseK_init hd'.1
  obtain ⟨_, hp⟩ := closeCb_emitted hev
  exact quiet_run (st :: post) _ (hk sid hp hg) hd'.2

/-- **T8 (between the mark and the callback the session is already quiet).** In every reachable state in which the close handler has
marked `sid` closed and not yet invoked its callbacks (no flush of `sid` having been in progress at the mark), `sid` is `Quiet`:
there is NO window before the callback in which a mode switch could still flush (the window FC03c closed). -/
theorem T8_cb_no_window (cfg : Cfg) (steps : List Step) (hd : Disciplined cfg init steps) (sid : Nat)
    (hp : (run cfg init steps).1.closePend = some sid) (hg : (run cfg init steps).1.closeGrace = false) :
    Quiet (run cfg init steps).1 sid :=
  run_closeK steps init CloseK_init hd sid hp hg

/-! ### `receiveSyncCancellable` (Model/SyncRecvW.lean) -/

/-- **W0 (a wrapper execution is a core execution).** The core steps of a wrapper execution are its `.base` steps: the core state
and the core events of the wrapper run are those of the core run over them, and a disciplined wrapper run is a disciplined core
run. Hence T1–T7 hold of every execution that uses `receiveSyncCancellable`. -/
theorem W0_wrapper_is_core (cfg : Cfg) (wsteps : List WStep) :
    (wrun cfg winit wsteps).1.core = (run cfg init (coreSteps wsteps)).1 ∧
      coreEvs (wrun cfg winit wsteps).2 = (run cfg init (coreSteps wsteps)).2 ∧
      (DisciplinedW cfg winit wsteps → Disciplined cfg init (coreSteps wsteps)) :=
  wrun_core cfg wsteps winit

/-- **W1 (consumed bytes are returned).** Whatever a critical section of the wrapper's sub-call answers other than `Timeout` — in
particular `ok bytes`, the only answer that takes bytes out of the buffer — is returned by the wrapper in the same step, and the
wrapper call is over. -/
theorem W1_subcall_result_is_returned (cfg : Cfg) (ws : WState) (st : Step) (sid : Nat) (c : WCall) (r : RecvRes)
    (hw : ws.w sid = some c)
    (hact : (∃ len, st = .recvEnter sid len ∧ c.phase = .entering) ∨ (∃ t, st = .recvWake sid t ∧ c.phase = .inCall))
    (hev : Ev.recvRet sid r ∈ (step cfg ws.core st).2) (hr : r ≠ .timeout) :
    WEv.wrapRet sid r ∈ (wstep cfg ws (.base st)).2 ∧ (wstep cfg ws (.base st)).1.w sid = none := by
  rcases hact with ⟨len, rfl, hph⟩ | ⟨t, rfl, hph⟩
  · simp only [step] at hev
    obtain ⟨_, hX⟩ := mem_evRecv.mp hev
    have := afterSub_returns { ws with core := (step cfg ws.core (.recvEnter sid len)).1 } sid c hr
    simp only [wstep, recvStepOf, hw, hph, step, hX, evRecv, recvOf] at this ⊢
    simpa using this
  · simp only [step] at hev
    obtain ⟨_, hX⟩ := mem_evRecv.mp hev
    have := afterSub_returns { ws with core := (step cfg ws.core (.recvWake sid t)).1 } sid c hr
    simp only [wstep, recvStepOf, hw, hph, step, hX, evRecv, recvOf] at this ⊢
    simpa using this

/-- **W3 (a sub-call's `Timeout` is never the wrapper's answer).** The wrapper answers `Timeout` only at a loop head that found the
deadline passed; a sub-call that timed out sends it back to the loop head (`W1_timeout_consumes_nothing`: with nothing consumed). -/
theorem W3_timeout_only_at_deadline (cfg : Cfg) (ws : WState) (st : WStep) (sid : Nat)
    (hev : WEv.wrapRet sid .timeout ∈ (wstep cfg ws st).2) : st = .wLoop sid true := by
  cases st with
  | base st =>
    exfalso
    rcases wstep_base_cases cfg ws st with h | ⟨sid', c, X, _, _, _, h⟩
    · rw [h] at hev; simp at hev
    · rw [h] at hev
      rcases List.mem_append.mp hev with h1 | h1
      · simp at h1
      · exact (mem_afterSub h1).2.2 rfl
  | cancel sid' => simp [wstep] at hev
  | reset sid' => simp [wstep] at hev
  | wCall sid' len =>
    exfalso
    simp only [wstep] at hev
    cases hw : ws.w sid' with
    | some c => simp [hw] at hev
    | none => cases ht : ws.tok sid' <;> simp [hw, ht] at hev
  | wLoop sid' e =>
    simp only [wstep] at hev
    cases hw : ws.w sid' with
    | none => simp [hw] at hev
    | some c =>
      simp only [hw] at hev
      split at hev
      · simp at hev
      · split at hev
        · rename_i he
          simp at hev; subst hev; simp [he]
        · split at hev <;> simp at hev

/-- **W1 (the wrapper invents nothing).** A wrapper return other than its own `Timeout`/`Cancelled` is the result of a sub-call
made in the same step. -/
theorem W1_return_is_subcall_result (cfg : Cfg) (ws : WState) (st : WStep) (sid : Nat) (bs : Bytes)
    (hev : WEv.wrapRet sid (.ok bs) ∈ (wstep cfg ws st).2) :
    WEv.base (.recvRet sid (.ok bs)) ∈ (wstep cfg ws st).2 := by
  cases st with
  | base st =>
    rcases wstep_base_cases cfg ws st with h | ⟨sid', c, X, _, _, hX, h⟩
    · rw [h] at hev; simp at hev
    · rw [h] at hev ⊢
      rcases List.mem_append.mp hev with h1 | h1
      · simp at h1
      · obtain ⟨rfl, rfl, _⟩ := mem_afterSub h1
        apply List.mem_append_left
        rw [hX]; simp [evRecv]
  | cancel sid' => simp [wstep] at hev
  | reset sid' => simp [wstep] at hev
  | wCall sid' len =>
    exfalso
    simp only [wstep] at hev
    cases hw : ws.w sid' with
    | some c => simp [hw] at hev
    | none => cases ht : ws.tok sid' <;> simp [hw, ht] at hev
  | wLoop sid' e =>
    exfalso
    simp only [wstep] at hev
    cases hw : ws.w sid' with
    | none => simp [hw] at hev
    | some c =>
      simp only [hw] at hev
      (repeat' split at hev) <;> simp at hev

/-- **W1 (a timed-out sub-call consumes nothing).** A core step that answers `Timeout` for a session leaves the session's buffer
and its handed-out bytes untouched: looping over `Timeout` results loses and duplicates nothing. -/
theorem W1_timeout_consumes_nothing (cfg : Cfg) (s : State) (st : Step) (sid : Nat)
    (hev : Ev.recvRet sid .timeout ∈ (step cfg s st).2) :
    ((step cfg s st).1.sess sid).buf = (s.sess sid).buf ∧ ((step cfg s st).1.sess sid).out = (s.sess sid).out :=
  step_timeout_consumes_nothing cfg s st sid hev

/-- **W2.** The wrapper answers `Cancelled` on its own account only if the token was cancelled; if a sub-call answers `Cancelled`
(single-waiter contract) that is passed through by W1. -/
theorem W2_cancelled_only_if_cancelled (cfg : Cfg) (ws : WState) (st : WStep) (sid : Nat)
    (hev : WEv.wrapRet sid .cancelled ∈ (wstep cfg ws st).2) :
    ws.tok sid = true ∨ WEv.base (.recvRet sid .cancelled) ∈ (wstep cfg ws st).2 := by
  cases st with
  | base st =>
    right
    rcases wstep_base_cases cfg ws st with h | ⟨sid', c, X, _, _, hX, h⟩
    · rw [h] at hev; simp at hev
    · rw [h] at hev ⊢
      rcases List.mem_append.mp hev with h1 | h1
      · simp at h1
      · obtain ⟨rfl, rfl, _⟩ := mem_afterSub h1
        apply List.mem_append_left
        rw [hX]; simp [evRecv]
  | cancel sid' => simp [wstep] at hev
  | reset sid' => simp [wstep] at hev
  | wCall sid' len =>
    left
    simp only [wstep] at hev
    cases hw : ws.w sid' with
    | some c => simp [hw] at hev
    | none =>
      cases ht : ws.tok sid' with
      | false => simp [hw, ht] at hev
      | true => simp [hw, ht] at hev; subst hev; exact ht
  | wLoop sid' e =>
    left
    simp only [wstep] at hev
    cases hw : ws.w sid' with
    | none => simp [hw] at hev
    | some c =>
      simp only [hw] at hev
      split at hev
      · simp at hev
      · split at hev
        · simp at hev
        · split at hev
          · rename_i ht; simp at hev; subst hev; exact ht
          · simp at hev

/-- entered with a cancelled token the wrapper returns `Cancelled` without touching the core -/
theorem W2_precancelled (cfg : Cfg) (ws : WState) (sid len : Nat) (hw : ws.w sid = none) (ht : ws.tok sid = true) :
    wstep cfg ws (.wCall sid len) = (ws, [.wrapRet sid .cancelled]) := by
  simp [wstep, hw, ht]

/-! ### the composed stream over wrapper calls, cancels and token resets -/

/-- **W4 (the callers' stream is the core stream).** Over ANY wrapper execution — any number of `receiveSyncCancellable` calls (each
any number of sub-calls), plain `receiveSync` calls, data-callback deliveries, cancels and token RESETS in between, disciplined or not —
the bytes the application is handed for a session (wrapper returns, plain receive returns, callback deliveries; a sub-call's own
result is internal to the wrapper) are exactly the session's `out` of the underlying core run: a wrapper call never swallows bytes a
sub-call took out of the buffer (whatever its token says at that moment) and never invents any. -/
theorem W4_callers_stream_is_core_stream (cfg : Cfg) (wsteps : List WStep) (sid : Nat) :
    wrunUser sid cfg winit wsteps = ((run cfg init (coreSteps wsteps)).1.sess sid).out := by
  rw [wrunUser_eq, (W0_wrapper_is_core cfg wsteps).2.1, ← T1_out_is_events]

/-- **W4 (wrapper-level stream).** Every disciplined wrapper execution, every session: what the callers have been handed, then what a
flusher holds, then the buffer, then the chunk pending for the callback, is exactly what was accepted, in arrival order — nothing
skipped, nothing twice — and all that arrived when nothing was dropped; and it is a PREFIX of what arrived (unless the application
switched to Async after an overflow). -/
theorem W4_wrapper_stream (cfg : Cfg) (hg : cfg.Good) (wsteps : List WStep) (hd : DisciplinedW cfg winit wsteps) (sid : Nat) :
    let s := (wrun cfg winit wsteps).1.core
    let x := s.sess sid
    wrunUser sid cfg winit wsteps ++ inflight x ++ bufData x ++ pd (pendO s sid) = x.accepted ∧
      (x.gap = false → x.accepted = x.arrived) ∧
      (x.lateAsync = false → ∃ t, x.arrived = wrunUser sid cfg winit wsteps ++ t) := by
  obtain ⟨h1, _, h3⟩ := W0_wrapper_is_core cfg wsteps
  have hdc := h3 hd
  simp only [h1, W4_callers_stream_is_core_stream]
  exact ⟨(T1_stream cfg hg _ hdc sid).1, (T1_stream cfg hg _ hdc sid).2, fun hl => T1_out_prefix cfg hg _ hdc sid hl⟩

/-- **W5 (token reset).** `CancellationToken::reset()` between two calls (never during one: `okW`) re-arms the token: the next wrapper
call is admitted (it does not answer `Cancelled` at entry), and a reset changes nothing else — no core state, no running call. -/
theorem W5_reset_rearms (cfg : Cfg) (ws : WState) (sid len : Nat) (hw : ws.w sid = none) :
    (wstep cfg ws (.reset sid)).1.core = ws.core ∧ (wstep cfg ws (.reset sid)).1.w = ws.w ∧ (wstep cfg ws (.reset sid)).2 = [] ∧
    (wstep cfg (wstep cfg ws (.reset sid)).1 (.wCall sid len)).2 = [] ∧
    (wstep cfg (wstep cfg ws (.reset sid)).1 (.wCall sid len)).1.w sid = some { len := len, phase := .idle } := by
  simp [wstep, hw, setW]

/-! ### non-vacuity: concrete disciplined runs exercising the hypotheses -/

def cfg10 : Cfg := { maxBuf := 10, gcThreshold := 1024 }

/-- the F15 history (cap 10: `AAAAAAAA`, `BBBBB`, `CC`, receive, receive) is disciplined; the repaired model returns the eight
bytes that arrived before the gap, then BufferOverflow -/
example : disciplinedB cfg10 init
    [.setMode 7 .sync, .ioData 7 [65,65,65,65,65,65,65,65], .ioData 7 [66,66,66,66,66], .ioData 7 [67,67],
     .recvEnter 7 32, .recvEnter 7 32] = true := by decide
example : (run cfg10 init
    [.setMode 7 .sync, .ioData 7 [65,65,65,65,65,65,65,65], .ioData 7 [66,66,66,66,66], .ioData 7 [67,67],
     .recvEnter 7 32, .recvEnter 7 32]).2 =
    [.modeRet 7 true, .recvRet 7 (.ok [65,65,65,65,65,65,65,65]), .recvRet 7 .overflow] := by decide
/-- a parked receive woken by data, a mid-flush arrival, then close and the tombstone answer -/
example : disciplinedB cfg10 init
    [.setMode 1 .sync, .recvEnter 1 2, .ioData 1 [1,2,3], .recvWake 1 false, .setMode 1 .async, .flushStep 1, .flushStep 1,
     .ioData 1 [4], .flushStep 1, .flushStep 1, .flushStep 1, .flushStep 1, .flushStep 1, .ioData 1 [5], .ioDeliver,
     .ioClose 1, .recvEnter 1 9] = true := by decide
example : (run cfg10 init
    [.setMode 1 .sync, .recvEnter 1 2, .ioData 1 [1,2,3], .recvWake 1 false, .setMode 1 .async, .flushStep 1, .flushStep 1,
     .ioData 1 [4], .flushStep 1, .flushStep 1, .flushStep 1, .flushStep 1, .flushStep 1, .ioData 1 [5], .ioDeliver,
     .ioClose 1, .recvEnter 1 9]).2 =
    [.modeRet 1 true, .recvRet 1 (.ok [1,2]), .cbData 1 [3], .cbData 1 [4], .modeRet 1 true, .cbData 1 [5],
     .recvRet 1 .peerClosed] := by decide

/-- zero-length chunks are legal arrivals (FC03a): on an empty buffer the receive keeps waiting (no bogus ShuttingDown); behind
buffered bytes nothing is hidden — the bytes are returned, then EOF -/
example : disciplinedB cfg10 init [.setMode 1 .sync, .ioData 1 [], .recvEnter 1 4] = true ∧
    (run cfg10 init [.setMode 1 .sync, .ioData 1 [], .recvEnter 1 4]).2 = [.modeRet 1 true] := by decide
example : disciplinedB cfg10 init [.setMode 1 .sync, .ioData 1 [65, 65, 65, 65], .ioData 1 [], .ioClose 1, .recvEnter 1 8, .recvEnter 1 8] = true ∧
    (run cfg10 init [.setMode 1 .sync, .ioData 1 [65, 65, 65, 65], .ioData 1 [], .ioClose 1, .recvEnter 1 8, .recvEnter 1 8]).2 =
      [.modeRet 1 true, .recvRet 1 (.ok [65, 65, 65, 65]), .recvRet 1 .peerClosed] := by decide

/-- T8: Sync, two bytes buffered, close, then `setReadMode(Async)`: vacuous on the closed id (FC02a), NOTHING goes to the callback, the
tail is returned by the late receive, then EOF -/
example : (run cfg10 init [.setMode 1 .sync, .ioData 1 [7, 8], .ioClose 1, .setMode 1 .async, .flushStep 1, .recvEnter 1 9, .recvEnter 1 9]).2 =
    [.modeRet 1 true, .modeRet 1 true, .recvRet 1 (.ok [7, 8]), .recvRet 1 .peerClosed] := by decide
/-- T8's hypothesis is necessary: a flush in progress when the close is processed goes on delivering (two threads race; the bytes were
the application's to flush before the close). It is what the code does and it is not excluded by `Disciplined`. -/
example : disciplinedB cfg10 init [.setMode 1 .sync, .ioData 1 [7, 8], .setMode 1 .async, .flushStep 1, .ioClose 1, .flushStep 1, .flushStep 1] = true ∧
    (run cfg10 init [.setMode 1 .sync, .ioData 1 [7, 8], .setMode 1 .async, .flushStep 1, .ioClose 1, .flushStep 1, .flushStep 1]).2 =
      [.modeRet 1 true, .cbData 1 [7, 8]] := by decide
/-- FC02a (repaired): an application that puts the DEAD id back into Sync mode and then asks for Async gets two vacuous answers and nothing
through the callback (no mode is registered: the state is unchanged); the tail is still there for `receiveSync`. (The unrepaired `setReadMode` registered Sync again and the second
call flushed `[7, 8]` through the data callback after the close callback: corpus/C03/FC02a-*.json.) After EOF has been reported the id
is an unknown id again: the switches succeed and the flush finds nothing. -/
example : disciplinedB cfg10 init [.setMode 1 .sync, .ioData 1 [7, 8], .ioClose 1, .setMode 1 .sync, .setMode 1 .async, .flushStep 1, .recvEnter 1 9] = true ∧
    (run cfg10 init [.setMode 1 .sync, .ioData 1 [7, 8], .ioClose 1, .setMode 1 .sync, .setMode 1 .async, .flushStep 1, .recvEnter 1 9]).2 =
      [.modeRet 1 true, .modeRet 1 true, .modeRet 1 true, .recvRet 1 (.ok [7, 8])] := by decide
example : (run cfg10 init [.setMode 1 .sync, .ioData 1 [7, 8], .ioClose 1, .recvEnter 1 9, .recvEnter 1 9, .setMode 1 .sync, .setMode 1 .async,
      .flushStep 1, .flushStep 1, .flushStep 1]).2 =
    [.modeRet 1 true, .recvRet 1 (.ok [7, 8]), .recvRet 1 .peerClosed, .modeRet 1 true, .modeRet 1 true] := by decide

/-- the wrapper: a sub-call times out, the next one returns the bytes that arrived meanwhile; a cancel between the loop head and
the sub-call's lock is seen only by the next loop head -/
example : (wrun cfg10 winit
    [.base (.setMode 1 .sync), .wCall 1 4, .wLoop 1 false, .base (.recvEnter 1 4), .base (.recvWake 1 true), .wLoop 1 false,
     .base (.recvEnter 1 4), .base (.ioData 1 [7, 8]), .base (.recvWake 1 false)]).2 =
    [.base (.modeRet 1 true), .base (.recvRet 1 .timeout), .base (.recvRet 1 (.ok [7, 8])), .wrapRet 1 (.ok [7, 8])] := by decide
example : (wrun cfg10 winit
    [.base (.setMode 1 .sync), .wCall 1 4, .wLoop 1 false, .cancel 1, .base (.recvEnter 1 4), .base (.recvWake 1 true),
     .wLoop 1 false]).2 =
    [.base (.modeRet 1 true), .base (.recvRet 1 .timeout), .wrapRet 1 .cancelled] := by decide

/-- T8 from the callback (FC03c): the handler marks the session (`ioClose`), THEN invokes the callbacks (`ioCloseCb`); a
`setReadMode(Async)` made by a thread that learnt about the close from the callback is vacuous, the tail goes to `receiveSync` -/
example : disciplinedB cfg10 init [.setMode 1 .sync, .ioData 1 [7, 8], .ioClose 1, .ioCloseCb 1, .setMode 1 .async, .flushStep 1, .recvEnter 1 9] = true ∧
    (run cfg10 init [.setMode 1 .sync, .ioData 1 [7, 8], .ioClose 1, .ioCloseCb 1, .setMode 1 .async, .flushStep 1, .recvEnter 1 9]).2 =
      [.modeRet 1 true, .closeCb 1, .modeRet 1 true, .recvRet 1 (.ok [7, 8])] ∧
    (run cfg10 init [.setMode 1 .sync, .ioData 1 [7, 8], .ioClose 1]).1.closeGrace = false := by decide
/-- the same switch made in the window BETWEEN the mark and the callback (the window the unrepaired handler had on the other side) is
vacuous as well -/
example : (run cfg10 init [.setMode 1 .sync, .ioData 1 [7, 8], .ioClose 1, .setMode 1 .async, .flushStep 1, .ioCloseCb 1, .flushStep 1]).2 =
      [.modeRet 1 true, .modeRet 1 true, .closeCb 1] := by decide
/-- `closeGrace` is necessary: a flush already in progress when the close is processed delivers what it took AFTER the close callback -/
example : disciplinedB cfg10 init [.setMode 1 .sync, .ioData 1 [7, 8], .setMode 1 .async, .flushStep 1, .flushStep 1, .ioClose 1, .ioCloseCb 1, .flushStep 1] = true ∧
    (run cfg10 init [.setMode 1 .sync, .ioData 1 [7, 8], .setMode 1 .async, .flushStep 1, .flushStep 1, .ioClose 1, .ioCloseCb 1, .flushStep 1]).2 =
      [.modeRet 1 true, .closeCb 1, .cbData 1 [7, 8]] ∧
    (run cfg10 init [.setMode 1 .sync, .ioData 1 [7, 8], .setMode 1 .async, .flushStep 1, .flushStep 1, .ioClose 1]).1.closeGrace = true := by decide
/-- the close callback is invoked once per close, and only after the mark -/
example : (run cfg10 init [.ioCloseCb 1, .ioClose 1, .ioCloseCb 1, .ioCloseCb 1]).2 = [.closeCb 1] := by decide

/-- W4/W5: a cancelled call, a token reset, then a second call that reads PAST the point where the first one stopped: the callers'
stream is the arrival stream (the C03-d window: a cancel landing in the same sub-interval as the data does not lose the bytes) -/
example : (wrun cfg10 winit
    [.base (.setMode 1 .sync), .wCall 1 4, .wLoop 1 false, .base (.recvEnter 1 4), .cancel 1, .base (.ioData 1 [7, 8]), .base (.recvWake 1 false),
     .wCall 1 4, .reset 1, .base (.ioData 1 [9]), .wCall 1 4, .wLoop 1 false, .base (.recvEnter 1 4)]).2 =
    [.base (.modeRet 1 true), .base (.recvRet 1 (.ok [7, 8])), .wrapRet 1 (.ok [7, 8]), .wrapRet 1 .cancelled,
     .base (.recvRet 1 (.ok [9])), .wrapRet 1 (.ok [9])] ∧
    wrunUser 1 cfg10 winit
    [.base (.setMode 1 .sync), .wCall 1 4, .wLoop 1 false, .base (.recvEnter 1 4), .cancel 1, .base (.ioData 1 [7, 8]), .base (.recvWake 1 false),
     .wCall 1 4, .reset 1, .base (.ioData 1 [9]), .wCall 1 4, .wLoop 1 false, .base (.recvEnter 1 4)] = [7, 8, 9] := by decide

/-- T5 under the tombstone GC (FC03d): cap 3, GC threshold 0. `[1,2]` read, `[3,4,5,6]` dropped, the session closes, ANOTHER session's close
runs a GC pass: the overflowed tombstone is kept, the late receive answers BufferOverflow (the unrepaired gate reclaimed it: Timeout);
once reported, the next GC pass reclaims it -/
example : disciplinedB { maxBuf := 3, gcThreshold := 0 } init
    [.setMode 1 .sync, .ioData 1 [1, 2], .recvEnter 1 9, .ioData 1 [3, 4, 5, 6], .ioClose 1, .ioClose 2, .recvEnter 1 9, .ioClose 3] = true ∧
    (run { maxBuf := 3, gcThreshold := 0 } init
      [.setMode 1 .sync, .ioData 1 [1, 2], .recvEnter 1 9, .ioData 1 [3, 4, 5, 6], .ioClose 1, .ioClose 2, .recvEnter 1 9]).2 =
      [.modeRet 1 true, .recvRet 1 (.ok [1, 2]), .recvRet 1 .overflow] ∧
    ((run { maxBuf := 3, gcThreshold := 0 } init
      [.setMode 1 .sync, .ioData 1 [1, 2], .recvEnter 1 9, .ioData 1 [3, 4, 5, 6], .ioClose 1, .ioClose 2]).1.sess 1).buf.isSome = true ∧
    ((run { maxBuf := 3, gcThreshold := 0 } init
      [.setMode 1 .sync, .ioData 1 [1, 2], .recvEnter 1 9, .ioData 1 [3, 4, 5, 6], .ioClose 1, .ioClose 2, .recvEnter 1 9, .ioClose 3]).1.sess 1).buf.isSome = false := by
  decide

end Iora.C03
