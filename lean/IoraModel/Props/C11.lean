import IoraModel.Lemmas.KvCrash
import IoraModel.Lemmas.JsonFileStore
/-!
# C11 — Persistent stores recover every acknowledged write after a crash

Property theorems only.  Model: `Model/KvLog.lean` (record and snapshot codec, `load`, files and crash images),
`Model/KvStore.lean` (which file operations every API call issues), `Model/JsonFileStore.lean`.
`crc` is a parameter of every statement: nothing is assumed about it.
-/
namespace Iora.C11
open Iora Iora.Kv

/-- a concrete configuration for the non-vacuity examples -/
def C12ex.cfg : Cfg := { lim := Lim.gen, crc := fun _ => 0, maxCache := 1, maxLog := 64, inlineCompact := true }

/-- **Gen obligation** (shared with C12): everything the API admits is re-admitted by `load`; in particular the
`totalLen` ceiling of the replay loop covers the largest record `writeLogEntry` can produce. -/
theorem gen_limits_ok : Lim.gen.OK := by
  constructor <;> decide

/-- **Gen obligation** (shape of `load`): the torn-tail offset `goodEnd` is taken from the stream position right after a record's
body has been read completely, before any path of the loop can skip the record (`continue`) — which is how the model's
`replayLoop` advances it (`replayLoop_goodEnd`). -/
theorem gen_goodEnd_ok : Gen.Kv.loadTruncatesTornTail = true ∧ Gen.Kv.loadGoodEndCountsEveryCompleteRecord = true := by
  decide

/-- **D1 (codec round trip).** For every list of records written through the API — any keys of 1..MAX_KEY_LENGTH bytes, any
values of 0..MAX_VALUE_LENGTH bytes (empty values and both boundaries included), any plausible expiry, any CRC function —
the replay loop reads back exactly those records, in order, and stops exactly at the end of the file. -/
theorem D1_roundtrip (l : Lim) (hl : l.OK) (crc : Bytes → UInt32) (rs : List Rec) (h : ∀ r ∈ rs, r.WF l) (st : LState) :
    replayLoop l crc (rs.flatMap (encode crc)) st 0 = (rs.foldl (applyRec l) st, (rs.flatMap (encode crc)).length) := by
  have := replayLoop_records_all l hl crc rs h st 0
  simpa using this

/-- non-vacuity: the empty value and the two length boundaries are well-formed records -/
example : (Rec.set [1] []).WF Lim.gen := by simp only [Rec.WF]; decide
example (k v : Bytes) (hk : k.length = 65535) (hv : v.length = 104857600) : (Rec.setE k v 1).WF Lim.gen := by
  refine ⟨by omega, by simp only [Lim.gen, Gen.Kv.maxKeyLength]; omega, by simp only [Lim.gen, Gen.Kv.maxValueLength]; omega, by decide⟩

/-- **D2 (torn tail).** After any complete records, every strict prefix of one more written record contributes nothing and
the loop reports the offset of the last complete record (`goodEnd`) — from the length prefix alone, no CRC assumption. -/
theorem D2_torn_tail (l : Lim) (hl : l.OK) (crc : Bytes → UInt32) (rs : List Rec) (h : ∀ r ∈ rs, r.WF l)
    (r : Rec) (hr : r.WF l) (p q : Bytes) (hpq : p ++ q = encode crc r) (hq : q ≠ []) (st : LState) :
    replayLoop l crc (rs.flatMap (encode crc) ++ p) st 0
      = (rs.foldl (applyRec l) st, (rs.flatMap (encode crc)).length) := by
  have := replayLoop_records_torn l hl crc rs h r hr p q hpq hq st 0
  simpa using this

/-- **load truncates only a torn tail.** For ARBITRARY log bytes (not only logs this code wrote): when the constructor succeeds,
the log it leaves behind is exactly the longest prefix of complete frames `[totalLen:4][totalLen bytes]` of the log it found —
`goodEnd` counts every record that was read completely, also one the replay then skips (CRC mismatch, unknown op letter, bad
inner lengths, implausible expiry, an orphan 'X' expiry change) — and what it cut off does not start with a complete frame.
So `load` never truncates inside or before a complete record, and records appended afterwards are read at the next load. -/
theorem load_truncates_only_torn_tail (l : Lim) (crc : Bytes → UInt32) (fs : Fs) (lg : Bytes) (hlog : fs.log = some lg)
    (now : Int) (st : LState) (ops : List FsOp) (h : openStore l crc fs now = .ok (st, ops)) :
    (applyAll fs ops).log = some (lg.take (framesLen l lg)) ∧ framesLen l lg ≤ lg.length ∧
    framesLen l (lg.drop (framesLen l lg)) = 0 := by
  refine ⟨?_, framesLen_le l lg, framesLen_drop l lg⟩
  unfold openStore at h
  cases hs : loadSnapOpt l fs.snap with
  | error e => rw [hs] at h; cases h
  | ok st0 =>
    rw [hs, hlog] at h
    simp only [Except.ok.injEq, Prod.mk.injEq] at h
    obtain ⟨_, hops⟩ := h
    have hg := replayLoop_goodEnd l crc lg st0 0
    simp only [Nat.zero_add] at hg
    rw [hg] at hops
    have hle := framesLen_le l lg
    by_cases hlt : framesLen l lg < lg.length
    · simp only [hlt, ↓reduceIte] at hops
      subst hops
      simp [applyAll, FsOp.apply, Fs.set, Fs.get, hlog]
    · simp only [hlt, ↓reduceIte] at hops
      subst hops
      have : framesLen l lg = lg.length := by omega
      simp [applyAll, hlog, this]

/-- the counted prefix, concretely: any sequence of complete frames with admissible lengths — WHATEVER they contain — followed by
a strict prefix of one more frame is cut exactly at the end of the last complete frame -/
theorem goodEnd_after_frames (l : Lim) (hl : l.OK) (bs : List Bytes) (h : ∀ b ∈ bs, l.ldMin ≤ b.length ∧ b.length ≤ l.ldMax)
    (b p q : Bytes) (hb : l.ldMin ≤ b.length ∧ b.length ≤ l.ldMax) (hpq : p ++ q = frame b) (hq : q ≠ []) :
    framesLen l (bs.flatMap frame ++ p) = (bs.flatMap frame).length := by
  rw [framesLen_frames l hl bs h p, framesLen_torn l hl b p q hb.1 hb.2 hpq hq]; rfl

/-- non-vacuity: an orphan 'X' record is a complete frame of admissible length -/
example : Lim.gen.ldMin ≤ ((Rec.exp [0x6b] 5000).body ++ le32 0).length ∧ ((Rec.exp [0x6b] 5000).body ++ le32 0).length ≤ Lim.gen.ldMax := by
  decide

/-- **Gen obligation (snapshot entry count, repair FC11d).** `load` bounds the entry count by what the rest of the snapshot file can
hold (`count > remaining / kMinSnapshotEntryBytes` is refused) instead of by a constant, the divisor is positive and not larger than
the smallest entry of either snapshot version (4 + 1 + 4), the count field is 32 bits wide, and `compactLocked` refuses to write a
snapshot whose count would not fit the field.  So the only bound left in `D1_snapshot` / `StepOK` is the width of the field. -/
theorem gen_snapcount_ok :
    Gen.Kv.snapCountBoundFromFileSize = true ∧ Gen.Kv.compactRefusesCountOverflow = true ∧
    Gen.Kv.snapCountFieldMax = 2 ^ 32 - 1 ∧ 1 ≤ Gen.Kv.snapMinEntryBytes ∧ Gen.Kv.snapMinEntryBytes ≤ 4 + 1 + 4 := by
  decide

/-- **snapshot round trip.** What `compactLocked` writes, `load` reads back: version 2, ANY number of entries the 32-bit count
field can express (`l.snapCountMax = 2^32 − 1` for the generated limits; `compactLocked` refuses more) — `load`'s plausibility
check `count ≤ remaining bytes / kMinSnapshotEntryBytes` never refuses a snapshot this code wrote (`snapEntries_length`). -/
theorem D1_snapshot (l : Lim) (hl : l.OK) (ents : List (Key × Val × Option Int)) (h : ∀ x ∈ ents, EntWF l x)
    (hc : ents.length ≤ l.snapCountMax) : loadSnap l (encodeSnap l ents) = .ok (snapState ents) :=
  loadSnap_ok l hl ents h hc

/-- **D3 (crash prefix).** From every reachable state (`Inv`: any history, see `C12.M1_refinement`), for every operation —
set, set+TTL, batch, delete, prefix delete, clear, expiry change, persist, compaction, eviction callback, close+reopen — and
every crash point of §6.5 (any prefix `k` of the file operations the step issues, the write in progress cut after any
number `cut` of bytes), a new process started at any time `t ≥ now` on what is left: the constructor succeeds, and every
key shows what it held before the operation or what it holds after it (as seen at `t`) — never a torn, foreign or
resurrected value.  This includes the compaction windows: temp file partly/fully written, renamed but log not yet reset
(the old log replayed over the new snapshot is idempotent), log reset.  **D4 (continuation)** is the `Inv` conjunct: the
recovered store satisfies the full invariant again, so D3, the refinement M1 and the restart theorem M4 apply to everything
that follows — further operations, clean closes, further crashes, for any number of generations. -/
theorem D3_D4_crash_recover (cfg : Cfg) (hl : cfg.lim.OK) (w : W) (hi : Inv cfg w) (op : Op) (hok : StepOK cfg w op)
    (hd : op.Distinct) (k cut : Nat) (t : Int) (ht : w.now ≤ t) (m0 : Mem) :
    (crashRecover cfg w op k cut t m0).2 = .ok ∧ Inv cfg (crashRecover cfg w op k cut t m0).1 ∧
    (crashRecover cfg w op k cut t m0).1.now = t ∧
    ∀ key, (crashRecover cfg w op k cut t m0).1.abs.m key = live t (w.mem.look key) ∨
           (crashRecover cfg w op k cut t m0).1.abs.m key = live t ((step cfg w op).1.mem.look key) :=
  crashRecover_ok cfg hl w hi op hok hd k cut t ht m0

/-- **D3 for arbitrary crash images** (not only the ones the executable enumeration `crashImage` lists): the relational
form of §6.5. -/
theorem D3_every_image (cfg : Cfg) (hl : cfg.lim.OK) (w : W) (hi : Inv cfg w) (op : Op) (hok : StepOK cfg w op) (hd : op.Distinct) :
    CrashAdm cfg w.now w.fs (step cfg w op).1.tr w.mem.look (step cfg w op).1.mem.look :=
  crash_step cfg hl w hi op hok hd

/-- **D4 (continuation, spelled out).** After recovering from any crash image, every further history — ending in a clean
close and reopen or not — behaves exactly as the reference map started from the recovered contents: nothing acknowledged
after the recovery is lost at the next load. -/
theorem D4_continuation (cfg : Cfg) (hl : cfg.lim.OK) (w : W) (hi : Inv cfg w) (op : Op) (hok : StepOK cfg w op)
    (hd : op.Distinct) (k cut : Nat) (t : Int) (ht : w.now ≤ t) (m0 : Mem) (ops : List Op)
    (hops : RunOK cfg (crashRecover cfg w op k cut t m0).1 ops) :
    (run cfg (crashRecover cfg w op k cut t m0).1 (ops ++ [.reopen])).abs
      = specRun cfg.lim (crashRecover cfg w op k cut t m0).1.abs ops := by
  obtain ⟨_, hinv, _, _⟩ := crashRecover_ok cfg hl w hi op hok hd k cut t ht m0
  obtain ⟨h1, h2, _⟩ := run_ok cfg hl ops _ hinv hops
  have hrun : ∀ (l : List Op) (w0 : W), run cfg w0 (l ++ [.reopen]) = (step cfg (run cfg w0 l) .reopen).1 := by
    intro l
    induction l with
    | nil => intro w0; rfl
    | cons o r ih => intro w0; exact ih _
  have hrun := hrun ops (crashRecover cfg w op k cut t m0).1
  rw [hrun]
  obtain ⟨_, _, c, _⟩ := reopen_ok cfg hl { run cfg (crashRecover cfg w op k cut t m0).1 ops with tr := [] } h1.mem
    (FInv.resetTr cfg _ h1.file)
  exact c.trans h2

/-- recovery from any directory of the crash-image shape, wherever it comes from (first generation or not) -/
theorem D4_recover_any (cfg : Cfg) (hl : cfg.lim.OK) (img : Fs) (ents : List (Key × Val × Option Int)) (rs : List Rec) (p : Bytes)
    (hd : TornDurable cfg img ents rs p) (t : Int) (ht : 0 < t) (m0 : Mem) :
    (opOpen cfg { mem := m0, fs := img, tr := [], now := t }).2 = .ok ∧
    Inv cfg (opOpen cfg { mem := m0, fs := img, tr := [], now := t }).1 :=
  ⟨(open_torn cfg hl img ents rs p hd t ht m0).1, (open_torn cfg hl img ents rs p hd t ht m0).2.1⟩

/-- the executable enumeration used by the driver lists only crash images -/
theorem crashImage_sound (fs : Fs) (ops : List FsOp) (k cut : Nat) : IsCrashImage fs ops (crashImage fs ops k cut) :=
  crashImage_is fs ops k cut

/-- non-vacuity: the hypotheses of D3/D4 hold for the first `set` on a fresh store, for a batch with distinct keys … -/
example : Inv C12ex.cfg (W.init C12ex.cfg 1000 []) := init_inv _ 1000 (by decide) []
example : StepOK C12ex.cfg (W.init C12ex.cfg 1000 []) (.setBatch [([1], [2]), ([3], [])]) ∧
    (Op.setBatch [([1], [2]), ([3], [])]).Distinct := ⟨⟨by decide, trivial⟩, by simp only [Op.Distinct]; decide⟩

/-- **J1 (JSON file store).** With `saveToFile()` as the working tree has it (a generated fact), at every crash point of a
flush — between any two file operations, or inside the write at any byte — the store file is either untouched (the last
completed flush) or the complete new text (the flush in progress); never empty or partial. -/
theorem J1_flush_atomic (fs : Fs) (data : Bytes) (k cut : Nat) :
    Jfs.loaded (crashImage fs (Jfs.saveToFile data) k cut) = Jfs.loaded fs ∨
    Jfs.loaded (crashImage fs (Jfs.saveToFile data) k cut) = some data := by
  rw [Jfs.saveToFile_eq]; exact Jfs.crash_one fs data k cut

/-- **J1 over histories.** After any sequence of completed flushes the file holds the last one. -/
theorem J1_last_flush (fs : Fs) (datas : List Bytes) (d : Bytes) : Jfs.loaded (Jfs.flushAll fs (datas ++ [d])) = some d :=
  Jfs.flushAll_snap fs datas d

/-- the in-place rewrite of the unrepaired code does NOT have this property: the model tells the two shapes apart
(a crash right after the truncating open leaves an empty file) -/
theorem J1_in_place_refuted :
    ¬ ∀ (fs : Fs) (data : Bytes) (k cut : Nat),
        Jfs.loaded (crashImage fs (Jfs.saveOpsInPlace data) k cut) = Jfs.loaded fs ∨
        Jfs.loaded (crashImage fs (Jfs.saveOpsInPlace data) k cut) = some data := by
  intro h
  have := h { snap := some [1] } [2, 3] 1 0
  revert this
  decide

end Iora.C11
