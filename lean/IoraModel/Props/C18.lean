import IoraModel.Lemmas.WsFrame
import IoraModel.Lemmas.WsStream
import IoraModel.Lemmas.WsClient
import IoraModel.Lemmas.WsEndpoint
import IoraModel.Lemmas.WsUpgrade
import IoraModel.Lemmas.WsHandover
import IoraModel.Lemmas.Utf8
import IoraModel.Model.WsSkel
import IoraModel.Lemmas.WsConc
import IoraModel.Common.Framing
/-!
# C18 — WebSocket framing round-trips and reassembles under any segmentation

Property theorems only (helper lemmas live in `Lemmas/Ws*.lean`).  The model is `Model/WsFrame.lean` (codec, UTF-8),
`Model/WsServer.lean`, `Model/WsClient.lean` (sessions incl. re-entrant sends from callbacks and the upgrade boundary) and
`Model/WsSkel.lean` (lock discipline over the extracted skeleton); constants and skeletons come from the regenerated `Gen/Ws.lean`.
-/
namespace Iora.C18
open Iora Iora.Ws Iora.Framing

/-! ## W1 / W2 — the codec -/

/-- **W1 (round-trip).** Every well-formed frame — any opcode, FIN, masked or not, any mask key, payload of any
length `< 2^64` (7-, 16- and 64-bit encodings) — parses back to an equal frame consuming exactly its own bytes,
whatever bytes follow it, for every payload limit that admits it. -/
theorem W1_roundtrip (max : Nat) (f : Frame) (x : Bytes) (h : f.WF) (hmax : f.payload.length ≤ max) :
    parse max (serialize f ++ x) = .frame f (serialize f).length :=
  roundtrip max f x h hmax

/-- non-vacuity: a masked 70 000-byte binary frame and a ping satisfy the hypotheses -/
example (pl : Bytes) (hl : pl.length = 70000) : (Frame.mk true 2 true [1, 2, 3, 4] pl).WF ∧ 65535 < pl.length := by
  refine ⟨⟨by simp, by simp, ?_, ?_, ?_⟩, by omega⟩
  · intro h; cases h
  · show pl.length < 2 ^ 64; omega
  · simp [isControl, Gen.Ws.controlOpcodes]
example : ∃ pl : Bytes, pl.length = 70000 := ⟨List.replicate 70000 7, List.length_replicate ..⟩
example : (Frame.mk true 9 false zeroKey [1, 2, 3]).WF :=
  ⟨by decide, by decide, by simp, by simp, by simp [Gen.Ws.maxControlPayload]⟩

/-- **W1, the hypothesis is necessary.** `serialize` is total but `parse` (rightly, RFC 6455 §5.5) rejects a control frame
with more than 125 payload bytes: a 126-byte ping serialises to `89 7e 00 7e …` and parses as a protocol error. So the
round trip holds for well-formed frames only; `W1_endpoint_frames_wellformed` shows the endpoints never emit any other. -/
theorem W1_control_bound_necessary (pl : Bytes) (hl : pl.length = 126) :
    parse (2 ^ 64) (serialize (mkFrame 9 true pl)) = .protocolError := by
  simp [serialize, mkFrame, hl, Gen.Ws.serMax7, Gen.Ws.serMax16, be16, parse, isControl, Gen.Ws.controlOpcodes,
    Gen.Ws.maxControlPayload]

/-- **W1 (endpoints).** Every frame a server session hands to the transport — application sends incl. those made from
inside callbacks, pongs, close echoes, failure closes — is the serialisation of a WELL-FORMED frame (so, by W1, it parses
back to itself), for every history in which the application's text/binary payloads are shorter than 2^64 bytes.
`sendPing` drops payloads above 125 bytes and `makeClose` cuts the reason to 123 (repair FC18c). -/
theorem W1_endpoint_frames_wellformed (max : Nat) (cb : Cbs) (ops : List AppOp) (hcb : cb.Small) (hops : ∀ op ∈ ops, op.Small) :
    ∀ w, Ev.sent w ∈ (run max cb {} ops).2 → ∃ f : Frame, f.WF ∧ w = serialize f :=
  run_sentWF max cb ops {} hcb hops

/-- the client analogue (frames recorded unmasked: opcode, FIN, payload) -/
theorem W1_client_frames_wellformed (cfg : CCfg) (ops : List COp) (hcb : cfg.cb.Small) (hops : ∀ op ∈ ops, op.Small) (s : CSess) :
    ∀ op fin pl, CEv.sent op fin pl ∈ (cRun cfg s ops).2 → ∀ key : Bytes, key.length = 4 →
      (Frame.mk fin op true key pl).WF :=
  cRun_sentWF cfg ops s hcb hops

/-- non-vacuity: a script that sends a ping and a close from inside `onText`, and a text send, are small -/
example : (Cbs.mk [.ping [1, 2], .close 1000 []] [] [] []).Small ∧ (AppOp.sendText [104, 105]).Small := by
  refine ⟨⟨?_, ?_, ?_, ?_⟩, ?_⟩
  · intro a ha
    simp only [List.mem_cons, List.mem_nil_iff, or_false] at ha
    rcases ha with rfl | rfl <;> simp [Send.Small]
  · intro a ha; cases ha
  · intro a ha; cases ha
  · intro a ha; cases ha
  · simp [AppOp.Small, Send.Small]

/-- **W2 (prefix safety).** Every strict prefix of a serialised frame is reported as "incomplete"
(never as a frame, never as an error). -/
theorem W2_prefix_incomplete (max : Nat) (f : Frame) (h : f.WF) (hmax : f.payload.length ≤ max)
    (p x : Bytes) (hx : x ≠ []) (hp : p ++ x = serialize f) : parse max p = .incomplete :=
  prefix_incomplete max f h hmax p x hx hp

/-- non-vacuity: the 6-byte masked frame `81 82 k k k k` ++ 2 bytes cut after its header -/
example : ([0x81, 0x82, 1, 2] : Bytes) ++ [3, 4, 0x69, 0x6b] = serialize (Frame.mk true 1 true [1, 2, 3, 4] [0x68, 0x69]) ∧
    ([3, 4, 0x69, 0x6b] : Bytes) ≠ [] := by decide

/-- **Extension stability** (the hypothesis of the generic segmentation theorem, DESIGN §6.6): an answer other than
"incomplete" never changes when more bytes arrive, for buffers that do not start with an RSV bit. -/
theorem W3_stable (max : Nat) (d x : Bytes) (hr : NoRsv d) (h : parse max d ≠ .incomplete) :
    parse max (d ++ x) = parse max d :=
  parse_stable max d x hr h

/-- non-vacuity: a complete 2-byte pong is RSV-free and not "incomplete"; so is a header declaring too much -/
example : NoRsv [0x8a, 0x00] ∧ parse 10 [0x8a, 0x00] ≠ .incomplete := ⟨by simp [NoRsv], by decide⟩
example : NoRsv [0x82, 0x7e, 0x01, 0x00] ∧ parse 10 [0x82, 0x7e, 0x01, 0x00] = .tooLarge := ⟨by simp [NoRsv], by decide⟩

/-- **RSV observation (no finding).** A first byte with an RSV bit set is answered with an EMPTY frame of that byte's
opcode and FIN that "consumes" the whole buffer (`91 05 …` is a text frame with no payload), which the session then
handles as a real frame: extensions are not negotiated, so a conforming peer never sends one, and the answer is not
extension-stable — which is why the segmentation theorems are stated for streams of valid (RSV-free) frames. -/
theorem W6_rsv_observation (cb : Cbs) :
    parse 100 [0x91, 0x05, 1, 2, 3] = .frame (mkFrame 1 true []) 5 ∧
    (handleFrame 100 cb {} (mkFrame 1 true [])).2 = (fire {} (.text []) cb.onText).2 ∧
    parse 100 [0x91, 0x05] ≠ parse 100 ([0x91, 0x05] ++ [1, 2, 3]) := by
  refine ⟨by decide, ?_, by decide⟩
  simp [handleFrame, handleDataFrame, accumulate, deliver, mkFrame, isValidUtf8]

/-- **W6a (bounded allocation, no over-read).** For ARBITRARY bytes: a returned frame lies inside the buffer; the only
allocation (`payload.resize`) is at most the bytes available and at most the caller's limit. -/
theorem W6_frame_bounds (max : Nat) (d : Bytes) (f : Frame) (n : Nat) (h : parse max d = .frame f n) :
    n ≤ d.length ∧ f.payload.length + 2 ≤ n ∧ f.payload.length ≤ max :=
  let ⟨_, h2, h3, h4⟩ := parse_frame_bounds max d f n h
  ⟨h2, h3, h4⟩

example : parse 10 [0x82, 0x02, 7, 8, 9] = .frame (mkFrame 2 true [7, 8]) 4 := by decide

/-- **W6b (bounded buffering).** A buffer the parser calls "incomplete" is shorter than `14 + max` — for ARBITRARY bytes
(no RSV hypothesis: a buffer of two or more bytes with an RSV bit is never "incomplete"). An endpoint that waits only on
"incomplete" retains at most `max + 13` bytes, whatever the peer sends. -/
theorem W6_incomplete_short (max : Nat) (d : Bytes) (h : parse max d = .incomplete) :
    d.length < 14 + max :=
  parse_incomplete_short' max d h

example : parse 10 [0x82, 0x7e, 0x00] = .incomplete := by decide

/-! ## W3 — segmentation -/

/-- **W3 (frames).** However a stream of valid frames is cut into network reads (including empty reads and one byte at
a time), greedy framing yields exactly the frames that were serialised — in order, each once, nothing left over. -/
theorem W3_frames (max : Nat) (fs : List Frame) (hv : ValidFrames max fs) (ss : List Bytes)
    (hs : ss.flatten = stream fs) :
    feed (wsStable max) (.alive []) ss = (fs.map toP, .alive []) :=
  feed_stream max fs hv ss hs

/-- **W3 (server events, general form).** For any stream of valid frames in which every frame reaches a session that
still exists (`LiveUntilLast`: only the last frame may end the session), whatever the application sends from inside its
callbacks, and any way `ss` of cutting the byte stream into reads, a fresh server session produces exactly the events of
the per-frame handler folded over the frame list: the events are a function of the frames alone. -/
theorem W3_server_events_general (max : Nat) (cb : Cbs) (fs : List Frame) (hv : ValidFrames max fs)
    (hl : LiveUntilLast max cb {} fs) (ss : List Bytes) (hs : ss.flatten = stream fs) :
    (run max cb {} (ss.map AppOp.data)).2 = (interp max cb {} (fs.map toP)).2 :=
  run_data_eq max cb ss {} fs hv hl rfl (by simpa using hs) (by simp [parse])

/-- **W3 (server events).** The syntactic sufficient condition: the peer's CLOSE (if any) is its last frame and every
message — complete or not — stays within the limit (`fitsFrom`; the server now fails a session whose message exceeds it).
Any two segmentations then give the same events. -/
theorem W3_server_segmentation_independent (max : Nat) (cb : Cbs) (fs : List Frame) (hv : ValidFrames max fs)
    (hcl : CloseOnlyLast fs) (hfit : fitsFrom max 0 fs = true) (ss ts : List Bytes)
    (hs : ss.flatten = stream fs) (ht : ts.flatten = stream fs) :
    (run max cb {} (ss.map AppOp.data)).2 = (run max cb {} (ts.map AppOp.data)).2 := by
  have hl := liveUntilLast_of_fits max cb fs {} rfl hcl hfit
  rw [W3_server_events_general max cb fs hv hl ss hs, W3_server_events_general max cb fs hv hl ts ht]

theorem W3_server_events_of_frames (max : Nat) (cb : Cbs) (fs : List Frame) (hv : ValidFrames max fs)
    (hcl : CloseOnlyLast fs) (hfit : fitsFrom max 0 fs = true) (ss : List Bytes) (hs : ss.flatten = stream fs) :
    (run max cb {} (ss.map AppOp.data)).2 = (interp max cb {} (fs.map toP)).2 :=
  W3_server_events_general max cb fs hv (liveUntilLast_of_fits max cb fs {} rfl hcl hfit) ss hs

/-- non-vacuity: a text frame followed by a close frame is a valid, close-last stream whose messages fit -/
example : ValidFrames 100 [mkFrame 1 true [104, 105], makeClose 1000 []] ∧ CloseOnlyLast [mkFrame 1 true [104, 105], makeClose 1000 []] ∧
    fitsFrom 100 0 [mkFrame 1 true [104, 105], makeClose 1000 []] = true := by
  refine ⟨?_, ?_, by decide⟩
  · intro f hf
    simp only [List.mem_cons, List.mem_nil_iff, or_false] at hf
    rcases hf with rfl | rfl
    · exact ⟨⟨by simp [mkFrame], by simp [mkFrame, zeroKey], by simp [mkFrame], by simp [mkFrame], by simp [mkFrame, isControl, Gen.Ws.controlOpcodes]⟩, by simp [mkFrame]⟩
    · exact ⟨⟨by decide, by decide, by intro; rfl, by decide, by intro; decide⟩, by decide⟩
  · intro pre f post he h8
    match pre, he with
    | [], he => simp at he; rw [← he.1] at h8; simp [mkFrame] at h8
    | [_], he => simp at he; exact he.2.2
    | _ :: _ :: _ :: _, he => simp at he
    | [_, _], he => simp at he

/-- **W3 (delivered messages, no side condition).** For EVERY stream of valid frames — CLOSE anywhere, messages of any
size — and any two segmentations, the server hands the SAME messages to the application, in the same order: frames that
follow the end of the session (the peer's CLOSE, or a message over the limit) deliver nothing, whether they arrive in the
same read or later. (Full events, by contrast, need `CloseOnlyLast`: a ping in the same read as a preceding CLOSE is
still answered, in a later read it is not.) -/
theorem W3_server_messages_segmentation_independent (max : Nat) (cb : Cbs) (fs : List Frame) (hv : ValidFrames max fs)
    (ss ts : List Bytes) (hs : ss.flatten = stream fs) (ht : ts.flatten = stream fs) :
    msgs (run max cb {} (ss.map AppOp.data)).2 = msgs (run max cb {} (ts.map AppOp.data)).2 := by
  rw [run_msgs_eq max cb ss {} fs hv rfl (by simpa using hs) (by simp [parse]),
      run_msgs_eq max cb ts {} fs hv rfl (by simpa using ht) (by simp [parse])]

/-! ## W4 — reassembly, message-level exactness -/

/-- **W4 (reassembly, inside a message).** Fragments are joined in order; ping/pong control frames between fragments do
not disturb reassembly; every ping is answered by a pong with the same payload; a text message is delivered only if it is
valid UTF-8 (otherwise close 1007); the message is delivered exactly once (`deliver`: the callback, then whatever the
application sends from inside it), and the fragment buffer is empty afterwards. -/
theorem W4_reassembly (max : Nat) (cb : Cbs) (fs : List Frame) (acc : Bytes)
    (ht : Tail acc fs) (s : Sess) (ha : s.alive = true) (hl : (s.fragBuf ++ acc).length ≤ max) :
    interp max cb s (fs.map toP) =
      ((deliver cb (cleared s) s.fragOp (s.fragBuf ++ acc)).1,
       pongsOf fs ++ (deliver cb (cleared s) s.fragOp (s.fragBuf ++ acc)).2) :=
  reassembly_tail max cb fs acc ht s ha hl

/-- non-vacuity: a ping, a non-final and a final continuation form a `Tail` -/
example : Tail ([1, 2] ++ [3]) [mkFrame 9 true [7], mkFrame 0 false [1, 2], mkFrame 0 true [3]] :=
  .ctl _ _ _ (.inl rfl) (.cont (mkFrame 0 false [1, 2]) [3] _ rfl rfl (.last (mkFrame 0 true [3]) rfl rfl))

/-- **W4 (message-level exactness).** From a fresh session, the frames of a list of messages — each unfragmented or
fragmented, pings/pongs anywhere (also between messages), an optional final CLOSE — with every message within the
limit, deliver exactly those messages, in order, each once; text only if valid UTF-8. Combined with W3: for EVERY
segmentation of the byte stream. -/
theorem W4_messages_exact (max : Nat) (cb : Cbs) (ms : List (Nat × Bytes)) (fs : List Frame) (hm : Msgs ms fs)
    (hv : ValidFrames max fs) (hfit : ∀ m ∈ ms, m.2.length ≤ max) (ss : List Bytes) (hs : ss.flatten = stream fs) :
    msgs (run max cb {} (ss.map AppOp.data)).2 = ms.filterMap deliveryOf := by
  rw [run_msgs_eq max cb ss {} fs hv rfl (by simpa using hs) (by simp [parse])]
  exact msgs_exact max cb ms fs hm hfit {} rfl rfl

/-- non-vacuity: an unfragmented text message, a ping between messages, a fragmented binary message, a close -/
example : Msgs [(1, [104, 105]), (2, [1] ++ [2])]
    ([mkFrame 1 true [104, 105]] ++ (mkFrame 9 true [] :: ([mkFrame 2 false [1], mkFrame 0 true [2]] ++ [makeClose 1000 []]))) :=
  .msg 1 _ _ _ _ (.single (mkFrame 1 true [104, 105]) (.inl rfl) rfl)
    (.ctl _ _ _ (.inl rfl)
      (.msg 2 _ _ _ _ (.frag (mkFrame 2 false [1]) [2] _ (.inr rfl) rfl (.last (mkFrame 0 true [2]) rfl rfl))
        (.close _ rfl)))

/-- **W4 (UTF-8).** The validator accepts exactly the well-formed UTF-8 byte sequences of Unicode Table 3-7 / RFC 3629
(no overlongs, no surrogates, nothing above U+10FFFF, no truncated sequences). -/
theorem W4_utf8 (d : Bytes) : isValidUtf8 d = true ↔ Utf8 d := isValidUtf8_iff d

/-! ## W5 — nothing after close -/

/-- **W5 (after close).** For EVERY history of application sends (text, binary, ping, close), network reads, and sends
the application makes from inside its callbacks — each application send is one `_wsMutex` critical section in the real
server (`W5_lock_discipline`) — no data frame is handed to the transport after a close frame has been. -/
theorem W5_no_data_after_close (max : Nat) (cb : Cbs) (ops : List AppOp) : NoDataAfterClose (run max cb {} ops).2 :=
  run_noDataAfterClose max cb ops {}

/-- **W5 (lock discipline of the source text).** The skeleton the translator extracts from the working tree satisfies the
discipline the models assume (see `Model/WsSkel.lean`): on both endpoints the close-flag test of
`sendText/sendBinary/sendPing` and the hand-over of the frame are ONE critical section of the session mutex; every
CLOSE-frame send (`sendClose`, the inbound-CLOSE echo) is preceded by setting the flag under that mutex; every write of the
flag is under it; callbacks and `sendClose` calls are made with no mutex held. -/
theorem W5_lock_discipline :
    Skel.disciplined Skel.serverFunctions "_wsMutex" "closeSent" Gen.Ws.serverSkeleton = true ∧
    Skel.sendersPresent Gen.Ws.serverSkeleton = true ∧
    Skel.disciplined Skel.clientFunctions "_sendMutex" "_closeSent" Gen.Ws.clientSkeleton = true ∧
    Skel.sendersPresent Gen.Ws.clientSkeleton = true := by decide

/-- the programs application threads run: the send paths of the regenerated skeleton, compiled to lock / flag / send actions -/
def serverPrograms : List (List Conc.Act) := Gen.Ws.serverSkeleton.map (fun f => Conc.compile "_wsMutex" "closeSent" f.2)
def clientPrograms : List (List Conc.Act) := Gen.Ws.clientSkeleton.map (fun f => Conc.compile "_sendMutex" "_closeSent" f.2)

/-- every function of the working tree's skeleton is a disciplined program of the small-step model -/
theorem W5_programs_disciplined :
    serverPrograms.all Conc.ok = true ∧ clientPrograms.all Conc.ok = true := by decide

/-- **W5 (concurrent).** ANY number of application threads, each making ANY sequence of calls of the send paths as they
are in the working tree (`serverPrograms` / `clientPrograms`: `sendText`, `sendBinary`, `sendPing`, `sendClose`, and the
receive handlers with their CLOSE echo), under ANY schedule, any initial value of the close flag and any resolution of the
early returns the skeleton leaves open: no data frame is handed to the transport after a close frame. (Small-step model
`Model/WsConc.lean`: mutex with RAII release, one shared flag, one wire; the abstraction from C++ to skeleton is the
translator's, see the level note.) -/
theorem W5_concurrent (progs : List (List Conc.Act)) (hp : progs = serverPrograms ∨ progs = clientPrograms) (flag : Bool)
    (calls : List (List (List Conc.Act))) (h : ∀ cs ∈ calls, ∀ p ∈ cs, p ∈ progs) (sched : List (Nat × Bool)) :
    Conc.NoDataAfterCloseW (Conc.run (Conc.start flag calls) sched).wire := by
  apply Conc.noDataAfterClose flag calls _ sched
  intro cs hcs p hpm
  have hmem := h cs hcs p hpm
  rcases hp with rfl | rfl
  · exact List.all_eq_true.mp W5_programs_disciplined.1 p hmem
  · exact List.all_eq_true.mp W5_programs_disciplined.2 p hmem

/-- non-vacuity: two threads, `sendText` against `sendClose`; the schedule that lets the sender pass its check first -/
example : [[Conc.compile "_wsMutex" "closeSent" (Gen.Ws.serverSkeleton[0]!).2], [Conc.compile "_wsMutex" "closeSent" (Gen.Ws.serverSkeleton[3]!).2]].all
      (fun cs => cs.all (fun p => serverPrograms.contains p)) = true ∧
    (Conc.run (Conc.start false [[Conc.compile "_wsMutex" "closeSent" (Gen.Ws.serverSkeleton[0]!).2],
        [Conc.compile "_wsMutex" "closeSent" (Gen.Ws.serverSkeleton[3]!).2]])
      [(0, false), (1, false), (0, false), (0, false), (0, false), (0, false), (0, false), (0, false),
       (1, false), (1, false), (1, false), (1, false), (1, false)]).wire = [false, true] := by decide

/-! ## W6 — bounded buffering -/

/-- **W6c (bounded buffering, session level).** For EVERY history, ARBITRARY peer bytes and any callback behaviour the
session never retains more than `max + 13` unparsed bytes. -/
theorem W6_server_buffer_bounded (max : Nat) (cb : Cbs) (ops : List AppOp) : (run max cb {} ops).1.buffer.length < 14 + max :=
  (run_bounded max cb ops {} ⟨by simp; omega, by simp⟩).1

/-- **W6d (bounded reassembly).** For EVERY history and ARBITRARY peer bytes the fragment buffer never holds more than
`max` bytes (repair FC18a: a message over the limit clears it and ends the session). -/
theorem W6_server_fragment_bounded (max : Nat) (cb : Cbs) (ops : List AppOp) : (run max cb {} ops).1.fragBuf.length ≤ max :=
  (run_bounded max cb ops {} ⟨by simp; omega, by simp⟩).2

/-- the bounds hold for a session created by an upgrade request that arrived together with `trailing` bytes (sequential
hand-over: the pool thread finishes before the next read; the general case is `C18_upgrade_handover`) -/
theorem W6_server_upgrade_boundary (max : Nat) (cb : Cbs) (trailing : Bytes) (ops : List AppOp) :
    Bounded max (run max cb (upgrade max cb trailing).1 ops).1 :=
  run_bounded max cb ops _ (upgrade_bounded max cb trailing)

/-- **W6e (bounded buffering ACROSS connections; repair FC18g).** Once the transport has closed the connection
(`handleSessionClosed` → `onSessionClosed`), whatever the session held - unparsed bytes, a half-reassembled message of up
to `max` bytes - is released, and nothing that happens afterwards under that session id (late sends, reads still in
flight) makes it retain a byte again. Before the repair the entry stayed for the lifetime of the server whenever the
connection ended without the close handshake. -/
theorem W6_transport_close_frees (max : Nat) (cb : Cbs) (ops ops' : List AppOp) :
    (run max cb {} (ops ++ AppOp.transportClosed :: ops')).1 = { alive := false } := by
  rw [run_append]
  simp only [run, step, erase]
  exact run_erased max cb ops'

/-- non-vacuity: a non-final fragment of 3 bytes IS retained until the transport closes -/
example : (run 100 {} {} [.data (serialize (mkFrame 2 false [1, 2, 3]))]).1.fragBuf = [1, 2, 3] ∧
    (run 100 {} {} [.data (serialize (mkFrame 2 false [1, 2, 3])), .transportClosed]).1.fragBuf = [] := by decide

/-- the limits an endpoint has when the application never configures one are the documented 16 MiB (the bounds W6c/W6d
with `max` = this value are what an unconfigured server or client guarantees); both are far below 2^32 -/
theorem W6_default_limits :
    Gen.Ws.serverDefaultMaxFrameSize = 16 * 1024 * 1024 ∧ Gen.Ws.clientMaxFramePayload = 16 * 1024 * 1024 ∧
    Gen.Ws.clientMaxUpgradeResponse = 64 * 1024 ∧ Gen.Ws.httpMaxBufferSize = 1024 * 1024 := by decide

/-! ## The upgrade boundary under concurrency (pool thread ∥ I/O thread; repair FC18f) -/

/-- the shape facts of the hand-over the model assumes, as the translator finds them in the working tree: the head of
`handleIncomingData` tests the hold before the route, in one `_sessionMutex` section, and only queues; the request loop
sets the hold in the section that stores the bytes behind the Upgrade request and then leaves the loop (those bytes are
never scanned for CR LF CR LF); the drain loop releases the hold in the section that finds the buffer empty; every other
exit of `processHttpRequest` releases it; the transport-close callback calls the hook that erases the WebSocket entry;
and the pool thread's steps come in the order of `HPc`. -/
theorem C18_handover_pinned :
    Gen.Ws.handoverFacts.all (·.2) = true ∧ Gen.Ws.handoverFacts.length = 6 ∧
    Gen.Ws.upgradeWorkerOrder = ["mark", "create", "connect", "respond", "drain"] := by decide

/-- **The hand-over loses, reorders and anticipates nothing — for EVERY schedule.** The Upgrade request has been
extracted with `trailing` behind it; from there the pool thread (mark, create, `_onConnect`, 101, drain loop) and the I/O
thread (any number of reads, cut anywhere) interleave in ANY way. Then, at every point of every schedule: the events so
far are the connect / 101 events followed by exactly what `onUpgradedData` produces for SOME segmentation `segs` of a
prefix of `trailing ++ reads` (so nothing reaches the WebSocket parser before the 101, out of order, or twice), the rest
of `trailing ++ reads` waits in order (in the drain loop's hand, then the session buffer), and once the pool thread is done
nothing waits. Needs only that the bytes held back fit `SessionInfo::MAX_BUFFER_SIZE` (beyond it the connection is closed). -/
theorem C18_upgrade_handover (maxBuf max : Nat) (cb : Cbs) (trailing : Bytes) (sched : List HStep)
    (hfit : (trailing ++ readsOf sched).length ≤ maxBuf) :
    ∃ segs : List Bytes,
      (hRun maxBuf max cb (hInit trailing) sched).2 =
        (hRun maxBuf max cb (hInit trailing) sched).1.pc.pre ++ (run max cb {} (segs.map AppOp.data)).2 ∧
      segs.flatten ++ (hRun maxBuf max cb (hInit trailing) sched).1.pc.inflight ++ (hRun maxBuf max cb (hInit trailing) sched).1.httpBuf
        = trailing ++ readsOf sched ∧
      ((hRun maxBuf max cb (hInit trailing) sched).1.pc = .done →
        segs.flatten = trailing ++ readsOf sched ∧ (hRun maxBuf max cb (hInit trailing) sched).1.sess = (run max cb {} (segs.map AppOp.data)).1) := by
  obtain ⟨segs, hi⟩ := hRun_total maxBuf max cb trailing sched hfit
  refine ⟨segs, hi.evs_eq, hi.bytes, fun hd => ?_⟩
  have hb := hi.bytes
  rw [hd, hi.drained hd] at hb
  exact ⟨by simpa [HPc.inflight] using hb, hi.sess_eq (by rw [hd]; simp) (by rw [hd]; simp)⟩

/-- **W3 across the upgrade boundary, any schedule.** Two runs of the hand-over - different cuts of the same valid frame
stream into "arrived with the request" and later reads, different interleavings of the two threads - that have both
finished deliver the SAME messages to the application, in the same order. (With `trailing` in the same read as the
request and a read inside `_onConnect`, the unrepaired code delivered the later read first: `C18_old_handover_refuted`.) -/
theorem C18_upgrade_schedule_independent (maxBuf max : Nat) (cb : Cbs) (fs : List Frame) (hv : ValidFrames max fs)
    (t1 t2 : Bytes) (s1 s2 : List HStep)
    (h1 : t1 ++ readsOf s1 = stream fs) (h2 : t2 ++ readsOf s2 = stream fs) (hfit : (stream fs).length ≤ maxBuf)
    (d1 : (hRun maxBuf max cb (hInit t1) s1).1.pc = .done) (d2 : (hRun maxBuf max cb (hInit t2) s2).1.pc = .done) :
    msgs (hRun maxBuf max cb (hInit t1) s1).2 = msgs (hRun maxBuf max cb (hInit t2) s2).2 := by
  obtain ⟨g1, e1, _, f1⟩ := C18_upgrade_handover maxBuf max cb t1 s1 (by rw [h1]; exact hfit)
  obtain ⟨g2, e2, _, f2⟩ := C18_upgrade_handover maxBuf max cb t2 s2 (by rw [h2]; exact hfit)
  rw [e1, e2, d1, d2]
  simp only [msgs_append]
  rw [W3_server_messages_segmentation_independent max cb fs hv g1 g2 ((f1 d1).1.trans h1) ((f2 d2).1.trans h2)]

/-- non-vacuity: `two` arrives while the pool thread is inside `_onConnect`, `one` came with the request; the pool thread
then finishes: both are delivered, `one` first (and the same schedule on the unrepaired hand-over: below) -/
example : (hRun 1000 100 {} (hInit (serialize (mkFrame 2 true [111])))
      [.worker, .worker, .worker, .read (serialize (mkFrame 2 true [116])), .worker, .worker, .worker, .worker]).1.pc = .done ∧
    (hRun 1000 100 {} (hInit (serialize (mkFrame 2 true [111])))
      [.worker, .worker, .worker, .read (serialize (mkFrame 2 true [116])), .worker, .worker, .worker, .worker]).2 =
      [.connected, .upgraded, .binary [111], .binary [116]] := by decide

/-- what the hand-over must guarantee, said of a run function `r` (schedule ↦ events): all finished schedules of the
same byte stream deliver the same messages -/
def HandoverOrdered (r : Bytes → List HStep → List Ev) : Prop :=
  ∀ (t1 t2 : Bytes) (s1 s2 : List HStep), t1 ++ readsOf s1 = t2 ++ readsOf s2 → msgs (r t1 s1) = msgs (r t2 s2)

/-- **The unrepaired hand-over is refuted** (`oRun`: no hold, route by `_upgradedSessions` alone, drain once): with `one`
behind the request and `two` read while the pool thread is between the mark and the drain, `two` is delivered BEFORE
`one`; read after the drain it comes second. Same bytes, different deliveries. -/
theorem C18_old_handover_refuted : ¬ HandoverOrdered (fun t s => (oRun 100 {} (hInit t) s).2) := by
  intro h
  have := h (serialize (mkFrame 2 true [111])) (serialize (mkFrame 2 true [111]))
    [.worker, .worker, .worker, .read (serialize (mkFrame 2 true [116])), .worker, .worker, .worker]
    [.worker, .worker, .worker, .worker, .worker, .worker, .read (serialize (mkFrame 2 true [116]))] rfl
  revert this
  decide

/-- **which requests are upgraded** (`onUpgradeRequest`, RFC 6455 4.2.1): exactly those whose `Upgrade` value is `websocket`
in any case, whose `Connection` value contains `upgrade` in any case, that carry a key and ask for version 13; the others are
answered (400 / 426) or left to the HTTP dispatch - in both cases no session is marked or created, and the hold on the
session's reads is released by the scope guard (`holdReleasedOnEveryExit` in `C18_handover_pinned`; observed as `held=0`). -/
theorem C18_upgrade_accepted_iff (u c k v : Bytes) :
    upgradeDecision u c k v = .accept ↔
      (lowerB u = tokWebsocket ∧ containsSub (lowerB c) tokUpgrade = true ∧ k ≠ [] ∧ v = tok13) := by
  unfold upgradeDecision
  by_cases h1 : lowerB u = tokWebsocket <;> by_cases h2 : containsSub (lowerB c) tokUpgrade = true <;>
    by_cases h3 : k = [] <;> by_cases h4 : v = tok13 <;> simp [h1, h2, h3, h4]

/-- the tokens are the strings of the source; `WebSocket` + `keep-alive, Upgrade` is accepted, `keep-alive` alone is a 400,
`h2c` is not ours, version `8` is a 426 -/
example : tokWebsocket = [119, 101, 98, 115, 111, 99, 107, 101, 116] ∧ tokUpgrade = [117, 112, 103, 114, 97, 100, 101] ∧ tok13 = [49, 51] := by decide
example : upgradeDecision [87, 101, 98, 83, 111, 99, 107, 101, 116] [107, 101, 101, 112, 45, 97, 108, 105, 118, 101, 44, 32, 85, 112, 103, 114, 97, 100, 101] [120] [49, 51] = .accept ∧
    upgradeDecision tokWebsocket [107, 101, 101, 112, 45, 97, 108, 105, 118, 101] [120] [49, 51] = .reject 400 ∧
    upgradeDecision [104, 50, 99] [85, 112, 103, 114, 97, 100, 101] [120] [49, 51] = .notWebSocket ∧
    upgradeDecision tokWebsocket [85, 112, 103, 114, 97, 100, 101] [120] [56] = .reject 426 := by decide

/-! ## Client re-connection -/

/-- **`doConnect` re-arms every per-connection field** (as found in the working tree: `Gen.Ws.clientConnectResets`):
whatever the previous connection left - a failed protocol state, a sent CLOSE, an echoed CLOSE, unparsed bytes, half a
message, a completed upgrade - the client that starts the next connection is exactly the fresh client waiting for its
upgrade response, so every client theorem above applies to every connection, not only the first. -/
theorem C18_reconnect_fresh (s : CSess) : cReconnect s = preUpgrade := by
  cases s
  simp [cReconnect, preUpgrade, Gen.Ws.clientConnectResets]

/-! ## Client (`websocket_client.hpp`) -/

/-- **W3 (client events).** For ANY stream of valid frames (CLOSE anywhere, messages of any size), any callback behaviour
and any two segmentations, a connected client produces the same events; they are the per-frame handler folded over the
frames (frames that reach a connection the client has failed are ignored, in the same read or later). -/
theorem W3_client_segmentation_independent (cfg : CCfg) (fs : List Frame) (hv : ValidFrames cfg.max fs)
    (ss ts : List Bytes) (hs : ss.flatten = stream fs) (ht : ts.flatten = stream fs) :
    (cRun cfg {} (ss.map COp.data)).2 = (cRun cfg {} (ts.map COp.data)).2 := by
  rw [cRun_data_eq cfg ss {} fs hv rfl rfl (by simp) (by simpa using hs) (by simp [parse]),
      cRun_data_eq cfg ts {} fs hv rfl rfl (by simp) (by simpa using ht) (by simp [parse])]

/-- **W3 (client, across the upgrade boundary).** A client waiting for the upgrade response that receives a response it
accepts (`ValidResp`: ends with its first CRLF CRLF, at most `kMaxUpgradeResponse` bytes, `HTTP/1.1 101` status line, the
expected `Sec-WebSocket-Accept` value on a header line) followed by ANY stream of valid frames, the whole byte stream cut
ANYWHERE into reads — inside the response, exactly at its end, inside a frame — reports the connection once and then
produces exactly the events of the per-frame handler folded over the frames. -/
theorem W3_client_upgrade_boundary (cfg : CCfg) (resp : Bytes) (hr : ValidResp cfg resp) (fs : List Frame)
    (hv : ValidFrames cfg.max fs) (ss : List Bytes) (hs : ss.flatten = resp ++ stream fs) :
    (cRun cfg (waiting []) (ss.map COp.data)).2 = CEv.connected :: (cInterp cfg {} (fs.map toP)).2 :=
  cRun_upgrade_eq cfg resp hr fs hv ss [] (by have := hr.len4; simp; omega) (by simpa using hs)

/-- non-vacuity: `HTTP/1.1 101 OK\r\nSec-WebSocket-Accept: \tabc \r\nUpgrade: websocket\r\n\r\n` is accepted by a client expecting `abc` -/
example : ValidResp { accept := [97, 98, 99] } [72, 84, 84, 80, 47, 49, 46, 49, 32, 49, 48, 49, 32, 79, 75, 13, 10, 83, 101, 99, 45, 87, 101, 98, 83, 111, 99, 107, 101, 116, 45, 65, 99, 99, 101, 112, 116, 58, 32, 9, 97, 98, 99, 32, 13, 10, 85, 112, 103, 114, 97, 100, 101, 58, 32, 119, 101, 98, 115, 111, 99, 107, 101, 116, 13, 10, 13, 10] :=
  ⟨by decide, by decide, by decide, by decide, ⟨17, 6, by decide, by decide, by decide, by decide⟩⟩

/-- **W4 (client reassembly).** Same statement as the server's: one pong per ping in order, then ONE delivery of the
in-order concatenation, text only if valid UTF-8 (else close 1007), provided the message fits the client's limit. -/
theorem W4_client_reassembly (cfg : CCfg) (fs : List Frame) (acc : Bytes) (ht : Tail acc fs)
    (s : CSess) (hpf : s.protocolFailed = false) (hl : (s.fragBuf ++ acc).length ≤ cfg.max) :
    cInterp cfg s (fs.map toP) =
      ((cDeliver cfg.cb (cCleared s) s.fragOp (s.fragBuf ++ acc)).1,
       cPongsOf fs ++ (cDeliver cfg.cb (cCleared s) s.fragOp (s.fragBuf ++ acc)).2) :=
  cReassembly_tail cfg fs acc ht s hpf hl

example : Tail [3] [mkFrame 10 true [], mkFrame 0 true [3]] ∧ ({} : CSess).protocolFailed = false :=
  ⟨.ctl _ _ _ (.inr rfl) (.last (mkFrame 0 true [3]) rfl rfl), rfl⟩

/-- **W4 (client, message-level exactness)** for every segmentation. -/
theorem W4_client_messages_exact (cfg : CCfg) (ms : List (Nat × Bytes)) (fs : List Frame) (hm : Msgs ms fs)
    (hv : ValidFrames cfg.max fs) (hfit : ∀ m ∈ ms, m.2.length ≤ cfg.max) (ss : List Bytes) (hs : ss.flatten = stream fs) :
    cMsgs (cRun cfg {} (ss.map COp.data)).2 = ms.filterMap cDeliveryOf := by
  rw [cRun_data_eq cfg ss {} fs hv rfl rfl (by simp) (by simpa using hs) (by simp [parse])]
  exact cMsgs_exact cfg ms fs hm hfit {} rfl rfl

/-- **W5 (client).** For every history of application sends, reads (incl. the upgrade response) and sends made from
inside callbacks, from any state, no data frame follows a close frame. -/
theorem W5_client_no_data_after_close (cfg : CCfg) (ops : List COp) (s : CSess) : NoDataAfterCloseC (cRun cfg s ops).2 :=
  cRun_noDataAfterClose cfg ops s

/-- **W6c/d (client).** For every history and arbitrary peer bytes — starting connected or still waiting for the upgrade
response — a connected client retains fewer than `14 + max` unparsed bytes, a client waiting for the upgrade response at
most `kMaxUpgradeResponse` (repair FC18d), and the fragment buffer never exceeds `max` (repair FC18b). -/
theorem W6_client_buffer_bounded (cfg : CCfg) (ops : List COp) :
    (cRun cfg {} ops).1.buffer.length < 14 + cfg.max ∧ (cRun cfg {} ops).1.fragBuf.length ≤ cfg.max := by
  have h0 : CBounded cfg {} := ⟨fun _ => (by simp; omega), fun h => (by cases h), (by simp)⟩
  obtain ⟨h1, _, h3⟩ := cRun_bounded cfg ops {} h0
  exact ⟨h1 (cRun_upgraded cfg ops {} h0 rfl), h3⟩

theorem W6_client_upgrade_bounded (cfg : CCfg) (ops : List COp) : CBounded cfg (cRun cfg preUpgrade ops).1 :=
  cRun_bounded cfg ops preUpgrade ⟨fun h => (by cases h), fun _ => (by simp [preUpgrade]), (by simp [preUpgrade])⟩

/-! ## Server and client agree -/

/-- the numeric opcodes the handlers of both models dispatch on are the enumerators of `enum class WsOpcode` in the working
tree, and the control set is `isControlFrame`'s -/
theorem W1_opcode_table :
    Gen.Ws.opcodes = [("CONTINUATION", 0), ("TEXT", 1), ("BINARY", 2), ("CLOSE", 8), ("PING", 9), ("PONG", 10)] ∧
    Gen.Ws.controlOpcodes = [8, 9, 10] := by decide

/-- a delivery as (opcode, payload), for either endpoint -/
def evMsg : Ev → Option (Nat × Bytes)
  | .text b => some (1, b)
  | .binary b => some (2, b)
  | _ => none
def cEvMsg : CEv → Option (Nat × Bytes)
  | .text b => some (1, b)
  | .binary b => some (2, b)
  | _ => none

/-- **"the server and the client deliver the same sequence of complete messages".** For the frames of a list of messages
(unfragmented or fragmented, pings/pongs anywhere, optional final CLOSE - the streams RFC 6455 allows a peer to send), each
within the common limit, a server fed ANY segmentation `ss` and a client fed ANY OTHER segmentation `ts` hand the same
(opcode, payload) sequence to their applications, whatever their callbacks send meanwhile. -/
theorem W4_server_client_same_messages (max : Nat) (cb : Cbs) (cfg : CCfg) (hmax : cfg.max = max)
    (ms : List (Nat × Bytes)) (fs : List Frame) (hm : Msgs ms fs) (hv : ValidFrames max fs) (hfit : ∀ m ∈ ms, m.2.length ≤ max)
    (ss ts : List Bytes) (hs : ss.flatten = stream fs) (ht : ts.flatten = stream fs) :
    (msgs (run max cb {} (ss.map AppOp.data)).2).filterMap evMsg =
      (cMsgs (cRun cfg {} (ts.map COp.data)).2).filterMap cEvMsg := by
  subst hmax
  rw [W4_messages_exact cfg.max cb ms fs hm hv hfit ss hs, W4_client_messages_exact cfg ms fs hm hv hfit ts ht]
  clear hm hv hfit hs ht
  induction ms with
  | nil => rfl
  | cons m ms ih =>
    obtain ⟨op, pl⟩ := m
    simp only [List.filterMap_cons, deliveryOf, cDeliveryOf]
    by_cases h1 : op = 1
    · by_cases hu : isValidUtf8 pl = true
      · simp [h1, hu, evMsg, cEvMsg, ih]
      · simp [h1, hu, ih]
    · simp [h1, evMsg, cEvMsg, ih]

/-- observation (NOT a violation: RFC 6455 5.5.1 forbids data frames after a CLOSE, so such a stream is outside the
clause): on `binary, CLOSE, binary` the server - which has erased the session - delivers one message, the client - which
only changes state - delivers both. The agreement theorem above is about streams whose CLOSE, if any, comes last. -/
theorem W4_data_after_peer_close_observation :
    msgs (run 100 {} {} [.data (stream [mkFrame 2 true [1], makeClose 1000 [], mkFrame 2 true [2]])]).2 = [.binary [1]] ∧
    cMsgs (cRun {} {} [.data (stream [mkFrame 2 true [1], makeClose 1000 [], mkFrame 2 true [2]])]).2 = [.binary [1], .binary [2]] := by
  decide

end Iora.C18
