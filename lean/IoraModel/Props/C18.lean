import IoraModel.Lemmas.WsFrame
import IoraModel.Lemmas.WsStream
import IoraModel.Lemmas.WsClient
import IoraModel.Lemmas.Utf8
import IoraModel.Common.Framing
/-!
# C18 — WebSocket framing round-trips and reassembles under any segmentation

Property theorems only (helper lemmas live in `Lemmas/WsFrame.lean`).  The model is
`Model/WsFrame.lean` + `Model/WsServer.lean`; constants come from the regenerated `Gen/Ws.lean`.
-/
namespace Iora.C18
open Iora Iora.Ws Iora.Framing

/-- **W1 (round-trip).** Every well-formed frame — any opcode, FIN, masked or not, any mask key, payload of any
length `< 2^64` (7-, 16- and 64-bit encodings) — parses back to an equal frame consuming exactly its own bytes,
whatever bytes follow it, for every payload limit that admits it. -/
theorem W1_roundtrip (max : Nat) (f : Frame) (x : Bytes) (h : f.WF) (hmax : f.payload.length ≤ max) :
    parse max (serialize f ++ x) = .frame f (serialize f).length :=
  roundtrip max f x h hmax

/-- non-vacuity: a masked 70 000-byte binary frame and a ping satisfy the hypotheses -/
example (pl : Bytes) (hl : pl.length = 70000) : (Frame.mk true 2 true [1, 2, 3, 4] pl).WF ∧ 65535 < pl.length := by
  refine ⟨⟨by simp, by simp, ?_, ?_, ?_⟩, by omega⟩
  · intro h; cases h
  · show pl.length < 2 ^ 64; omega
  · simp [isControl, Gen.Ws.controlOpcodes]
example : ∃ pl : Bytes, pl.length = 70000 := ⟨List.replicate 70000 7, List.length_replicate ..⟩
example : (Frame.mk true 9 false zeroKey [1, 2, 3]).WF :=
  ⟨by decide, by decide, by simp, by simp, by simp [Gen.Ws.maxControlPayload]⟩

/-- **W2 (prefix safety).** Every strict prefix of a serialised frame is reported as "incomplete"
(never as a frame, never as an error). -/
theorem W2_prefix_incomplete (max : Nat) (f : Frame) (h : f.WF) (hmax : f.payload.length ≤ max)
    (p x : Bytes) (hx : x ≠ []) (hp : p ++ x = serialize f) : parse max p = .incomplete :=
  prefix_incomplete max f h hmax p x hx hp

/-- **Extension stability** (the hypothesis of the generic segmentation theorem, DESIGN §6.6): an answer other than
"incomplete" never changes when more bytes arrive, for buffers that do not start with an RSV bit. -/
theorem W3_stable (max : Nat) (d x : Bytes) (hr : NoRsv d) (h : parse max d ≠ .incomplete) :
    parse max (d ++ x) = parse max d :=
  parse_stable max d x hr h

/-- **W6a (bounded allocation, no over-read).** For ARBITRARY bytes: a returned frame lies inside the buffer; the only
allocation (`payload.resize`) is at most the bytes available and at most the caller's limit. -/
theorem W6_frame_bounds (max : Nat) (d : Bytes) (f : Frame) (n : Nat) (h : parse max d = .frame f n) :
    n ≤ d.length ∧ f.payload.length + 2 ≤ n ∧ f.payload.length ≤ max :=
  let ⟨_, h2, h3, h4⟩ := parse_frame_bounds max d f n h
  ⟨h2, h3, h4⟩

/-- **W6b (bounded buffering).** A buffer the parser calls "incomplete" is shorter than `14 + max`: an endpoint that
waits only on "incomplete" retains at most `max + 13` bytes, whatever the peer sends. -/
theorem W6_incomplete_short (max : Nat) (d : Bytes) (hr : NoRsv d) (h : parse max d = .incomplete) :
    d.length < 14 + max :=
  parse_incomplete_short max d hr h

/-- **W3 (frames).** However a stream of valid frames is cut into network reads (including empty reads and one byte at
a time), greedy framing yields exactly the frames that were serialised — in order, each once, nothing left over. -/
theorem W3_frames (max : Nat) (fs : List Frame) (hv : ValidFrames max fs) (ss : List Bytes)
    (hs : ss.flatten = stream fs) :
    feed (wsStable max) (.alive []) ss = (fs.map toP, .alive []) :=
  feed_stream max fs hv ss hs

/-- **W3 (server events).** For any stream of valid frames in which the peer's CLOSE (if any) is its last frame, and
any two ways `ss`, `ts` of cutting the byte stream into reads, a fresh server session produces the same sequence of
externally visible events (messages delivered, bytes sent, close/error callbacks). In fact the events are a function
of the frame list alone. -/
theorem W3_server_segmentation_independent (max : Nat) (fs : List Frame) (hv : ValidFrames max fs)
    (hcl : CloseOnlyLast fs) (ss ts : List Bytes) (hs : ss.flatten = stream fs) (ht : ts.flatten = stream fs) :
    (run max {} (ss.map AppOp.data)).2 = (run max {} (ts.map AppOp.data)).2 := by
  rw [run_data_eq max ss {} fs hv hcl rfl (by simpa using hs) (by simp [parse]),
      run_data_eq max ts {} fs hv hcl rfl (by simpa using ht) (by simp [parse])]

theorem W3_server_events_of_frames (max : Nat) (fs : List Frame) (hv : ValidFrames max fs)
    (hcl : CloseOnlyLast fs) (ss : List Bytes) (hs : ss.flatten = stream fs) :
    (run max {} (ss.map AppOp.data)).2 = (interp max {} (fs.map toP)).2 :=
  run_data_eq max ss {} fs hv hcl rfl (by simpa using hs) (by simp [parse])

/-- non-vacuity: a text frame followed by a close frame is a valid, close-last stream -/
example : ValidFrames 100 [mkFrame 1 true [104, 105], makeClose 1000 []] ∧ CloseOnlyLast [mkFrame 1 true [104, 105], makeClose 1000 []] := by
  refine ⟨?_, ?_⟩
  · intro f hf
    simp only [List.mem_cons, List.mem_nil_iff, or_false] at hf
    rcases hf with rfl | rfl
    · exact ⟨⟨by simp [mkFrame], by simp [mkFrame, zeroKey], by simp [mkFrame], by simp [mkFrame], by simp [mkFrame, isControl, Gen.Ws.controlOpcodes]⟩, by simp [mkFrame]⟩
    · exact ⟨⟨by simp [makeClose], by simp [makeClose, zeroKey], by simp [makeClose], by simp [makeClose], by simp [makeClose, Gen.Ws.maxControlPayload]⟩, by simp [makeClose]⟩
  · intro pre f post he h8
    match pre, he with
    | [], he => simp at he; rw [← he.1] at h8; simp [mkFrame] at h8
    | [_], he => simp at he; exact he.2.2
    | _ :: _ :: _ :: _, he => simp at he
    | [_, _], he => simp at he

/-- **W4 (reassembly).** Fragments are joined in order; ping/pong control frames between fragments do not disturb
reassembly; every ping is answered by a pong with the same payload; a text message is delivered only if it is valid
UTF-8 (otherwise close 1007); the message is delivered exactly once. -/
theorem W4_reassembly (max : Nat) (op : Nat) (hop : op = 1 ∨ op = 2) (fs : List Frame) (acc : Bytes)
    (ht : Tail acc fs) (s : Sess) (ha : s.alive = true) (hfo : s.fragOp = op) (hl : (s.fragBuf ++ acc).length ≤ max) :
    (interp max s (fs.map toP)).2 = pongsOf fs ++ deliverEv op (s.fragBuf ++ acc) :=
  reassembly_tail max op hop fs acc ht s ha hfo hl

/-- **W4 (UTF-8).** The validator accepts exactly the well-formed UTF-8 byte sequences of Unicode Table 3-7 / RFC 3629
(no overlongs, no surrogates, nothing above U+10FFFF, no truncated sequences). -/
theorem W4_utf8 (d : Bytes) : isValidUtf8 d = true ↔ Utf8 d := isValidUtf8_iff d

/-- **W5 (after close).** For EVERY history of application sends (text, binary, ping, close) and network reads, in any
order — each is one `_wsMutex` critical section in the real server — no data frame is handed to the transport after a
close frame has been. -/
theorem W5_no_data_after_close (max : Nat) (ops : List AppOp) : NoDataAfterClose (run max {} ops).2 :=
  (run_noDataAfterClose max ops {}).2

/-- **W6c (bounded buffering, session level).** For EVERY history and ARBITRARY peer bytes the session never retains
more than `max + 13` unparsed bytes. -/
theorem W6_server_buffer_bounded (max : Nat) (ops : List AppOp) : (run max {} ops).1.buffer.length < 14 + max :=
  run_buffer max ops {} (by simp; omega)

/-! ## Client (`websocket_client.hpp`) -/

/-- **W3 (client events).** For ANY stream of valid frames (CLOSE anywhere) and any two segmentations, a connected client
produces the same events; they are the per-frame handler folded over the frames. -/
theorem W3_client_segmentation_independent (fs : List Frame) (hv : ValidFrames clientMaxPayload fs)
    (ss ts : List Bytes) (hs : ss.flatten = stream fs) (ht : ts.flatten = stream fs) :
    (cRun {} (ss.map COp.data)).2 = (cRun {} (ts.map COp.data)).2 := by
  rw [cRun_data_eq ss {} fs hv rfl (by simpa using hs) (by simp [parse]),
      cRun_data_eq ts {} fs hv rfl (by simpa using ht) (by simp [parse])]

/-- **W4 (client reassembly).** Same statement as the server's (no message-size limit on the client): one pong per
ping in order, then ONE delivery of the in-order concatenation, text only if valid UTF-8 (else close 1007). -/
theorem W4_client_reassembly (op : Nat) (hop : op = 1 ∨ op = 2) (fs : List Frame) (acc : Bytes) (ht : Tail acc fs)
    (s : CSess) (hfo : s.fragOp = op) :
    (cInterp s (fs.map toP)).2 = cPongsOf fs ++ cDeliverEv op (s.fragBuf ++ acc) :=
  cReassembly_tail op hop fs acc ht s hfo

/-- **W5 (client).** For every history of application sends and reads, no data frame follows a close frame. -/
theorem W5_client_no_data_after_close (ops : List COp) : NoDataAfterCloseC (cRun {} ops).2 :=
  (cRun_noDataAfterClose ops {}).2

/-- **W6c (client).** For every history and arbitrary peer bytes the client retains < 14 + kMaxFramePayload unparsed bytes. -/
theorem W6_client_buffer_bounded (ops : List COp) : (cRun {} ops).1.buffer.length < 14 + clientMaxPayload :=
  cRun_buffer ops {} (by simp; omega)

end Iora.C18
