import IoraModel.Lemmas.WsFrame
import IoraModel.Common.Framing
/-!
# C18 — WebSocket framing round-trips and reassembles under any segmentation

Property theorems only (helper lemmas live in `Lemmas/WsFrame.lean`).  The model is
`Model/WsFrame.lean` + `Model/WsServer.lean`; constants come from the regenerated `Gen/Ws.lean`.
-/
namespace Iora.C18
open Iora Iora.Ws

/-- **W1 (round-trip).** Every well-formed frame — any opcode, FIN, masked or not, any mask key, payload of any
length `< 2^64` (7-, 16- and 64-bit encodings) — parses back to an equal frame consuming exactly its own bytes,
whatever bytes follow it, for every payload limit that admits it. -/
theorem W1_roundtrip (max : Nat) (f : Frame) (x : Bytes) (h : f.WF) (hmax : f.payload.length ≤ max) :
    parse max (serialize f ++ x) = .frame f (serialize f).length :=
  roundtrip max f x h hmax

/-- non-vacuity: a masked 70 000-byte binary frame and a ping satisfy the hypotheses -/
example (pl : Bytes) (hl : pl.length = 70000) : (Frame.mk true 2 true [1, 2, 3, 4] pl).WF ∧ 65535 < pl.length := by
  refine ⟨⟨by simp, by simp, ?_, ?_, ?_⟩, by omega⟩
  · intro h; cases h
  · show pl.length < 2 ^ 64; omega
  · simp [isControl, Gen.Ws.controlOpcodes]
example : ∃ pl : Bytes, pl.length = 70000 := ⟨List.replicate 70000 7, List.length_replicate ..⟩
example : (Frame.mk true 9 false zeroKey [1, 2, 3]).WF :=
  ⟨by decide, by decide, by simp, by simp, by simp [Gen.Ws.maxControlPayload]⟩

/-- **W2 (prefix safety).** Every strict prefix of a serialised frame is reported as "incomplete"
(never as a frame, never as an error). -/
theorem W2_prefix_incomplete (max : Nat) (f : Frame) (h : f.WF) (hmax : f.payload.length ≤ max)
    (p x : Bytes) (hx : x ≠ []) (hp : p ++ x = serialize f) : parse max p = .incomplete :=
  prefix_incomplete max f h hmax p x hx hp

/-- **Extension stability** (the hypothesis of the generic segmentation theorem, DESIGN §6.6): an answer other than
"incomplete" never changes when more bytes arrive, for buffers that do not start with an RSV bit. -/
theorem W3_stable (max : Nat) (d x : Bytes) (hr : NoRsv d) (h : parse max d ≠ .incomplete) :
    parse max (d ++ x) = parse max d :=
  parse_stable max d x hr h

/-- **W6a (bounded allocation, no over-read).** For ARBITRARY bytes: a returned frame lies inside the buffer; the only
allocation (`payload.resize`) is at most the bytes available and at most the caller's limit. -/
theorem W6_frame_bounds (max : Nat) (d : Bytes) (f : Frame) (n : Nat) (h : parse max d = .frame f n) :
    n ≤ d.length ∧ f.payload.length + 2 ≤ n ∧ f.payload.length ≤ max :=
  let ⟨_, h2, h3, h4⟩ := parse_frame_bounds max d f n h
  ⟨h2, h3, h4⟩

/-- **W6b (bounded buffering).** A buffer the parser calls "incomplete" is shorter than `14 + max`: an endpoint that
waits only on "incomplete" retains at most `max + 13` bytes, whatever the peer sends. -/
theorem W6_incomplete_short (max : Nat) (d : Bytes) (hr : NoRsv d) (h : parse max d = .incomplete) :
    d.length < 14 + max :=
  parse_incomplete_short max d hr h

end Iora.C18
