import IoraModel.Lemmas.JsonLimits
/-!
C13 — JSON texts and values round-trip and agree with RFC 8259.

Statements only; proofs are references to `Lemmas/Json.lean` (cursor invariant), `Lemmas/JsonSpec.lean` (J1),
`Lemmas/JsonSer.lean` (J3/J2), `Lemmas/JsonSort.lean` (sorted keys), `Lemmas/JsonLimits.lean` (J4 limits, J5, UTF-8).

* model: `Model/Json.lean` (`parse`, `serialize`, mirrors `include/iora/parsers/json.hpp` as repaired by F06/F07/F08/F36);
* specification: `Model/JsonSpec.lean` (`SText`: a syntax tree per RFC 8259 production, `render`, `denote`);
* every theorem quantifies over ALL `FloatOps` (the `strtod` / `_formatDouble` parameters), all limits, all trees / values / bytes.
-/
namespace Iora.C13
open Iora Iora.Json Iora.Json.Spec

/-- **J1 (acceptance and reference agreement).** Every RFC 8259 text (`t : SText` spans the grammar: all nine escape forms with
    hex digits of either case, surrogate pairs, every number form, arbitrary insignificant white space, nesting, duplicate keys)
    whose value is within the configured limits is accepted, and decoded to exactly the value the reference semantics assigns. -/
theorem J1_accept_and_decode (ops : FloatOps) (lim : Limits) (t : SText) (hok : t.ok) (hfit : t.fits lim) :
    parse ops lim t.render = .ok (t.denote ops) :=
  parse_render ops lim t hok hfit

/-- non-vacuity of J1: `  {"aé😀" : [1.5e3 , "x\n"], "aé😀":-0}` -- a duplicate key spelled twice -/
def exampleText : SText :=
  let key : List StrItem := [.raw 0x61, .u ⟨0, false⟩ ⟨0, false⟩ ⟨14, false⟩ ⟨9, false⟩, .u ⟨13, true⟩ ⟨8, false⟩ ⟨3, false⟩ ⟨13, true⟩,
    .u ⟨13, true⟩ ⟨14, true⟩ ⟨0, false⟩ ⟨0, false⟩]
  ⟨[.sp, .sp],
   .obj [] (.cons [] key [.sp] [.sp]
      (.arr [] (.cons [] (.num ⟨false, 1, some [0x35], some (false, none, [0x33])⟩) [.sp]
        (.cons [.sp] (.str [.raw 0x78, .esc .n]) [] .nil))) []
      (.cons [.sp] key [] [] (.num ⟨true, 0, none, none⟩) [] .nil)),
   [.lf]⟩

example : exampleText.ok ∧ exampleText.fits {} := by
  refine ⟨?_, ?_⟩
  · simp [exampleText, SText.ok, SVal.ok, SMembers.ok, SElems.ok, SNum.ok, StrItem.ok, Digits1, isDigit]
  · simp [exampleText, SText.fits, SVal.fits, SMembers.fits, SElems.fits, SMembers.length, SElems.length,
      Gen.Json.depthMaxDefault, Gen.Json.membersMaxDefault, Gen.Json.arrayItemsMaxDefault, Gen.Json.stringLengthMaxDefault]
    decide

/-- the text of the example and what it denotes: one member (the later duplicate won), key `a é 😀` in UTF-8, value the integer 0 -/
def exampleBytes : Bytes := [32, 32, 123, 34, 97, 92, 117, 48, 48, 101, 57, 92, 117, 68, 56, 51, 68, 92, 117, 68, 69, 48, 48, 34, 32, 58, 32, 91, 49, 46, 53, 101, 51, 32, 44, 32, 34, 120, 92, 110, 34, 93, 44, 32, 34, 97, 92, 117, 48, 48, 101, 57, 92, 117, 68, 56, 51, 68, 92, 117, 68, 69, 48, 48, 34, 58, 45, 48, 125, 10]

example : exampleText.render = exampleBytes := by
  simp [exampleText, exampleBytes, SText.render, SVal.render, SMembers.render, SElems.render, renderString, renderItems, StrItem.render,
    HexDigit.byte, Esc.letter, Ws.render, WsChar.byte, SNum.render, SNum.renderFrac, SNum.renderExp, natToDec_digit, b8]
  decide
/-- the parser on a concrete short text with a duplicate key: `{"k":1,"k":"\u00e9"}` -/
example (ops : FloatOps) : parse ops {} [123, 34, 107, 34, 58, 49, 44, 34, 107, 34, 58, 34, 92, 117, 48, 48, 101, 57, 34, 125] = .ok (.obj [([0x6B], .str [0xC3, 0xA9])]) := by
  rfl
example (ops : FloatOps) : exampleText.denote ops = .obj [([0x61, 0xC3, 0xA9, 0xF0, 0x9F, 0x98, 0x80], .int 0)] := by
  rfl

/-- **J2 (`_formatDouble`, the repository's own logic).** From the four explicit libc facts `LibcOk` (the `%.{15,16,17}g` texts are
    number tokens; the 17-digit text reads back exactly; the sign of a zero survives; appending `.0` to an integer-looking token does
    not change its value) it is PROVED that `Json::_formatDouble` — the precision loop that returns the first text that reads back
    (`strtod(buf) == d`, double equality), else the 17-digit text; the `find_first_of(".eE")` test; the `.0` suffix — yields, for every
    finite double, a JSON number token WITH a fraction or an exponent (so it re-parses as a Double, not an Int) that `strtod` reads
    back to the same bit pattern. -/
theorem J2_formatDouble (ops : FloatOps) (hl : LibcOk ops) (d : UInt64) (hd : isFiniteBits d = true) :
    ∃ n : SNum, n.ok ∧ n.isFloat = true ∧ n.render = formatDouble ops d ∧ ops.strtod (formatDouble ops d) = d :=
  formatDouble_roundtrips hl d hd

/-- the libc hypotheses are satisfiable: a toy libc (bit pattern printed in decimal + `e0`) has them -/
theorem LibcOk_satisfiable : LibcOk toyOps := libcOk_toy

/-- **J2 (round trip, member order kept).** For every value the C++ type can hold that is "made of finite numbers" (`Json.Good`:
    `int64` integers, FINITE doubles, objects with distinct keys), every pretty/compact setting and every indentation made of JSON white
    space, if the value is within the parse limits then parsing its serialization yields the value itself (member order included).
    The only assumption about floating point is `LibcOk`. -/
theorem J2_roundtrip (ops : FloatOps) (hl : LibcOk ops) (lim : Limits) (o : Opts) (wi : Ws) (hind : wi.render = o.indent)
    (hns : o.sortKeys = false) (v : Json) (hg : v.Good) (hw : v.within lim 0 0) :
    parse ops lim (serialize ops o 0 v) = .ok v :=
  parse_serialize ops hl lim o wi hind hns v hg hw

/-- **J2 (round trip with `sortKeys`).** The sorted serialization parses back to `sortDeep v` — the same value with the members of
    every object in key order — and `sortDeep v` equals `v` for `Json::operator==` (`eqv`: `std::variant` / `unordered_map` equality,
    doubles with `operator==`). -/
theorem J2_roundtrip_sorted (ops : FloatOps) (hl : LibcOk ops) (lim : Limits) (o : Opts) (wi : Ws) (hind : wi.render = o.indent)
    (v : Json) (hg : v.Good) (hw : v.within lim 0 0) :
    parse ops lim (serialize ops { o with sortKeys := true } 0 v) = .ok (sortDeep v) ∧ eqv v (sortDeep v) = true :=
  parse_serialize_sorted ops hl lim o wi hind v hg hw

/-- non-vacuity of J2/J3: a nested value with a control character, a quote, a two-byte UTF-8 character, a negative integer and a
    finite double -/
def exampleValue : Json :=
  .obj [([0x62], .arr [.int (-5), .str [0x01, 0x22, 0xC3, 0xA9], .dbl 7, .null]), ([0x61], .bool true)]

example : exampleValue.Good ∧ exampleValue.within {} 0 0 ∧ exampleValue.utf8 ∧ (∃ wi : Ws, wi.render = ({} : Opts).indent) := by
  refine ⟨?_, ?_, ?_, ⟨[.sp, .sp], rfl⟩⟩
  · simp only [exampleValue, Json.Good, Json.GoodMembers, Json.GoodList]
    exact ⟨by decide, ⟨⟨by omega, by omega⟩, trivial, by decide, trivial, trivial⟩, trivial, trivial⟩
  · simp [exampleValue, Json.within, Json.withinMembers, Json.withinList, Gen.Json.depthMaxDefault, Gen.Json.membersMaxDefault,
      Gen.Json.arrayItemsMaxDefault, Gen.Json.stringLengthMaxDefault]
  · simp only [exampleValue, Json.utf8, Json.utf8Members, Json.utf8List]
    exact ⟨⟨['b'], by decide⟩, ⟨trivial, ⟨[Char.ofNat 1, '"', 'é'], by decide⟩, trivial, trivial, trivial⟩, ⟨['a'], by decide⟩, trivial, trivial⟩

/-- **J3 (the serializer's output is RFC 8259 text, in the strict sense).** For every good value whose strings and keys are well-formed
    UTF-8 and every option set with white-space indentation, the output is the rendering of a syntax tree `t` that is well-formed
    (`ok`), STRICT (`SVal.strict`: every string and key is RFC 8259 `*char` — escapes and unescaped characters that are UTF-8 encoded
    scalar values ≥ U+0020 other than `"` and `\`; so control characters are always escaped and the raw bytes are well-formed UTF-8),
    and denotes the value (resp. `sortDeep` of it). -/
theorem J3_output_in_grammar (ops : FloatOps) (hl : LibcOk ops) (o : Opts) (wi : Ws) (hind : wi.render = o.indent) (v : Json)
    (hg : v.Good) (hu : v.utf8) :
    ∃ t : SVal, t.ok ∧ t.strict ∧ t.render = serialize ops o 0 v ∧ t.denote ops = (if o.sortKeys then sortDeep v else v) := by
  cases hs : o.sortKeys with
  | false =>
    obtain ⟨t, hr, hok, hd, -, hst⟩ := serialize_tree ops o wi hind hl hs v 0 hg
    exact ⟨t, hok, hst hu, hr, by simpa using hd⟩
  | true =>
    obtain ⟨h1, h2, -, -, h5⟩ := sortP_all ops o v
    obtain ⟨t, hr, hok, hd, -, hst⟩ := serialize_tree ops { o with sortKeys := false } wi hind hl rfl (sortDeep v) 0 (h2 hg)
    refine ⟨t, hok, hst (h5 hu), ?_, by simpa using hd⟩
    rw [hr, ← h1 0]
    have : ({ o with sortKeys := true } : Opts) = o := by cases o; simp_all
    rw [this]

/-- the strict string grammar is inside the grammar J1 is proved for -/
theorem J3_strict_is_ok (s : List StrItem) (h : StrictItems s) : ∀ i ∈ s, i.ok := strictItems_ok h

/-- **J4 (robustness: error position, totality).** For ARBITRARY bytes, limits and float primitives: a failure reports an offset
    inside the input (`≤ length`), and it is a parser error, never the model's "budget exhausted" outcome — the recursion bounds of
    the model (nesting budget `depthMax + 2`; loop budgets = remaining bytes + 1) are never hit, which is the termination argument of
    the C++.  (`parse` itself is a total function by construction.) -/
theorem J4_error_offset (ops : FloatOps) (lim : Limits) (bs : Bytes) (k : ErrKind) (off : Nat)
    (h : parse ops lim bs = .error (k, off)) : off ≤ bs.length ∧ k ≠ .fuel :=
  parse_error_offset ops lim bs h

example : parse ⟨fun _ => 0, fun _ _ => []⟩ {} [0x22, 0x5C, 0x75, 0x30, 0x30] = .error (.unicode, 2) := by rfl
example : parse ⟨fun _ => 0, fun _ _ => []⟩ {} [0x7B] = .error (.quote, 1) := by rfl

/-- **J4 (limits).** For ARBITRARY bytes: whatever is accepted respects the limits — every value sits at depth `≤ depthMax`, every
    array has `≤ arrayItemsMax` elements, every object `≤ membersMax` members, every string and key `≤ stringLengthMax + 4` bytes (the
    length guard runs before the append and one `\u` escape appends up to four bytes: the exact bound of the code) — and every
    object has pairwise distinct keys. -/
theorem J4_limits (ops : FloatOps) (lim : Limits) (bs : Bytes) (v : Json) (h : parse ops lim bs = .ok v) :
    v.within lim strSlack 0 ∧ v.distinctKeys :=
  parse_accepted ops lim bs v h

/-- the slack is attained: limit 0, the one-escape string `"€"` is accepted with 3 bytes -/
example : parse ⟨fun _ => 0, fun _ _ => []⟩ { stringLengthMax := 0 } [0x22, 0x5C, 0x75, 0x32, 0x30, 0x61, 0x63, 0x22]
    = .ok (.str [0xE2, 0x82, 0xAC]) := by rfl

/-- **J5 (duplicate keys: the last one wins).** For every object text within the limits, the decoded object maps each key to the
    value of the LAST member with that (decoded) name; `insertOrAssign` is `obj[key] = value`. -/
theorem J5_last_wins (ops : FloatOps) (lim : Limits) (w1 w w2 : Ws) (ms : SMembers)
    (hok : (SText.mk w1 (.obj w ms) w2).ok) (hfit : (SText.mk w1 (.obj w ms) w2).fits lim) :
    ∃ m, parse ops lim (SText.mk w1 (.obj w ms) w2).render = .ok (.obj m) ∧ (m.map Prod.fst).Nodup ∧
      ∀ k, lookupKey k m = ms.lastValue ops k := by
  have h := parse_render ops lim _ hok hfit
  refine ⟨ms.denote ops [], h, ?_, ?_⟩
  · have := (parse_accepted ops lim _ _ h).2
    simpa [SText.denote, SVal.denote, Json.distinctKeys] using this.1
  · intro k
    rw [lookupKey_denote]
    cases ms.lastValue ops k <;> rfl

/-- **J5 (integers beyond `int64` take the floating path).** A number without fraction and exponent whose value does not fit
    `std::int64_t` is accepted and denotes `strtod` of its own text (a `Double`), e.g. `9223372036854775808`, `-9223372036854775809`. -/
theorem J5_big_integer (ops : FloatOps) (lim : Limits) (neg : Bool) (n : Nat)
    (hbig : if neg then 2 ^ 63 < n else 2 ^ 63 ≤ n) :
    parse ops lim (SNum.render ⟨neg, n, none, none⟩) = .ok (.dbl (ops.strtod (SNum.render ⟨neg, n, none, none⟩))) := by
  have h := parse_render ops lim ⟨[], .num ⟨neg, n, none, none⟩, []⟩ (by simp [SText.ok, SVal.ok, SNum.ok])
    (by simp [SText.fits, SVal.fits])
  simp only [SText.render, SVal.render, ws_render_nil, List.nil_append, List.append_nil, SText.denote, SVal.denote] at h
  rw [h]
  congr 1
  cases neg with
  | true =>
    simp only [↓reduceIte] at hbig
    have : ¬ (-(2 ^ 63 : Int) ≤ -(n : Int) ∧ -(n : Int) < 2 ^ 63) := by omega
    simp only [SNum.denote, SNum.isFloat, Option.isSome_none, Bool.or_self, Bool.false_eq_true, ↓reduceIte]
    rw [if_neg this]
  | false =>
    simp only [Bool.false_eq_true, ↓reduceIte] at hbig
    have : ¬ (-(2 ^ 63 : Int) ≤ (n : Int) ∧ (n : Int) < 2 ^ 63) := by omega
    simp only [SNum.denote, SNum.isFloat, Option.isSome_none, Bool.or_self, Bool.false_eq_true, ↓reduceIte]
    rw [if_neg this]

/-- **J5 (the assignment itself).** -/
theorem J5_assign (k k' : Bytes) (v : Json) (ms : List (Bytes × Json)) :
    lookupKey k' (insertOrAssign k v ms) = if k = k' then some v else lookupKey k' ms :=
  lookupKey_insertOrAssign k k' v ms

/-- **U1 (UTF-8).** `_appendUtf8` is core Lean's `String.utf8EncodeChar` on every `Char`; every `\u` escape — single, surrogate pair,
    or lone surrogate — is decoded to a Unicode scalar value and appended as its UTF-8 encoding. -/
theorem U1_utf8 : (∀ c : Char, utf8 c.val.toNat = String.utf8EncodeChar c) ∧
    (∀ r cp k, decodeU r = some (cp, k) → ∃ c : Char, c.val.toNat = cp ∧ utf8 cp = String.utf8EncodeChar c) :=
  ⟨utf8_eq_core, fun _ _ _ h => decodeU_utf8 h⟩

/-! ### conformance of the generated facts (`Gen/Json.lean`, regenerated from the working tree on every run)

The model *uses* the limits defaults, the four guards, both escape tables, the surrogate constants, the UTF-8 thresholds and the
`_pos` advances directly (a change of the source changes the model and breaks the proofs above that unfold them).  What the model
hard-codes instead is pinned here: a change of the source makes `rfl` fail. -/

/-- error messages per parser function in source order (`Expected '['` / `'{'` are unreachable: the dispatch guarantees the byte) -/
def expectedMessages : List (String × List String) := [
  ("parse", [ErrKind.eof.message, ErrKind.extra.message, "Parse error"]),
  ("_parseValue", [ErrKind.depth.message, ErrKind.eof.message, ErrKind.char.message]),
  ("_parseNull", [ErrKind.null.message]),
  ("_parseBool", [ErrKind.bool.message]),
  ("_parseNumber", [ErrKind.number.message, ErrKind.number.message, ErrKind.number.message]),
  ("_parseString", [ErrKind.quote.message, ErrKind.strlen.message, ErrKind.eos.message, ErrKind.unicode.message,
    ErrKind.escape.message, ErrKind.unterminated.message]),
  ("_parseArray", ["Expected '['", ErrKind.arrsize.message, ErrKind.eoa.message, ErrKind.arrsep.message]),
  ("_parseObject", ["Expected '{'", ErrKind.objsize.message, ErrKind.colon.message, ErrKind.eoo.message, ErrKind.objsep.message])]

/-- nesting depth up to which the default `depthMax` may grow without the check having to be re-justified (see `gen_conformance`) -/
def stackSafeDepth : Nat := 1000
/-- largest default `arrayItemsMax` / `membersMax` the boundary stream of props/c13.py reaches exactly -/
def sizeCap : Nat := 100000
/-- largest default `stringLengthMax` the boundary stream reaches exactly -/
def stringCap : Nat := 2000000

/-- `_parseHex4`'s digit ranges as the model's `hexVal` -/
def hexValGen (b : UInt8) : Option Nat :=
  Gen.Json.hexRanges.findSome? fun (lo, hi, base) => if lo ≤ b.toNat ∧ b.toNat ≤ hi then some (b.toNat - lo + base) else none

set_option maxRecDepth 100000 in
theorem gen_conformance :
    Gen.Json.errorMessages = expectedMessages ∧
    Gen.Json.literals = ["null", "true", "false"] ∧
    Gen.Json.dispatch = [("_parseNull", [0x6E]), ("_parseBool", [0x74, 0x66]), ("_parseString", [0x22]), ("_parseArray", [0x5B]),
      ("_parseObject", [0x7B]), ("_parseNumber", [0x2D, 0x30, 0x31, 0x32, 0x33, 0x34, 0x35, 0x36, 0x37, 0x38, 0x39])] ∧
    (Gen.Json.wsPredicate, Gen.Json.digitPredicate, Gen.Json.intType, Gen.Json.intConversion, Gen.Json.doubleConversion,
      Gen.Json.memberInsertion) = ("std::isspace", "std::isdigit", "int64_t", "std::from_chars", "std::strtod", "operator[]-assign") ∧
    (∀ n, n < 256 → Iora.Json.hexVal (b8 n) = hexValGen (b8 n)) ∧
    Gen.Json.appendUtf8Literals = [127, 2047, 192, 6, 128, 63, 65535, 224, 12, 128, 6, 63, 128, 63, 240, 18, 128, 12, 63, 128, 6, 63, 128, 63] ∧
    (Gen.Json.serControlFormat, Gen.Json.fmtFormat, Gen.Json.fmtNonFinite) = ("%04x", "%.*g", "null") ∧
    (Gen.Json.fmtPrecLo = 15 ∧ Gen.Json.fmtPrecHi = 17 ∧ Gen.Json.fmtMarkers = [0x2E, 0x65, 0x45] ∧ Gen.Json.fmtSuffix = [0x2E, 0x30]) ∧
    Gen.Json.serArrayLiterals = ["[]", "[", "\n", ",", "\n", "]"] ∧
    Gen.Json.serObjectLiterals = ["{}", "{", "\n", ":", " ", ",", "\n", "}"] ∧
    -- the <cctype> predicates get an `unsigned char`; `_formatDouble`'s buffer is an automatic array big enough for %.17g
    (Gen.Json.charClassArg = "unsigned char" ∧ Gen.Json.fmtBufAutomatic = true ∧ 25 ≤ Gen.Json.fmtBufSize) ∧
    -- the DEFAULT limits stay where this check exercises them: nesting is bounded by the measured stack-safe depth (the recursive
    -- descent uses one C++ stack frame chain per level; props/c13.py measures the bytes per level of the real parser on every run and
    -- checks `stackSafeDepth * bytes per level <= 1/4 of the default 8 MiB stack`), sizes by the generator's boundary stream
    (Gen.Json.depthMaxDefault ≤ stackSafeDepth ∧ Gen.Json.arrayItemsMaxDefault ≤ sizeCap ∧ Gen.Json.membersMaxDefault ≤ sizeCap ∧
      Gen.Json.stringLengthMaxDefault ≤ stringCap) := by
  refine ⟨by decide, by decide, by decide, by decide, by decide +kernel, by decide, by decide, by decide, by decide, by decide,
    by decide, by decide⟩

end Iora.C13
