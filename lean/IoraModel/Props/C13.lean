import IoraModel.Lemmas.JsonLimits
import IoraModel.Lemmas.JsonApi
/-!
C13 — JSON texts and values round-trip and agree with RFC 8259.

Statements only; proofs are references to `Lemmas/Json.lean` (cursor invariant), `Lemmas/JsonSpec.lean` (J1),
`Lemmas/JsonSer.lean` (J3/J2), `Lemmas/JsonSort.lean` (sorted keys), `Lemmas/JsonLimits.lean` (J4 limits, J5, UTF-8).

* model: `Model/Json.lean` (`parse`, `serialize`, mirrors `include/iora/parsers/json.hpp` as repaired by F06/F07/F08/F36);
* specification: `Model/JsonSpec.lean` (`SText`: a syntax tree per RFC 8259 production, `render`, `denote`);
* every theorem quantifies over ALL `FloatOps` (the `strtod` / `_formatDouble` parameters), all limits, all trees / values / bytes.
-/
namespace Iora.C13
open Iora Iora.Json Iora.Json.Spec

/-- **J1 (acceptance and reference agreement).** Every RFC 8259 text (`t : SText` spans the grammar: all nine escape forms with
    hex digits of either case, surrogate pairs, every number form, arbitrary insignificant white space, nesting, duplicate keys)
    whose value is within the configured limits is accepted, and decoded to exactly the value the reference semantics assigns. -/
theorem J1_accept_and_decode (ops : FloatOps) (lim : Limits) (t : SText) (hok : t.ok) (hfit : t.fits lim) :
    parse ops lim t.render = .ok (t.denote ops) :=
  parse_render ops lim t hok hfit

/-- non-vacuity of J1: `  {"aé😀" : [1.5e3 , "x\n"], "aé😀":-0}` -- a duplicate key spelled twice -/
def exampleText : SText :=
  let key : List StrItem := [.raw 0x61, .u ⟨0, false⟩ ⟨0, false⟩ ⟨14, false⟩ ⟨9, false⟩, .u ⟨13, true⟩ ⟨8, false⟩ ⟨3, false⟩ ⟨13, true⟩,
    .u ⟨13, true⟩ ⟨14, true⟩ ⟨0, false⟩ ⟨0, false⟩]
  ⟨[.sp, .sp],
   .obj [] (.cons [] key [.sp] [.sp]
      (.arr [] (.cons [] (.num ⟨false, 1, some [0x35], some (false, none, [0x33])⟩) [.sp]
        (.cons [.sp] (.str [.raw 0x78, .esc .n]) [] .nil))) []
      (.cons [.sp] key [] [] (.num ⟨true, 0, none, none⟩) [] .nil)),
   [.lf]⟩

example : exampleText.ok ∧ exampleText.fits {} := by
  refine ⟨?_, ?_⟩
  · simp [exampleText, SText.ok, SVal.ok, SMembers.ok, SElems.ok, SNum.ok, StrItem.ok, Digits1, isDigit]
  · simp [exampleText, SText.fits, SVal.fits, SMembers.fits, SElems.fits, SMembers.length, SElems.length,
      Gen.Json.depthMaxDefault, Gen.Json.membersMaxDefault, Gen.Json.arrayItemsMaxDefault, Gen.Json.stringLengthMaxDefault]
    decide

/-- the text of the example and what it denotes: one member (the later duplicate won), key `a é 😀` in UTF-8, value the integer 0 -/
def exampleBytes : Bytes := [32, 32, 123, 34, 97, 92, 117, 48, 48, 101, 57, 92, 117, 68, 56, 51, 68, 92, 117, 68, 69, 48, 48, 34, 32, 58, 32, 91, 49, 46, 53, 101, 51, 32, 44, 32, 34, 120, 92, 110, 34, 93, 44, 32, 34, 97, 92, 117, 48, 48, 101, 57, 92, 117, 68, 56, 51, 68, 92, 117, 68, 69, 48, 48, 34, 58, 45, 48, 125, 10]

example : exampleText.render = exampleBytes := by
  simp [exampleText, exampleBytes, SText.render, SVal.render, SMembers.render, SElems.render, renderString, renderItems, StrItem.render,
    HexDigit.byte, Esc.letter, Ws.render, WsChar.byte, SNum.render, SNum.renderFrac, SNum.renderExp, natToDec_digit, b8]
  decide
/-- the parser on a concrete short text with a duplicate key: `{"k":1,"k":"\u00e9"}` -/
example (ops : FloatOps) : parse ops {} [123, 34, 107, 34, 58, 49, 44, 34, 107, 34, 58, 34, 92, 117, 48, 48, 101, 57, 34, 125] = .ok (.obj [([0x6B], .str [0xC3, 0xA9])]) := by
  rfl
example (ops : FloatOps) : exampleText.denote ops = .obj [([0x61, 0xC3, 0xA9, 0xF0, 0x9F, 0x98, 0x80], .int 0)] := by
  rfl

/-- **J2 (`_formatDouble`, the repository's own logic).** From the four explicit libc facts `LibcOk` (the `%.{15,16,17}g` texts are
    number tokens; the 17-digit text reads back exactly; the sign of a zero survives; appending `.0` to an integer-looking token does
    not change its value) it is PROVED that `Json::_formatDouble` — the precision loop that returns the first text that reads back
    (`strtod(buf) == d`, double equality), else the 17-digit text; the `find_first_of(".eE")` test; the `.0` suffix — yields, for every
    finite double, a JSON number token WITH a fraction or an exponent (so it re-parses as a Double, not an Int) that `strtod` reads
    back to the same bit pattern. -/
theorem J2_formatDouble (ops : FloatOps) (hl : LibcOk ops) (d : UInt64) (hd : isFiniteBits d = true) :
    ∃ n : SNum, n.ok ∧ n.isFloat = true ∧ n.render = formatDouble ops d ∧ ops.strtod (formatDouble ops d) = d :=
  formatDouble_roundtrips hl d hd

/-- the libc hypotheses are satisfiable: a toy libc (bit pattern printed in decimal + `e0`) has them -/
theorem LibcOk_satisfiable : LibcOk toyOps := libcOk_toy

/-- **J2 (round trip, member order kept).** For every value the C++ type can hold that is "made of finite numbers" (`Json.Good`:
    `int64` integers, FINITE doubles, objects with distinct keys), every pretty/compact setting and every indentation made of JSON white
    space, if the value is within the parse limits then parsing its serialization yields the value itself (member order included).
    The only assumption about floating point is `LibcOk`. -/
theorem J2_roundtrip (ops : FloatOps) (hl : LibcOk ops) (lim : Limits) (o : Opts) (wi : Ws) (hind : wi.render = o.indent)
    (hns : o.sortKeys = false) (v : Json) (hg : v.Good) (hw : v.within lim 0 0) :
    parse ops lim (serialize ops o 0 v) = .ok v :=
  parse_serialize ops hl lim o wi hind hns v hg hw

/-- **J2 (round trip with `sortKeys`).** The sorted serialization parses back to `sortDeep v` — the same value with the members of
    every object in key order — and `sortDeep v` equals `v` for `Json::operator==` (`eqv`: `std::variant` / `unordered_map` equality,
    doubles with `operator==`). -/
theorem J2_roundtrip_sorted (ops : FloatOps) (hl : LibcOk ops) (lim : Limits) (o : Opts) (wi : Ws) (hind : wi.render = o.indent)
    (v : Json) (hg : v.Good) (hw : v.within lim 0 0) :
    parse ops lim (serialize ops { o with sortKeys := true } 0 v) = .ok (sortDeep v) ∧ eqv v (sortDeep v) = true :=
  parse_serialize_sorted ops hl lim o wi hind v hg hw

/-- non-vacuity of J2/J3: a nested value with a control character, a quote, a two-byte UTF-8 character, a negative integer and a
    finite double -/
def exampleValue : Json :=
  .obj [([0x62], .arr [.int (-5), .str [0x01, 0x22, 0xC3, 0xA9], .dbl 7, .null]), ([0x61], .bool true)]

example : exampleValue.Good ∧ exampleValue.within {} 0 0 ∧ exampleValue.utf8 ∧ (∃ wi : Ws, wi.render = ({} : Opts).indent) := by
  refine ⟨?_, ?_, ?_, ⟨[.sp, .sp], rfl⟩⟩
  · simp only [exampleValue, Json.Good, Json.GoodMembers, Json.GoodList]
    exact ⟨by decide, ⟨⟨by omega, by omega⟩, trivial, by decide, trivial, trivial⟩, trivial, trivial⟩
  · simp [exampleValue, Json.within, Json.withinMembers, Json.withinList, Gen.Json.depthMaxDefault, Gen.Json.membersMaxDefault,
      Gen.Json.arrayItemsMaxDefault, Gen.Json.stringLengthMaxDefault]
  · simp only [exampleValue, Json.utf8, Json.utf8Members, Json.utf8List]
    exact ⟨⟨['b'], by decide⟩, ⟨trivial, ⟨[Char.ofNat 1, '"', 'é'], by decide⟩, trivial, trivial, trivial⟩, ⟨['a'], by decide⟩, trivial, trivial⟩

/-- **J3 (the serializer's output is RFC 8259 text, in the strict sense).** For every good value whose strings and keys are well-formed
    UTF-8 and every option set with white-space indentation, the output is the rendering of a syntax tree `t` that is well-formed
    (`ok`), STRICT (`SVal.strict`: every string and key is RFC 8259 `*char` — escapes and unescaped characters that are UTF-8 encoded
    scalar values ≥ U+0020 other than `"` and `\`; so control characters are always escaped and the raw bytes are well-formed UTF-8),
    and denotes the value (resp. `sortDeep` of it). -/
theorem J3_output_in_grammar (ops : FloatOps) (hl : LibcOk ops) (o : Opts) (wi : Ws) (hind : wi.render = o.indent) (v : Json)
    (hg : v.Good) (hu : v.utf8) :
    ∃ t : SVal, t.ok ∧ t.strict ∧ t.render = serialize ops o 0 v ∧ t.denote ops = (if o.sortKeys then sortDeep v else v) := by
  cases hs : o.sortKeys with
  | false =>
    obtain ⟨t, hr, hok, hd, -, hst⟩ := serialize_tree ops o wi hind hl hs v 0 hg
    exact ⟨t, hok, hst hu, hr, by simpa using hd⟩
  | true =>
    obtain ⟨h1, h2, -, -, h5⟩ := sortP_all ops o v
    obtain ⟨t, hr, hok, hd, -, hst⟩ := serialize_tree ops { o with sortKeys := false } wi hind hl rfl (sortDeep v) 0 (h2 hg)
    refine ⟨t, hok, hst (h5 hu), ?_, by simpa using hd⟩
    rw [hr, ← h1 0]
    have : ({ o with sortKeys := true } : Opts) = o := by cases o; simp_all
    rw [this]

/-- the strict string grammar is inside the grammar J1 is proved for -/
theorem J3_strict_is_ok (s : List StrItem) (h : StrictItems s) : ∀ i ∈ s, i.ok := strictItems_ok h

/-- **J4 (robustness: error position, totality).** For ARBITRARY bytes, limits and float primitives: a failure reports an offset
    inside the input (`≤ length`), and it is a parser error, never the model's "budget exhausted" outcome — the recursion bounds of
    the model (nesting budget `depthMax + 2`; loop budgets = remaining bytes + 1) are never hit, which is the termination argument of
    the C++.  (`parse` itself is a total function by construction.) -/
theorem J4_error_offset (ops : FloatOps) (lim : Limits) (bs : Bytes) (k : ErrKind) (off : Nat)
    (h : parse ops lim bs = .error (k, off)) : off ≤ bs.length ∧ k ≠ .fuel :=
  parse_error_offset ops lim bs h

example : parse ⟨fun _ => 0, fun _ _ => []⟩ {} [0x22, 0x5C, 0x75, 0x30, 0x30] = .error (.unicode, 2) := by rfl
example : parse ⟨fun _ => 0, fun _ _ => []⟩ {} [0x7B] = .error (.quote, 1) := by rfl

/-- **J4 (limits).** For ARBITRARY bytes: whatever is accepted respects the limits — every value sits at depth `≤ depthMax`, every
    array has `≤ arrayItemsMax` elements, every object `≤ membersMax` members, every string and key `≤ stringLengthMax + 4` bytes (the
    length guard runs before the append and one `\u` escape appends up to four bytes: the exact bound of the code) — and every
    object has pairwise distinct keys. -/
theorem J4_limits (ops : FloatOps) (lim : Limits) (bs : Bytes) (v : Json) (h : parse ops lim bs = .ok v) :
    v.within lim strSlack 0 ∧ v.distinctKeys :=
  parse_accepted ops lim bs v h

/-- the slack is attained: limit 0, the one-escape string `"€"` is accepted with 3 bytes -/
example : parse ⟨fun _ => 0, fun _ _ => []⟩ { stringLengthMax := 0 } [0x22, 0x5C, 0x75, 0x32, 0x30, 0x61, 0x63, 0x22]
    = .ok (.str [0xE2, 0x82, 0xAC]) := by rfl

/-- **J5 (duplicate keys: the last one wins).** For every object text within the limits, the decoded object maps each key to the
    value of the LAST member with that (decoded) name; `insertOrAssign` is `obj[key] = value`. -/
theorem J5_last_wins (ops : FloatOps) (lim : Limits) (w1 w w2 : Ws) (ms : SMembers)
    (hok : (SText.mk w1 (.obj w ms) w2).ok) (hfit : (SText.mk w1 (.obj w ms) w2).fits lim) :
    ∃ m, parse ops lim (SText.mk w1 (.obj w ms) w2).render = .ok (.obj m) ∧ (m.map Prod.fst).Nodup ∧
      ∀ k, lookupKey k m = ms.lastValue ops k := by
  have h := parse_render ops lim _ hok hfit
  refine ⟨ms.denote ops [], h, ?_, ?_⟩
  · have := (parse_accepted ops lim _ _ h).2
    simpa [SText.denote, SVal.denote, Json.distinctKeys] using this.1
  · intro k
    rw [lookupKey_denote]
    cases ms.lastValue ops k <;> rfl

/-- **J5 (integers beyond `int64` take the floating path).** A number without fraction and exponent whose value does not fit
    `std::int64_t` is accepted and denotes `strtod` of its own text (a `Double`), e.g. `9223372036854775808`, `-9223372036854775809`. -/
theorem J5_big_integer (ops : FloatOps) (lim : Limits) (neg : Bool) (n : Nat)
    (hbig : if neg then 2 ^ 63 < n else 2 ^ 63 ≤ n) :
    parse ops lim (SNum.render ⟨neg, n, none, none⟩) = .ok (.dbl (ops.strtod (SNum.render ⟨neg, n, none, none⟩))) := by
  have h := parse_render ops lim ⟨[], .num ⟨neg, n, none, none⟩, []⟩ (by simp [SText.ok, SVal.ok, SNum.ok])
    (by simp [SText.fits, SVal.fits])
  simp only [SText.render, SVal.render, ws_render_nil, List.nil_append, List.append_nil, SText.denote, SVal.denote] at h
  rw [h]
  congr 1
  cases neg with
  | true =>
    simp only [↓reduceIte] at hbig
    have : ¬ (-(2 ^ 63 : Int) ≤ -(n : Int) ∧ -(n : Int) < 2 ^ 63) := by omega
    simp only [SNum.denote, SNum.isFloat, Option.isSome_none, Bool.or_self, Bool.false_eq_true, ↓reduceIte]
    rw [if_neg this]
  | false =>
    simp only [Bool.false_eq_true, ↓reduceIte] at hbig
    have : ¬ (-(2 ^ 63 : Int) ≤ (n : Int) ∧ (n : Int) < 2 ^ 63) := by omega
    simp only [SNum.denote, SNum.isFloat, Option.isSome_none, Bool.or_self, Bool.false_eq_true, ↓reduceIte]
    rw [if_neg this]

/-- **J5 (the assignment itself).** -/
theorem J5_assign (k k' : Bytes) (v : Json) (ms : List (Bytes × Json)) :
    lookupKey k' (insertOrAssign k v ms) = if k = k' then some v else lookupKey k' ms :=
  lookupKey_insertOrAssign k k' v ms

/-- **U1 (UTF-8).** `_appendUtf8` is core Lean's `String.utf8EncodeChar` on every `Char`; every `\u` escape — single, surrogate pair,
    or lone surrogate — is decoded to a Unicode scalar value and appended as its UTF-8 encoding. -/
theorem U1_utf8 : (∀ c : Char, utf8 c.val.toNat = String.utf8EncodeChar c) ∧
    (∀ r cp k, decodeU r = some (cp, k) → ∃ c : Char, c.val.toNat = cp ∧ utf8 cp = String.utf8EncodeChar c) :=
  ⟨utf8_eq_core, fun _ _ _ h => decodeU_utf8 h⟩


/-! ### any numeric locale (repair FC13b) -/

/-- **L0 (`detail::jsonToDouble` is locale independent).** In a process whose `LC_NUMERIC` decimal point is ANY `dp` for which libc
    keeps its contract (`LocaleLibc`: `dp` is not empty and `strtod` reads the localised token as the "C" strtod reads the JSON
    token), the helper — `find('.')`, `replace(dot, 1, point)`, `strtod` — returns for every JSON number token what the "C" locale's
    `strtod` returns for it. -/
theorem L0_toDouble_locale_free (lc : Libc) (dp : Bytes) (hl : LocaleLibc lc dp) (n : SNum) (hok : n.ok) :
    jsonToDouble lc dp n.render = lc.strtodL pointC n.render :=
  jsonToDouble_render hl n hok

/-- **L1 (J1 without the "C" locale).** Every RFC 8259 text within the limits is accepted in every such process and decodes to the
    value it denotes in the "C" locale. -/
theorem L1_decode_any_locale (lc : Libc) (dp : Bytes) (hl : LocaleLibc lc dp) (lim : Limits) (t : SText) (hok : t.ok) (hfit : t.fits lim) :
    parse (opsIn lc dp) lim t.render = .ok (t.denote (opsIn lc pointC)) := by
  rw [parse_render (opsIn lc dp) lim t hok hfit, denote_locale_free hl t hok]

/-- **L2 (J2 without the "C" locale).** The libc facts are assumed for the "C" locale only (`LibcOk (opsIn lc pointC)`); the round
    trip holds in every process locale. -/
theorem L2_roundtrip_any_locale (lc : Libc) (dp : Bytes) (hc : LibcOk (opsIn lc pointC)) (hl : LocaleLibc lc dp) (lim : Limits) (o : Opts)
    (wi : Ws) (hind : wi.render = o.indent) (hns : o.sortKeys = false) (v : Json) (hg : v.Good) (hw : v.within lim 0 0) :
    parse (opsIn lc dp) lim (serialize (opsIn lc dp) o 0 v) = .ok v :=
  parse_serialize (opsIn lc dp) (libcOk_opsIn hc hl) lim o wi hind hns v hg hw

theorem L2_roundtrip_sorted_any_locale (lc : Libc) (dp : Bytes) (hc : LibcOk (opsIn lc pointC)) (hl : LocaleLibc lc dp) (lim : Limits)
    (o : Opts) (wi : Ws) (hind : wi.render = o.indent) (v : Json) (hg : v.Good) (hw : v.within lim 0 0) :
    parse (opsIn lc dp) lim (serialize (opsIn lc dp) { o with sortKeys := true } 0 v) = .ok (sortDeep v) ∧ eqv v (sortDeep v) = true :=
  parse_serialize_sorted (opsIn lc dp) (libcOk_opsIn hc hl) lim o wi hind v hg hw

/-- **L3 (J3 without the "C" locale).** -/
theorem L3_output_any_locale (lc : Libc) (dp : Bytes) (hc : LibcOk (opsIn lc pointC)) (hl : LocaleLibc lc dp) (o : Opts) (wi : Ws)
    (hind : wi.render = o.indent) (v : Json) (hg : v.Good) (hu : v.utf8) :
    ∃ t : SVal, t.ok ∧ t.strict ∧ t.render = serialize (opsIn lc dp) o 0 v ∧
      t.denote (opsIn lc dp) = (if o.sortKeys then sortDeep v else v) :=
  J3_output_in_grammar (opsIn lc dp) (libcOk_opsIn hc hl) o wi hind v hg hu

/-- **L4 (the serializer writes the same bytes in every locale).** `dump()` / `serialize` of ANY value (no hypothesis on the value) under
    decimal point `dp` is byte for byte the "C"-locale output. -/
theorem L4_output_bytes_locale_free (lc : Libc) (dp : Bytes) (hc : LibcOk (opsIn lc pointC)) (hl : LocaleLibc lc dp) (o : Opts) (v : Json) :
    serialize (opsIn lc dp) o 0 v = serialize (opsIn lc pointC) o 0 v :=
  serialize_locale_free hc hl o 0 v

/-- a toy libc with a locale: reads the leading digits whatever follows them -/
def toyLibc : Libc := { strtodL := fun _ tok => toyOps.strtod tok, toCharsG := toyOps.printfG }

theorem toyLibc_C : opsIn toyLibc pointC = toyOps := by
  simp only [opsIn, toyLibc, toyOps]
  congr 1

/-- the hypotheses of L0–L3 are satisfiable with a decimal COMMA -/
theorem LocaleLibc_satisfiable : LibcOk (opsIn toyLibc pointC) ∧ LocaleLibc toyLibc [0x2C] := by
  refine ⟨by rw [toyLibc_C]; exact libcOk_toy, by decide, ?_⟩
  intro n hok
  show UInt64.ofNat (decVal (leadDigits (n.renderL [0x2C]))) = UInt64.ofNat (decVal (leadDigits n.render))
  congr 2
  simp only [SNum.renderL, SNum.render, List.append_assoc]
  cases n.neg with
  | true => simp [leadDigits, isDigit]
  | false =>
    simp only [Bool.false_eq_true, ↓reduceIte, List.nil_append]
    have hexp : NoDigitHead n.renderExp := by
      intro b r e
      unfold SNum.renderExp at e
      cases he : n.exp with
      | none => simp [he] at e
      | some t =>
        obtain ⟨u, s, ds⟩ := t
        simp only [he, List.cons.injEq] at e
        obtain ⟨rfl, -⟩ := e
        cases u <;> rfl
    rw [leadDigits_append _ _ (natToDec_digits _), leadDigits_append _ _ (natToDec_digits _)]
    · unfold SNum.renderFrac
      cases n.frac with
      | none => simpa using hexp
      | some ds => intro b r e; simp only [List.cons_append, List.cons.injEq] at e; obtain ⟨rfl, -⟩ := e; rfl
    · cases n.frac with
      | none => simpa using hexp
      | some ds => intro b r e; simp only [List.cons_append, List.nil_append, List.cons.injEq] at e; obtain ⟨rfl, -⟩ := e; rfl

/-- the helper at work under a decimal comma: `-12.5e3` is handed to strtod as `-12,5e3` -/
example : substPoint [0x2C] [0x2D, 0x31, 0x32, 0x2E, 0x35, 0x65, 0x33] = [0x2D, 0x31, 0x32, 0x2C, 0x35, 0x65, 0x33] := by decide

/-! ### non-finite doubles -/

/-- **J3 for non-finite doubles (`NaN`, `±Infinity`).** RFC 8259 has no text for them; `_formatDouble` writes `null`.  For EVERY value
    whose finite part is good (`v.nullify`: every non-finite double replaced by null) the output is the output for `v.nullify`: strict
    RFC 8259 text denoting `v.nullify` — valid JSON, but the round trip yields `null` where the value had NaN/Infinity (J2 cannot
    hold there and is not claimed). -/
theorem J3_nonfinite (ops : FloatOps) (hl : LibcOk ops) (o : Opts) (wi : Ws) (hind : wi.render = o.indent) (v : Json)
    (hg : v.nullify.Good) (hu : v.nullify.utf8) :
    serialize ops o 0 v = serialize ops o 0 v.nullify ∧
    ∃ t : SVal, t.ok ∧ t.strict ∧ t.render = serialize ops o 0 v ∧
      t.denote ops = (if o.sortKeys then sortDeep v.nullify else v.nullify) := by
  have h := (serialize_nullify ops o 0 v).symm
  refine ⟨h, ?_⟩
  rw [h]
  exact J3_output_in_grammar ops hl o wi hind v.nullify hg hu

/-- NaN, +Infinity and -Infinity inside an array serialize as `[null,null,null]` whatever libc does -/
example (ops : FloatOps) : serialize ops { pretty := false } 0 (.arr [.dbl 0x7FF8000000000000, .dbl 0x7FF0000000000000, .dbl 0xFFF0000000000000])
    = [0x5B, 0x6E, 0x75, 0x6C, 0x6C, 0x2C, 0x6E, 0x75, 0x6C, 0x6C, 0x2C, 0x6E, 0x75, 0x6C, 0x6C, 0x5D] := by
  rfl

/-! ### `JsonStreamParser` and the public wrappers -/

/-- **S1 (stream = parse of the concatenation).** For EVERY chunking of a text that `parse` accepts under the parser's limits:
    after the feeds `finish()` is true, the parser is complete and `value()` is `parse` of the whole text. -/
theorem S1_stream_accepts (ops : FloatOps) (lim : Limits) (chunks : List Bytes) (v : Json) (h : parse ops lim chunks.flatten = .ok v) :
    (streamRun ops lim chunks).2 = true ∧ (streamRun ops lim chunks).1.complete = true ∧ (streamRun ops lim chunks).1.value = v :=
  stream_complete_of_parse ops lim chunks v h

/-- **S2 (an incomplete stream reports the error of the whole text).** -/
theorem S2_stream_error (ops : FloatOps) (lim : Limits) (chunks : List Bytes) (h : (streamRun ops lim chunks).1.complete = false) :
    (streamRun ops lim chunks).2 = false ∧
      ∃ e, parse ops lim chunks.flatten = .error e ∧ (streamRun ops lim chunks).1.error = some (chunks.flatten, e) :=
  stream_incomplete ops lim chunks h

/-- **S3 (a latched value is the parse of a chunk-boundary prefix)** — so it respects the limits (J4) whatever is fed afterwards.
    (The latch is not released by later feeds: `feed("1")`, `feed(" x")` leaves `complete()` with value 1 — the model's and the
    code's behaviour; S1 is the statement for texts that parse as a whole.) -/
theorem S3_stream_value (ops : FloatOps) (lim : Limits) (chunks : List Bytes) (h : (streamRun ops lim chunks).1.complete = true) :
    ∃ k, k ≤ chunks.length ∧ parse ops lim (chunks.take k).flatten = .ok (streamRun ops lim chunks).1.value ∧
      (streamRun ops lim chunks).1.value.within lim strSlack 0 := by
  obtain ⟨k, hk, hp⟩ := stream_value_is_prefix_parse ops lim chunks h
  exact ⟨k, hk, hp, (parse_accepted ops lim _ _ hp).1⟩

example : (streamRun ⟨fun _ => 0, fun _ _ => []⟩ {} [[0x31], [0x20, 0x78]]).1.complete = true ∧
    (streamRun ⟨fun _ => 0, fun _ _ => []⟩ {} [[0x31], [0x20, 0x78]]).1.value = .int 1 := by
  constructor <;> rfl

/-- **W1 (throwing wrappers).** `parseOrThrow` returns exactly what `parse` accepts, and throws exactly `parse`'s error with the
    line/column of its offset (`_getLocation`). -/
theorem W1_parseOrThrow (ops : FloatOps) (lim : Limits) (bs : Bytes) :
    (∀ v, parseOrThrow ops lim bs = .ok v ↔ parse ops lim bs = .ok v) ∧
    (∀ t, parseOrThrow ops lim bs = .error t ↔ ∃ k off, parse ops lim bs = .error (k, off) ∧ t = (k, location bs off)) :=
  ⟨parseOrThrow_ok ops lim bs, parseOrThrow_error ops lim bs⟩

/-- **W3 (`_getLocation`).** The line reported for offset `off` is 1 + the number of line feeds before it; the column is at least 1
    and at most `off + 1`. -/
theorem W3_location (bs : Bytes) (off : Nat) :
    (location bs off).1 = 1 + (bs.take off).count 0x0A ∧ 1 ≤ (location bs off).2 ∧ (location bs off).2 ≤ off + 1 :=
  location_spec bs off

/-- **W2 (the gap of `operator>>`, review F3).**  `operator<<` writes `dump()` of any value, `operator>>` reads with the DEFAULT
    `ParseLimits`: a value beyond the defaults (here an array of `arrayItemsMaxDefault + 1` nulls — a good value with valid strings)
    does NOT come back through the stream operators, although J2 holds for it under limits that allow it.  This is why J2 carries
    `v.within lim`; `JsonFileStore` (property C11) reads its own file this way. -/
theorem W2_stream_operators_gap (ops : FloatOps) :
    ∃ v : Json, v.Good ∧ v.utf8 ∧ readStream ops (writeStream ops v) ≠ .ok v := by
  refine ⟨.arr (List.replicate (Gen.Json.arrayItemsMaxDefault + 1) .null), ?_, ?_, ?_⟩
  · have : ∀ n, Json.GoodList (List.replicate n .null) := by
      intro n; induction n with
      | zero => simp [Json.GoodList]
      | succ n ih => simp [List.replicate_succ, Json.GoodList, Json.Good, ih]
    simpa [Json.Good] using this _
  · have hn : Json.null.utf8 := by unfold Iora.Json.Json.utf8; trivial
    have : ∀ n, Json.utf8List (List.replicate n .null) := by
      intro n; induction n with
      | zero => simp [Json.utf8List]
      | succ n ih => simp [List.replicate_succ, Json.utf8List, hn, ih]
    have h2 := this (Gen.Json.arrayItemsMaxDefault + 1)
    unfold Iora.Json.Json.utf8
    exact h2
  · intro h
    have hp := (parseOrThrow_ok ops {} _ _).mp h
    have hw := (parse_accepted ops {} _ _ hp).1
    simp only [Json.within, List.length_replicate] at hw
    omega

/-! ### conformance of the generated facts (`Gen/Json.lean`, regenerated from the working tree on every run)

The model *uses* the limits defaults, the four guards, both escape tables, the surrogate constants, the UTF-8 thresholds and the
`_pos` advances directly (a change of the source changes the model and breaks the proofs above that unfold them).  What the model
hard-codes instead is pinned here: a change of the source makes `rfl` fail. -/

/-- error messages per parser function in source order (`Expected '['` / `'{'` are unreachable: the dispatch guarantees the byte) -/
def expectedMessages : List (String × List String) := [
  ("parse", [ErrKind.eof.message, ErrKind.extra.message, "Parse error"]),
  ("_parseValue", [ErrKind.depth.message, ErrKind.eof.message, ErrKind.char.message]),
  ("_parseNull", [ErrKind.null.message]),
  ("_parseBool", [ErrKind.bool.message]),
  ("_parseNumber", [ErrKind.number.message, ErrKind.number.message, ErrKind.number.message]),
  ("_parseString", [ErrKind.quote.message, ErrKind.strlen.message, ErrKind.eos.message, ErrKind.unicode.message,
    ErrKind.escape.message, ErrKind.unterminated.message]),
  ("_parseArray", ["Expected '['", ErrKind.arrsize.message, ErrKind.eoa.message, ErrKind.arrsep.message]),
  ("_parseObject", ["Expected '{'", ErrKind.objsize.message, ErrKind.colon.message, ErrKind.eoo.message, ErrKind.objsep.message])]

/-- nesting depth up to which the default `depthMax` may grow without the check having to be re-justified (see `gen_conformance`) -/
def stackSafeDepth : Nat := 1000
/-- largest default `arrayItemsMax` / `membersMax` the boundary stream of props/c13.py reaches exactly -/
def sizeCap : Nat := 100000
/-- largest default `stringLengthMax` the boundary stream reaches exactly -/
def stringCap : Nat := 2000000

/-- the longest text `%.17g` produces for a double: sign, 17 digits, the point, `e`, exponent sign, three exponent digits -/
def fmtLongest : Nat := 1 + Gen.Json.fmtPrecHi + 1 + 1 + 1 + 3

example : fmtLongest = ("-1.7976931348623157e+308".length) := by decide

/-- what `Model/JsonApi.lean` mirrors, statement by statement (white space normalised): the constructors `ofUInt64` / `ofFloat` /
    `ofInitList`, copy assignment (identity on values), `pushBack`, `setIndex`, `setKey`, `dumpOpts`/`dump`, `readStream` (DEFAULT limits:
    `parseOrThrow(content)` has no limits argument), `writeStream`, `toStdString`, `parseOrThrow`, `parseFlag`, `StreamSt.feed`,
    `StreamSt.finish` -/
def expectedSurface : List (String × String) := [
  ("Json(integral T)", "static_cast<std::int64_t>(i)"),
  ("Json(float)", "static_cast<double>(f)"),
  ("Json(double)", "d"),
  ("Json(initializer_list)", "Array(init)"),
  ("operator=(const Json&)", "if (this != &other) { _value = other._value; }"),
  ("push_back(const Json&)", "if (!isArray()) { _value = Array{}; } getArray().push_back(val);"),
  ("push_back(Json&&)", "if (!isArray()) { _value = Array{}; } getArray().push_back(std::move(val));"),
  ("operator[](size_t)", "if (!isArray()) { _value = Array{}; } auto &arr = getArray(); while (arr.size() <= index) { arr.push_back(Json()); } return arr[index];"),
  ("operator[](const std::string&)", "if (!isObject()) { _value = Object{}; } return getObject()[key];"),
  ("dump", "SerializeOptions opts; if (indent >= 0) { opts.pretty = true; opts.indent = std::string(indent, indent_char); } opts.sortKeys = sort_keys; return serialize(opts);"),
  ("operator>>", "std::string content((std::istreambuf_iterator<char>(is)), std::istreambuf_iterator<char>()); j = Json::parseOrThrow(content); return is;"),
  ("operator<<", "os << j.dump(); return os;"),
  ("operator std::string", "if (isString()) return getString(); return dump();"),
  ("parseOrThrow", "auto result = parse(text, limits); if (!result.ok) { throw parse_error(\"JSON parse error at line \" + std::to_string(result.error.where.line) + \", column \" + std::to_string(result.error.where.column) + \": \" + result.error.message); } return std::move(result.value);"),
  ("safe_parse", "auto result = parse(std::string_view(text)); return result.ok ? std::move(result.value) : Json();"),
  ("parse(text, nullptr, bool)", "if (allow_exceptions) { return parseOrThrow(text); } else { auto result = parse(std::string_view(text)); return result.ok ? std::move(result.value) : Json(); }"),
  ("JsonStreamParser::feed", "_buffer.append(chunk.data(), chunk.size()); auto result = Json::parse(_buffer, _limits); if (result.ok) { _value = std::move(result.value); _complete = true; _error = JsonError{}; return true; } else { _error = result.error; return false; }"),
  ("JsonStreamParser::finish", "if (_complete) return true; auto result = Json::parse(_buffer, _limits); if (result.ok) { _value = std::move(result.value); _complete = true; _error = JsonError{}; return true; } _error = result.error; return false;"),
  ("parse(const std::string&)", "return parseOrThrow(text);"),
  ("parseString", "return parseOrThrow(text);"),
  ("serialize", "return _serialize(options, 0);")]

/-- `_parseHex4`'s digit ranges as the model's `hexVal` -/
def hexValGen (b : UInt8) : Option Nat :=
  Gen.Json.hexRanges.findSome? fun (lo, hi, base) => if lo ≤ b.toNat ∧ b.toNat ≤ hi then some (b.toNat - lo + base) else none

set_option maxRecDepth 100000 in
theorem gen_conformance :
    Gen.Json.errorMessages = expectedMessages ∧
    Gen.Json.literals = ["null", "true", "false"] ∧
    Gen.Json.dispatch = [("_parseNull", [0x6E]), ("_parseBool", [0x74, 0x66]), ("_parseString", [0x22]), ("_parseArray", [0x5B]),
      ("_parseObject", [0x7B]), ("_parseNumber", [0x2D, 0x30, 0x31, 0x32, 0x33, 0x34, 0x35, 0x36, 0x37, 0x38, 0x39])] ∧
    (Gen.Json.wsPredicate, Gen.Json.digitPredicate, Gen.Json.intType, Gen.Json.intConversion, Gen.Json.doubleConversion,
      Gen.Json.memberInsertion) = ("std::isspace", "std::isdigit", "int64_t", "std::from_chars", "detail::jsonToDouble", "operator[]-assign") ∧
    (∀ n, n < 256 → Iora.Json.hexVal (b8 n) = hexValGen (b8 n)) ∧
    Gen.Json.appendUtf8Literals = [127, 2047, 192, 6, 128, 63, 65535, 224, 12, 128, 6, 63, 128, 63, 240, 18, 128, 12, 63, 128, 6, 63, 128, 63] ∧
    (Gen.Json.serControlFormat, Gen.Json.fmtFormat, Gen.Json.fmtNonFinite, Gen.Json.toDoublePrimitive) =
      ("%04x", "std::to_chars/general", "null", "std::strtod") ∧
    (Gen.Json.fmtPrecLo = 15 ∧ Gen.Json.fmtPrecHi = 17 ∧ Gen.Json.fmtMarkers = [0x2E, 0x65, 0x45] ∧ Gen.Json.fmtSuffix = [0x2E, 0x30]) ∧
    Gen.Json.publicSurface = expectedSurface ∧
    Gen.Json.serArrayLiterals = ["[]", "[", "\n", ",", "\n", "]"] ∧
    Gen.Json.serObjectLiterals = ["{}", "{", "\n", ":", " ", ",", "\n", "}"] ∧
    -- the <cctype> predicates get an `unsigned char`; `_formatDouble`'s buffer is an automatic array big enough for the longest
    -- `%.17g` text (`-1.7976931348623157e+308`: `fmtLongest` characters; `std::to_chars` writes no terminator)
    (Gen.Json.charClassArg = "unsigned char" ∧ Gen.Json.fmtBufAutomatic = true ∧ fmtLongest ≤ Gen.Json.fmtBufSize) ∧
    -- the DEFAULT limits stay where this check exercises them: nesting is bounded by the measured stack-safe depth (the recursive
    -- descent uses one C++ stack frame chain per level; props/c13.py measures the bytes per level of the real parser on every run and
    -- checks `stackSafeDepth * bytes per level <= 1/4 of the default 8 MiB stack`), sizes by the generator's boundary stream
    (Gen.Json.depthMaxDefault ≤ stackSafeDepth ∧ Gen.Json.arrayItemsMaxDefault ≤ sizeCap ∧ Gen.Json.membersMaxDefault ≤ sizeCap ∧
      Gen.Json.stringLengthMaxDefault ≤ stringCap) := by
  refine ⟨by decide, by decide, by decide, by decide, by decide +kernel, by decide, by decide, by decide, by decide, by decide,
    by decide, by decide, by decide⟩

end Iora.C13
