/-
Common byte-string vocabulary (DESIGN §6.1).  Core Lean only — no Mathlib — so that every model file
links into the native driver.
-/
namespace Iora

abbrev Bytes := List UInt8

/-- byte from a natural number (mod 256) -/
def b8 (n : Nat) : UInt8 := UInt8.ofNat n

@[simp] theorem b8_toNat (n : Nat) : (b8 n).toNat = n % 256 := by simp [b8]

theorem b8_of_toNat (x : UInt8) : b8 x.toNat = x := by
  simp [b8]

/-- big-endian fixed-width writers -/
def be16 (n : Nat) : Bytes := [b8 (n / 256), b8 n]
def be32 (n : Nat) : Bytes := [b8 (n / 2^24), b8 (n / 2^16), b8 (n / 2^8), b8 n]
def be64 (n : Nat) : Bytes :=
  [b8 (n / 2^56), b8 (n / 2^48), b8 (n / 2^40), b8 (n / 2^32), b8 (n / 2^24), b8 (n / 2^16), b8 (n / 2^8), b8 n]

/-- little-endian fixed-width writers -/
def le32 (n : Nat) : Bytes := [b8 n, b8 (n / 2^8), b8 (n / 2^16), b8 (n / 2^24)]
def le64 (n : Nat) : Bytes :=
  [b8 n, b8 (n / 2^8), b8 (n / 2^16), b8 (n / 2^24), b8 (n / 2^32), b8 (n / 2^40), b8 (n / 2^48), b8 (n / 2^56)]

/-- big-endian reader of an arbitrary-length byte list -/
def beNat : Bytes → Nat := fun bs => bs.foldl (fun acc x => acc * 256 + x.toNat) 0
/-- little-endian reader -/
def leNat : Bytes → Nat
  | [] => 0
  | x :: xs => x.toNat + 256 * leNat xs

@[simp] theorem be16_length (n : Nat) : (be16 n).length = 2 := rfl
@[simp] theorem be32_length (n : Nat) : (be32 n).length = 4 := rfl
@[simp] theorem be64_length (n : Nat) : (be64 n).length = 8 := rfl
@[simp] theorem le32_length (n : Nat) : (le32 n).length = 4 := rfl
@[simp] theorem le64_length (n : Nat) : (le64 n).length = 8 := rfl

theorem beNat_be16 (n : Nat) (h : n < 2^16) : beNat (be16 n) = n := by
  simp [beNat, be16]; omega
theorem beNat_be32 (n : Nat) (h : n < 2^32) : beNat (be32 n) = n := by
  simp [beNat, be32]; omega
theorem beNat_be64 (n : Nat) (h : n < 2^64) : beNat (be64 n) = n := by
  simp [beNat, be64]; omega
theorem leNat_le32 (n : Nat) (h : n < 2^32) : leNat (le32 n) = n := by
  simp [leNat, le32]; omega
theorem leNat_le64 (n : Nat) (h : n < 2^64) : leNat (le64 n) = n := by
  simp [leNat, le64]; omega

theorem beNat_lt (bs : Bytes) : beNat bs < 256 ^ bs.length := by
  unfold beNat
  suffices h : ∀ (bs : Bytes) (acc k : Nat), acc < 256 ^ k →
      bs.foldl (fun acc x => acc * 256 + x.toNat) acc < 256 ^ (k + bs.length) by
    simpa using h bs 0 0 (by simp)
  intro bs
  induction bs with
  | nil => intro acc k h; simpa using h
  | cons x xs ih =>
    intro acc k h
    have hx : x.toNat < 256 := x.toNat_lt
    have : acc * 256 + x.toNat < 256 ^ (k + 1) := by
      rw [Nat.pow_succ]; omega
    have := ih (acc * 256 + x.toNat) (k + 1) this
    simpa [List.foldl, Nat.add_assoc, Nat.add_comm 1] using this

/-- take exactly `n` bytes, or report that the buffer is too short -/
def takeN (n : Nat) (d : Bytes) : Option (Bytes × Bytes) :=
  if d.length < n then none else some (d.take n, d.drop n)

theorem takeN_some {n : Nat} {d a r : Bytes} (h : takeN n d = some (a, r)) :
    a.length = n ∧ d = a ++ r := by
  unfold takeN at h
  split at h
  · cases h
  · cases h
    constructor
    · simp [List.length_take]; omega
    · simp

theorem takeN_append {n : Nat} {d a r : Bytes} (x : Bytes) (h : takeN n d = some (a, r)) :
    takeN n (d ++ x) = some (a, r ++ x) := by
  unfold takeN at *
  split at h
  · cases h
  · rename_i hl
    cases h
    have : ¬ (d ++ x).length < n := by simp; omega
    simp only [this, ↓reduceIte]
    have hl' : n ≤ d.length := by omega
    rw [List.take_append_of_le_length hl', List.drop_append_of_le_length hl']

theorem takeN_left {n : Nat} (a r : Bytes) (h : a.length = n) : takeN n (a ++ r) = some (a, r) := by
  unfold takeN
  have : ¬ (a ++ r).length < n := by simp; omega
  simp only [this, ↓reduceIte]
  rw [List.take_left' h, List.drop_left' h]

/-- hex rendering used by the line protocol (lower case, `-` for empty) -/
def hexDigit (n : Nat) : Char :=
  if n < 10 then Char.ofNat (48 + n) else Char.ofNat (87 + n)
def toHex (bs : Bytes) : String :=
  if bs.isEmpty then "-" else
  String.ofList (bs.flatMap fun x => [hexDigit (x.toNat / 16), hexDigit (x.toNat % 16)])
def hexVal (c : Char) : Option Nat :=
  if '0' ≤ c ∧ c ≤ '9' then some (c.toNat - '0'.toNat)
  else if 'a' ≤ c ∧ c ≤ 'f' then some (c.toNat - 'a'.toNat + 10)
  else none
def ofHexChars : List Char → Option Bytes
  | [] => some []
  | [_] => none
  | c1 :: c2 :: rest =>
    match hexVal c1, hexVal c2, ofHexChars rest with
    | some a, some b, some r => some (b8 (a * 16 + b) :: r)
    | _, _, _ => none
def ofHex (s : String) : Option Bytes :=
  if s = "-" then some [] else ofHexChars s.toList

end Iora
