import IoraModel.Common.Bytes
/-
Greedy framing and segmentation independence (DESIGN §6.6), proved once for every "stable" frame
parser.  A receive loop that appends each network read to a carried remainder and peels frames while
the parser succeeds yields, for EVERY segmentation of a stream, the frames of the unsegmented stream.

The parser may also answer `fatal` (the endpoint fails the connection and ignores all further input).
Stability is only required on a class `G` of "good" buffers (e.g. prefixes of streams of valid
frames), because real parsers have branches (WebSocket RSV bits) that are not extension-stable.
-/
namespace Iora.Framing

inductive Res (α : Type) where
  | more
  | frame (a : α) (n : Nat)
  | fatal (e : α)
  deriving Repr

structure Stable (α : Type) (G : Bytes → Prop) where
  p : Bytes → Res α
  pos : ∀ d a n, p d = .frame a n → 0 < n ∧ n ≤ d.length
  ext_frame : ∀ d a n x, G (d ++ x) → p d = .frame a n → p (d ++ x) = .frame a n
  ext_fatal : ∀ d e x, G (d ++ x) → p d = .fatal e → p (d ++ x) = .fatal e
  g_drop : ∀ d a n, G d → p d = .frame a n → G (d.drop n)
  g_prefix : ∀ d x, G (d ++ x) → G d

/-- what the endpoint carries between reads: the unconsumed remainder, or "connection failed" -/
inductive Carry where
  | alive (rest : Bytes)
  | dead
  deriving Repr, DecidableEq

variable {α : Type} {G : Bytes → Prop}

/-- greedy drain of one buffer with explicit fuel -/
def drainF (P : Stable α G) : Nat → Bytes → List α × Carry
  | 0, d => ([], .alive d)
  | f + 1, d =>
    match P.p d with
    | .more => ([], .alive d)
    | .fatal e => ([e], .dead)
    | .frame a n => let r := drainF P f (d.drop n); (a :: r.1, r.2)

def drain (P : Stable α G) (d : Bytes) : List α × Carry := drainF P (d.length + 1) d

theorem drainF_fuel (P : Stable α G) : ∀ (f g : Nat) (d : Bytes), d.length < f → d.length < g →
    drainF P f d = drainF P g d := by
  intro f
  induction f with
  | zero => intro g d h; omega
  | succ f ih =>
    intro g d hf hg
    cases g with
    | zero => omega
    | succ g =>
      simp only [drainF]
      cases hp : P.p d with
      | more => rfl
      | fatal e => rfl
      | frame a n =>
        have ⟨hn0, hnl⟩ := P.pos d a n hp
        have hl : (d.drop n).length < d.length := by simp [List.length_drop]; omega
        simp only
        rw [ih g (d.drop n) (by omega) (by omega)]

theorem drain_frame (P : Stable α G) (d : Bytes) (a : α) (n : Nat) (hp : P.p d = .frame a n) :
    drain P d = (a :: (drain P (d.drop n)).1, (drain P (d.drop n)).2) := by
  have ⟨hn0, hnl⟩ := P.pos d a n hp
  have hl : (d.drop n).length < d.length := by simp [List.length_drop]; omega
  show drainF P (d.length + 1) d = _
  rw [drainF]
  simp only [hp]
  rw [drainF_fuel P d.length ((d.drop n).length + 1) (d.drop n) hl (by omega)]
  rfl

theorem drain_more (P : Stable α G) (d : Bytes) (hp : P.p d = .more) : drain P d = ([], .alive d) := by
  show drainF P (d.length + 1) d = _
  rw [drainF]; simp only [hp]

theorem drain_fatal (P : Stable α G) (d : Bytes) (e : α) (hp : P.p d = .fatal e) :
    drain P d = ([e], .dead) := by
  show drainF P (d.length + 1) d = _
  rw [drainF]; simp only [hp]

/-- continue a drain after more bytes arrive -/
def resume (P : Stable α G) (c : Carry) (x : Bytes) : List α × Carry :=
  match c with
  | .dead => ([], .dead)
  | .alive r => drain P (r ++ x)

/-- key lemma: draining `d ++ x` = draining `d`, then resuming on the remainder with `x` -/
theorem drainF_append (P : Stable α G) : ∀ (f : Nat) (d x : Bytes), d.length < f → G (d ++ x) →
    drain P (d ++ x) =
      ((drainF P f d).1 ++ (resume P (drainF P f d).2 x).1, (resume P (drainF P f d).2 x).2) := by
  intro f
  induction f with
  | zero => intro d x h; omega
  | succ f ih =>
    intro d x hf hg
    simp only [drainF]
    cases hp : P.p d with
    | more => simp [resume]
    | fatal e =>
      have := P.ext_fatal d e x hg hp
      simp [resume, drain_fatal P (d ++ x) e this]
    | frame a n =>
      have ⟨hn0, hnl⟩ := P.pos d a n hp
      have hext := P.ext_frame d a n x hg hp
      have hl : (d.drop n).length < f := by simp [List.length_drop]; omega
      have hdrop : (d ++ x).drop n = d.drop n ++ x := by
        rw [List.drop_append_of_le_length hnl]
      have hg' : G (d.drop n ++ x) := by
        rw [← hdrop]; exact P.g_drop (d ++ x) a n hg hext
      rw [drain_frame P (d ++ x) a n hext, hdrop, ih (d.drop n) x hl hg']
      simp

/-- feeding network reads one at a time, carrying the remainder -/
def feed (P : Stable α G) : Carry → List Bytes → List α × Carry
  | c, [] => ([], c)
  | c, s :: ss =>
    let r := resume P c s
    let r' := feed P r.2 ss
    (r.1 ++ r'.1, r'.2)

theorem feed_dead (P : Stable α G) : ∀ ss : List Bytes, feed P .dead ss = ([], .dead) := by
  intro ss
  induction ss with
  | nil => rfl
  | cons s ss ih => simp [feed, resume, ih]

theorem resume_nil_of_drained (P : Stable α G) (f : Nat) (d : Bytes) (hf : d.length < f) :
    resume P (drainF P f d).2 [] = ([], (drainF P f d).2) := by
  induction f generalizing d with
  | zero => omega
  | succ f ih =>
    simp only [drainF]
    cases hp : P.p d with
    | more => simp [resume, drain_more P d hp]
    | fatal e => simp [resume]
    | frame a n =>
      have ⟨hn0, hnl⟩ := P.pos d a n hp
      simp only
      exact ih (d.drop n) (by simp [List.length_drop]; omega)

theorem drainF_carry_good (P : Stable α G) : ∀ (f : Nat) (d x : Bytes), d.length < f → G (d ++ x) →
    ∀ r, (drainF P f d).2 = .alive r → G (r ++ x) := by
  intro f
  induction f with
  | zero => intro d x h; omega
  | succ f ih =>
    intro d x hf hg r hr
    simp only [drainF] at hr
    cases hp : P.p d with
    | more => simp only [hp] at hr; cases hr; exact hg
    | fatal e => simp only [hp] at hr; cases hr
    | frame a n =>
      simp only [hp] at hr
      have ⟨hn0, hnl⟩ := P.pos d a n hp
      have hext := P.ext_frame d a n x hg hp
      have hdrop : (d ++ x).drop n = d.drop n ++ x := by
        rw [List.drop_append_of_le_length hnl]
      have hg' : G (d.drop n ++ x) := by
        rw [← hdrop]; exact P.g_drop (d ++ x) a n hg hext
      exact ih (d.drop n) x (by simp [List.length_drop]; omega) hg' r hr


/-- Feeding any segmentation equals draining the concatenation (then nothing changes). -/
theorem feed_eq_drain (P : Stable α G) : ∀ (ss : List Bytes) (rest : Bytes),
    G (rest ++ ss.flatten) → (drain P rest = ([], .alive rest)) →
    feed P (.alive rest) ss = drain P (rest ++ ss.flatten) := by
  intro ss
  induction ss with
  | nil => intro rest _ h; simp [feed, h]
  | cons s ss ih =>
    intro rest hg h
    simp only [List.flatten_cons] at hg ⊢
    rw [← List.append_assoc] at hg ⊢
    have happ := drainF_append P ((rest ++ s).length + 1) (rest ++ s) ss.flatten (by omega) hg
    rw [happ]
    simp only [feed, resume]
    show ((drain P (rest ++ s)).1 ++ (feed P (drain P (rest ++ s)).2 ss).1, (feed P (drain P (rest ++ s)).2 ss).2) = _
    have hdd : drainF P ((rest ++ s).length + 1) (rest ++ s) = drain P (rest ++ s) := rfl
    rw [hdd]
    generalize hc : (drain P (rest ++ s)).2 = c
    cases c with
    | dead => simp [feed_dead]
    | alive r =>
      have hres := resume_nil_of_drained P ((rest ++ s).length + 1) (rest ++ s) (by omega)
      rw [hdd, hc] at hres
      simp only [resume, List.append_nil] at hres
      have hgr : G (r ++ ss.flatten) :=
        drainF_carry_good P ((rest ++ s).length + 1) (rest ++ s) ss.flatten (by omega) hg r (by rw [hdd]; exact hc)
      rw [ih r hgr hres]

/-- **Segmentation independence.** Any two segmentations of one good stream yield the same frames
(including a terminal failure) and the same carried remainder. -/
theorem segmentation_independent (P : Stable α G) (hnil : P.p [] = .more) (ss ts : List Bytes)
    (h : ss.flatten = ts.flatten) (hg : G ss.flatten) :
    feed P (.alive []) ss = feed P (.alive []) ts := by
  have h0 : drain P [] = ([], .alive []) := drain_more P [] hnil
  rw [feed_eq_drain P ss [] (by simpa using hg) h0,
      feed_eq_drain P ts [] (by simpa [← h] using hg) h0, h]

/-- In particular: feeding a segmentation equals handing over the whole stream in one read. -/
theorem feed_eq_whole (P : Stable α G) (hnil : P.p [] = .more) (ss : List Bytes) (hg : G ss.flatten) :
    feed P (.alive []) ss = drain P ss.flatten := by
  have h0 : drain P [] = ([], .alive []) := drain_more P [] hnil
  simpa using feed_eq_drain P ss [] (by simpa using hg) h0

end Iora.Framing
