import IoraModel.Model.KvLog
/-!
# The running KVStore (C12; the I/O it issues is the subject of C11)

Mirrors the public API of `include/iora/storage/kvstore.hpp` function by function.  Every public method is one critical
section under `_mutex`, so a history is a sequence of these steps.  The wall clock is an input (`advance`); the timing
wheel is an adversary: `evictFire k gen` may arrive for any key, with any timer generation, at any time.
-/
namespace Iora.Kv
open Iora

/-- `ExpiryEntry` -/
structure ExpEnt where
  /-- absolute expiry, epoch ms -/
  at_ : Int
  /-- `timerId` (0 = `InvalidTimerId`) -/
  timer : Nat
  /-- the timer was armed with delay 0 (`expiry ≤ now` in `clampDelay`): it is due at the shutdown drain -/
  due0 : Bool
  deriving Repr, DecidableEq

/-- `CacheEntry` (`none` = `kNoExpiry()`) -/
structure CacheEnt where
  value : Val
  expiry : Option Int
  deriving Repr, DecidableEq

structure Mem where
  kv : Map Val := []
  expiry : Map ExpEnt := []
  cache : Map CacheEnt := []
  /-- next id the wheel hands out (ids are never reused) -/
  nextTimer : Nat := 1
  /-- which entry `_cache.begin()` designates at the next evictions (unspecified in the code: adversarial input) -/
  choices : List Nat := []
  deriving Repr

structure Cfg where
  lim : Lim
  crc : Bytes → UInt32
  /-- `maxCacheSize` -/
  maxCache : Nat
  /-- `maxLogSizeBytes` -/
  maxLog : Nat
  /-- `!enableBackgroundCompaction`: `maybeCompact` compacts inline (with the background thread the same
  `compact()` arrives as a separate step at an arbitrary time) -/
  inlineCompact : Bool

inductive ApiErr | emptyKey | keyTooLarge | valueTooLarge | badTtl | badBatch | loadFailed
  deriving Repr, DecidableEq

inductive Out
  | ok
  | count (n : Nat)
  | value (v : Option Val)
  | err (e : ApiErr)
  deriving Repr, DecidableEq

/-- state threaded through one public call: memory, directory, the file operations issued so far by this call -/
structure W where
  mem : Mem := {}
  fs : Fs := {}
  tr : List FsOp := []
  now : Int := 1

def W.emit (w : W) (o : FsOp) : W := { w with fs := o.apply w.fs, tr := w.tr ++ [o] }

/-- the expiry of `k` as the readers see it -/
def Mem.expOf (m : Mem) (k : Key) : Option Int := (m.expiry.get? k).map (·.at_)

/-- `eit != _expiry.end() && eit->second.expiry <= now` — expired-not-yet-evicted (`isExpiredLocked`) -/
def Mem.expired (m : Mem) (now : Int) (k : Key) : Bool :=
  match m.expiry.get? k with
  | some e => decide (e.at_ ≤ now)
  | none => false

/-- mirrors `validateKeyValue` -/
def validate (l : Lim) (k : Key) (v : Val) : Option ApiErr :=
  if k.isEmpty then some .emptyKey
  else if k.length > l.maxKey then some .keyTooLarge
  else if v.length > l.maxVal then some .valueTooLarge
  else none

/-- the per-entry check of `setBatch` -/
def batchBad (l : Lim) (kvs : List (Key × Val)) : Bool :=
  kvs.any (fun x => x.1.isEmpty || decide (x.1.length > l.maxKey) || decide (x.2.length > l.maxVal))

/-- mirrors `updateCache`: `maxCacheSize == 0` disables the cache; at capacity `_cache.erase(_cache.begin())`, then
`_cache[key] = {value, expiry}` -/
def updateCache (cfg : Cfg) (m : Mem) (k : Key) (v : Val) (e : Option Int) : Mem :=
  let r : Map CacheEnt × List Nat :=
    if m.cache.length ≥ cfg.maxCache then
      match m.choices with
      | c :: cs => (m.cache.eraseIdx (c % m.cache.length), cs)
      | [] => (m.cache.eraseIdx 0, [])
    else (m.cache, m.choices)
  { m with cache := if cfg.maxCache = 0 then m.cache else Map.put r.1 k ⟨v, e⟩
           choices := if cfg.maxCache = 0 then m.choices else r.2 }

/-- mirrors `invalidateCache` -/
def invalidateCache (m : Mem) (k : Key) : Mem := { m with cache := m.cache.erase k }

/-- mirrors `writeLogEntry`: one append of the encoded record (the three stream writes are flushed together; a cut
inside the append covers every way the bytes can be split over `write`/`writev` calls) -/
def writeLog (cfg : Cfg) (w : W) (r : Rec) : W := w.emit (.append .log (encode cfg.crc r))

/-- mirrors `shouldCompact` -/
def shouldCompact (cfg : Cfg) (w : W) : Bool :=
  match w.fs.log with
  | some lg => decide (lg.length > cfg.maxLog)
  | none => false

/-- the survivors written by `compactLocked`, with their expiry -/
def survivors (m : Mem) (now : Int) : List (Key × Val × Option Int) :=
  (m.kv.filter (fun x => !m.expired now x.1)).map (fun x => (x.1, x.2, m.expOf x.1))

/-- mirrors `compactLocked`: write `<path>.tmp`, rename it over the snapshot, truncate the log, then drop the
expired-not-yet-evicted keys from memory and cache -/
def compactLocked (cfg : Cfg) (w : W) : W :=
  let m := w.mem
  let w1 := w.emit (.trunc .tmp 0)
  let w2 := w1.emit (.append .tmp (encodeSnap cfg.lim (survivors m w.now)))
  let w3 := w2.emit (.rename .tmp .snap)
  let w4 := w3.emit (.trunc .log 0)
  { w4 with mem := { m with kv := m.kv.filter (fun x => !m.expired w.now x.1)
                            expiry := m.expiry.filter (fun x => !m.expired w.now x.1)
                            cache := m.cache.filter (fun x => !m.expired w.now x.1) } }

/-- mirrors `maybeCompact` -/
def maybeCompact (cfg : Cfg) (w : W) : W :=
  if cfg.inlineCompact && shouldCompact cfg w then compactLocked cfg w else w

/-- `armTimerLocked`: a fresh timer id -/
def armTimer (m : Mem) : Nat × Mem := (m.nextTimer, { m with nextTimer := m.nextTimer + 1 })

/-- mirrors `set(key, value)` -/
def opSet (cfg : Cfg) (w : W) (k : Key) (v : Val) : W × Out :=
  match validate cfg.lim k v with
  | some e => (w, .err e)
  | none =>
    let m := w.mem
    let m1 := updateCache cfg { m with expiry := m.expiry.erase k, kv := m.kv.put k v } k v none
    (maybeCompact cfg (writeLog cfg { w with mem := m1 } (.set k v)), .ok)

/-- mirrors `deadlineAfter(ttl)`: `now + ttl`, saturated at the last deadline that can be represented and persisted
(`room = (last - now)` in whole seconds; `ttl > room ? last : now + ttl` — which is the minimum of the two) -/
def deadlineAfter (l : Lim) (now ttl : Int) : Int := min (now + ttl * 1000) l.maxPlausible

/-- mirrors `set(key, value, ttl)` (`ttl` in seconds) -/
def opSetTtl (cfg : Cfg) (w : W) (k : Key) (v : Val) (ttl : Int) : W × Out :=
  if ttl ≤ 0 then (w, .err .badTtl) else
  match validate cfg.lim k v with
  | some e => (w, .err e)
  | none =>
    let e := deadlineAfter cfg.lim w.now ttl
    let (id, m) := armTimer w.mem
    let m1 := updateCache cfg { m with kv := m.kv.put k v, expiry := m.expiry.put k ⟨e, id, false⟩ } k v (some e)
    (maybeCompact cfg (writeLog cfg { w with mem := m1 } (.setE k v e)), .ok)

/-- the cache fast path of `get`: a hit whose embedded absolute expiry has not passed -/
def cacheLookup (m : Mem) (now : Int) (k : Key) : Option Val :=
  match m.cache.get? k with
  | some c =>
    match c.expiry with
    | none => some c.value
    | some e => if e > now then some c.value else none
  | none => none

/-- mirrors `get` (the cache fast path, then the authoritative path with the lazy-read backstop) -/
def opGet (cfg : Cfg) (w : W) (k : Key) : W × Out :=
  if k.isEmpty then (w, .value none) else
  let m := w.mem
  match cacheLookup m w.now k with
  | some v => (w, .value (some v))
  | none =>
    match m.kv.get? k with
    | none => (w, .value none)
    | some v =>
      if m.expired w.now k then (w, .value none)
      else ({ w with mem := updateCache cfg m k v (m.expOf k) }, .value (some v))

/-- mirrors `remove` -/
def opRemove (cfg : Cfg) (w : W) (k : Key) : W :=
  if k.isEmpty then w else
  let m := w.mem
  if m.kv.has k then
    let m1 := { m with kv := m.kv.erase k, expiry := m.expiry.erase k, cache := m.cache.erase k }
    maybeCompact cfg (writeLog cfg { w with mem := m1 } (.del k))
  else w

/-- mirrors `setBatch(batch)`: memory first, then the log, then `maybeCompact` -/
def opSetBatch (cfg : Cfg) (w : W) (kvs : List (Key × Val)) : W × Out :=
  if kvs.isEmpty then (w, .ok) else
  if batchBad cfg.lim kvs then (w, .err .badBatch) else
  let m1 := kvs.foldl (fun (m : Mem) x =>
      updateCache cfg { m with expiry := m.expiry.erase x.1, kv := m.kv.put x.1 x.2 } x.1 x.2 none) w.mem
  let w1 := kvs.foldl (fun w x => writeLog cfg w (.set x.1 x.2)) { w with mem := m1 }
  (maybeCompact cfg w1, .ok)

/-- mirrors `setBatch(batch, ttl)` -/
def opSetBatchTtl (cfg : Cfg) (w : W) (kvs : List (Key × Val)) (ttl : Int) : W × Out :=
  if ttl ≤ 0 then (w, .err .badTtl) else
  if kvs.isEmpty then (w, .ok) else
  if batchBad cfg.lim kvs then (w, .err .badBatch) else
  let e := deadlineAfter cfg.lim w.now ttl
  let m1 := kvs.foldl (fun (m : Mem) x =>
      let (id, m) := armTimer m
      updateCache cfg { m with kv := m.kv.put x.1 x.2, expiry := m.expiry.put x.1 ⟨e, id, false⟩ } x.1 x.2 (some e)) w.mem
  let w1 := kvs.foldl (fun w x => writeLog cfg w (.setE x.1 x.2 e)) { w with mem := m1 }
  (maybeCompact cfg w1, .ok)

/-- mirrors `expireAt` (an expired-not-yet-evicted key is absent; the persisted expiry is at least 1 ms) -/
def opExpireAt (cfg : Cfg) (w : W) (k : Key) (when_ : Int) : W :=
  if k.isEmpty then w else
  let m := w.mem
  if !m.kv.has k || m.expired w.now k then w else
  let (id, m) := armTimer m
  let m1 := invalidateCache { m with expiry := m.expiry.put k ⟨when_, id, decide (when_ ≤ w.now)⟩ } k
  writeLog cfg { w with mem := m1 } (.exp k (max when_ 1))

/-- mirrors `persist` -/
def opPersist (cfg : Cfg) (w : W) (k : Key) : W :=
  if k.isEmpty then w else
  let m := w.mem
  if !m.kv.has k then w else
  if !m.expiry.has k then w else
  if m.expired w.now k then w else
  let m1 := invalidateCache { m with expiry := m.expiry.erase k } k
  writeLog cfg { w with mem := m1 } (.exp k sentinel)

/-- mirrors `keysWithPrefix` (and `keys` for the empty prefix) -/
def keysWithPrefix (m : Mem) (now : Int) (p : Bytes) : List Key :=
  (m.kv.filter (fun x => p.isPrefixOf x.1 && !m.expired now x.1)).map (·.1)

/-- The order in which `keysWithPrefix` lists the matching keys is the iteration order of a `std::unordered_map`: unspecified.
It is an INPUT of the model (like the cache-victim choices): `ord` is the order the caller observed; it is used when it is a
permutation of the matching live keys, otherwise the model's own list order is used.  Every theorem about
`removeWithPrefix` holds for every `ord`. -/
def prefixOrder (m : Mem) (now : Int) (p : Bytes) (ord : List Key) : List Key :=
  if ord.isPerm (keysWithPrefix m now p) then ord else keysWithPrefix m now p

/-- mirrors `removeWithPrefix`: `keysWithPrefix` (in the order `ord`, see `prefixOrder`), then `remove` one by one -/
def opRemoveWithPrefix (cfg : Cfg) (w : W) (p : Bytes) (ord : List Key) : W × Out :=
  let ks := prefixOrder w.mem w.now p ord
  (ks.foldl (opRemove cfg) w, .count ks.length)

/-- mirrors `clear`: a 'D' per key, then everything is dropped, then `maybeCompact` -/
def opClear (cfg : Cfg) (w : W) : W :=
  let w1 := w.mem.kv.foldl (fun w x => writeLog cfg w (.del x.1)) w
  maybeCompact cfg { w1 with mem := { w1.mem with kv := [], expiry := [], cache := [] } }

/-- mirrors `evictionCallback(key, idHolder)`: STALE / RE-ARM / EVICT -/
def opEvictFire (cfg : Cfg) (w : W) (k : Key) (gen : Nat) : W :=
  let m := w.mem
  match m.expiry.get? k with
  | none => w                                                  -- STALE: gone
  | some e =>
    if gen = 0 ∨ e.timer ≠ gen then w                          -- STALE: never armed / replaced by a newer timer
    else if e.at_ > w.now then                                 -- RE-ARM
      let (id, m) := armTimer m
      { w with mem := { m with expiry := m.expiry.put k { e with timer := id, due0 := false } } }
    else                                                       -- EVICT
      let m1 := { m with kv := m.kv.erase k, expiry := m.expiry.erase k, cache := m.cache.erase k }
      writeLog cfg { w with mem := m1 } (.del k)

/-- insertion into a list sorted by timer id -/
def insertByTimer (x : Key × Nat) : List (Key × Nat) → List (Key × Nat)
  | [] => [x]
  | y :: r => if x.2 ≤ y.2 then x :: y :: r else y :: insertByTimer x r

/-- the timers `TimingWheel::drain` fires at shutdown: the ones whose (steady) deadline has passed — those armed with
delay 0 — in deadline order, i.e. in the order they were armed -/
def drainFires (m : Mem) : List (Key × Nat) :=
  (m.expiry.filter (fun x => x.2.due0 && x.2.timer != 0)).foldr (fun x acc => insertByTimer (x.1, x.2.timer) acc) []

/-- `shutdown()`: the drain runs the due eviction callbacks, then the log is closed -/
def opShutdown (cfg : Cfg) (w : W) : W :=
  (drainFires w.mem).foldl (fun w x => opEvictFire cfg w x.1 x.2) w

/-- `postLoadArm`: every replayed survivor gets a fresh timer -/
def armAll (exp : Map Int) (next : Nat) : Map ExpEnt × Nat :=
  exp.foldr (fun x acc => ((x.1, ⟨x.2, acc.2, false⟩) :: acc.1, acc.2 + 1)) ([], next)

/-- memory of a freshly constructed store: the replayed state, every TTL survivor armed, an empty cache -/
def memOfLoad (st : LState) (m0 : Mem) : Mem :=
  { kv := st.kv, expiry := (armAll st.exp m0.nextTimer).1, cache := [], nextTimer := (armAll st.exp m0.nextTimer).2,
    choices := m0.choices }

/-- the constructor: `load()`, `openLogFile()`, `postLoadArm()` on the current directory -/
def opOpen (cfg : Cfg) (w : W) : W × Out :=
  match openStore cfg.lim cfg.crc w.fs w.now with
  | .error _ => (w, .err .loadFailed)
  | .ok (st, ops) => ({ ops.foldl W.emit w with mem := memOfLoad st w.mem }, .ok)

/-- clean close followed by a new instance on the same path -/
def opReopen (cfg : Cfg) (w : W) : W × Out := opOpen cfg (opShutdown cfg w)

/-! ## reads (pure; `const` members) -/

/-- mirrors `exists` -/
def rdExists (m : Mem) (now : Int) (k : Key) : Bool :=
  if k.isEmpty then false else m.kv.has k && !m.expired now k

/-- mirrors `keys` -/
def rdKeys (m : Mem) (now : Int) : List Key := keysWithPrefix m now []

/-- mirrors `size`: `_kv.size()` minus the expired entries of `_expiry` -/
def rdSize (m : Mem) (now : Int) : Nat :=
  m.kv.length - (m.expiry.filter (fun x => decide (x.2.at_ ≤ now))).length

/-- mirrors `getBatch` -/
def rdGetBatch (m : Mem) (now : Int) (ks : List Key) : List (Key × Val) :=
  ks.filterMap (fun k =>
    if k.isEmpty then none else
    match m.kv.get? k with
    | some v => if m.expired now k then none else some (k, v)
    | none => none)

/-- mirrors `ttl`: remaining whole seconds; `none` = absent, permanent or expired -/
def rdTtl (m : Mem) (now : Int) (k : Key) : Option Int :=
  if k.isEmpty then none else
  if !m.kv.has k then none else
  match m.expiry.get? k with
  | none => none
  | some e => if e.at_ ≤ now then none else some ((e.at_ - now) / 1000)

/-! ## the step system -/

inductive Op
  | set (k : Key) (v : Val)
  | setTtl (k : Key) (v : Val) (ttl : Int)
  | setBatch (kvs : List (Key × Val))
  | setBatchTtl (kvs : List (Key × Val)) (ttl : Int)
  | get (k : Key)
  | remove (k : Key)
  | removeWithPrefix (p : Bytes) (ord : List Key)
  | clear
  | expireAt (k : Key) (when_ : Int)
  | persist (k : Key)
  | compact
  | advance (dt : Nat)
  | evictFire (k : Key) (gen : Nat)
  | reopen
  deriving Repr

/-- one public call (or clock tick, or timer callback) from a quiescent state; `tr` restarts at `[]` -/
def step (cfg : Cfg) (w0 : W) (op : Op) : W × Out :=
  let w := { w0 with tr := [] }
  match op with
  | .set k v => opSet cfg w k v
  | .setTtl k v ttl => opSetTtl cfg w k v ttl
  | .setBatch kvs => opSetBatch cfg w kvs
  | .setBatchTtl kvs ttl => opSetBatchTtl cfg w kvs ttl
  | .get k => opGet cfg w k
  | .remove k => (opRemove cfg w k, .ok)
  | .removeWithPrefix p ord => opRemoveWithPrefix cfg w p ord
  | .clear => (opClear cfg w, .ok)
  | .expireAt k t => (opExpireAt cfg w k t, .ok)
  | .persist k => (opPersist cfg w k, .ok)
  | .compact => (compactLocked cfg w, .ok)
  | .advance dt => ({ w with now := w.now + dt }, .ok)
  | .evictFire k g => (opEvictFire cfg w k g, .ok)
  | .reopen => opReopen cfg w

/-- a fresh store on an empty directory at time `now` (constructor on a path that does not exist yet) -/
def W.init (cfg : Cfg) (now : Int) (choices : List Nat) : W :=
  (opOpen cfg { mem := { choices := choices }, now := now }).1

def run (cfg : Cfg) (w : W) : List Op → W
  | [] => w
  | op :: ops => run cfg (step cfg w op).1 ops

end Iora.Kv
