/-!
# Model of the Transport teardown handshake (C05, logic core)

Mirrors `include/iora/network/transport_impl.hpp`: `Impl::ParkGuard` / `Impl::FlushGuard` (paired counter inc/dec + notify of
`teardownCv`), `Impl::setTeardownFence`, `Impl::teardownWaitOut`, `Impl::performTeardown` (NORMAL and ALREADY-STOPPED paths),
the I/O-thread self-destruct branch of `Transport::~Transport`, `Transport::stop`, and the parts of `receiveSync`,
`connectSync` and the `setReadMode` flush loop that matter for teardown: entry fence, park, wake, the uncounted/counted
windows.  Bytes are not modelled here (C03), nor the connect bookkeeping (C04).

One step = one `syncMutex` critical section (or one callback / engine call made outside it).  A timed wait may time out at
any time (`wake i true`).  "Touching `Impl` after it was destroyed" is the explicit error outcome `uaf`.

Environment contract (`ok`, not built into `step`): the application does not BEGIN a new synchronous call once the
destructor's wait has completed (a call that starts on a destroyed object is the application's own use-after-free), and
`stop()` is not called concurrently with destruction (the engine's documented lifecycle contract: start/stop are not
concurrent with each other).
-/
namespace Iora.Teardown

inductive Kind | recv (sid : Nat) | conn | flush
  deriving DecidableEq, Repr

inductive Res | timeout | peerClosed | shuttingDown | completed | flushed (ok : Bool)
  deriving DecidableEq, Repr

/-- program counter of an application thread inside one synchronous call -/
inductive Pc
  | notStarted
  | parked (awake : Bool)     -- receiveSync / connectSync asleep on its condition variable, guard(s) alive
  | window                    -- connectSync timeout exit: lock released, `engine->close` pending, ParkGuard still alive
  | relock                    -- connectSync timeout exit: about to re-acquire the lock
  | floop                     -- flusher between two critical sections, FlushGuard alive
  | fcb                       -- flusher inside the user data callback
  | fend (r : Bool)           -- flush loop left, FlushGuard destructor pending
  | done (r : Res)
  deriving DecidableEq, Repr

structure Thread where
  kind : Kind
  pc : Pc := .notStarted
  completed : Bool := false   -- connectSync: a handler delivered the completion (`op->done`)
  deriving DecidableEq, Repr

/-- the thread that runs `~Transport` -/
inductive Td
  | idle
  | fenced                    -- NORMAL path: `setTeardownFence` done, `engine->stop()` not yet called
  | joining                   -- NORMAL path: inside `engine->stop()`, waiting for the I/O thread to terminate
  | waiting (awake : Bool)    -- inside `teardownWaitOut`, asleep on `teardownCv`
  | waited                    -- `teardownWaitOut` returned; `~Impl` not yet run
  | ioWaiting (awake : Bool)  -- the I/O thread itself is inside `teardownWaitOut(true)` (sole owner released in a callback)
  | ioReleased                -- self-destruct scheduled, engine detached; `Impl` is deleted by the I/O thread's epilogue
  | destroyed
  deriving DecidableEq, Repr

inductive Ev
  | ret (i : Nat) (r : Res)
  | cbClose (sid : Nat)            -- a close callback ran on the I/O thread
  | cbData (i : Nat)               -- the data callback ran on flusher `i`'s own thread
  | stopReturned
  | destroyed
  deriving DecidableEq, Repr

structure State where
  threads : List Thread := []
  shuttingDown : Bool := false
  activeReceives : Nat := 0
  activeConnects : Nat := 0
  activeFlushes : Nat := 0
  closed : Nat → Bool := fun _ => false     -- `SyncReceiveBuffer::closed` per session
  live : List Nat := []                     -- sessions the engine still has open
  running : Bool := true                    -- engine `_running`
  ioAlive : Bool := true                    -- the I/O thread has not terminated
  stopJoining : Bool := false               -- an application thread is inside `Transport::stop()` (joining)
  td : Td := .idle
  implAlive : Bool := true
  uaf : Bool := false                       -- a thread touched `Impl` after it was destroyed
  recvNotified : Bool := false              -- ghost: a `teardownWaitOut(true)` entry section has notified the receive CVs
  log : List Ev := []

inductive Step
  | enter (i : Nat)                    -- entry critical section of thread `i`'s call
  | wake (i : Nat) (timedOut : Bool)   -- wake-and-reacquire of a parked receive/connect
  | connClose (i : Nat)                -- `engine->close(sid)` in the timeout window
  | connRelock (i : Nat)
  | flushStep (i : Nat) (more : Bool)  -- flusher advances (`more`: the buffer was non-empty)
  | ioCloseSess (sid : Nat)            -- the peer closed a live session (onClose on the I/O thread)
  | ioConnDone (i : Nat)               -- a connect handler completed waiter `i`
  | ioDrain (sid : Option Nat)         -- after Shutdown: the I/O thread closes a session still open (`some`), or terminates (`none`)
  | stopCall                           -- `Transport::stop()` from an application thread
  | stopJoin                           -- … its join returns
  | tdBegin                            -- `~Transport` on a non-I/O thread: `performTeardown` picks its path
  | tdStop                             -- NORMAL path: `engine->stop()` called
  | tdJoined                           -- NORMAL path: the join returned; `teardownWaitOut(false)` entry section
  | tdWake                             -- `teardownCv` wake-up / predicate check
  | tdDestroy                          -- `~Impl`
  | ioSelfDestruct                     -- `~Transport` on the I/O thread inside a callback: `teardownWaitOut(true)` entry section
  deriving Repr

/-! ## helpers -/

def setT (l : List Thread) (i : Nat) (t : Thread) : List Thread := l.set i t

/-- does the thread's next own step touch `Impl`? (it is inside a call) -/
def inside : Pc → Bool
  | .parked _ | .window | .relock | .floop | .fcb | .fend _ => true
  | _ => false

def countedRecv (t : Thread) : Bool := match t.kind, t.pc with | .recv _, .parked _ => true | _, _ => false
def countedConn (t : Thread) : Bool :=
  match t.kind, t.pc with | .conn, .parked _ | .conn, .window | .conn, .relock => true | _, _ => false
def countedFlush (t : Thread) : Bool :=
  match t.kind, t.pc with | .flush, .floop | .flush, .fcb | .flush, .fend _ => true | _, _ => false

def wakeAll (p : Thread → Bool) (l : List Thread) : List Thread :=
  l.map fun t => match t.pc with | .parked _ => if p t then { t with pc := .parked true } else t | _ => t

def isConn (t : Thread) : Bool := t.kind == .conn
def isRecvOf (sid : Nat) (t : Thread) : Bool := t.kind == .recv sid
def isRecv (t : Thread) : Bool := match t.kind with | .recv _ => true | _ => false

/-- a guard destructor ran under the lock: wake the teardown waiter -/
def notifyTd (td : Td) : Td :=
  match td with
  | .waiting _ => .waiting true
  | .ioWaiting _ => .ioWaiting true
  | x => x

def gate (s : State) : Bool := s.activeReceives == 0 && s.activeConnects == 0 && s.activeFlushes == 0

/-- every step of an application thread touches `Impl` -/
def touch (s : State) : State := if s.implAlive then s else { s with uaf := true }

/-- mirrors transport_impl.hpp::Transport::Impl::setupEngineCallbacks — onClose step 6 for `sid` (closed := true; notify_all) -/
def closeSess (s : State) (sid : Nat) : State :=
  { s with live := s.live.filter (· != sid), closed := fun j => if j = sid then true else s.closed j,
           threads := wakeAll (isRecvOf sid) s.threads, log := s.log ++ [.cbClose sid] }

/-- mirrors transport_impl.hpp::Transport::Impl::teardownWaitOut — the entry section (fence + notifies) -/
def waitOutEntry (s : State) (notifyReceive : Bool) : State :=
  { s with shuttingDown := true, recvNotified := s.recvNotified || notifyReceive,
           threads := wakeAll (fun t => isConn t || (notifyReceive && isRecv t)) s.threads }

/-! ## application threads -/

/-- mirrors transport_impl.hpp::Transport::receiveSync / connectSync / setReadMode — entry section incl. the entry fence -/
def doEnter (s : State) (i : Nat) : State :=
  match s.threads[i]? with
  | some t =>
    (match t.pc with
     | .notStarted =>
       let s := touch s
       if s.shuttingDown then
         { s with threads := setT s.threads i { t with pc := .done (match t.kind with | .flush => .flushed false | _ => .shuttingDown) },
                  log := s.log ++ [.ret i (match t.kind with | .flush => .flushed false | _ => .shuttingDown)] }
       else
         (match t.kind with
          | .recv sid =>
            if s.closed sid then
              { s with threads := setT s.threads i { t with pc := .done .peerClosed }, log := s.log ++ [.ret i .peerClosed] }
            else { s with threads := setT s.threads i { t with pc := .parked false, completed := false }, activeReceives := s.activeReceives + 1 }
          | .conn => { s with threads := setT s.threads i { t with pc := .parked false, completed := false }, activeConnects := s.activeConnects + 1 }
          | .flush => { s with threads := setT s.threads i { t with pc := .floop }, activeFlushes := s.activeFlushes + 1 })
     | _ => s)
  | none => s

/-- mirrors transport_impl.hpp::Transport::receiveSync / connectSync — wake-and-reacquire and everything up to the next unlock -/
def doWake (s : State) (i : Nat) (timedOut : Bool) : State :=
  match s.threads[i]? with
  | some t =>
    (match t.pc with
     | .parked _ =>
       let s := touch s
       (match t.kind with
        | .recv sid =>
          if s.closed sid || s.shuttingDown || timedOut then
            let r : Res := if s.closed sid then .peerClosed else if s.shuttingDown then .shuttingDown else .timeout
            { s with threads := setT s.threads i { t with pc := .done r }, activeReceives := s.activeReceives - 1,
                     td := notifyTd s.td, log := s.log ++ [.ret i r] }
          else { s with threads := setT s.threads i { t with pc := .parked false } }
        | .conn =>
          if t.completed then
            { s with threads := setT s.threads i { t with pc := .done .completed }, activeConnects := s.activeConnects - 1,
                     td := notifyTd s.td, log := s.log ++ [.ret i .completed] }
          else if s.shuttingDown then
            { s with threads := setT s.threads i { t with pc := .done .shuttingDown }, activeConnects := s.activeConnects - 1,
                     td := notifyTd s.td, log := s.log ++ [.ret i .shuttingDown] }
          else if timedOut then { s with threads := setT s.threads i { t with pc := .window } }
          else { s with threads := setT s.threads i { t with pc := .parked false } }
        | .flush => s)
     | _ => s)
  | none => s

def doConnClose (s : State) (i : Nat) : State :=
  match s.threads[i]? with
  | some t =>
    (match t.pc with
     | .window => { touch s with threads := setT s.threads i { t with pc := .relock } }
     | _ => s)
  | none => s

def doConnRelock (s : State) (i : Nat) : State :=
  match s.threads[i]? with
  | some t =>
    (match t.pc with
     | .relock =>
       let s := touch s
       let r : Res := if s.shuttingDown then .shuttingDown else .timeout
       { s with threads := setT s.threads i { t with pc := .done r }, activeConnects := s.activeConnects - 1,
                td := notifyTd s.td, log := s.log ++ [.ret i r] }
     | _ => s)
  | none => s

/-- mirrors transport_impl.hpp::Transport::setReadMode — flush loop iteration, callback, FlushGuard destructor -/
def doFlushStep (s : State) (i : Nat) (more : Bool) : State :=
  match s.threads[i]? with
  | some t =>
    (match t.pc with
     | .floop =>
       let s := touch s
       if s.shuttingDown then { s with threads := setT s.threads i { t with pc := .fend false } }
       else if more then { s with threads := setT s.threads i { t with pc := .fcb } }
       else { s with threads := setT s.threads i { t with pc := .fend true } }
     | .fcb => { s with threads := setT s.threads i { t with pc := .floop }, log := s.log ++ [.cbData i] }
     | .fend r =>
       let s := touch s
       { s with threads := setT s.threads i { t with pc := .done (.flushed r) }, activeFlushes := s.activeFlushes - 1,
                td := notifyTd s.td, log := s.log ++ [.ret i (.flushed r)] }
     | _ => s)
  | none => s

/-! ## the I/O thread and the engine -/

/-- the I/O thread can run a handler: it exists and is not itself blocked in the self-destruct wait -/
def ioFree (s : State) : Bool :=
  s.ioAlive && (match s.td with | .ioWaiting _ => false | _ => true)

/-- a session is closed on the I/O thread (peer close, or a close event still in the batch when `_running` is cleared) -/
def doIoCloseSess (s : State) (sid : Nat) : State :=
  if ioFree s && s.live.contains sid then closeSess s sid else s

def doIoConnDone (s : State) (i : Nat) : State :=
  if ioFree s then
    match s.threads[i]? with
    | some t =>
      (match t.kind, t.pc with
       | .conn, .parked _ => { s with threads := setT s.threads i { t with completed := true, pc := .parked true } }
       | _, _ => s)
    | none => s
  else s

/-- mirrors tcp_engine.hpp::TcpEngine::shutdownDrain + the thread epilogue of `start()` — after `_running` was cleared -/
def doIoDrain (s : State) (sid : Option Nat) : State :=
  if ioFree s && !s.running then
    match sid with
    | some sid => if s.live.contains sid then closeSess s sid else s
    | none =>
      (match s.live with
       | [] =>
         (match s.td with
          | .ioReleased =>   -- the deleter registered by `scheduleSelfDestruct` runs in the thread epilogue
            { s with ioAlive := false, implAlive := false, td := .destroyed, log := s.log ++ [.destroyed] }
          | _ => { s with ioAlive := false })
       | _ :: _ => s)
  else s

/-- mirrors transport_impl.hpp::Transport::stop -/
def doStopCall (s : State) : State :=
  if s.stopJoining then s
  else if s.running then { s with running := false, stopJoining := true }
  else { s with log := s.log ++ [.stopReturned] }

def doStopJoin (s : State) : State :=
  if s.stopJoining && !s.ioAlive then { s with stopJoining := false, log := s.log ++ [.stopReturned] } else s

/-! ## teardown -/

/-- mirrors transport_impl.hpp::Transport::Impl::performTeardown — path selection and first critical section -/
def doTdBegin (s : State) : State :=
  match s.td with
  | .idle =>
    if s.running then
      -- NORMAL: setTeardownFence (fence + wake connectSync waiters only — the same section as teardownWaitOut(false)'s entry)
      { waitOutEntry s false with td := .fenced }
    else
      -- ALREADY-STOPPED: teardownWaitOut(true)
      let s := waitOutEntry s true
      if gate s then { s with td := .waited } else { s with td := .waiting false }
  | _ => s

/-- `engine->stop()` is a CAS: if somebody else already cleared `_running` it returns at once without joining -/
def doTdStop (s : State) : State :=
  match s.td with
  | .fenced =>
    if s.running then { s with running := false, td := .joining }
    else
      let s := waitOutEntry s false
      if gate s then { s with td := .waited } else { s with td := .waiting false }
  | _ => s

def doTdJoined (s : State) : State :=
  match s.td with
  | .joining =>
    if s.ioAlive then s
    else
      let s := waitOutEntry s false
      if gate s then { s with td := .waited } else { s with td := .waiting false }
  | _ => s

def doTdWake (s : State) : State :=
  match s.td with
  | .waiting _ => if gate s then { s with td := .waited } else { s with td := .waiting false }
  | .ioWaiting _ =>
    if gate s then { s with td := .ioReleased, running := false } else { s with td := .ioWaiting false }
  | _ => s

def doTdDestroy (s : State) : State :=
  match s.td with
  | .waited => { s with td := .destroyed, implAlive := false, log := s.log ++ [.destroyed] }
  | _ => s

/-- mirrors transport_impl.hpp::Transport::~Transport — the I/O-thread branch -/
def doIoSelfDestruct (s : State) : State :=
  match s.td with
  | .idle =>
    if s.ioAlive then
      let s := waitOutEntry s true
      if gate s then { s with td := .ioReleased, running := false } else { s with td := .ioWaiting false }
    else s
  | _ => s

def step (s : State) : Step → State
  | .enter i => doEnter s i
  | .wake i t => doWake s i t
  | .connClose i => doConnClose s i
  | .connRelock i => doConnRelock s i
  | .flushStep i m => doFlushStep s i m
  | .ioCloseSess sid => doIoCloseSess s sid
  | .ioConnDone i => doIoConnDone s i
  | .ioDrain sid => doIoDrain s sid
  | .stopCall => doStopCall s
  | .stopJoin => doStopJoin s
  | .tdBegin => doTdBegin s
  | .tdStop => doTdStop s
  | .tdJoined => doTdJoined s
  | .tdWake => doTdWake s
  | .tdDestroy => doTdDestroy s
  | .ioSelfDestruct => doIoSelfDestruct s

def run (s : State) : List Step → State
  | [] => s
  | st :: rest => run (step s st) rest

/-- the wait of the destructor has completed (or the object is gone) -/
def waitCompleted (td : Td) : Bool :=
  match td with
  | .waited | .ioReleased | .destroyed => true
  | _ => false

/-- environment contract: no call BEGINS once the destructor's wait has completed -/
def ok (s : State) : Step → Bool
  | .enter _ => !waitCompleted s.td
  | .stopCall => s.td == .idle          -- engine lifecycle contract: stop() is not concurrent with destruction
  | _ => true

def Disciplined : State → List Step → Prop
  | _, [] => True
  | s, st :: rest => ok s st = true ∧ Disciplined (step s st) rest

def disciplinedB : State → List Step → Bool
  | _, [] => true
  | s, st :: rest => ok s st && disciplinedB (step s st) rest

/-- initial state: a running transport with `live` sessions open and the given application threads about to call -/
def mk (threads : List Thread) (live : List Nat) : State := { threads := threads, live := live }

end Iora.Teardown
