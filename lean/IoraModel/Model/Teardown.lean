import IoraModel.Gen.TeardownSkel
/-!
# Model of the Transport teardown handshake (C05, logic core)

Mirrors `include/iora/network/transport_impl.hpp`: `Impl::ParkGuard` / `Impl::FlushGuard` (paired counter inc/dec + notify of
`teardownCv`), `Impl::setTeardownFence`, `Impl::teardownWaitOut`, `Impl::performTeardown` (NORMAL and ALREADY-STOPPED paths),
the three branches of `Transport::~Transport` (flusher self-destruct — FC05a —, I/O-thread self-destruct, ordinary thread),
`Transport::stop`, the I/O-thread guards of the synchronous operations, and the parts of `receiveSync`, `connectSync` and the
`setReadMode` flush loop that matter for teardown: entry fence, park, wake, the uncounted/counted windows.  Bytes are not
modelled here (C03), nor the connect bookkeeping (C04).

One step = one `syncMutex` critical section (or one callback / engine call made outside it).  A timed wait may time out at
any time (`wake i true`).  "Touching `Impl` after it was destroyed" is the explicit error outcome `uaf`; "the I/O thread
entered a blocking synchronous operation of its own transport" is the explicit error outcome `ioSelfBlock`.

What the model TAKES from the regenerated source skeleton (`Gen/TeardownSkel.lean`, tools/tr_teardownskel.py): the argument of
the `teardownWaitOut` call on every path and the polarity of the `if (notifyReceive)` test (`nrIo`/`nrStopped`/`nrNormal`), the
counters named by the gate predicate (`gated`), whether the destructor's I/O-thread branch and the guards of the synchronous
operations are taken on thread identity alone (`ioBranchIdentityOnly`, `guardIdentityOnly`).

Environment contract (`ok`, not built into `step`):
* the application does not BEGIN a new synchronous call once the destructor's wait has completed (a call that starts on a
  destroyed object is the application's own use-after-free);
* a thread inside `stop()` holds a reference (the shared-ownership contract stated in `~Transport`, transport_impl.hpp "a
  concurrent stopper … holding its OWN shared_ptr"): the last reference is not dropped while a `stop()` is joining, and
  `stop()` is not called once destruction has begun.
-/
namespace Iora.Teardown
open Iora.Gen

inductive Kind | recv (sid : Nat) | conn | flush
  deriving DecidableEq, Repr

inductive Res | timeout | peerClosed | shuttingDown | completed | flushed (ok : Bool)
  deriving DecidableEq, Repr

/-- the four operations guarded against the I/O thread -/
inductive SyncOp | connectSync | receiveSync | sendSync | setReadMode
  deriving DecidableEq, Repr

/-- program counter of an application thread inside one synchronous call -/
inductive Pc
  | notStarted
  | parked (awake : Bool)     -- receiveSync / connectSync asleep on its condition variable, guard(s) alive
  | window                    -- connectSync timeout exit: lock released, `engine->close` pending, ParkGuard still alive
  | relock                    -- connectSync timeout exit: about to re-acquire the lock
  | floop                     -- flusher between two critical sections, FlushGuard alive
  | fcb                       -- flusher inside the user data callback
  | fend (r : Bool)           -- flush loop left, FlushGuard destructor pending
  | fdtor                     -- flusher inside its data callback, running (or having run) `~Transport` there: its FlushGuard has
                              -- been released (not counted any more); its flush frame deletes `Impl` when the loop unwinds
  | done (r : Res)
  deriving DecidableEq, Repr

structure Thread where
  kind : Kind
  pc : Pc := .notStarted
  completed : Bool := false   -- connectSync: a handler delivered the completion (`op->done`)
  deriving DecidableEq, Repr

/-- the thread that runs `~Transport` -/
inductive Td
  | idle
  | fenced                    -- NORMAL path: `setTeardownFence` done, `engine->stop()` not yet called
  | joining                   -- NORMAL path: inside `engine->stop()`, waiting for the I/O thread to terminate
  | waiting (awake : Bool)    -- inside `teardownWaitOut`, asleep on `teardownCv`
  | waited                    -- `teardownWaitOut` returned; `~Impl` not yet run
  | ioWaiting (awake : Bool)  -- the I/O thread itself is inside `teardownWaitOut` (sole owner released in a callback)
  | ioReleased                -- self-destruct scheduled, engine detached; `Impl` is deleted by the I/O thread's epilogue
  | flushOwned                -- flusher self-destruct: `~Transport` returned, `Impl` is owned by the flush frame below it
  | destroyed
  deriving DecidableEq, Repr

/-- which branch of `~Transport` / `performTeardown` ran (ghost) -/
inductive Path | none | normal | stopped | io
  deriving DecidableEq, Repr

inductive Ev
  | ret (i : Nat) (r : Res)
  | cbClose (sid : Nat)            -- a close callback ran on the I/O thread
  | cbData (i : Nat)               -- the data callback was invoked on flusher `i`'s own thread
  | refused (op : SyncOp)          -- a synchronous operation called from a callback on the I/O thread threw `logic_error`
  | stopReturned
  | destroyed
  deriving DecidableEq, Repr

structure State where
  threads : List Thread := []
  shuttingDown : Bool := false
  activeReceives : Nat := 0
  activeConnects : Nat := 0
  activeFlushes : Nat := 0
  closed : Nat → Bool := fun _ => false     -- `SyncReceiveBuffer::closed` per session
  live : List Nat := []                     -- sessions the engine still has open
  running : Bool := true                    -- engine `_running`
  ioAlive : Bool := true                    -- the I/O thread has not terminated
  stopJoining : Bool := false               -- an application thread is inside `Transport::stop()` (joining)
  td : Td := .idle
  dtorOn : Option Nat := none               -- `some i`: `~Transport` runs on flusher `i`, inside its data callback
  implAlive : Bool := true
  uaf : Bool := false                       -- a thread touched `Impl` after it was destroyed
  ioSelfBlock : Bool := false               -- the I/O thread entered a blocking synchronous operation of its own transport
  recvNotified : Bool := false              -- ghost: a `teardownWaitOut` entry section has notified the receive CVs
  path : Path := .none                      -- ghost: the teardown path taken
  log : List Ev := []

inductive Step
  | enter (i : Nat)                    -- entry critical section of thread `i`'s call
  | wake (i : Nat) (timedOut : Bool)   -- wake-and-reacquire of a parked receive/connect
  | connClose (i : Nat)                -- `engine->close(sid)` in the timeout window
  | connRelock (i : Nat)
  | flushStep (i : Nat) (more : Bool)  -- flusher advances (`more`: the buffer was non-empty)
  | ioCloseSess (sid : Nat)            -- the peer closed a live session (onClose on the I/O thread)
  | ioConnDone (i : Nat)               -- a connect handler completed waiter `i`
  | ioDrain (sid : Option Nat)         -- `_running` is false: the I/O thread closes a session still open (`some`), or terminates (`none`)
  | ioSyncCall (op : SyncOp)           -- a callback on the I/O thread calls a synchronous operation of the transport
  | stopCall                           -- `Transport::stop()` from an application thread
  | stopJoin                           -- … its join returns
  | tdBegin                            -- `~Transport` on a non-I/O thread: `performTeardown` picks its path
  | tdStop                             -- NORMAL path: `engine->stop()` called
  | tdJoined                           -- NORMAL path: the join returned; `teardownWaitOut` entry section
  | tdWake                             -- `teardownCv` wake-up / predicate check
  | tdDestroy                          -- `~Impl`
  | tdOrphan                           -- flusher self-destruct: `~Transport` returns, leaving `Impl` to the flush frame
  | ioSelfDestruct                     -- `~Transport` on the I/O thread inside a callback: `teardownWaitOut` entry section
  | flushSelfDestruct (i : Nat)        -- `~Transport` on flusher `i` inside its data callback: `releaseOwnFlushes` (FlushGuard destructor)
  deriving Repr

/-! ## what the model takes from the regenerated skeleton -/

/-- does a `teardownWaitOut(arg)` call notify the receive CVs? (the test is `if (notifyReceive)` or its negation, as written) -/
def notifies (arg : Bool) : Bool := if TeardownSkel.notifyTestPositive then arg else !arg
/-- the three call sites of `teardownWaitOut` -/
def nrIo : Bool := notifies TeardownSkel.ioBranchNotifyArg
def nrStopped : Bool := notifies TeardownSkel.stoppedNotifyArg
def nrNormal : Bool := notifies TeardownSkel.normalNotifyArg
/-- the wait predicate of `teardownWaitOut` names this counter -/
def gated (c : String) : Bool := TeardownSkel.gateCounters.contains c
/-- the I/O-thread branch of `~Transport` is taken on thread identity alone (no `isRunning()` conjunct) -/
def ioBranchIdentityOnly : Bool := !TeardownSkel.ioBranchTestsRunning
def opName : SyncOp → String
  | .connectSync => "connectSync" | .receiveSync => "receiveSync" | .sendSync => "sendSync" | .setReadMode => "setReadMode"
/-- the first statement of the operation throws `logic_error` on the I/O thread, on thread identity alone -/
def guardIdentityOnly (op : SyncOp) : Bool :=
  TeardownSkel.ioGuards.any fun g =>
    g.1 == opName op && g.2.1 == "std::this_thread::get_id()==_impl->engine->getIoThreadId()" && g.2.2 == "throw:logic_error"

/-! ## helpers -/

def setT (l : List Thread) (i : Nat) (t : Thread) : List Thread := l.set i t

/-- the thread is inside a call and counted by the teardown gate: its next own step touches `Impl` -/
def inside : Pc → Bool
  | .parked _ | .window | .relock | .floop | .fcb | .fend _ => true
  | _ => false

def countedRecv (t : Thread) : Bool := match t.kind, t.pc with | .recv _, .parked _ => true | _, _ => false
def countedConn (t : Thread) : Bool :=
  match t.kind, t.pc with | .conn, .parked _ | .conn, .window | .conn, .relock => true | _, _ => false
def countedFlush (t : Thread) : Bool :=
  match t.kind, t.pc with | .flush, .floop | .flush, .fcb | .flush, .fend _ => true | _, _ => false

def wakeAll (p : Thread → Bool) (l : List Thread) : List Thread :=
  l.map fun t => match t.pc with | .parked _ => if p t then { t with pc := .parked true } else t | _ => t

def isConn (t : Thread) : Bool := t.kind == .conn
def isRecvOf (sid : Nat) (t : Thread) : Bool := t.kind == .recv sid
def isRecv (t : Thread) : Bool := match t.kind with | .recv _ => true | _ => false

/-- a guard destructor ran under the lock: wake the teardown waiter -/
def notifyTd (td : Td) : Td :=
  match td with
  | .waiting _ => .waiting true
  | .ioWaiting _ => .ioWaiting true
  | x => x

/-- mirrors transport_impl.hpp::Transport::Impl::teardownWaitOut — the wait predicate, over the counters the source names -/
def gate (s : State) : Bool :=
  (!gated "activeReceives" || s.activeReceives == 0) && (!gated "activeConnects" || s.activeConnects == 0) &&
  (!gated "activeFlushes" || s.activeFlushes == 0)

/-- every step of a thread inside a member function touches `Impl` -/
def touch (s : State) : State := if s.implAlive then s else { s with uaf := true }

/-- mirrors transport_impl.hpp::Transport::Impl::setupEngineCallbacks — onClose for `sid`: the user callback, then step 6
(closed := true; notify_all); the handler runs on `Impl` -/
def closeSess (s : State) (sid : Nat) : State :=
  let s := touch s
  { s with live := s.live.filter (· != sid), closed := fun j => if j = sid then true else s.closed j,
           threads := wakeAll (isRecvOf sid) s.threads, log := s.log ++ [.cbClose sid] }

/-- mirrors transport_impl.hpp::Transport::Impl::teardownWaitOut / setTeardownFence — the entry section (fence + notifies) -/
def waitOutEntry (s : State) (notifyReceive : Bool) : State :=
  { s with shuttingDown := true, recvNotified := s.recvNotified || notifyReceive,
           threads := wakeAll (fun t => isConn t || (notifyReceive && isRecv t)) s.threads }

/-! ## application threads -/

/-- mirrors transport_impl.hpp::Transport::receiveSync / connectSync / setReadMode — entry section incl. the entry fence -/
def doEnter (s : State) (i : Nat) : State :=
  match s.threads[i]? with
  | some t =>
    (match t.pc with
     | .notStarted =>
       let s := touch s
       if s.shuttingDown then
         { s with threads := setT s.threads i { t with pc := .done (match t.kind with | .flush => .flushed false | _ => .shuttingDown) },
                  log := s.log ++ [.ret i (match t.kind with | .flush => .flushed false | _ => .shuttingDown)] }
       else
         (match t.kind with
          | .recv sid =>
            if s.closed sid then
              { s with threads := setT s.threads i { t with pc := .done .peerClosed }, log := s.log ++ [.ret i .peerClosed] }
            else { s with threads := setT s.threads i { t with pc := .parked false, completed := false }, activeReceives := s.activeReceives + 1 }
          | .conn => { s with threads := setT s.threads i { t with pc := .parked false, completed := false }, activeConnects := s.activeConnects + 1 }
          | .flush => { s with threads := setT s.threads i { t with pc := .floop }, activeFlushes := s.activeFlushes + 1 })
     | _ => s)
  | none => s

/-- mirrors transport_impl.hpp::Transport::receiveSync / connectSync — wake-and-reacquire and everything up to the next unlock -/
def doWake (s : State) (i : Nat) (timedOut : Bool) : State :=
  match s.threads[i]? with
  | some t =>
    (match t.pc with
     | .parked _ =>
       let s := touch s
       (match t.kind with
        | .recv sid =>
          if s.closed sid || s.shuttingDown || timedOut then
            let r : Res := if s.closed sid then .peerClosed else if s.shuttingDown then .shuttingDown else .timeout
            { s with threads := setT s.threads i { t with pc := .done r }, activeReceives := s.activeReceives - 1,
                     td := notifyTd s.td, log := s.log ++ [.ret i r] }
          else { s with threads := setT s.threads i { t with pc := .parked false } }
        | .conn =>
          if t.completed then
            { s with threads := setT s.threads i { t with pc := .done .completed }, activeConnects := s.activeConnects - 1,
                     td := notifyTd s.td, log := s.log ++ [.ret i .completed] }
          else if s.shuttingDown then
            { s with threads := setT s.threads i { t with pc := .done .shuttingDown }, activeConnects := s.activeConnects - 1,
                     td := notifyTd s.td, log := s.log ++ [.ret i .shuttingDown] }
          else if timedOut then { s with threads := setT s.threads i { t with pc := .window } }
          else { s with threads := setT s.threads i { t with pc := .parked false } }
        | .flush => s)
     | _ => s)
  | none => s

def doConnClose (s : State) (i : Nat) : State :=
  match s.threads[i]? with
  | some t =>
    (match t.pc with
     | .window => { touch s with threads := setT s.threads i { t with pc := .relock } }
     | _ => s)
  | none => s

def doConnRelock (s : State) (i : Nat) : State :=
  match s.threads[i]? with
  | some t =>
    (match t.pc with
     | .relock =>
       let s := touch s
       let r : Res := if s.shuttingDown then .shuttingDown else .timeout
       { s with threads := setT s.threads i { t with pc := .done r }, activeConnects := s.activeConnects - 1,
                td := notifyTd s.td, log := s.log ++ [.ret i r] }
     | _ => s)
  | none => s

/-- mirrors transport_impl.hpp::Transport::setReadMode — flush loop iteration, callback, FlushGuard destructor; and, for a
flusher that ran `~Transport` inside its callback (`fdtor`), the unwinding of the loop once the destructor has returned:
the loop's section sees `shuttingDown`, the call returns false and `~FlushFrame` deletes `Impl` -/
def doFlushStep (s : State) (i : Nat) (more : Bool) : State :=
  match s.threads[i]? with
  | some t =>
    (match t.pc with
     | .floop =>
       let s := touch s
       if s.shuttingDown then { s with threads := setT s.threads i { t with pc := .fend false } }
       else if more then { s with threads := setT s.threads i { t with pc := .fcb }, log := s.log ++ [.cbData i] }
       else { s with threads := setT s.threads i { t with pc := .fend true } }
     | .fcb => { s with threads := setT s.threads i { t with pc := .floop } }
     | .fend r =>
       let s := touch s
       { s with threads := setT s.threads i { t with pc := .done (.flushed r) }, activeFlushes := s.activeFlushes - 1,
                td := notifyTd s.td, log := s.log ++ [.ret i (.flushed r)] }
     | .fdtor =>
       (match s.td with
        | .flushOwned =>
          let s := touch s
          { s with threads := setT s.threads i { t with pc := .done (.flushed false) }, td := .destroyed, implAlive := false,
                   log := s.log ++ [.ret i (.flushed false), .destroyed] }
        | _ => s)    -- the thread is still inside the destructor
     | _ => s)
  | none => s

/-- mirrors transport_impl.hpp::Transport::~Transport (flusher branch) / Impl::releaseOwnFlushes — the FlushGuard destructor of
the calling thread's own flush runs now, under the lock -/
def doFlushSelfDestruct (s : State) (i : Nat) : State :=
  match s.threads[i]? with
  | some t =>
    (match t.pc, s.td, s.dtorOn with
     | .fcb, .idle, none =>
       let s := touch s
       { s with threads := setT s.threads i { t with pc := .fdtor }, activeFlushes := s.activeFlushes - 1,
                td := notifyTd s.td, dtorOn := some i }
     | _, _, _ => s)
  | none => s

/-! ## the I/O thread and the engine -/

/-- the I/O thread can run a handler: it exists and is not itself blocked in the self-destruct wait -/
def ioFree (s : State) : Bool :=
  s.ioAlive && (match s.td with | .ioWaiting _ => false | _ => true)

/-- a session is closed on the I/O thread (peer close, or a close event still in the batch when `_running` is cleared) -/
def doIoCloseSess (s : State) (sid : Nat) : State :=
  if ioFree s && s.live.contains sid then closeSess s sid else s

def doIoConnDone (s : State) (i : Nat) : State :=
  if ioFree s then
    match s.threads[i]? with
    | some t =>
      (match t.kind, t.pc with
       | .conn, .parked _ => { touch s with threads := setT s.threads i { t with completed := true, pc := .parked true } }
       | _, _ => s)
    | none => s
  else s

/-- mirrors tcp_engine.hpp / udp_engine.hpp::shutdownDrain + the thread epilogue of `start()` — after `_running` was cleared -/
def doIoDrain (s : State) (sid : Option Nat) : State :=
  if ioFree s && !s.running then
    match sid with
    | some sid => if s.live.contains sid then closeSess s sid else s
    | none =>
      (match s.live with
       | [] =>
         (match s.td with
          | .ioReleased =>   -- the deleter registered by `scheduleSelfDestruct` runs in the thread epilogue
            { s with ioAlive := false, implAlive := false, td := .destroyed, log := s.log ++ [.destroyed] }
          | _ => { s with ioAlive := false })
       | _ :: _ => s)
  else s

/-- mirrors transport_impl.hpp::Transport::connectSync / receiveSync / sendSync / setReadMode — the first statement, executed
by a callback on the I/O thread: the call throws; were the guard to carry an `isRunning()` conjunct, a call made while the
shutdown drain runs (`_running == false`) would enter the blocking operation on the only thread that can complete it -/
def doIoSyncCall (s : State) (op : SyncOp) : State :=
  if ioFree s then
    if guardIdentityOnly op || s.running then { touch s with log := s.log ++ [.refused op] }
    else { s with ioSelfBlock := true }
  else s

/-- mirrors transport_impl.hpp::Transport::stop -/
def doStopCall (s : State) : State :=
  if s.stopJoining then s
  else
    let s := touch s
    if s.running then { s with running := false, stopJoining := true }
    else { s with log := s.log ++ [.stopReturned] }

/-- the join returns into `TcpEngine::stop` / `Transport::stop`: members of the engine are touched once more -/
def doStopJoin (s : State) : State :=
  if s.stopJoining && !s.ioAlive then { touch s with stopJoining := false, log := s.log ++ [.stopReturned] } else s

/-! ## teardown -/

/-- mirrors transport_impl.hpp::Transport::Impl::performTeardown — path selection and first critical section -/
def doTdBegin (s : State) : State :=
  match s.td with
  | .idle =>
    if s.running then
      -- NORMAL: setTeardownFence (fence + wake connectSync waiters only)
      { waitOutEntry s false with td := .fenced, path := .normal }
    else
      -- ALREADY-STOPPED: teardownWaitOut(<as written>)
      let s := { waitOutEntry s nrStopped with path := .stopped }
      if gate s then { s with td := .waited } else { s with td := .waiting false }
  | _ => s

/-- `engine->stop()` is a CAS: if somebody else already cleared `_running` it returns at once without joining -/
def doTdStop (s : State) : State :=
  match s.td with
  | .fenced =>
    if s.running then { s with running := false, td := .joining }
    else
      let s := waitOutEntry s nrNormal
      if gate s then { s with td := .waited } else { s with td := .waiting false }
  | _ => s

def doTdJoined (s : State) : State :=
  match s.td with
  | .joining =>
    if s.ioAlive then s
    else
      let s := waitOutEntry s nrNormal
      if gate s then { s with td := .waited } else { s with td := .waiting false }
  | _ => s

def doTdWake (s : State) : State :=
  match s.td with
  | .waiting _ => if gate s then { s with td := .waited } else { s with td := .waiting false }
  | .ioWaiting _ =>
    if gate s then { s with td := .ioReleased, running := false } else { s with td := .ioWaiting false }
  | _ => s

/-- `~Impl` on the destroying (non-I/O, non-flusher) thread -/
def doTdDestroy (s : State) : State :=
  match s.td, s.dtorOn with
  | .waited, none => { s with td := .destroyed, implAlive := false, log := s.log ++ [.destroyed] }
  | _, _ => s

/-- mirrors transport_impl.hpp::Transport::~Transport (flusher branch): `outer->orphaned = true; _impl.release(); return` -/
def doTdOrphan (s : State) : State :=
  match s.td, s.dtorOn with
  | .waited, some _ => { s with td := .flushOwned }
  | _, _ => s

/-- mirrors transport_impl.hpp::Transport::~Transport — the I/O-thread branch; with an `isRunning()` conjunct in its test, a
destructor entered on the I/O thread while the shutdown drain runs would fall through to `performTeardown` and run `~Impl`
under the engine's own dispatch -/
def doIoSelfDestruct (s : State) : State :=
  match s.td, s.dtorOn with
  | .idle, none =>
    if ioFree s then
      if !ioBranchIdentityOnly && !s.running then { s with uaf := true }
      else
        let s := { waitOutEntry s nrIo with path := .io }
        if gate s then { s with td := .ioReleased, running := false } else { s with td := .ioWaiting false }
    else s
  | _, _ => s

def step (s : State) : Step → State
  | .enter i => doEnter s i
  | .wake i t => doWake s i t
  | .connClose i => doConnClose s i
  | .connRelock i => doConnRelock s i
  | .flushStep i m => doFlushStep s i m
  | .ioCloseSess sid => doIoCloseSess s sid
  | .ioConnDone i => doIoConnDone s i
  | .ioDrain sid => doIoDrain s sid
  | .ioSyncCall op => doIoSyncCall s op
  | .stopCall => doStopCall s
  | .stopJoin => doStopJoin s
  | .tdBegin => doTdBegin s
  | .tdStop => doTdStop s
  | .tdJoined => doTdJoined s
  | .tdWake => doTdWake s
  | .tdDestroy => doTdDestroy s
  | .tdOrphan => doTdOrphan s
  | .ioSelfDestruct => doIoSelfDestruct s
  | .flushSelfDestruct i => doFlushSelfDestruct s i

def run (s : State) : List Step → State
  | [] => s
  | st :: rest => run (step s st) rest

/-- the wait of the destructor has completed (or the object is gone) -/
def waitCompleted (td : Td) : Bool :=
  match td with
  | .waited | .ioReleased | .flushOwned | .destroyed => true
  | _ => false

/-- environment contract (see the header) -/
def ok (s : State) : Step → Bool
  | .enter _ => !waitCompleted s.td
  | .stopCall => s.td == .idle && s.dtorOn == none
  | .tdBegin => !s.stopJoining
  | .ioSelfDestruct => !s.stopJoining
  | .flushSelfDestruct _ => !s.stopJoining
  | _ => true

def Disciplined : State → List Step → Prop
  | _, [] => True
  | s, st :: rest => ok s st = true ∧ Disciplined (step s st) rest

def disciplinedB : State → List Step → Bool
  | _, [] => true
  | s, st :: rest => ok s st && disciplinedB (step s st) rest

/-- initial state: a running transport with `live` sessions open and the given application threads about to call -/
def mk (threads : List Thread) (live : List Nat) : State := { threads := threads, live := live }

end Iora.Teardown
