import IoraModel.Common.Bytes
import IoraModel.Gen.Assets
/-
Model of `include/iora/web/assets.hpp` (C20): the lexical filter, the component-wise containment test, the three
lookup modes and the filesystem-mode caches, over a model of the file system (`Fs`) with model functions for what
libstdc++ / the kernel do: path resolution (`walk`, `kwalk`), `status`, `canonical`, `weakly_canonical`,
`lexically_normal`, `lexically_relative`, `open(O_NOFOLLOW)`.  The model functions are *assumptions about the platform*;
their agreement with the real ones is checked by the correspondence harness (`harness/c20_assets.cpp`).
Constants (forbidden bytes, open flags, sub-directory names, `.gz` suffix, MIME table) come from `Gen/Assets.lean`.
-/
namespace Iora.Assets
open Iora

abbrev Name := Bytes

def SLASH : UInt8 := 47
def dot : Bytes := [46]
def dotdot : Bytes := [46, 46]
def PATH_MAX : Nat := 4096
def NAME_MAX : Nat := 255
/-- Linux `MAXSYMLINKS` / glibc `__eloop_threshold()` -/
def SYMLOOP : Nat := 40

/-! ## 1. The lexical filter (`Assets::lexicallyRejected`) -/

/-- mirrors the `while (true)` segment loop: `seg` is the segment read so far (between two separators) -/
def segLoop (seg : Bytes) : Bytes → Bool
  | [] => Gen.Assets.forbiddenSegments.contains seg
  | c :: cs =>
    if c = Gen.Assets.segmentSeparator then Gen.Assets.forbiddenSegments.contains seg || segLoop [] cs
    else segLoop (seg ++ [c]) cs

/-- mirrors `Assets::lexicallyRejected` -/
def lexicallyRejected (p : Bytes) : Bool :=
  match p with
  | [] => Gen.Assets.emptyRejected
  | c :: _ =>
    Gen.Assets.forbiddenLeading.contains c || p.any (fun x => Gen.Assets.forbiddenAnywhere.contains x) || segLoop [] p

/-! ## 2. Paths as byte strings (`std::filesystem::path` keeps the string it was given) -/

def consHead (c : UInt8) : List Bytes → List Bytes
  | [] => [[c]]
  | s :: ss => (c :: s) :: ss

/-- split at every `/`, keeping empty segments (`splitSlash [] = [[]]`) -/
def splitSlash : Bytes → List Bytes
  | [] => [[]]
  | c :: cs => if c = SLASH then [] :: splitSlash cs else consHead c (splitSlash cs)

/-- the non-empty segments: what the kernel (and `path::begin()..end()`) see as file names -/
def comps (p : Bytes) : List Name := (splitSlash p).filter (fun s => !s.isEmpty)
def isAbs (p : Bytes) : Bool := p.head? == some SLASH
def trailSlash (p : Bytes) : Bool := p.getLast? == some SLASH

/-- elements produced by iterating a `std::filesystem::path` (POSIX): the root directory `/` if present, the file names,
and one empty element for a trailing separator after a file name -/
def elems (p : Bytes) : List Bytes :=
  (if isAbs p then [[SLASH]] else []) ++ comps p ++ (if trailSlash p && !(comps p).isEmpty then [[]] else [])

def hasFilename (p : Bytes) : Bool := !p.isEmpty && !trailSlash p

/-- mirrors `path::operator/=` (POSIX branch of libstdc++) on the stored strings -/
def pathAppend (p q : Bytes) : Bytes :=
  if isAbs q || p.isEmpty then q
  else if hasFilename p then p ++ [SLASH] ++ q
  else p ++ q

def joinSlash : List Bytes → Bytes
  | [] => []
  | [a] => a
  | a :: b :: rest => a ++ [SLASH] ++ joinSlash (b :: rest)

/-- a path value under construction in `lexically_normal`: root directory?, file names (last first), trailing separator? -/
structure NPath where
  abs : Bool := false
  names : List Bytes := []
  trail : Bool := false
  deriving DecidableEq, Repr

def NPath.render (r : NPath) : Bytes :=
  (if r.abs then [SLASH] else []) ++ joinSlash r.names.reverse ++ (if r.trail && !r.names.isEmpty then [SLASH] else [])

/-- one iteration of the loop of libstdc++ `path::lexically_normal()` -/
def normStep (r : NPath) (e : Bytes) : NPath :=
  if e = [SLASH] then { r with abs := true }
  else if e = dotdot then
    match r.names with
    | [] => if r.abs then r else { r with names := [dotdot], trail := false }
    | top :: rest =>
      if top = dotdot then { r with names := dotdot :: top :: rest, trail := false }
      else { r with names := rest, trail := !rest.isEmpty }
  else if e = dot || e.isEmpty then
    (if !r.names.isEmpty && !r.trail then { r with trail := true } else r)
  else { r with names := e :: r.names, trail := false }

/-- mirrors libstdc++ `path::lexically_normal()` -/
def lexicallyNormal (p : Bytes) : Bytes :=
  if p.isEmpty then [] else
  if (comps p).isEmpty && isAbs p then p else      -- libstdc++ keeps a slashes-only path (`//`) as one root element, verbatim
  let r := (elems p).foldl normStep {}
  let r := if r.names.head? = some dotdot && r.trail then { r with trail := false } else r
  if !r.abs && r.names.isEmpty then dot else r.render

def mismatch : List Bytes → List Bytes → List Bytes × List Bytes
  | a :: as, b :: bs => if a = b then mismatch as bs else (a :: as, b :: bs)
  | as, bs => (as, bs)

/-- the counter `n` of `lexically_relative`: +1 per ordinary name left in `base`, −1 per `..` -/
def relCount (bs : List Bytes) : Int :=
  bs.foldl (fun n e => if e = dotdot then n - 1 else if e ≠ [] ∧ e ≠ dot then n + 1 else n) 0

/-- first element of `target.lexically_relative(base)` (libstdc++), `none` when the result is the empty path -/
def lexRelFirst (target base : Bytes) : Option Bytes :=
  if isAbs target != isAbs base then none else
  match mismatch (elems target) (elems base) with
  | ([], []) => some dot
  | (a, b) =>
    let n := relCount b
    if n = 0 ∧ (a = [] ∨ a.head? = some []) then some dot
    else if n > 0 then some dotdot
    else if n = 0 then a.head?
    else none

/-- mirrors `Assets::isContained(base, target)` -/
def isContained (base target : Bytes) : Bool :=
  match lexRelFirst target base with
  | none => false
  | some f => if Gen.Assets.containedCmp = "!=" then f ≠ Gen.Assets.containedLit else f = Gen.Assets.containedLit

/-! ## 3. The file-system model -/

inductive Entry where
  | file (content : Bytes)
  | dir
  | link (target : Bytes)
  deriving DecidableEq, Repr

/-- A location is the list of names from `/` down, LAST NAME FIRST (`[]` is `/`). -/
abbrev Loc := List Name

/-- Flat table of objects by location plus the working directory.  `Fs.get` only finds an object whose every ancestor
is a directory, so every `Fs` value denotes a tree (no well-formedness side condition). -/
structure Fs where
  entries : List (Loc × Entry) := []
  cwd : Loc := []
  deriving Repr

def Fs.raw (fs : Fs) (l : Loc) : Option Entry := fs.entries.lookup l

def Fs.get (fs : Fs) : Loc → Option Entry
  | [] => some .dir
  | n :: up =>
    match fs.get up with
    | some .dir => fs.raw (n :: up)
    | _ => none

def Fs.maxTarget (fs : Fs) : Nat :=
  fs.entries.foldl (fun m e => match e.2 with | .link t => max m t.length | _ => m) 0

inductive Errno where
  | ENOENT | ENOTDIR | ELOOP | ENAMETOOLONG | EFUEL
  deriving DecidableEq, Repr

/-- the C string the kernel receives from `path::c_str()` -/
def cstr (p : Bytes) : Bytes := p.takeWhile (fun x => x != 0)

/-- outcome of one iteration of the walk: finished, or a new state (budget, directory reached, names to do, trailing-slash flag) -/
inductive Step where
  | done (r : Except Errno (Loc × Entry))
  | next (b : Nat) (cur : Loc) (todo : List Name) (tr : Bool)

/-- One iteration of the kernel path walk (Linux `link_path_walk` + last-component handling).  `cur` is the directory reached
so far, `todo` the names still to be looked up (the names of a followed link are spliced in front), `b` the number of links
that may still be followed, `fol` whether a link in LAST position is followed (`stat`) or returned (`lstat`,
`open(O_NOFOLLOW)`), `tr` whether the path ends in `/` (the result must then be a directory and a final link is followed
regardless). -/
def walkStep (fs : Fs) (b : Nat) (cur : Loc) (todo : List Name) (fol tr : Bool) : Step :=
  match todo with
  | [] => .done (.ok (cur, .dir))
  | c :: rest =>
    if c = dot then .next b cur rest tr
    else if c = dotdot then .next b cur.tail rest tr
    else if c.length > NAME_MAX then .done (.error .ENAMETOOLONG)
    else
      match fs.get (c :: cur) with
      | none => .done (.error .ENOENT)
      | some (.file d) => if rest.isEmpty && !tr then .done (.ok (c :: cur, .file d)) else .done (.error .ENOTDIR)
      | some .dir => .next b (c :: cur) rest tr
      | some (.link t0) =>
        let t := cstr t0          -- symlink(2) stored a C string
        if rest.isEmpty && !tr && !fol then .done (.ok (c :: cur, .link t0))
        else if b = 0 then .done (.error .ELOOP)
        else if t.isEmpty then .done (.error .ENOENT)
        else .next (b - 1) (if isAbs t then [] else cur) (comps t ++ rest) (tr || (rest.isEmpty && trailSlash t))

/-- the walk: iterate `walkStep` (fuel makes the recursion structural; `walkFuel` is always enough) -/
def walk (fs : Fs) : Nat → Nat → Loc → List Name → Bool → Bool → Except Errno (Loc × Entry)
  | 0, _, _, _, _, _ => .error .EFUEL
  | f + 1, b, cur, todo, fol, tr =>
    match walkStep fs b cur todo fol tr with
    | .done r => r
    | .next b' cur' todo' tr' => walk fs f b' cur' todo' fol tr'

/-- enough fuel for any walk: every step consumes a name or follows one of at most `SYMLOOP` links (each adds at most
`maxTarget` names) -/
def walkFuel (fs : Fs) (todo : List Name) : Nat := todo.length + (SYMLOOP + 1) * (fs.maxTarget + 1) + 2

/-- a path-taking system call: `stat` (`follow = true`), `lstat` / `open(O_NOFOLLOW)` (`follow = false`) -/
def kwalk (fs : Fs) (follow : Bool) (p0 : Bytes) : Except Errno (Loc × Entry) :=
  let p := cstr p0
  if p.isEmpty then .error .ENOENT
  else if p.length ≥ PATH_MAX then .error .ENAMETOOLONG
  else walk fs (walkFuel fs (comps p)) SYMLOOP (if isAbs p then [] else fs.cwd) (comps p) follow (trailSlash p)

/-- libstdc++ `status(p, ec)`: ENOENT/ENOTDIR are "not found" (ec cleared by the callers), other errors stay errors -/
inductive Status where
  | found (loc : Loc) (e : Entry)
  | notFound
  | error (e : Errno)
  deriving DecidableEq, Repr

def status (fs : Fs) (p : Bytes) : Status :=
  match kwalk fs true p with
  | .ok (l, e) => .found l e
  | .error .ENOENT => .notFound
  | .error .ENOTDIR => .notFound
  | .error e => .error e

def renderLoc (l : Loc) : Bytes := SLASH :: joinSlash l.reverse

/-- `std::filesystem::canonical` = `realpath(3)`: the absolute name of the object the walk ends at -/
def canonical (fs : Fs) (p : Bytes) : Except Errno Bytes :=
  match kwalk fs true p with
  | .ok (l, _) => .ok (renderLoc l)
  | .error e => .error e

/-- the loop of libstdc++ `weakly_canonical` that finds the leading elements of `p` that exist -/
def wcLoop (fs : Fs) : Bytes → List Bytes → Except Errno (Bytes × List Bytes)
  | result, [] => .ok (result, [])
  | result, e :: es =>
    let pf := pathAppend result e
    match status fs pf with
    | .found _ _ => wcLoop fs pf es
    | .notFound => .ok (result, e :: es)
    | .error er => .error er

/-- mirrors libstdc++ `std::filesystem::weakly_canonical(p, ec)` -/
def weaklyCanonical (fs : Fs) (p : Bytes) : Except Errno Bytes :=
  match status fs p with
  | .found _ _ => canonical fs p
  | .error e => .error e
  | .notFound =>
    match wcLoop fs [] (elems p) with
    | .error e => .error e
    | .ok (res, rest) =>
      match (if res.isEmpty then Except.ok [] else canonical fs res) with
      | .error e => .error e
      | .ok res' => .ok (lexicallyNormal (rest.foldl pathAppend res'))

def isRegularFile (fs : Fs) (p : Bytes) : Bool :=
  match status fs p with
  | .found _ (.file _) => true
  | _ => false

def isDirectory (fs : Fs) (p : Bytes) : Bool :=
  match status fs p with
  | .found _ .dir => true
  | _ => false

/-! ### the read loop of `readFile` (assets.hpp: `for (;;) { n = ::read(fd, buf, N); … }`) -/

/-- what ONE call of `::read(fd, buf.data(), buf.size())` returns -/
inductive ReadEv where
  /-- `n > 0`: these bytes (a full buffer or a SHORT read) -/
  | data (b : Bytes)
  /-- `n == 0` -/
  | eof
  /-- `n < 0` with `errno ==` the errno the loop tests for (`Gen.readRetryErrno`, EINTR) -/
  | eintr
  /-- `n < 0` with any other errno -/
  | err
  deriving DecidableEq, Repr

/-- the three things a branch of the loop can do; read off the source text by the translator -/
inductive LoopAct where
  | brk | cont | fail
  deriving DecidableEq, Repr

def loopAct (s : String) : LoopAct :=
  if s = "break" then .brk else if s = "continue" then .cont else .fail

/-- mirrors the `for (;;)` loop of `Assets::readFile`; `acc` is `data`.  What is done with the bytes of one read
(`data.append` / `data.assign`), at EOF, at the retry errno and at other errors is what the SOURCE says (`Gen.Assets.read*`).
A script of answers that ends before the loop does is not a run of the loop (`none`). -/
def readLoop (acc : Bytes) : List ReadEv → Option Bytes
  | [] => none
  | ev :: rest =>
    let act (a : String) (acc : Bytes) : Option Bytes :=
      match loopAct a with
      | .brk => some acc
      | .cont => readLoop acc rest
      | .fail => none
    match ev with
    | .data b => readLoop (if Gen.Assets.readAccumulate = "append" then acc ++ b else b) rest
    | .eof => act Gen.Assets.readAtEof acc
    | .eintr => act Gen.Assets.readAtRetryErrno acc
    | .err => act Gen.Assets.readAtError acc

/-- `d` cut into pieces of `n` bytes (fuel = `d.length` suffices when `n > 0`) -/
def chunksOf (n : Nat) : Nat → Bytes → List Bytes
  | 0, _ => []
  | f + 1, d => if d.isEmpty then [] else d.take n :: chunksOf n f (d.drop n)

/-- what the kernel answers for a regular file holding `d` that nobody touches, read with a buffer of `n` bytes:
full buffers, a last partial one, then 0 -/
def kernelReads (n : Nat) (d : Bytes) : List ReadEv := (chunksOf n d.length d).map .data ++ [.eof]

/-- mirrors `Assets::readFile`: `open(p, O_RDONLY | <flags from the source>)` then the read loop with the source's buffer size.
A directory opens but `read` fails (EISDIR); a link in last position is ELOOP under `O_NOFOLLOW`. -/
def readFile (fs : Fs) (p : Bytes) : Option Bytes :=
  match kwalk fs (!Gen.Assets.openNoFollow) p with
  | .ok (_, .file d) => readLoop [] (kernelReads Gen.Assets.readBufSize d)
  | _ => none

/-- one scripted answer of `read` (op `readscript` of the harness): fail with `EINTR`, fail with another errno, or hand out at
most `k` bytes -/
inductive ReadCmd where
  | eintr | err | atMost (k : Nat)
  deriving DecidableEq, Repr

/-- the kernel's answers for a file holding `d` under a script (after the script: full buffers) -/
def scriptedReads (n : Nat) : List ReadCmd → Bytes → List ReadEv
  | [], d => kernelReads n d
  | .eintr :: s, d => .eintr :: scriptedReads n s d
  | .err :: s, d => .err :: scriptedReads n s d
  | .atMost k :: s, d =>
    if d.isEmpty then .eof :: scriptedReads n s d
    else .data (d.take (min (max k 1) n)) :: scriptedReads n s (d.drop (min (max k 1) n))

/-- `readFile` with the kernel's answers scripted -/
def readFileScripted (fs : Fs) (p : Bytes) (script : List ReadCmd) : Option Bytes :=
  match kwalk fs (!Gen.Assets.openNoFollow) p with
  | .ok (_, .file d) => readLoop [] (scriptedReads Gen.Assets.readBufSize script d)
  | _ => none

/-! ## 4. The lookups -/

structure CacheEntry where
  bytes : Bytes
  gz : Option Bytes
  deriving DecidableEq, Repr

/-- File-system snapshots seen by the path-taking system calls of ONE lookup, in program order.  The environment may change the
file system between any two of them (`Snaps.const fs` = nothing changes).  Two groups of system calls are NOT split further: the
prefix loop + `realpath(prefix)` that `weakly_canonical` runs when the candidate does not exist (all in `s`), and the internals
of one `realpath` / one `open`. -/
structure Snaps where
  /-- `status(candidate)` — first call of `weakly_canonical` — and, when the candidate does not exist, the rest of it -/
  s : Fs
  /-- `realpath(candidate)` (only when the candidate exists) -/
  c : Fs
  /-- `is_regular_file(resolved)` -/
  r : Fs
  /-- `open(resolved, O_RDONLY|O_NOFOLLOW|O_CLOEXEC)` + read -/
  o : Fs
  /-- `is_regular_file(resolved + ".gz")` -/
  g : Fs
  /-- `open(resolved + ".gz", …)` + read -/
  z : Fs

def Snaps.const (fs : Fs) : Snaps := ⟨fs, fs, fs, fs, fs, fs⟩

/-- `weakly_canonical` with its two top-level phases in separate snapshots (`weaklyCanonicalAt fs fs = weaklyCanonical fs`) -/
def weaklyCanonicalAt (fsS fsC : Fs) (p : Bytes) : Except Errno Bytes :=
  match status fsS p with
  | .found _ _ => canonical fsC p
  | _ => weaklyCanonical fsS p

/-- mirrors `Assets::buildEntry` (ETags are hashes of the same bytes and are not modelled); one snapshot per system call -/
def buildEntryAt (fsO fsG fsZ : Fs) (file : Bytes) : Option CacheEntry :=
  match readFile fsO file with
  | none => none
  | some b =>
    let gzp := file ++ Gen.Assets.gzSuffix
    some { bytes := b, gz := if isRegularFile fsG gzp then readFile fsZ gzp else none }

def buildEntry (fs : Fs) (file : Bytes) : Option CacheEntry := buildEntryAt fs fs fs file

def lowerAscii (c : UInt8) : UInt8 := if 65 ≤ c.toNat ∧ c.toNat ≤ 90 then c + 32 else c

/-- mirrors `Assets::extensionOf` -/
def extensionOf (path : Bytes) : Bytes :=
  let leaf := (splitSlash path).getLast?.getD []
  match leaf.reverse.dropWhile (fun x => x != 46) with
  | [] => []                    -- no dot
  | [_] => []                   -- the only dot is the first byte
  | _ => 46 :: (leaf.reverse.takeWhile (fun x => x != 46)).reverse

/-- mirrors `Assets::mimeForExtension` -/
def mimeFor (path : Bytes) : String :=
  let ext := (extensionOf path).map lowerAscii
  if ext.isEmpty then Gen.Assets.mimeDefault else
  match Gen.Assets.mimeTable.find? (fun e => e.1.toUTF8.toList.map lowerAscii == ext) with
  | some e => e.2
  | none => Gen.Assets.mimeDefault

structure Blob where
  bytes : Bytes
  mime : String
  gz : Option Bytes
  deriving DecidableEq, Repr

inductive Res where
  | found (b : Blob)
  | notFound
  | rejected
  deriving DecidableEq, Repr

def blobOf (e : CacheEntry) (path : Bytes) : Blob := { bytes := e.bytes, mime := mimeFor path, gz := e.gz }

/-- `FsState` of the C++ class -/
structure FsState where
  root : Bytes
  templatesRoot : Bytes
  staticsRoot : Bytes
  perRequest : Bool
  staticCache : List (Bytes × CacheEntry) := []
  templateCache : List (Bytes × Bytes) := []
  deriving Repr

/-- mirrors `Assets::fromDirectory` (`none` = the constructor throws) -/
def fromDirectory (fs : Fs) (root : Bytes) (perRequest : Bool) : Option FsState :=
  match canonical fs root with
  | .error _ => none
  | .ok cr =>
    if !isDirectory fs cr then none else
    let t := pathAppend cr Gen.Assets.templatesSub
    let s := pathAppend cr Gen.Assets.staticsSub
    some { root := cr,
           templatesRoot := (match weaklyCanonical fs t with | .ok r => r | .error _ => t),
           staticsRoot := (match weaklyCanonical fs s with | .ok r => r | .error _ => s),
           perRequest := perRequest }

/-- mirrors `Assets::getStaticFilesystem`; every path-taking system call sees its own snapshot (`sn`). -/
def getStaticFilesystemAt (sn : Snaps) (st : FsState) (path : Bytes) : Res × FsState :=
  let base := st.staticsRoot
  let candidate := pathAppend st.staticsRoot path
  match weaklyCanonicalAt sn.s sn.c candidate with
  | .error _ => (.notFound, st)
  | .ok resolved =>
    if !isContained base resolved then (.rejected, st)
    else if !isRegularFile sn.r resolved then (.notFound, st)
    else if st.perRequest then
      match buildEntryAt sn.o sn.g sn.z resolved with
      | none => (.notFound, st)
      | some e => (.found (blobOf e path), st)
    else
      match st.staticCache.lookup path with
      | some e => (.found (blobOf e path), st)
      | none =>
        match buildEntryAt sn.o sn.g sn.z resolved with
        | none => (.notFound, st)
        | some e => (.found (blobOf e path), { st with staticCache := (path, e) :: st.staticCache })

/-- mirrors `Assets::getTemplateFilesystem` (snapshots `s`, `c`, `r`, `o`) -/
def getTemplateFilesystemAt (sn : Snaps) (st : FsState) (name : Bytes) : Option Bytes × FsState :=
  let base := st.templatesRoot
  let candidate := pathAppend st.templatesRoot name
  match weaklyCanonicalAt sn.s sn.c candidate with
  | .error _ => (none, st)
  | .ok resolved =>
    if !isContained base resolved then (none, st)
    else if !isRegularFile sn.r resolved then (none, st)
    else
      match st.templateCache.lookup name with
      | some d => (some d, st)
      | none =>
        match readFile sn.o resolved with
        | none => (none, st)
        | some d => (some d, { st with templateCache := (name, d) :: st.templateCache })

/-- unsigned byte-wise lexicographic order (`std::string_view::operator<`) -/
def bytesLt : Bytes → Bytes → Bool
  | [], [] => false
  | [], _ :: _ => true
  | _ :: _, [] => false
  | a :: as, b :: bs => if a.toNat < b.toNat then true else if b.toNat < a.toNat then false else bytesLt as bs

structure EmbStatic where
  path : Bytes
  bytes : Bytes
  gz : Option Bytes
  deriving DecidableEq, Repr

/-- `EmbeddedAssetRegistry` (tables sorted by key, as the generator emits them) -/
structure Registry where
  templates : List (Bytes × Bytes) := []
  statics : List EmbStatic := []
  externalDir : Bytes := []
  externalPaths : List Bytes := []
  deriving Repr

/-- `std::lower_bound` over a sorted table followed by the equality test -/
def findStatic (r : Registry) (path : Bytes) : Option EmbStatic :=
  match r.statics.dropWhile (fun a => bytesLt a.path path) with
  | a :: _ => if a.path = path then some a else none
  | [] => none

def findTemplate (r : Registry) (name : Bytes) : Option Bytes :=
  match r.templates.dropWhile (fun a => bytesLt a.1 name) with
  | a :: _ => if a.1 = name then some a.2 else none
  | [] => none

/-- `std::binary_search` over the sorted externalised set -/
def isExternalPath (r : Registry) (path : Bytes) : Bool :=
  match r.externalPaths.dropWhile (fun a => bytesLt a path) with
  | a :: _ => !bytesLt path a
  | [] => false

/-- mirrors `Assets::getStaticEmbedded` (the containment base `weakly_canonical(EXTERNAL_DIR)` is computed in snapshot `s`) -/
def getStaticEmbeddedAt (sn : Snaps) (r : Registry) (path : Bytes) : Res :=
  match findStatic r path with
  | some a => .found { bytes := a.bytes, mime := mimeFor path, gz := a.gz }
  | none =>
    if !r.externalDir.isEmpty && isExternalPath r path then
      match weaklyCanonical sn.s r.externalDir with
      | .error _ => .notFound
      | .ok base =>
        let candidate := pathAppend r.externalDir path
        match weaklyCanonicalAt sn.s sn.c candidate with
        | .error _ => .notFound
        | .ok resolved =>
          if !isContained base resolved then .rejected
          else if !isRegularFile sn.r resolved then .notFound
          else
            match buildEntryAt sn.o sn.g sn.z resolved with
            | none => .notFound
            | some e => .found (blobOf e path)
    else .notFound

/-- the `Assets` value: one of the two modes -/
inductive Assets where
  | embedded (r : Registry)
  | filesystem (st : FsState)
  deriving Repr

/-- mirrors `Assets::getStatic` -/
def getStaticAt (sn : Snaps) (a : Assets) (path : Bytes) : Res × Assets :=
  if lexicallyRejected path then (.rejected, a) else
  match a with
  | .embedded r => (getStaticEmbeddedAt sn r path, a)
  | .filesystem st => let (r, st') := getStaticFilesystemAt sn st path; (r, .filesystem st')

/-- mirrors `Assets::getTemplate` -/
def getTemplateAt (sn : Snaps) (a : Assets) (name : Bytes) : Option Bytes × Assets :=
  if lexicallyRejected name then (none, a) else
  match a with
  | .embedded r => (findTemplate r name, a)
  | .filesystem st => let (r, st') := getTemplateFilesystemAt sn st name; (r, .filesystem st')

def getStatic (fs : Fs) (a : Assets) (path : Bytes) : Res × Assets := getStaticAt (Snaps.const fs) a path
def getTemplate (fs : Fs) (a : Assets) (name : Bytes) : Option Bytes × Assets := getTemplateAt (Snaps.const fs) a name

/-- mirrors `Assets::reload` -/
def reload : Assets → Assets
  | .embedded r => .embedded r
  | .filesystem st => .filesystem { st with staticCache := [], templateCache := [] }

/-! ## 5. File-system updates (the environment; used by histories and by the leaf-swap schedule) -/

/-- put an object at a location (replacing what was there) -/
def Fs.set (fs : Fs) (l : Loc) (e : Entry) : Fs := { fs with entries := (l, e) :: fs.entries.filter (fun x => x.1 != l) }
/-- remove the object at a location -/
def Fs.remove (fs : Fs) (l : Loc) : Fs := { fs with entries := fs.entries.filter (fun x => x.1 != l) }

/-- location named by an absolute, normalised path string (no walk: purely by names) -/
def locOf (p : Bytes) : Loc := (comps p).reverse

/-- drop the object at `l` and everything below it (`rm -r`, never following links) -/
def Fs.purge (fs : Fs) (l : Loc) : Fs := { fs with entries := fs.entries.filter (fun x => !(l.isSuffixOf x.1)) }

/-- The environment steps of the correspondence run (`put`, `rm`, the mutation of `sched` / `race`): they name the object by an
absolute path WITHOUT `.`/`..`, and act only when the parent of that path is a real directory reached through real directories
(`Fs.get` by names: no symbolic link is traversed) — otherwise nothing happens.  Replacing or removing an object removes
everything below it.  (The harness applies the same rule: `realpath(parent) == parent`.) -/
def Fs.envSet (fs : Fs) (l : Loc) (e : Entry) : Fs :=
  match l with
  | [] => fs
  | _ :: up => if fs.get up = some .dir then (fs.purge l).set l e else fs

def Fs.envRemove (fs : Fs) (l : Loc) : Fs :=
  match l with
  | [] => fs
  | _ :: up => if fs.get up = some .dir then fs.purge l else fs

/-! ## 6. Which system-call boundaries one lookup reaches (for the deterministic schedules of the harness)

The points at which the harness can change the file system, named by the system call that FOLLOWS the change:
`C` `realpath(candidate)`, `R` `is_regular_file(resolved)`, `O` `open(resolved)`, `G` `is_regular_file(resolved.gz)`,
`Z` `open(resolved.gz)`. -/

inductive Point where
  | C | R | O | G | Z
  deriving DecidableEq, Repr

/-- snapshots of a lookup during which the file system changes from `fs` to `fs'` just before point `pt` -/
def Snaps.switchAt (fs fs' : Fs) (pt : Point) : Snaps :=
  match pt with
  | .C => ⟨fs, fs', fs', fs', fs', fs'⟩
  | .R => ⟨fs, fs, fs', fs', fs', fs'⟩
  | .O => ⟨fs, fs, fs, fs', fs', fs'⟩
  | .G => ⟨fs, fs, fs, fs, fs', fs'⟩
  | .Z => ⟨fs, fs, fs, fs, fs, fs'⟩

/-- the points reached after the base/candidate have been formed (`gz`: whether the lookup goes on to the sibling) -/
def reachedFrom (sn : Snaps) (base candidate : Bytes) (cached gz : Bool) : List Point :=
  (match status sn.s candidate with | .found _ _ => [Point.C] | _ => []) ++
  (match weaklyCanonicalAt sn.s sn.c candidate with
   | .error _ => []
   | .ok resolved =>
     if !isContained base resolved then [] else
     [Point.R] ++
     (if !isRegularFile sn.r resolved || cached then [] else
      [Point.O] ++
      (match readFile sn.o resolved with
       | none => []
       | some _ =>
         if !gz then [] else
         [Point.G] ++ (if isRegularFile sn.g (resolved ++ Gen.Assets.gzSuffix) then [Point.Z] else []))))

def reachedStatic (sn : Snaps) (a : Assets) (path : Bytes) : List Point :=
  if lexicallyRejected path then [] else
  match a with
  | .filesystem st =>
    reachedFrom sn st.staticsRoot (pathAppend st.staticsRoot path) (!st.perRequest && (st.staticCache.lookup path).isSome) true
  | .embedded r =>
    match findStatic r path with
    | some _ => []
    | none =>
      if !r.externalDir.isEmpty && isExternalPath r path then
        match weaklyCanonical sn.s r.externalDir with
        | .error _ => []
        | .ok base => reachedFrom sn base (pathAppend r.externalDir path) false true
      else []

def reachedTemplate (sn : Snaps) (a : Assets) (name : Bytes) : List Point :=
  if lexicallyRejected name then [] else
  match a with
  | .filesystem st =>
    reachedFrom sn st.templatesRoot (pathAppend st.templatesRoot name) (st.templateCache.lookup name).isSome false
  | .embedded _ => []

end Iora.Assets
