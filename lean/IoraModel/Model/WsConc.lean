import IoraModel.Model.WsSkel
/-
A small-step model of APPLICATION THREADS running the WebSocket send paths concurrently, over the programs the
translator extracts from the source text (W5 under true concurrency).

A program is the skeleton of one function, compiled to the actions that matter for "no data frame after a close
frame": lock / unlock of the session mutex, read / write of the close flag, the early `return`, the hand-over of a data
(or ping) frame and of a close frame. A thread runs a sequence of such programs (one per call it makes; calls made from
callbacks are further programs of the same thread — callbacks run with no mutex held, `Skel.callbacksUnlocked`).
Any number of threads, any schedule. Mutexes are RAII guards: a `return` releases what the function holds.
-/
namespace Iora.Ws.Conc
open Iora.Ws.Skel

inductive Act where
  | lock | unlock | read | ret | write | sendData | sendClose | other
  deriving DecidableEq, Repr

/-- the action of one skeleton event w.r.t. mutex `m` and close flag `flag` -/
def act (m flag : String) : Evt → Act
  | (k, o, _) =>
    if k == "lock" && o == m then .lock
    else if k == "unlock" && o == m then .unlock
    else if k == "read" && o == flag then .read
    else if k == "return" then .ret
    else if k == "write" && o == flag ++ "=true" then .write
    else if k == "send" && dataKinds.contains o then .sendData
    else if k == "send" && o == "Close" then .sendClose
    else .other

def compile (m flag : String) (evs : List Evt) : List Act := evs.map (act m flag)

/-- the discipline, on the program text alone. `locked`: the mutex is held here; `rd`: the flag has been read in this
critical section; `rt`: and an early `return` followed that read; `w`: this program has set the flag. A data send needs
`locked ∧ rd ∧ rt`, a flag write needs `locked`, a close send needs `w`; the program ends with the mutex released. -/
def okProg : Bool → Bool → Bool → Bool → List Act → Bool
  | locked, _, _, _, [] => !locked
  | locked, rd, rt, w, a :: r =>
    match a with
    | .lock => !locked && okProg true false false w r
    | .unlock => locked && okProg false false false w r
    | .read => okProg locked locked false w r
    | .ret => okProg locked rd rd w r
    | .write => locked && okProg locked false false true r
    | .sendData => (locked && rd && rt) && okProg locked rd rt w r
    | .sendClose => w && okProg locked rd rt w r
    | .other => okProg locked rd rt w r

def ok (p : List Act) : Bool := okProg false false false false p

/-- one application thread: the rest of the program it is in, the programs of the calls it will make next, and what it
remembers: `rd` it read the flag in this critical section, `seen` the value it read, `armed` it passed the early return
with the flag clear, `w` it has set the flag in this program -/
structure Thr where
  prog : List Act := []
  next : List (List Act) := []
  rd : Bool := false
  seen : Bool := false
  armed : Bool := false
  w : Bool := false
  deriving Repr

structure St where
  flag : Bool := false            -- the close flag of the session
  owner : Option Nat := none      -- which thread holds the session mutex
  wire : List Bool := []          -- frames handed to the transport, in order: `true` = close frame, `false` = data frame
  thr : List Thr := []
  deriving Repr

def setThr (st : St) (t : Nat) (x : Thr) : St := { st with thr := st.thr.set t x }

/-- thread `t` finishes the current program (normally or by `return`): RAII releases the mutex if it holds it -/
def finish (st : St) (t : Nat) (x : Thr) : St :=
  { (setThr st t { x with prog := [], rd := false, armed := false }) with
    owner := if st.owner = some t then none else st.owner }

/-- one step of thread `t`; `c` resolves the choices the skeleton leaves open (an early `return` whose condition is not
the close flag: payload guards, unknown session, advisory state checks). A step that is not enabled changes nothing. -/
def step (st : St) (t : Nat) (c : Bool) : St :=
  match st.thr[t]? with
  | none => st
  | some x =>
    match x.prog with
    | [] =>
      match x.next with
      | [] => st
      | p :: ps => setThr st t { prog := p, next := ps }
    | a :: r =>
      match a with
      | .lock => if st.owner = none then { (setThr st t { x with prog := r, rd := false, armed := false }) with owner := some t } else st
      | .unlock => { (setThr st t { x with prog := r, rd := false, armed := false }) with owner := if st.owner = some t then none else st.owner }
      | .read => setThr st t { x with prog := r, rd := decide (st.owner = some t), seen := st.flag, armed := false }
      | .ret =>
        if x.rd && x.seen then finish st t x                 -- the flag was set: `return`
        else if c then finish st t x                         -- some other condition of the `return` holds
        else setThr st t { x with prog := r, armed := x.rd }
      | .write => { (setThr st t { x with prog := r, rd := false, armed := false, w := true }) with flag := true }
      | .sendData => { (setThr st t { x with prog := r }) with wire := st.wire ++ [false] }
      | .sendClose => { (setThr st t { x with prog := r }) with wire := st.wire ++ [true] }
      | .other => setThr st t { x with prog := r }

def run (st : St) : List (Nat × Bool) → St
  | [] => st
  | (t, c) :: rest => run (step st t c) rest

/-- no data frame (`false`) after a close frame (`true`) -/
def NoDataAfterCloseW : List Bool → Prop
  | [] => True
  | b :: rest => (b = true → ∀ x ∈ rest, x = true) ∧ NoDataAfterCloseW rest

/-- the initial state: the given threads, each about to make the given calls -/
def start (flag : Bool) (calls : List (List (List Act))) : St :=
  { flag := flag, thr := calls.map (fun cs => { next := cs }) }

end Iora.Ws.Conc
