import IoraModel.Common.Bytes
/-!
# Finite maps keyed by byte strings (association lists)

`std::unordered_map<std::string, T>` as used by `KVStore` (`_kv`, `_expiry`, `_cache`).  Core Lean only.
The iteration order of the real container is unspecified; everything observable is canonicalised (sorted)
by the drivers, and the theorems never depend on the order.
-/
namespace Iora.Kv

abbrev Key := Bytes
abbrev Val := Bytes

abbrev Map (β : Type) := List (Key × β)

namespace Map
variable {β : Type}

/-- `find(k)` -/
def get? : Map β → Key → Option β
  | [], _ => none
  | (k', v) :: r, k => if k' = k then some v else get? r k

/-- `erase(k)` -/
def erase : Map β → Key → Map β
  | [], _ => []
  | (k', v) :: r, k => if k' = k then erase r k else (k', v) :: erase r k

/-- `m[k] = v` -/
def put (m : Map β) (k : Key) (v : β) : Map β := (k, v) :: erase m k

def keys (m : Map β) : List Key := m.map (·.1)

def has (m : Map β) (k : Key) : Bool := (get? m k).isSome

end Map
end Iora.Kv
