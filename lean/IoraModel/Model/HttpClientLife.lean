import IoraModel.Model.HttpLease
/-!
# Around the retry loop of `http_client.hpp` (C17, extension round)

What `Model/HttpRetry.lean` takes as an input class and `Model/HttpLease.lean` as one atomic step, modelled here:

* `parseUrl` — the port: `std::stoi` (throws `std::out_of_range` beyond `int`) followed by `static_cast<std::uint16_t>`
  (wraps modulo 65536), default 80 / 443;
* `failLoop` — `performRequest` when every `executeRequest` call throws the same exception before it takes the lease
  (a URL that does not parse: the URL is the same on every attempt);
* `acquireLease`'s timed wait as a LOOP OF WAKE-UPS: `_cv.wait_for(lock, d, available)` is, by [thread.condition.condvar],
  `wait_until(lock, now() + d, available)`, i.e. `while (!pred()) if (wait_until(lock, abs) == timeout) return pred();` with ONE
  absolute deadline computed at entry — every `releaseLease` of every host does `notify_all` on the single `_cv`, so a
  waiter is woken arbitrarily often by exchanges with OTHER hosts;
* `cleanup()` and the permanent `_closing` flag.
-/
namespace Iora.HttpRetry
open Iora

/-! ## `parseUrl` -/

/-- what `parseUrl` looks at, as far as the host:port key and the failure class are concerned -/
structure UrlIn where
  wellFormed : Bool := true      -- `std::regex_match(url, match, compiledRegexes().url)`
  https : Bool := false          -- `match[1] == "https"`
  port : Option Nat := none      -- the `(\d+)` group as a number; `none` = no explicit port
  deriving Repr, DecidableEq

/-- mirrors http_client.hpp::parseUrl (the `port` member of the result, or the exception) -/
def parseUrlPort (u : UrlIn) : Except Exn Nat :=
  if !u.wellFormed then .error (exnOfName Gen.HttpRetry.urlFailThrow)
  else match u.port with
    | none => .ok (if u.https then Gen.HttpRetry.defaultPortHttps else Gen.HttpRetry.defaultPortHttp)
    | some p =>
      if p > Gen.HttpRetry.portParseMax then .error (exnOfName Gen.HttpRetry.portRangeThrow)   -- std::stoi
      else .ok (p % Gen.HttpRetry.portCastModulus)                                              -- static_cast<std::uint16_t>

/-- number of `executeRequest` calls `performRequest` makes when each of them throws `e` before taking the lease
(same dispatch / eligibility / budget code as `performLoop`) -/
def failLoop (m : String) (retries : Int) (e : Exn) : Nat → Nat → Nat
  | 0, _ => 0
  | fuel + 1, attempt =>
    match dispatch e with
    | .retry =>
      if !retryEligible m e then 1
      else if budgetExhausted attempt retries then 1
      else 1 + failLoop m retries e fuel (attempt + 1)
    | _ => 1

/-- `performRequest` for a URL whose parse fails with `e` -/
def failAttempts (m : String) (retries : Int) (e : Exn) : Nat := failLoop m retries e (retries.toNat + 2) 0

/-! ## The lease wait as a loop of wake-ups -/

/-- one return of the condition-variable wait (a `notify_all` of ANY `releaseLease`/`cleanup`, a spurious wake-up, or the
deadline): when the waiter runs again and what its predicate sees -/
structure Wake where
  time : Nat             -- time of the wake-up (ms since `acquireLease` was entered)
  free : Bool            -- `_leasedHosts.find(hostPort) == _leasedHosts.end()`
  closing : Bool := false -- `_closing`
  deriving Repr, DecidableEq

inductive LeaseOut where
  | granted (t : Nat)
  | timedOut (t : Nat)    -- "timed out acquiring connection lease"
  | closing (t : Nat)     -- "shutting down; cannot acquire connection lease"
  deriving Repr, DecidableEq

def LeaseOut.time : LeaseOut → Nat
  | .granted t => t
  | .timedOut t => t
  | .closing t => t

def LeaseOut.ans : LeaseOut → LeaseAns
  | .granted _ => .granted
  | .timedOut _ => .timedOut
  | .closing _ => .closing

/-- the deadline in force for a wait entered at `now` by a caller that entered `acquireLease` at `start`. The form is read
from the source (`Gen.leaseWaitForm`): `wait_for_pred` = `_cv.wait_for(lock, d, pred)` = ONE absolute deadline `start + d`;
any other form (e.g. a hand-written loop around `wait_for(lock, d)`) would re-arm a full `d` at every wake-up. -/
def leaseDeadline (start now d : Nat) : Nat :=
  if Gen.HttpRetry.leaseWaitForm = "wait_for_pred" then start + d else now + d

/-- what the predicate decides at a wake-up at time `t` -/
def wakeOutcome (w : Wake) (t : Nat) : Option LeaseOut :=
  if w.closing then some (.closing t) else if w.free then some (.granted t) else none

/-- mirrors `_cv.wait_for(lock, leaseAcquireTimeout, available)` + the throw / `_closing` test after it, for `d > 0`:
`now` = time of the last wake-up. After the listed wake-ups nothing wakes the waiter any more: the wait runs into its
deadline with the predicate still false. -/
def leaseLoop (d start : Nat) : Nat → List Wake → LeaseOut
  | now, [] => .timedOut (max now (leaseDeadline start now d))
  | now, w :: ws =>
    let dl := leaseDeadline start now d
    let t := max now w.time
    if t < dl then
      match wakeOutcome w t with
      | some o => o
      | none => leaseLoop d start t ws
    else
      -- `wait_until(lock, abs)` reports `timeout`: `return pred();` decides with what is true at the deadline
      match wakeOutcome w (max now dl) with
      | some o => o
      | none => .timedOut (max now dl)

/-- mirrors http_client.hpp::acquireLease with `leaseAcquireTimeout = d > 0`; `free0`/`closing0` = the predicate at entry -/
def acquireLeaseTimed (d : Nat) (free0 closing0 : Bool) (wakes : List Wake) : LeaseOut :=
  if closing0 then .closing 0 else if free0 then .granted 0 else leaseLoop d 0 0 wakes

/-- the wake-ups a same-host waiter gets from a caller that completes an exchange with ANOTHER host every `step` ms
(each `releaseLease` → `notify_all`): the host stays leased -/
def foreignWakes (step : Nat) : Nat → Nat → List Wake
  | 0, _ => []
  | n + 1, i => { time := (i + 1) * step, free := false } :: foreignWakes step n (i + 1)

/-- first round `r ≥ 1` (of at most `n`) with `r * step ≥ t`; `n + 1` if none -/
def roundOf (step t : Nat) : Nat → Nat → Nat
  | 0, i => i + 1
  | n + 1, i => if (i + 1) * step ≥ t then i + 1 else roundOf step t n (i + 1)

/-! ## `cleanup()` and `_closing` -/

structure LClient where
  client : Client := {}
  closing : Bool := false        -- `_closing` (never reset)
  deriving Repr

/-- mirrors http_client.hpp::cleanup: `_closing = true; notify_all; close every cached session; _transport->stop();
_connections.clear()` (which of the steps are present is read from the source) -/
def cleanup (lc : LClient) : LClient × List Ev :=
  ({ client := { lc.client with conns := if Gen.HttpRetry.cleanupSteps.contains "clear" then [] else lc.client.conns },
     closing := lc.closing || Gen.HttpRetry.cleanupSteps.contains "closing" },
   if Gen.HttpRetry.cleanupSteps.contains "closeAll" then lc.client.conns.map (fun p => Ev.close p.2) else [])

/-- `_closing` decides the lease answer of every attempt: `available()` is true at once and the test after the wait throws -/
def forceClosing (rq : Request) : Request :=
  { rq with script := fun i => { rq.script i with lease := .closing } }

/-- mirrors http_client.hpp::performRequest on a client that may have been cleaned up -/
def performRequestL (cfg : Cfg) (lc : LClient) (rq : Request) : Run :=
  performRequest cfg lc.client (if lc.closing then forceClosing rq else rq)

/-- mirrors the prefix of http_client.hpp::performRequest — `{ lock_guard; ensureInitialized(); }`, BEFORE `int attempt = 0`: when the
transport cannot be started (`startOk = false`) an exception leaves `performRequest` before the first attempt: no `executeRequest`
call, no back-off, nothing on the engine -/
def performRequestS (cfg : Cfg) (lc : LClient) (startOk : Bool) (rq : Request) : Run :=
  if startOk then performRequestL cfg lc rq
  else { client := lc.client, result := .error (exnOfName Gen.HttpRetry.startFailThrow), evs := [], log := [] }

end Iora.HttpRetry
