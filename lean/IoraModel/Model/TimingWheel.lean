/-
Model of `include/iora/core/timing_wheel.hpp` (class `TimingWheel`), property C08.

Time points are `Int` NANOSECONDS (what `steady_clock::time_point` holds), delays and the tick are `Int`
MILLISECONDS (`std::chrono::milliseconds`); `duration_cast<milliseconds>` and `/` on `count()` are C++ integer
divisions, i.e. truncation toward zero = `Int.tdiv`.

State = ONE flat list of linked entries in global insertion order; every entry carries the coordinates
`(level, bucket)` of the bucket it is linked in (`TimerEntry::wheelLevel/bucketIndex`).  A bucket is the filtered
sub-list: `Bucket::pushBack` = append to the flat list, `Bucket::unlink` = erase by id, so the order of the
intrusive list of a bucket is exactly the relative order inside the flat list, and `_entryMap` is lookup by id.

The model follows the code AS REPAIRED by fixes F21 (deadline test + re-insert in `collectFromBucket`),
F22 (`cascadeDown` detaches the bucket before walking it) and F32 (`schedule` re-tests `_accepting` under
`_wheelMutex`).  The walk of the unrepaired `cascadeDown` (dynamic `next` pointers) is kept at the end of the file
as `legacyWalk`, only to exhibit the livelock the repair removes.

Not modelled: the callback pool/free list, the dispatcher, the error
callback, wrap-around of `size_t` tick counters.  64-bit nanosecond arithmetic: deadlines are computed by the saturating
`deadlineAfter` (repair FC08c), so for clock values `0 ≤ now ≤ tpMax` no deadline computation wraps, whatever the delay.
-/
namespace Iora.Wheel

/-- nanoseconds per millisecond (`std::chrono` conversion factor) -/
def nsPerMs : Int := 1000000

/-- constructor arguments `(tickDuration, ticksPerWheel, numWheels)`; the constructor asserts
`ticksPerWheel` is a non-zero power of two and `numWheels > 0` -/
structure Cfg where
  tick : Int
  slots : Nat
  levels : Nat
  deriving DecidableEq, Repr

/-- what the constructor asserts (`assert(ticksPerWheel > 0 && (ticksPerWheel & (ticksPerWheel - 1)) == 0); assert(numWheels > 0)`) plus a
positive tick (the C++ divides by `_tickDuration.count()`).  The model is total for every `Cfg` (`n % 0 = n`, `Int.tdiv x 0 = 0` in
Lean), but it describes the C++ only for valid ones: `& _tickMask` is `% slots` only for a power of two (`W0_mask_is_mod`), and a
zero tick is a division by zero in C++.  The drivers refuse invalid geometries; the theorems that need it say so. -/
def Cfg.Valid (c : Cfg) : Prop := 0 < c.tick ∧ 0 < c.levels ∧ ∃ k, c.slots = 2 ^ k

/-- `struct TimerEntry` without the callback and the list pointers -/
structure Entry where
  id : Nat
  deadline : Int
  level : Nat
  bucket : Nat
  deriving DecidableEq, Repr

/-- `enum class TimingWheelState` (RESET is reachable only through `reset()`) -/
inductive LState where
  | created | running | draining | stopped | reset
  deriving DecidableEq, Repr

structure Wheel where
  /-- all linked entries, global insertion order -/
  entries : List Entry := []
  /-- `_wheels[l].currentTick` -/
  cur : List Nat := []
  /-- `_lastAdvanceTime` (`TimePoint{}` = not set) -/
  lastAdvance : Option Int := none
  nextId : Nat := 1
  accepting : Bool := false
  state : LState := .created
  deriving Repr

/-- mirrors the constructor -/
def Wheel.init (c : Cfg) : Wheel := { cur := List.replicate c.levels 0 }

/-- `_wheels[l].currentTick`; `l` is always a valid level (theorem `Inv.wf`: `cur.length = levels`, every use has `l < levels`) -/
def curAt (w : Wheel) (l : Nat) : Nat :=
  match w.cur[l]? with
  | some t => t
  | none => 0

def setCur (w : Wheel) (l v : Nat) : Wheel := { w with cur := w.cur.set l v }

def inBucket (l b : Nat) (e : Entry) : Bool := e.level == l && e.bucket == b

/-- the `while (level < _numWheels - 1 && ticks >= levelCap)` loop of `insertEntry`; fuel `levels` is enough because the level grows -/
def climb (c : Cfg) : Nat → Nat → Nat → Nat × Nat
  | 0, lvl, t => (lvl, t)
  | f + 1, lvl, t => if lvl + 1 < c.levels ∧ c.slots ≤ t then climb c f (lvl + 1) (t / c.slots) else (lvl, t)

/-- mirrors `insertEntry(entry, delay)`: level and bucket from the delay, `pushBack` -/
def insertEntry (c : Cfg) (w : Wheel) (id : Nat) (deadline delayMs : Int) : Wheel :=
  let ticks := Int.tdiv delayMs c.tick
  if ticks ≤ 0 then
    { w with entries := w.entries ++ [⟨id, deadline, 0, curAt w 0 % c.slots⟩] }
  else
    let p := climb c c.levels 0 ticks.toNat
    { w with entries := w.entries ++ [⟨id, deadline, p.1, (curAt w p.1 + p.2) % c.slots⟩] }

/-- `_entryMap.find(id)` + `unlinkEntry`: the entry and the list without it -/
def unlink (id : Nat) : List Entry → Option (Entry × List Entry)
  | [] => none
  | e :: es =>
    if e.id = id then some (e, es)
    else match unlink id es with
      | none => none
      | some (x, r) => some (x, e :: r)

/-- `TimePoint::max()`: the largest value a `steady_clock::time_point` (int64 nanoseconds) holds -/
def tpMax : Int := 9223372036854775807

/-- mirrors `deadlineAfter(now, delay)` (repair FC08c): `now + std::clamp(delay, -behind, ahead)` with
`ahead = duration_cast<milliseconds>(TimePoint::max() - now)`, `behind = duration_cast<milliseconds>(now.time_since_epoch())`;
`std::clamp(v, lo, hi) = v < lo ? lo : hi < v ? hi : v`.
For `0 ≤ now ≤ tpMax` the result lies in `[0, tpMax]` and no intermediate value leaves the int64 range (`deadlineAfter_bounds`), it is
`now + delay` whenever that is a representable time point at or after the epoch (`deadlineAfter_exact`), and within one millisecond of
`tpMax` when `now + delay` is beyond it (`deadlineAfter_saturates`). -/
def deadlineAfter (now delayMs : Int) : Int :=
  let ahead := Int.tdiv (tpMax - now) nsPerMs
  let behind := Int.tdiv now nsPerMs
  now + (if delayMs < -behind then -behind else if ahead < delayMs then ahead else delayMs) * nsPerMs

/-- mirrors `schedule(delay, cb)`; `now` is the value `Clock::now()` returns inside the call -/
def schedule (c : Cfg) (w : Wheel) (now delayMs : Int) : Wheel × Nat :=
  if !w.accepting then (w, 0)
  else
    let id := w.nextId
    (insertEntry c { w with nextId := id + 1 } id (deadlineAfter now delayMs) delayMs, id)

/-- mirrors `cancel(id)` -/
def cancel (w : Wheel) (id : Nat) : Wheel × Bool :=
  match unlink id w.entries with
  | none => (w, false)
  | some (_, rest) => ({ w with entries := rest }, true)

/-- mirrors `reschedule(id, newDelay)` -/
def reschedule (c : Cfg) (w : Wheel) (now : Int) (id : Nat) (delayMs : Int) : Wheel × Bool :=
  match unlink id w.entries with
  | none => (w, false)
  | some (_, rest) => (insertEntry c { w with entries := rest } id (deadlineAfter now delayMs) delayMs, true)

/-- first loop of the repaired `collectFromBucket`/`cascadeDown`: unlink every entry of the bucket into `pending` -/
def detach (w : Wheel) (l b : Nat) : List Entry × Wheel :=
  (w.entries.filter (inBucket l b), { w with entries := w.entries.filter (fun e => !inBucket l b e) })

/-- one iteration of the second loop of `collectFromBucket` (F21 repair: more than one tick early ⇒ re-insert) -/
def collectOne (c : Cfg) (now : Int) (s : Wheel × List Entry) (e : Entry) : Wheel × List Entry :=
  if e.deadline - now > c.tick * nsPerMs then
    (insertEntry c s.1 e.id e.deadline (Int.tdiv (e.deadline - now) nsPerMs), s.2)
  else (s.1, s.2 ++ [e])

/-- mirrors `collectFromBucket(level0.buckets[currentTick & mask], now, toFire)` -/
def collectFromBucket (c : Cfg) (now : Int) (s : Wheel × List Entry) : Wheel × List Entry :=
  let d := detach s.1 0 (curAt s.1 0 % c.slots)
  d.1.foldl (collectOne c now) (d.2, s.2)

/-- one iteration of the second loop of `cascadeDown` -/
def cascadeOne (c : Cfg) (now : Int) (s : Wheel × List Entry) (e : Entry) : Wheel × List Entry :=
  if e.deadline ≤ now then (s.1, s.2 ++ [e])
  else (insertEntry c s.1 e.id e.deadline (Int.tdiv (e.deadline - now) nsPerMs), s.2)

/-- mirrors `cascadeDown(level, now, toFire)`; the recursion climbs one level per call, fuel `levels` is enough
(`cascadeDown_fuel`); fuel 0 coincides with the `level >= _numWheels` return -/
def cascadeDown (c : Cfg) (now : Int) : Nat → Nat → Wheel × List Entry → Wheel × List Entry
  | 0, _, s => s
  | fuel + 1, lvl, s =>
    if c.levels ≤ lvl then s
    else
      let d := detach s.1 lvl (curAt s.1 lvl % c.slots)
      let s1 := d.1.foldl (cascadeOne c now) (d.2, s.2)
      let w2 := setCur s1.1 lvl (curAt s1.1 lvl + 1)
      if curAt w2 lvl % c.slots = 0 then cascadeDown c now fuel (lvl + 1) (w2, s1.2) else (w2, s1.2)

/-- body of the `for (t < ticksToProcess)` loop of `advance` -/
def tickOnce (c : Cfg) (now : Int) (s : Wheel × List Entry) : Wheel × List Entry :=
  let s1 := collectFromBucket c now s
  let w2 := setCur s1.1 0 (curAt s1.1 0 + 1)
  if curAt w2 0 % c.slots = 0 then cascadeDown c now c.levels 1 (w2, s1.2) else (w2, s1.2)

def tickLoop (c : Cfg) (now : Int) : Nat → Wheel × List Entry → Wheel × List Entry
  | 0, s => s
  | n + 1, s => tickLoop c now n (tickOnce c now s)

/-- "tick drift catch-up" computation of `advance` -/
def ticksToProcess (c : Cfg) (w : Wheel) (now : Int) : Nat :=
  match w.lastAdvance with
  | none => 1
  | some la =>
    let et := Int.tdiv (Int.tdiv (now - la) nsPerMs) c.tick
    if et > 1 then et.toNat else 1

/-- mirrors `advance()`: the new wheel and the entries handed to `fireCallback`, in order -/
def advance (c : Cfg) (w : Wheel) (now : Int) : Wheel × List Entry :=
  tickLoop c now (ticksToProcess c w now) ({ w with lastAdvance := some now }, [])

/-- mirrors `start()` minus the thread: only from CREATED or RESET (the two `compare_exchange_strong`) -/
def start (w : Wheel) (now : Int) : Wheel :=
  if w.state = .created ∨ w.state = .reset then { w with accepting := true, lastAdvance := some now, state := .running } else w

/-- mirrors `reset()`: the code asserts STOPPED (any other state is a contract violation of the caller: no transition here);
`clearAllEntries()`, every `currentTick = 0`, `_lastAdvanceTime = TimePoint{}`, **`_nextId = 1`** (ids restart), state RESET.
`_accepting` is not touched (it is false in every STOPPED state, `Inv.acc`). -/
def reset (w : Wheel) : Wheel :=
  if w.state = .stopped then
    { w with entries := [], cur := List.replicate w.cur.length 0, lastAdvance := none, nextId := 1, state := .reset }
  else w

def insertSorted (e : Entry) : List Entry → List Entry
  | [] => [e]
  | x :: xs => if e.deadline < x.deadline then e :: x :: xs else x :: insertSorted e xs

/-- `std::sort` by deadline (ties: unspecified in C++, stable here; every consumer is order-insensitive on ties) -/
def sortByDeadline (l : List Entry) : List Entry := l.foldr insertSorted []

structure DrainOut where
  fired : List Entry
  remaining : List Entry
  cancelled : List Entry
  deriving Repr

/-- mirrors `drain(timeout)`: everything is unlinked; entries with `deadline <= now` fire in deadline order until the
timeout check fails (`budget` = how many callbacks run before it does: any value is possible), later ones are discarded -/
def drain (w : Wheel) (now : Int) (budget : Nat) : Wheel × DrainOut :=
  let all := sortByDeadline w.entries
  let due := all.filter (fun e => decide (e.deadline ≤ now))
  let fut := all.filter (fun e => !decide (e.deadline ≤ now))
  ({ w with entries := [], accepting := false, state := .stopped },
   { fired := due.take budget, remaining := due.drop budget, cancelled := fut })

/-- mirrors `stop()`: refuses new timers, clears every entry (returned here as ghost output) -/
def stop (w : Wheel) : Wheel × List Entry :=
  ({ w with entries := [], accepting := false, state := .stopped }, w.entries)

/-! ### the wheel as a step system (DESIGN §6.2): the clock value read inside each call is an input -/

inductive Op where
  | start (now : Int)
  | sched (now delayMs : Int)
  | cancel (id : Nat)
  | resched (now : Int) (id : Nat) (delayMs : Int)
  | adv (now : Int)
  | drain (now : Int) (budget : Nat)
  | stop
  deriving Repr

inductive Out where
  | ok
  | id (n : Nat)
  | bool (b : Bool)
  | fired (es : List Entry)
  | drained (d : DrainOut)
  | cleared (es : List Entry)
  deriving Repr

def step (c : Cfg) (w : Wheel) : Op → Wheel × Out
  | .start now => (start w now, .ok)
  | .sched now d => let r := schedule c w now d; (r.1, .id r.2)
  | .cancel id => let r := cancel w id; (r.1, .bool r.2)
  | .resched now id d => let r := reschedule c w now id d; (r.1, .bool r.2)
  | .adv now => let r := advance c w now; (r.1, .fired r.2)
  | .drain now b => let r := drain w now b; (r.1, .drained r.2)
  | .stop => let r := stop w; (r.1, .cleared r.2)

abbrev Hist := List (Op × Out)

/-- run a list of operations, appending `(op, answer)` to the history -/
def runFrom (c : Cfg) : Wheel → Hist → List Op → Wheel × Hist
  | w, h, [] => (w, h)
  | w, h, op :: ops => runFrom c (step c w op).1 (h ++ [(op, (step c w op).2)]) ops

def run (c : Cfg) (ops : List Op) : Wheel × Hist := runFrom c (Wheel.init c) [] ops

/-- the `(op, answer)` pairs produced by running `ops` from `w` -/
def trace (c : Cfg) : Wheel → List Op → Hist
  | _, [] => []
  | w, op :: ops => (op, (step c w op).2) :: trace c (step c w op).1 ops

/-! ### observation functions on histories (the vocabulary of the C08 theorems) -/

/-- the timer id a step handed out -/
def issuedOf : Op × Out → List Nat
  | (.sched _ _, .id n) => if n = 0 then [] else [n]
  | _ => []

/-- ids whose callback a step handed to `fireCallback` -/
def firedOf : Op × Out → List Nat
  | (_, .fired es) => es.map (·.id)
  | (_, .drained d) => d.fired.map (·.id)
  | _ => []

/-- ids that left the wheel in a step, by any route: fired, cancelled (`cancel` = true), drained, cleared by `stop` -/
def leftOf : Op × Out → List Nat
  | (.cancel id, .bool true) => [id]
  | (_, .fired es) => es.map (·.id)
  | (_, .drained d) => (d.fired ++ d.remaining ++ d.cancelled).map (·.id)
  | (_, .cleared es) => es.map (·.id)
  | _ => []

def issued (h : Hist) : List Nat := h.flatMap issuedOf
def fired (h : Hist) : List Nat := h.flatMap firedOf
def left (h : Hist) : List Nat := h.flatMap leftOf

/-- the deadline the CALLER asked for, from the history alone: `now + delay` (saturated by `deadlineAfter` at the end of the
clock's range: equal to `now + delay` whenever that is representable, `deadlineAfter_exact`) of the latest successful
`schedule`/`reschedule` of the id -/
def deadlineUpd (d : Nat → Option Int) : Op × Out → Nat → Option Int
  | (.sched now delay, .id n) => fun i => if n ≠ 0 ∧ i = n then some (deadlineAfter now delay) else d i
  | (.resched now id delay, .bool true) => fun i => if i = id then some (deadlineAfter now delay) else d i
  | _ => d

def lastDeadline (h : Hist) : Nat → Option Int := h.foldl deadlineUpd (fun _ => none)

/-! ### `schedule()` racing `stop()` (F32): the two calls as programs over the shared flag and `_wheelMutex` -/

namespace Race

inductive SPc where
  | test        -- `if (!_accepting.load()) return InvalidTimerId;`  (lock-free)
  | lock        -- `std::lock_guard lock(_wheelMutex);`
  | retest      -- the re-test under the lock (a no-op when the code has none)
  | insert      -- allocEntry .. `_entryMap[id] = entry`, unlock, `return id`
  | refused     -- returned InvalidTimerId
  | accepted    -- returned a valid id
  deriving DecidableEq, Repr

inductive TPc where
  | flag        -- `_accepting.store(false)`
  | lock        -- `clearAllEntries()`: lock
  | clear       -- clear every bucket and `_entryMap`, unlock
  | done        -- `stop()` has returned
  deriving DecidableEq, Repr

structure St where
  s : SPc := .test
  t : TPc := .flag
  accepting : Bool := true
  /-- `_wheelMutex` owner: `none`, `some false` = scheduler, `some true` = stopper -/
  owner : Option Bool := none
  /-- the scheduler's entry is linked in the wheel -/
  stored : Bool := false
  deriving DecidableEq, Repr

/-- one step of the scheduling thread (a blocked `lock` is a stutter) -/
def stepS (recheck : Bool) (x : St) : St :=
  match x.s with
  | .test => if x.accepting then { x with s := .lock } else { x with s := .refused }
  | .lock => if x.owner = none then { x with s := .retest, owner := some false } else x
  | .retest => if recheck && !x.accepting then { x with s := .refused, owner := none } else { x with s := .insert }
  | .insert => { x with s := .accepted, stored := true, owner := none }
  | .refused => x
  | .accepted => x

/-- one step of the thread running `stop()` -/
def stepT (x : St) : St :=
  match x.t with
  | .flag => { x with t := .lock, accepting := false }
  | .lock => if x.owner = none then { x with t := .clear, owner := some true } else x
  | .clear => { x with t := .done, stored := false, owner := none }
  | .done => x

/-- a schedule is the list of thread choices (`false` = scheduler, `true` = stopper) -/
def runSched (recheck : Bool) : St → List Bool → St
  | x, [] => x
  | x, b :: bs => runSched recheck (if b then stepT x else stepS recheck x) bs

end Race

/-! ### the unrepaired walk of `cascadeDown` (for the record of F22 only; not part of `step`) -/

/-- successor of `id` inside bucket `(l, b)` in the CURRENT list: what `entry->next` holds when it is read -/
def nextIn (w : Wheel) (l b id : Nat) : Option Nat :=
  match (w.entries.filter (inBucket l b)).dropWhile (fun e => e.id != id) with
  | _ :: e :: _ => some e.id
  | _ => none

/-- the pre-repair loop `while (entry) { next = entry->next; unlink; fire or insertEntry; entry = next; }` over the LIVE
bucket: `none` = fuel exhausted, i.e. the C++ loop has not terminated after `fuel` iterations -/
def legacyWalk (c : Cfg) (now : Int) (l b : Nat) : Nat → Wheel → Option Nat → List Nat → Option (Wheel × List Nat)
  | _, w, none, fired => some (w, fired)
  | 0, _, some _, _ => none
  | f + 1, w, some id, fired =>
    match unlink id w.entries with
    | none => some (w, fired)
    | some (e, rest) =>
      let nx := nextIn w l b id
      let w1 := { w with entries := rest }
      if e.deadline ≤ now then legacyWalk c now l b f w1 nx (fired ++ [id])
      else legacyWalk c now l b f (insertEntry c w1 id e.deadline (Int.tdiv (e.deadline - now) nsPerMs)) nx fired

end Iora.Wheel
