import IoraModel.Model.HttpRespondBase
/-
Model of the response path of `iora::network::HttpServer` (include/iora/network/http_server.hpp) for C16:
`processHttpRequest` as a decision procedure `(server, environment, extracted request bytes) → Outcome`.

It starts where the framing property (C15) ends: "a complete request was extracted" (the `requestData` string handed to
`processHttpRequest`).  Inside the model: `HttpRequest::fromWireFormat` as far as it decides the status of the error arm
(request line, header lines, Host rules — http_message.hpp), query stripping, the Upgrade hook, routing
(`splitPath / compilePattern / patternMatches / matchInMethodVector / classifyRequest / getAllowedMethods`),
`invokeWithSafetyNet`, suppression, HEAD stripping and 204/304 reconciliation, the Connection decision, response assembly,
`HttpResponse::toWireFormat`, the three guarded send blocks (shutdown arm, normal, error arm) and `sendErrorResponse`
(pool overflow).  Handlers are arbitrary functions; every literal comes from `Gen/HttpRespond.lean`.
-/
namespace Iora.HttpRespond
open Iora
open Iora.Gen.HttpRespond (maxRequestTargetSize)

/-! ## request parsing (`HttpRequest::fromWireFormat`) -/

/-- `enum class HttpMethod` -/
inductive Method where
  | GET | POST | PUT | DELETE | HEAD | OPTIONS | PATCH | CONNECT | TRACE
  deriving DecidableEq, Repr

def Method.all : List Method := [.GET, .POST, .PUT, .DELETE, .HEAD, .OPTIONS, .PATCH, .CONNECT, .TRACE]

def Method.name : Method → String
  | .GET => "GET" | .POST => "POST" | .PUT => "PUT" | .DELETE => "DELETE" | .HEAD => "HEAD"
  | .OPTIONS => "OPTIONS" | .PATCH => "PATCH" | .CONNECT => "CONNECT" | .TRACE => "TRACE"

def Method.ofName (s : String) : Option Method := Method.all.find? (fun m => m.name == s)

/-- what `fromWireFormat` throws: `HttpRequestError(status)` or something else (`std::invalid_argument`) -/
inductive ParseErr where
  | request (status : Nat)
  | other
  deriving DecidableEq, Repr

structure ParsedReq where
  method : Method := .GET
  uri : Bytes := []
  major : Nat := 1
  minor : Nat := 1
  headers : Headers := []
  body : Bytes := []
  deriving Repr

/-- mirrors `isHttpToken`'s per-character test -/
def isTchar (c : UInt8) : Bool :=
  decide (65 ≤ c.toNat ∧ c.toNat ≤ 90) || decide (97 ≤ c.toNat ∧ c.toNat ≤ 122) || isDigit c ||
  (ascii Gen.HttpRespond.tcharPunct).contains c

def isHttpToken (s : Bytes) : Bool := !s.isEmpty && s.all isTchar

/-- mirrors `parseMethod`: exact table, then 400 for a non-token and 501 for an unknown token -/
def parseMethod (tok : Bytes) : Except ParseErr Method :=
  match Gen.HttpRespond.parseMethodTable.find? (fun e => ascii e.1 == tok) with
  | some e =>
    match Method.ofName e.2 with
    | some m => .ok m
    | none => .error .other
  | none =>
    if !isHttpToken tok then .error (.request Gen.HttpRespond.stMalformedMethodToken)
    else .error (.request Gen.HttpRespond.stUnknownMethod)

/-- mirrors `HttpVersion::parse`: exactly `HTTP/d.d` -/
def parseVersion (v : Bytes) : Option (Nat × Nat) :=
  match v with
  | [72, 84, 84, 80, 47, a, 46, b] =>
    if isDigit a && isDigit b then some (a.toNat - 48, b.toNat - 48) else none
  | _ => none

/-- mirrors `parseRequestLine`, checks in source order -/
def parseRequestLine (line : Bytes) : Except ParseErr (Method × Bytes × Nat × Nat) :=
  match splitFirst 32 line with
  | none => .error (.request Gen.HttpRespond.stLineShape)
  | some (m, rest) =>
    match splitFirst 32 rest with
    | none => .error (.request Gen.HttpRespond.stLineShape)
    | some (t, v) =>
      if m.isEmpty || t.isEmpty || v.isEmpty then .error (.request Gen.HttpRespond.stLineShape)
      else if m.any (fun c => decide (c.toNat < 0x21)) then .error (.request Gen.HttpRespond.stMethodWs)
      else if v.any (fun c => decide (c.toNat < 0x21)) then .error (.request Gen.HttpRespond.stVersionWs)
      else if t.length > maxRequestTargetSize then .error (.request Gen.HttpRespond.stTargetTooLong)
      else if t.any (fun c => decide (c.toNat < 0x20 ∨ c.toNat = 0x7F)) then .error (.request Gen.HttpRespond.stTargetCtl)
      else
        match parseMethod m with
        | .error e => .error e
        | .ok meth =>
          match parseVersion v with
          | none => .error (.request Gen.HttpRespond.stBadVersion)
          | some (maj, mnr) =>
            if maj ≠ Gen.HttpRespond.supportedMajor then .error (.request Gen.HttpRespond.stUnsupportedMajor)
            else .ok (meth, t, maj, mnr)

def isListValued (name : Bytes) : Bool := Gen.HttpRespond.listValuedHeaders.any (fun s => ciEq (ascii s) name)

/-- mirrors `detail::addOrCombineHeader` -/
def addOrCombine (h : Headers) (k v : Bytes) : Headers :=
  match hFind h k with
  | none => hSet h k v
  | some old =>
    if isListValued k then
      if v.isEmpty then h
      else if old.isEmpty then hSet h k v
      else hSet h k (old ++ ascii ", " ++ v)
    else hSet h k v

/-- strip one trailing CR (`if (!line.empty() && line.back() == '\r') line.pop_back()`) -/
def stripCR (line : Bytes) : Bytes :=
  match line.getLast? with
  | some 13 => line.dropLast
  | _ => line

/-- is the last byte SP or HTAB? -/
def wsLast (k : Bytes) : Bool :=
  match k.getLast? with
  | some c => c == 32 || c == 9
  | none => false

/-- the header-line loop of `fromWireFormat` (all lines after the first): headers so far, Host count -/
def parseHeaderLines : List Bytes → Headers → Nat → Except ParseErr (Headers × Nat)
  | [], h, n => .ok (h, n)
  | l :: ls, h, n =>
    let line := stripCR l
    match line with
    | [] => parseHeaderLines ls h n
    | c :: _ =>
      if c == 32 || c == 9 then .error (.request Gen.HttpRespond.stObsFold)
      else
        match splitFirst 58 line with
        | none => parseHeaderLines ls h n
        | some (k, v) =>
          -- `colonPos > 0 && (line[colonPos - 1] == ' ' || line[colonPos - 1] == '\t')`: whitespace between field name and colon
          -- (RFC 9112 §5.1) is a 400 — if the translator found that test (FC15d), otherwise the name is trimmed and accepted
          if Gen.HttpRespond.rejectWsBeforeColon && wsLast k then .error (.request Gen.HttpRespond.stWsBeforeColon)
          else
            let name := trim k
            let n' := if ciEq name (ascii "Host") then n + 1 else n
            parseHeaderLines ls (addOrCombine h name (trim v)) n'

/-- mirrors `HttpRequest::fromWireFormat` -/
def fromWireFormat (data : Bytes) : Except ParseErr ParsedReq :=
  match splitAtSub crlf2 data with
  | none => .error .other
  | some (headerSection, body) =>
    let lines := getlines 10 headerSection
    let first : Except ParseErr ParsedReq :=
      match lines with
      | [] => .ok { body := body }
      | l :: _ =>
        match parseRequestLine (stripCR l) with
        | .error e => .error e
        | .ok (m, t, maj, mnr) => .ok { method := m, uri := t, major := maj, minor := mnr, body := body }
    match first with
    | .error e => .error e
    | .ok r =>
      match parseHeaderLines lines.tail [] 0 with
      | .error e => .error e
      | .ok (h, hostCount) =>
        if hostCount > 1 then .error (.request Gen.HttpRespond.stMultipleHost)
        else if r.minor ≥ 1 && hostCount == 0 then .error (.request Gen.HttpRespond.stMissingHost)
        else if hostCount ≥ 1 && (hFind h (ascii "Host") == some []) then .error (.request Gen.HttpRespond.stEmptyHost)
        else .ok { r with headers := h }

/-! ## requests, responses, handlers -/

/-- `HttpServer::Request` as a handler sees it -/
structure Req where
  method : Method
  path : Bytes
  headers : Headers
  body : Bytes
  params : List (Bytes × Bytes) := []
  pathRest : Bytes := []
  deriving Repr

/-- `HttpServer::Response` -/
structure Resp where
  status : Int := 200
  headers : Headers := []
  body : Bytes := []
  suppress : Bool := false
  deriving Repr

/-- mirrors `Response::set_content` (both overloads) -/
def Resp.setContent (r : Resp) (content ctype : Bytes) : Resp :=
  { r with body := content,
           headers := hSet (hSet r.headers (ascii "Content-Type") ctype) (ascii "Content-Length") (dec content.length) }

/-- mirrors `Response::set_header` -/
def Resp.setHeader (r : Resp) (k v : Bytes) : Resp := { r with headers := hSet r.headers k v }

/-- A handler is arbitrary user code: it receives the request and the pre-filled response and either returns or throws,
    leaving the response object in some state. -/
structure HandlerOut where
  res : Resp
  threw : Bool := false
  /-- what was thrown is not a `std::exception` (matters only for the subclass seams; the handler safety net has `catch (...)`) -/
  nonStd : Bool := false

/-- what a subclass seam (a virtual hook called by `processHttpRequest`) does: return a value, or throw — a `std::exception`
    (`std := true`) or anything else -/
inductive Seam (α : Type) where
  | ret (a : α)
  | threw (std : Bool)

abbrev Handler := Req → Resp → HandlerOut

/-- mirrors `invokeWithSafetyNet` -/
def invokeWithSafetyNet (h : Handler) (req : Req) (res : Resp) : Resp :=
  let o := h req res
  if o.threw then
    { (({ o.res with status := (Gen.HttpRespond.stHandlerThrew : Nat) } : Resp).setContent
        (ascii Gen.HttpRespond.bodyHandlerThrew) (ascii Gen.HttpRespond.textPlain)) with suppress := false }
  else o.res

/-! ## routing -/

structure Segment where
  isParam : Bool
  text : Bytes
  deriving DecidableEq, Repr

inductive PatternKind where
  | exact | named | wildcard
  deriving DecidableEq, Repr

structure Pattern where
  kind : PatternKind
  raw : Bytes
  segments : List Segment
  deriving DecidableEq, Repr

/-- mirrors `splitPath` (split on '/', all empty tokens kept) -/
def splitPath (p : Bytes) : List Bytes := splitOn 47 p

def isAlpha (c : UInt8) : Bool := decide (65 ≤ c.toNat ∧ c.toNat ≤ 90) || decide (97 ≤ c.toNat ∧ c.toNat ≤ 122)

/-- mirrors `isValidIdentifier` ("C" locale) -/
def isValidIdentifier (s : Bytes) : Bool :=
  match s with
  | [] => false
  | c :: cs => (isAlpha c || c == 95) && cs.all (fun d => isAlpha d || isDigit d || d == 95)

/-- the token loop of `compilePattern`: `none` = `std::invalid_argument`; result = (segments, hasNamed, hasWildcard) -/
def compileToks : List Bytes → Option (List Segment × Bool × Bool)
  | [] => some ([], false, false)
  | tok :: rest =>
    if tok == [42] then
      if rest.isEmpty then some ([], false, true) else none
    else if tok.contains 42 then none
    else
      match tok with
      | 58 :: name =>
        if !isValidIdentifier name then none
        else (compileToks rest).map (fun (s, _, w) => ({ isParam := true, text := name } :: s, true, w))
      | _ => (compileToks rest).map (fun (s, n, w) => ({ isParam := false, text := tok } :: s, n, w))

/-- mirrors `compilePattern` -/
def compilePattern (path : Bytes) : Option Pattern :=
  (compileToks (splitPath path)).map fun (segs, named, wild) =>
    { kind := if wild then .wildcard else if named then .named else .exact, raw := path, segments := segs }

/-- join with '/' -/
def joinSlash : List Bytes → Bytes
  | [] => []
  | [t] => t
  | t :: ts => t ++ 47 :: joinSlash ts

/-- the segment loop of `patternMatches` for EXACT/NAMED: captures in pattern order -/
def matchSegs : List Segment → List Bytes → Option (List (Bytes × Bytes))
  | [], [] => some []
  | s :: ss, t :: ts =>
    if s.isParam then (matchSegs ss ts).map (fun caps => (s.text, t) :: caps)
    else if t == s.text then matchSegs ss ts else none
  | _, _ => none

/-- literal-prefix loop of `patternMatches` for WILDCARD: the unmatched suffix tokens -/
def matchPrefix : List Segment → List Bytes → Option (List Bytes)
  | [], ts => some ts
  | s :: ss, t :: ts => if t == s.text then matchPrefix ss ts else none
  | _ :: _, [] => none

/-- `std::unordered_map::operator[]=` on the capture map: last write wins -/
def mapSet : List (Bytes × Bytes) → Bytes → Bytes → List (Bytes × Bytes)
  | [], k, v => [(k, v)]
  | (k', v') :: t, k, v => if k' == k then (k', v) :: t else (k', v') :: mapSet t k v

/-- mirrors `patternMatches`: `some (captures, pathRest)` on a match -/
def patternMatches (p : Pattern) (toks : List Bytes) : Option (List (Bytes × Bytes) × Bytes) :=
  match p.kind with
  | .wildcard => (matchPrefix p.segments toks).map (fun rest => ([], joinSlash rest))
  | _ => (matchSegs p.segments toks).map (fun caps => (caps.foldl (fun m kv => mapSet m kv.1 kv.2) [], []))

/-- mirrors `matchInMethodVector`: EXACT, then NAMED, then WILDCARD, registration order inside a kind, first hit -/
def matchInMethodVector {α : Type} (vec : List (Pattern × α)) (toks : List Bytes) :
    Option (α × List (Bytes × Bytes) × Bytes) :=
  let tryKind (k : PatternKind) : Option (α × List (Bytes × Bytes) × Bytes) :=
    vec.findSome? (fun e => if e.1.kind = k then (patternMatches e.1 toks).map (fun r => (e.2, r.1, r.2)) else none)
  match tryKind .exact with
  | some r => some r
  | none =>
    match tryKind .named with
    | some r => some r
    | none => tryKind .wildcard

/-- `_handlers`: method → ordered vector of (compiled pattern, handler) -/
abbrev Routes (α : Type) := List (Method × List (Pattern × α))

def routesOf {α : Type} (rt : Routes α) (m : Method) : List (Pattern × α) :=
  match rt.find? (fun e => e.1 = m) with
  | some e => e.2
  | none => []

/-- mirrors `registerHandler`: `none` = `std::invalid_argument`; an EXACT pattern with the same raw path is overwritten -/
def registerHandler {α : Type} (rt : Routes α) (m : Method) (path : Bytes) (h : α) : Option (Routes α) :=
  match compilePattern path with
  | none => none
  | some cp =>
    let vec := routesOf rt m
    let vec' :=
      if cp.kind = .exact && vec.any (fun e => e.1.kind = .exact && e.1.raw == path) then
        vec.map (fun e => if e.1.kind = .exact && e.1.raw == path then (e.1, h) else e)
      else vec ++ [(cp, h)]
    if rt.any (fun e => e.1 = m) then some (rt.map (fun e => if e.1 = m then (m, vec') else e))
    else some (rt ++ [(m, vec')])

def methodMatches {α : Type} (rt : Routes α) (m : Method) (toks : List Bytes) : Bool :=
  (routesOf rt m).any (fun e => (patternMatches e.1 toks).isSome)

/-- mirrors `pathMatchesAnyMethod` -/
def pathMatchesAnyMethod {α : Type} (rt : Routes α) (toks : List Bytes) : Bool :=
  rt.any (fun e => e.2.any (fun pe => (patternMatches pe.1 toks).isSome))

/-- mirrors `pathExistsExcludingMethod` -/
def pathExistsExcludingMethod {α : Type} (rt : Routes α) (toks : List Bytes) (excl : Method) : Bool :=
  rt.any (fun e => e.1 ≠ excl && e.2.any (fun pe => (patternMatches pe.1 toks).isSome))

/-- join with ", " -/
def joinComma : List Bytes → Bytes
  | [] => []
  | [t] => t
  | t :: ts => t ++ ascii ", " ++ joinComma ts

/-- mirrors `getAllowedMethods` (canonical order GET, HEAD, POST, PUT, PATCH, DELETE, OPTIONS) -/
def getAllowedMethods {α : Type} (rt : Routes α) (toks : List Bytes) : Bytes :=
  if !pathMatchesAnyMethod rt toks then [] else
  let has (m : Method) := methodMatches rt m toks
  joinComma ((if has .GET then [ascii "GET", ascii "HEAD"] else []) ++ (if has .POST then [ascii "POST"] else []) ++
    (if has .PUT then [ascii "PUT"] else []) ++ (if has .PATCH then [ascii "PATCH"] else []) ++
    (if has .DELETE then [ascii "DELETE"] else []) ++ [ascii "OPTIONS"])

/-- `DispatchDecision` -/
inductive Decision (α : Type) where
  | matched (h : α) (caps : List (Bytes × Bytes)) (rest : Bytes)
  | matchedAsHead (h : α) (caps : List (Bytes × Bytes)) (rest : Bytes)
  | autoOptions (allow : Bytes)
  | optionsStar
  | methodNotAllowed (allow : Bytes)
  | noRoute (dflt : Option α)

/-- mirrors `classifyRequest` (the SR-3 ladder) -/
def classifyRequest {α : Type} (rt : Routes α) (dflt : Option α) (m : Method) (path : Bytes) (toks : List Bytes) : Decision α :=
  if m = .OPTIONS && path == [42] then .optionsStar
  else if m = .OPTIONS then
    if pathMatchesAnyMethod rt toks then .autoOptions (getAllowedMethods rt toks) else .noRoute dflt
  else
    let headHit := if m = .HEAD then matchInMethodVector (routesOf rt .GET) toks else none
    match headHit with
    | some (h, caps, rest) => .matchedAsHead h caps rest
    | none =>
      match matchInMethodVector (routesOf rt m) toks with
      | some (h, caps, rest) => .matched h caps rest
      | none =>
        if pathExistsExcludingMethod rt toks m then .methodNotAllowed (getAllowedMethods rt toks) else .noRoute dflt

/-! ## `processHttpRequest` -/

/-- one `_sessionInfo` entry as far as the Connection decision reads it -/
structure SessionInfo where
  httpVersion : Bytes := ascii Gen.HttpRespond.sessionDefaultVersion
  connectionKeepAlive : Bool := Gen.HttpRespond.sessionDefaultKeepAlive
  deriving Repr

/-- What the rest of the process does while one request is handled (every read of shared state is an input, so
    quantifying over `Env` quantifies over `stop()` racing the worker at any point). -/
structure Env where
  /-- `_shutdown.load()` at entry -/
  shutdownAtEntry : Bool := false
  /-- `_transport != nullptr` in the shutdown arm's send section -/
  transportAtEntry : Bool := true
  /-- `_transport != nullptr` in the shutdown arm's second `_mutex` section (the close): `stop()` may reset the transport
      between the two sections -/
  transportAtShutdownClose : Bool := true
  /-- `_transport && !_shutdown && sameTransport()` under `_mutex` in the send block (normal, upgrade and error arm); since
      FC16e the guard also requires that `_transport` is still the transport the request arrived on (`Model/HttpRespondRestart`
      is the model of that third conjunct across `stop()` / `start()`) -/
  upAtSend : Bool := true
  /-- the engine accepted the Send command (the synchronous `sendAsync` completion reported ok) -/
  enqueueOk : Bool := true
  /-- the same guard under `_mutex` in the close block (and `closeSession`'s `_transport && !_shutdown` in the upgrade drain) -/
  upAtClose : Bool := true
  /-- `_sessionInfo.find(sid)` when the Connection decision is taken -/
  sess : Option SessionInfo := some {}
  /-- upgrade arm: how many passes of the drain loop find something to drain (`it != end && !buffer.empty() &&
      _upgradedSessions.count(sid) > 0`): the bytes that arrived behind the upgrade request, plus every batch of reads the I/O
      thread queued behind them (upgrade hold, `_upgradePending`) while an earlier pass was inside `onUpgradedData`.  0 = the
      first pass finds the buffer empty, the session gone or not marked upgraded: the hold is released, nothing is drained. -/
  drainChunks : Nat := 0

def Env.up : Env := {}

/-- the server as `processHttpRequest` reads it -/
structure Server where
  routes : Routes Handler := []
  defaultHandler : Option Handler := none
  /-- `onUpgradeRequest` (virtual): `ret (some res)` = the subclass accepted the upgrade and filled `res` -/
  upgradeHook : Req → Seam (Option Resp) := fun _ => .ret none
  /-- `onResponseSuppressed` (virtual) -/
  suppressHook : Req → Resp → Seam Bool := fun _ _ => .ret false
  /-- `onUpgradedData` (virtual) as called by pass number `k` of the upgrade arm's drain loop: returns, or throws
      (WebSocketServer reaches the user's message callbacks from here) -/
  drainHook : Nat → Seam Unit := fun _ => .ret ()

/-- what one call of `processHttpRequest` hands to the engine -/
inductive Outcome where
  /-- one Send command carrying `wire`; `closeAfter` = a Close command follows -/
  | respond (wire : Bytes) (closeAfter : Bool)
  /-- no Send command reached the engine (it refused it, or the upgrade arm skipped it); `closed` = a Close command was issued -/
  | sendFailed (closed : Bool)
  /-- the handler (or the subclass seam) took over the connection: nothing is sent -/
  | suppressed
  /-- shutting down / transport gone: nothing is sent -/
  | nothing
  deriving DecidableEq, Repr

/-- mirrors `getStatusText` -/
def statusText (code : Int) : Bytes :=
  match Gen.HttpRespond.statusTexts.find? (fun e => (e.1 : Int) == code) with
  | some e => ascii e.2
  | none => ascii Gen.HttpRespond.statusTextDefault

/-- one `key: value\r\n` line of `toWireFormat` -/
def headerLine (e : Bytes × Bytes) : Bytes := e.1 ++ ascii ": " ++ e.2 ++ crlf

/-- mirrors `HttpResponse::toWireFormat` with the default version 1.1 -/
def toWire (status : Int) (text : Bytes) (headers : Headers) (body : Bytes) : Bytes :=
  ascii "HTTP/1.1 " ++ decInt status ++ [32] ++ text ++ crlf ++ (headers.flatMap headerLine) ++ crlf ++ body

/-- `isHeadRequest(requestData)`: the raw request starts with `HEAD ` — the method token of the request line, available in every
    arm, also where the request was never parsed.  The arms outside the normal path (error arm, shutdown arm, `sendErrorResponse`)
    build the header section a GET would get, Content-Length included, and clear the body for such a request (RFC 9110 §9.3.2) — if
    the translator found that strip in all three (`Gen.errorArmsStripHead`, FC16f); otherwise they never look at the method. -/
def isHeadRaw (data : Bytes) : Bool := Gen.HttpRespond.errorArmsStripHead && (ascii "HEAD ").isPrefixOf data

/-- the response of the error arm (`head`: the body is cleared after Content-Length was set) -/
def errorWire (status : Nat) (head : Bool := false) : Bytes :=
  let body := statusText status
  let h := hSet [] (ascii "Content-Type") (ascii Gen.HttpRespond.errContentType)
  let h := hSet h (ascii "Connection") (ascii Gen.HttpRespond.errConnection)
  let h := hSet h (ascii "Content-Length") (dec body.length)
  toWire status body h (if head then [] else body)

/-- the response of the shutdown arm -/
def shutdownWire (head : Bool := false) : Bytes :=
  let body := ascii Gen.HttpRespond.shutdownBody
  let h := hSet [] (ascii "Content-Type") (ascii "text/plain")
  let h := hSet h (ascii "Content-Length") (dec body.length)
  let h := hSet h (ascii "Connection") (ascii "close")
  toWire (Gen.HttpRespond.shutdownStatus : Nat) (ascii Gen.HttpRespond.shutdownText) h (if head then [] else body)

/-- mirrors `sendErrorResponse(sid, status, text, body, headRequest)` as called on pool overflow -/
def overflowWire (head : Bool := false) : Bytes :=
  let body := if (ascii Gen.HttpRespond.overflowBody).isEmpty then ascii Gen.HttpRespond.overflowText else ascii Gen.HttpRespond.overflowBody
  let h := hSet [] (ascii "Content-Type") (ascii "text/plain")
  let h := hSet h (ascii "Content-Length") (dec body.length)
  let h := hSet h (ascii "Connection") (ascii "close")
  let h := hSet h (ascii "Server") (ascii Gen.HttpRespond.overflowServer)
  toWire (Gen.HttpRespond.overflowStatus : Nat) (ascii Gen.HttpRespond.overflowText) h (if head then [] else body)

/-- the query loop: `key=value` pieces separated by '&', pieces without '=' ignored, last write wins -/
def parseQuery (q : Bytes) : List (Bytes × Bytes) :=
  (getlines 38 q).foldl (fun m piece =>
    match splitFirst 61 piece with
    | some (k, v) => mapSet m k v
    | none => m) []

/-- does the request's Connection value ask for close?  Tokenised (comma list, OWS-trimmed, lower-cased) or, in the
    unrepaired code, the whole lower-cased value — whichever shape the translator found. -/
def wantsClose (v : Bytes) : Bool :=
  if Gen.HttpRespond.connectionTokenised then
    (splitOn 44 v).any (fun t => lower (trim t) == ascii Gen.HttpRespond.closeToken)
  else lower v == ascii Gen.HttpRespond.closeToken

/-- the default response every dispatch starts from: `res.status = 404; res.set_content("Not Found", "text/plain")` -/
def defaultResp : Resp :=
  ({ status := (Gen.HttpRespond.stNotFound : Nat) } : Resp).setContent (ascii Gen.HttpRespond.bodyNotFound) (ascii Gen.HttpRespond.textPlain)

/-- the post-lock dispatch switch: the response object and `ranHandler` -/
def dispatch (d : Decision Handler) (req : Req) : Resp × Bool :=
  let res := defaultResp
  match d with
  | .matched h _ _ => (invokeWithSafetyNet h req { res with status := (Gen.HttpRespond.stMatched : Nat) }, true)
  | .matchedAsHead h _ _ =>
    ({ invokeWithSafetyNet h req { res with status := (Gen.HttpRespond.stMatchedAsHead : Nat) } with suppress := false }, false)
  | .autoOptions allow =>
    ({ res with status := (Gen.HttpRespond.stAutoOptions : Nat), body := [],
                headers := hSet (hErase (hErase res.headers (ascii "Content-Length")) (ascii "Content-Type")) (ascii "Allow") allow }, false)
  | .optionsStar =>
    ({ res with status := (Gen.HttpRespond.stOptionsStar : Nat), body := [],
                headers := hSet (hErase (hErase res.headers (ascii "Allow")) (ascii "Content-Type")) (ascii "Content-Length") (ascii "0") }, false)
  | .methodNotAllowed allow =>
    let r := ({ res with status := (Gen.HttpRespond.stMethodNotAllowed : Nat) } : Resp).setContent
               (ascii Gen.HttpRespond.bodyMethodNotAllowed) (ascii Gen.HttpRespond.textPlain)
    ({ r with headers := hSet r.headers (ascii "Allow") allow }, false)
  | .noRoute (some h) => (invokeWithSafetyNet h req { res with status := (Gen.HttpRespond.stMatched : Nat) }, true)
  | .noRoute none =>
    (({ res with status := (Gen.HttpRespond.stNotFound : Nat) } : Resp).setContent (ascii Gen.HttpRespond.bodyNotFound) (ascii Gen.HttpRespond.textPlain), false)

/-- `res.status == 204 || res.status == 304` -/
def bodylessStatus (status : Int) : Bool := Gen.HttpRespond.headBodylessStatuses.any (fun s => (s : Int) == status)

/-- HEAD stripping and the 204/304 reconciliation.  After the repair the body (and Content-Length) of a 204/304 is dropped
    under every method; the unrepaired code did so only for HEAD — whichever shape the translator found. -/
def headStrip (m : Method) (res : Resp) : Resp :=
  if m = .HEAD || (Gen.HttpRespond.bodylessAllMethods && bodylessStatus res.status) then
    { res with body := [],
               headers := if bodylessStatus res.status then hErase res.headers (ascii "Content-Length") else res.headers }
  else res

/-- the Connection decision: (shouldCloseConnection, connectionHeader) -/
def connectionDecision (sess : Option SessionInfo) (reqHeaders : Headers) : Bool × Bytes :=
  let fromSess : Bool :=
    match sess with
    | some si => si.httpVersion == ascii Gen.HttpRespond.sessionCloseVersion || !si.connectionKeepAlive
    | none => false
  let fromReq : Bool :=
    match hFind reqHeaders (ascii "Connection") with
    | some v => wantsClose v
    | none => false
  if fromSess || fromReq then (true, ascii Gen.HttpRespond.connClose) else (false, ascii Gen.HttpRespond.connKeepAlive)

/-- the `Request` built from a parsed message: query split and parameters -/
def mkReq (p : ParsedReq) : Req :=
  match splitFirst 63 p.uri with
  | some (path, q) => { method := p.method, path := path, headers := p.headers, body := p.body, params := parseQuery q }
  | none => { method := p.method, path := p.uri, headers := p.headers, body := p.body }

/-- is there a header whose lower-cased name is `upgrade`? -/
def hasUpgradeHeader (h : Headers) : Bool := h.any (fun e => lower e.1 == ascii "upgrade")

/-- the guarded send + close blocks shared by the normal path -/
def sendBlock (env : Env) (wire : Bytes) (shouldClose : Bool) : Outcome :=
  if !env.upAtSend then .nothing
  else if env.enqueueOk then .respond wire (shouldClose && env.upAtClose)
  else .sendFailed env.upAtClose

/-- the response object after dispatch, suppression check excluded: everything between the parse and the wire -/
def buildWire (env : Env) (req : Req) (res : Resp) : Bytes × Bool :=
  let res := headStrip req.method res
  let (shouldClose, connHdr) := connectionDecision env.sess req.headers
  let h := hSet (hSet res.headers (ascii "Server") (ascii Gen.HttpRespond.serverHeader)) (ascii "Connection") connHdr
  (toWire res.status (statusText res.status) h res.body, shouldClose)

/-- the request with the captures of the dispatch decision applied -/
def applyDecision (req : Req) (d : Decision Handler) : Req :=
  match d with
  | .matched _ caps rest | .matchedAsHead _ caps rest =>
    { req with params := caps.foldl (fun m kv => mapSet m kv.1 kv.2) req.params, pathRest := rest }
  | _ => req

/-! ### the engine calls of one `processHttpRequest`, arm by arm -/

/-- a call `processHttpRequest` makes on the transport -/
inductive Call where
  | sendAsync (wire : Bytes)
  | close
  deriving DecidableEq, Repr

/-- the error arm (the `catch` that closes the function's `try`): guarded Send of the error response, then — whatever the
    Send's completion said — the guarded Close -/
def errorArm (env : Env) (status : Nat) (head : Bool := false) : List Call :=
  if !env.upAtSend then []
  else .sendAsync (errorWire status head) :: (if env.upAtClose then [.close] else [])

/-- a subclass seam threw: a `std::exception` reaches the error arm as a 500; anything else does so only if the arm is
    `catch (...)` (repaired code) — otherwise it leaves `processHttpRequest` and no call is made at all -/
def seamThrew (env : Env) (std : Bool) (head : Bool := false) : List Call :=
  if std || Gen.HttpRespond.errCatchesAll then errorArm env Gen.HttpRespond.errDefaultStatus head else []

/-- the drain loop of the upgrade arm, AFTER the upgrade response was handed to the transport: `n` passes still find bytes,
    this is pass number `k`.  Each pass hands the whole session buffer to `onUpgradedData`.  Repaired code
    (`upgradeDrainGuarded`): the call has its own `catch (...)` that ends the connection through `closeSession` (guard
    `_transport && !_shutdown`) and LEAVES the loop — no second response, no further hook call.  Unrepaired code: the throw
    reaches the function's error arm, which sends a 500 behind the 101. -/
def drainLoop (hook : Nat → Seam Unit) (env : Env) : Nat → Nat → List Call
  | 0, _ => []
  | n + 1, k =>
    match hook k with
    | .ret _ => drainLoop hook env n (k + 1)
    | .threw std =>
      if Gen.HttpRespond.upgradeDrainGuarded then (if env.upAtClose then [.close] else [])
      else seamThrew env std

def drainCalls (srv : Server) (env : Env) : List Call := drainLoop srv.drainHook env env.drainChunks 0

/-- how often the drain loop calls `onUpgradedData`: once per pass, up to and including the first pass whose call throws -/
def drainHookCalls (hook : Nat → Seam Unit) : Nat → Nat → Nat
  | 0, _ => 0
  | n + 1, k =>
    match hook k with
    | .ret _ => 1 + drainHookCalls hook n (k + 1)
    | .threw _ => 1

/-- the normal send block: guarded Send; Close if the completion reported failure or the response asked for close -/
def normalSend (env : Env) (wire : Bytes) (shouldClose : Bool) : List Call :=
  if !env.upAtSend then []
  else .sendAsync wire :: (if (!env.enqueueOk || shouldClose) && env.upAtClose then [.close] else [])

/-- mirrors the control flow of `processHttpRequest(sid, requestData)`: the transport calls it makes, in order, and whether
    it returned through the suppression exit -/
def processCalls (srv : Server) (env : Env) (data : Bytes) : List Call × Bool :=
  if env.shutdownAtEntry then
    -- shutdown arm: both blocks test `_transport` only (each in its own `_mutex` section); the Close does not depend on
    -- the Send's completion
    (if env.transportAtEntry then .sendAsync (shutdownWire (isHeadRaw data)) :: (if env.transportAtShutdownClose then [.close] else []) else [], false)
  else
    match fromWireFormat data with
    | .error e =>
      let status := match e with
        | .request s => s
        | .other => Gen.HttpRespond.errDefaultStatus
      (errorArm env status (isHeadRaw data), false)
    | .ok p =>
      let req0 := mkReq p
      let upgraded : Seam (Option Resp) := if hasUpgradeHeader req0.headers then srv.upgradeHook req0 else .ret none
      match upgraded with
      | .threw std => (seamThrew env std (isHeadRaw data), false)
      | .ret (some ures) =>
        -- the completion lambda of this send ignores the result; a close on this path only from the buffer drain
        ((if !env.upAtSend then []
          else [.sendAsync (toWire ures.status (statusText ures.status)
                  (hSet ures.headers (ascii "Server") (ascii Gen.HttpRespond.serverHeader)) ures.body)]) ++ drainCalls srv env, false)
      | .ret none =>
        let d := classifyRequest srv.routes srv.defaultHandler req0.method req0.path (splitPath req0.path)
        let req := applyDecision req0 d
        let (res, ranHandler) := dispatch d req
        if ranHandler && res.suppress then ([], true)
        else
          -- `ranHandler && (res._suppressSend || onResponseSuppressed(...))`: the seam is consulted only if a handler ran
          match (if ranHandler then srv.suppressHook req res else .ret false) with
          | .threw std => (seamThrew env std (isHeadRaw data), false)
          | .ret true => ([], true)
          | .ret false =>
            let (wire, shouldClose) := buildWire env req res
            (normalSend env wire shouldClose, false)

/-- what the engine makes of the calls: `enqueueOk` decides whether a `sendAsync` became a Send command -/
def outcomeOf (env : Env) (t : List Call × Bool) : Outcome :=
  match t.1 with
  | [] => if t.2 then .suppressed else .nothing
  | [.close] => .sendFailed true      -- no Send command, one Close (upgrade arm: transport down at the send, drain hook threw)
  | [.sendAsync w] => if env.enqueueOk then .respond w false else .sendFailed false
  | [.sendAsync w, .close] => if env.enqueueOk then .respond w true else .sendFailed true
  | _ => .nothing     -- never happens: `processCalls_shape`

/-- `processHttpRequest` as seen from the engine -/
def process (srv : Server) (env : Env) (data : Bytes) : Outcome := outcomeOf env (processCalls srv env data)

/-- did the request reach user code (a handler or the upgrade hook)?  Used by the driver only: the harness can flip
    `_shutdown` between entry and the send block only from inside user code. -/
def reachesUserCode (srv : Server) (data : Bytes) : Bool :=
  match fromWireFormat data with
  | .error _ => false
  | .ok p =>
    let req0 := mkReq p
    if hasUpgradeHeader req0.headers then true
    else
      match classifyRequest srv.routes srv.defaultHandler req0.method req0.path (splitPath req0.path) with
      | .matched .. | .matchedAsHead .. | .noRoute (some _) => true
      | _ => false

/-! ## engine commands -/

inductive Cmd where
  | send (wire : Bytes)
  | close
  deriving DecidableEq, Repr

/-- the engine commands one `processHttpRequest` call enqueues, in order -/
def Outcome.cmds : Outcome → List Cmd
  | .respond w c => .send w :: (if c then [.close] else [])
  | .sendFailed c => if c then [.close] else []
  | .suppressed => []
  | .nothing => []

/-- mirrors `sendErrorResponse(sid, 503, …)` as called by `handleIncomingData` on pool overflow: under `_mutex`, guard
    `_transport && !_shutdown`; the completion lambda of its `sendAsync` closes the session whatever the completion says
    ("Always close the connection after sending error response"), inside the same `_mutex` section -/
def overflowCalls (env : Env) (head : Bool := false) : List Call :=
  if !env.upAtSend then [] else [.sendAsync (overflowWire head), .close]

/-- pool overflow on a running server: `sendErrorResponse` sends and closes inside one `_mutex` section -/
def overflowCmds (head : Bool := false) : List Cmd := [.send (overflowWire head), .close]

end Iora.HttpRespond
