import IoraModel.Common.Bytes
import IoraModel.Gen.TcpSession
/-!
# Model of one TCP/TLS session of `TcpEngine` as seen from its I/O thread (C01)

Mirrors `include/iora/network/detail/tcp_engine.hpp`: `doSend`, `writePending`, `updateInterest`, `readAvail`,
`driveHandshake`, `onSession`, the tail of `doConnect`, `closeNow`, and the Send/Close arms of `process()`.
Everything the kernel / OpenSSL answers to a call made by these functions is an INPUT (`WAns`, `RAns`, `HAns`, `CAns`),
so quantifying over input lists quantifies over every fault sequence (short writes, EAGAIN, WANT_READ/WANT_WRITE,
errors, short reads) at every call.  Every call made and every callback fired is an OUTPUT (`Out`), which is what the
trace-inclusion harness compares with the interposed real calls.

Ghost fields (`acceptedRev`, `wireRev`, `deliveredRev`, `receivedRev`, `rearmed`) do not influence behaviour; they are
kept newest-first so that the native driver appends in O(1).
Session lifecycle beyond "closed is an output" (which close site, timers, GC) belongs to C02; TLS configuration to C07.
-/
namespace Iora.Tcp
open Iora

/-- `Session::tlsMode`/`tlsState`: `none` = plain TCP (`tlsMode == None`), otherwise the TLS state -/
inductive Tls | none | handshake | open
  deriving DecidableEq, Repr

/-- what the environment answers to one `::send` / `SSL_write` -/
inductive WAns
  | wrote (n : Nat)   -- returned n (n ≥ 0 for send, n > 0 for SSL_write; SSL_write returning 0 is an error)
  | again             -- -1, EAGAIN / EWOULDBLOCK
  | wantR             -- SSL_ERROR_WANT_READ
  | wantW             -- SSL_ERROR_WANT_WRITE
  | err               -- any other failure
  deriving DecidableEq, Repr

/-- what the environment answers to one `::recv` / `SSL_read` -/
inductive RAns
  | data (bs : Bytes)
  | again
  | wantR
  | wantW
  | eof               -- recv returned 0 / SSL_ERROR_ZERO_RETURN
  | err
  deriving DecidableEq, Repr

/-- what `SSL_do_handshake` answers -/
inductive HAns | done | wantR | wantW | err
  deriving DecidableEq, Repr

/-- what the pair `getsockopt(SO_ERROR)` / `getpeername` answers for a pending plain connect -/
inductive CAns | established | notYet | failed
  deriving DecidableEq, Repr

inductive Why | socket | tlsIo | peerClosed | backpressure | connect | tlsHandshake | app | shutdown | timeout
  deriving DecidableEq, Repr

/-- externally visible actions of the I/O thread for this session, in program order -/
inductive Out
  | write (ssl : Bool) (buf : Bytes)      -- `::send(fd, buf)` (ssl = false) or `SSL_write(ssl, buf)` with the WHOLE buffer `buf`
  | read (ssl : Bool) (cap : Nat)         -- `::recv` / `SSL_read` with capacity `cap`
  | handshake                             -- `SSL_do_handshake`
  | soError                               -- `getsockopt(SO_ERROR)`
  | interest (out et : Bool)              -- `epoll_ctl(MOD, EPOLLIN | (out ? EPOLLOUT) | (et ? EPOLLET))`
  | connected                             -- connect callback
  | deliver (bs : Bytes)                  -- data callback
  | close (w : Why)                       -- `closeNow`: epoll DEL, close(fd), close callback
  deriving DecidableEq, Repr

structure Cfg where
  maxWriteQueue : Nat := Gen.TcpSession.maxWriteQueue
  closeOnBackpressure : Bool := Gen.TcpSession.closeOnBackpressure
  edge : Bool := Gen.TcpSession.useEdgeTriggered
  ioReadChunk : Nat := Gen.TcpSession.ioReadChunk
  /-- `updateInterest` keeps a per-session copy of the registered mask and skips `epoll_ctl(MOD)` when the mask is unchanged.
  The code as it is issues the MOD unconditionally (`false`, regenerated from the source); the flag exists so that the model
  follows the source if that changes, and so that T3 can say which behaviour it needs. -/
  modSkipsUnchanged : Bool := Gen.TcpSession.updateInterestSkipsUnchangedMask
  /-- `readAvail`'s loop is the unconditional `for (;;)` that ends only at EAGAIN / WANT_* / EOF / error — in level-triggered mode
  too (`true`, regenerated from the source). `false` = the loop is conditioned on `_config.useEdgeTriggered`: in level-triggered
  mode ONE read per readiness notification. The model follows the source; T4 says which behaviour it needs. -/
  readDrainsLT : Bool := Gen.TcpSession.readAvailDrainsLevelTriggered
  deriving Repr

/-- does `readAvail` go on reading after a data-returning read? -/
def Cfg.readDrains (cfg : Cfg) : Bool := cfg.edge || cfg.readDrainsLT

structure St where
  tls : Tls := .none
  wq : List Bytes := []            -- `Session::wq`; the front may be a suffix of a payload
  wantWrite : Bool := false
  tlsWantWrite : Bool := false
  connectPending : Bool := false
  closed : Bool := false
  interestOut : Bool := false      -- EPOLLOUT bit of the mask last registered for the fd
  -- ghost
  rearmed : Bool := false          -- an `epoll_ctl` carrying EPOLLOUT was issued after the last write attempt
  acceptedRev : List Bytes := []   -- payloads of the Send commands in command-queue order (newest first)
  wireRev : List Bytes := []       -- byte runs the kernel / SSL_write took (newest first)
  deliveredRev : List Bytes := []  -- chunks handed to the data callback (newest first)
  receivedRev : List Bytes := []   -- chunks recv / SSL_read returned (newest first)
  deriving Repr

def St.accepted (s : St) : List Bytes := s.acceptedRev.reverse
def St.wire (s : St) : Bytes := s.wireRev.reverse.flatten
def St.delivered (s : St) : Bytes := s.deliveredRev.reverse.flatten
def St.received (s : St) : Bytes := s.receivedRev.reverse.flatten
/-- bytes accepted but not yet taken by the kernel -/
def St.pending (s : St) : Nat := s.wq.flatten.length

abbrev R := St × List Out

/-- run `f` on the state of `r`, appending its outputs -/
def R.andThen (r : R) (f : St → R) : R :=
  let r' := f r.1
  (r'.1, r.2 ++ r'.2)

/-- the `needWrite` computation of tcp_engine.hpp::updateInterest -/
def needWrite (s : St) : Bool :=
  s.wantWrite || !s.wq.isEmpty || (if s.tls = .handshake then s.tlsWantWrite else s.connectPending)

/-- mirrors tcp_engine.hpp::updateInterest (and modEpoll: one unconditional `epoll_ctl(EPOLL_CTL_MOD)`) -/
def updateInterest (cfg : Cfg) (s : St) : R :=
  if cfg.modSkipsUnchanged && needWrite s == s.interestOut then (s, [])
  else ({ s with interestOut := needWrite s, rearmed := needWrite s }, [.interest (needWrite s) cfg.edge])

/-- mirrors tcp_engine.hpp::closeNow (idempotent; the session object is destroyed, so its queue is gone) -/
def closeNow (s : St) (w : Why) : R :=
  if s.closed then (s, [])
  else ({ s with closed := true, wq := [], interestOut := false, rearmed := false }, [.close w])

/-- how the code classifies the result of a write call -/
inductive WClass | progress (n : Nat) | block (tlsWant : Bool) | fail
  deriving DecidableEq, Repr

/-- `ssl = true`: the `SSL_write` branches (n ≤ 0 goes through `SSL_get_error`); `ssl = false`: the `::send` branches
(`n >= 0` is progress, EAGAIN blocks). Answers a channel cannot produce are mapped to the nearest real one. -/
def classifyW (ssl : Bool) : WAns → WClass
  | .wrote n => if ssl && n == 0 then .fail else .progress n
  | .again => if ssl then .fail else .block false
  | .wantR => .block false
  | .wantW => .block true
  | .err => .fail

def ioWhy (ssl : Bool) : Why := if ssl then .tlsIo else .socket

/-- bookkeeping of one write call: the kernel took `d.take n` -/
def noteWrite (s : St) (took : Bytes) : St :=
  { s with wireRev := if took.isEmpty then s.wireRev else took :: s.wireRev, rearmed := false }

/-- the queueing tail of `doSend` (from `s->wq.emplace_back(std::move(sr.payload))` on) -/
def enqueueTail (cfg : Cfg) (s : St) (p : Bytes) : R :=
  let s1 := { s with wq := s.wq ++ [p] }
  if s1.wq.length > cfg.maxWriteQueue then
    if cfg.closeOnBackpressure then closeNow s1 .backpressure
    else updateInterest cfg { s1 with wq := s1.wq.tail, wantWrite := true }
  else updateInterest cfg { s1 with wantWrite := true }

/-- mirrors tcp_engine.hpp::doSend. `a` answers the direct write, if one is issued. -/
def doSend (cfg : Cfg) (s0 : St) (p : Bytes) (a : WAns) : R :=
  let s := { s0 with acceptedRev := p :: s0.acceptedRev }
  if s.closed then (s, [])
  else if s.tls = .handshake then
    updateInterest cfg { s with wq := s.wq ++ [p], wantWrite := true }
  else if s.wq.isEmpty then
    let ssl := s.tls == .open
    match classifyW ssl a with
    | .progress n =>
      let s1 := noteWrite s (p.take n)
      if n < p.length then
        let u := updateInterest cfg { s1 with wq := [p.drop n], wantWrite := true }
        (u.1, .write ssl p :: u.2)
      else (s1, [.write ssl p])
    | .block _ =>
      let r := enqueueTail cfg (noteWrite s []) p
      (r.1, .write ssl p :: r.2)
    | .fail =>
      let r := closeNow (noteWrite s []) (ioWhy ssl)
      (r.1, .write ssl p :: r.2)
  else enqueueTail cfg s p

/-- why the drain loop of `writePending` stopped -/
inductive WStop | drained | blocked (tlsWant : Bool) | partialWrite | failed
  deriving DecidableEq, Repr

structure WL where
  wq : List Bytes       -- what is left of the queue
  sentRev : List Bytes  -- byte runs taken by the kernel, newest first
  outs : List Out
  stop : WStop
  deriving Repr

/-- the `while (!s->wq.empty())` loop of `writePending`. A missing answer counts as "would block". -/
def writeLoop (ssl : Bool) : List Bytes → List WAns → WL
  | [], _ => ⟨[], [], [], .drained⟩
  | d :: rest, as =>
    let a := as.headD .wantW
    match classifyW ssl a with
    | .progress n =>
      if n < d.length then
        ⟨d.drop n :: rest, if (d.take n).isEmpty then [] else [d.take n], [.write ssl d], .partialWrite⟩
      else
        let r := writeLoop ssl rest as.tail
        ⟨r.wq, r.sentRev ++ (if d.isEmpty then [] else [d]), .write ssl d :: r.outs, r.stop⟩
    | .block tw => ⟨d :: rest, [], [.write ssl d], .blocked tw⟩
    | .fail => ⟨d :: rest, [], [.write ssl d], .failed⟩

/-- mirrors tcp_engine.hpp::writePending -/
def writePending (cfg : Cfg) (s : St) (ws : List WAns) : R :=
  let ssl := s.tls == .open
  let r := writeLoop ssl s.wq ws
  let s1 := { s with wq := r.wq, wireRev := r.sentRev ++ s.wireRev,
                     rearmed := if r.outs.isEmpty then s.rearmed else false }
  match r.stop with
  | .failed =>
    let c := closeNow s1 (ioWhy ssl)
    (c.1, r.outs ++ c.2)
  | .blocked tw =>
    let u := updateInterest cfg { s1 with wantWrite := true, tlsWantWrite := if ssl then tw else s1.tlsWantWrite }
    (u.1, r.outs ++ u.2)
  | .partialWrite =>
    let u := updateInterest cfg { s1 with wantWrite := true }
    (u.1, r.outs ++ u.2)
  | .drained =>
    let u := updateInterest cfg { s1 with wantWrite := false }
    (u.1, r.outs ++ u.2)

/-- how the code classifies the result of a read call -/
inductive RClass | got (bs : Bytes) | block (tlsWant : Option Bool) | eof | fail
  deriving DecidableEq, Repr

def classifyR (ssl : Bool) : RAns → RClass
  | .data bs => if bs.isEmpty then (if ssl then .fail else .eof) else .got bs
  | .again => if ssl then .fail else .block none
  | .wantR => if ssl then .block (some false) else .block none
  | .wantW => if ssl then .block (some true) else .block none
  | .eof => .eof
  | .err => .fail

/-- mirrors tcp_engine.hpp::readAvail: read until the channel says "nothing more now" or the session closes (`cfg.readDrains`,
the loop shape extracted from the source; otherwise one read per call).
Returns the unconsumed answers. A missing answer ends the loop like EAGAIN (no state change). -/
def readAvail (cfg : Cfg) (s : St) : List RAns → R × List RAns
  | [] => ((s, [.read (s.tls == .open) cfg.ioReadChunk]), [])
  | a :: rest =>
    let ssl := s.tls == .open
    let o := Out.read ssl cfg.ioReadChunk
    match classifyR ssl a with
    | .got bs =>
      let s1 := { s with receivedRev := bs :: s.receivedRev, deliveredRev := bs :: s.deliveredRev }
      if cfg.readDrains then
        let r := readAvail cfg s1 rest
        ((r.1.1, o :: .deliver bs :: r.1.2), r.2)
      else ((s1, [o, .deliver bs]), rest)
    | .block none => ((s, [o]), rest)
    | .block (some tw) =>
      let r := updateInterest cfg { s with tlsWantWrite := tw }
      ((r.1, o :: r.2), rest)
    | .eof => let r := closeNow s .peerClosed; ((r.1, o :: r.2), rest)
    | .fail => let r := closeNow s (ioWhy ssl); ((r.1, o :: r.2), rest)

/-- mirrors tcp_engine.hpp::driveHandshake (timeouts and test hooks are C02 / C07). Returns `true` iff the handshake completed. -/
def driveHandshake (cfg : Cfg) (s : St) (h : HAns) (rs : List RAns) : (R × List RAns) × Bool :=
  match h with
  | .done =>
    let s1 := { s with tls := .open, tlsWantWrite := false, connectPending := false }
    let u := updateInterest cfg s1
    let r := readAvail cfg u.1 rs
    (((r.1.1, .handshake :: .connected :: (u.2 ++ r.1.2)), r.2), true)
  | .wantR =>
    let u := updateInterest cfg { s with tlsWantWrite := false }
    (((u.1, .handshake :: u.2), rs), false)
  | .wantW =>
    let u := updateInterest cfg { s with tlsWantWrite := true }
    (((u.1, .handshake :: u.2), rs), false)
  | .err =>
    let c := closeNow s .tlsHandshake
    (((c.1, .handshake :: c.2), rs), false)

/-- the event mask epoll reported for the session fd -/
structure Ev where
  inn : Bool := false
  out : Bool := false
  hup : Bool := false      -- EPOLLHUP | EPOLLERR
  deriving DecidableEq, Repr

/-- the part of `onSession` after the handshake / connect-completion block: HUP/ERR, then EPOLLIN, then EPOLLOUT -/
def onSessionIo (cfg : Cfg) (s : St) (ev : Ev) (rs : List RAns) (ws : List WAns) : R :=
  if s.closed then (s, [])
  else if ev.hup then closeNow s .peerClosed
  else
    let r1 : R := if ev.inn then (readAvail cfg s rs).1 else (s, [])
    if r1.1.closed then r1
    else if ev.out then
      let r2 := writePending cfg r1.1 ws
      (r2.1, r1.2 ++ r2.2)
    else r1

/-- mirrors tcp_engine.hpp::onSession. `soOk`: SO_ERROR is 0 at the first check; `c`: the connect-completion probe. -/
def onSession (cfg : Cfg) (s : St) (ev : Ev) (soOk : Bool) (c : CAns) (h : HAns)
    (rs : List RAns) (ws : List WAns) : R :=
  if s.closed then (s, [])
  else if ev.out && !soOk then
    let r := closeNow s .connect
    (r.1, .soError :: r.2)
  else
    let pre : List Out := if ev.out then [.soError] else []
    if s.tls = .handshake then
      let d := driveHandshake cfg s h rs
      if d.2 then
        let r := onSessionIo cfg d.1.1.1 ev d.1.2 ws
        (r.1, pre ++ d.1.1.2 ++ r.2)
      else (d.1.1.1, pre ++ d.1.1.2)
    else if ev.out && s.connectPending && s.tls = .none then
      match c with
      | .established =>
        let u := updateInterest cfg { s with connectPending := false }
        let r := onSessionIo cfg u.1 ev rs ws
        (r.1, pre ++ .soError :: .connected :: (u.2 ++ r.2))
      | .notYet =>
        let r := onSessionIo cfg s ev rs ws
        (r.1, pre ++ .soError :: r.2)
      | .failed =>
        let r := closeNow s .connect
        (r.1, pre ++ .soError :: r.2)
    else
      let r := onSessionIo cfg s ev rs ws
      (r.1, pre ++ r.2)

/-- the tail of `doConnect` for a plain session ("immediate connect" probe right after the epoll ADD) -/
def connectCheck (s : St) (c : CAns) : R :=
  if s.closed then (s, [])
  else if s.tls ≠ .none then (s, [])
  else match c with
    | .established => ({ s with connectPending := false }, [.soError, .connected])
    | .notYet => (s, [.soError])
    | .failed => let r := closeNow s .connect; (r.1, .soError :: r.2)

/-- `CloseOrigin` of a `Cmd::Close` as far as the Close arm of `process()` looks at it -/
inductive Origin | app | connectTimeout | handshakeTimeout | writeStall
  deriving DecidableEq, Repr

/-- the stale-timeout guards of the Close arm of `process()`: a timer-originated close is dropped when the condition it was armed
for no longer holds (`if (!s->connectPending) break;` / `if (s->tlsState != TlsState::Handshake) break;` / `if (s->wq.empty()) break;`) -/
def closeGuardSkips (s : St) : Origin → Bool
  | .app => false
  | .connectTimeout => !s.connectPending
  | .handshakeTimeout => s.tls != .handshake
  | .writeStall => s.wq.isEmpty

/-- inputs of the session: commands taken from the command queue and epoll events, each with the environment's answers -/
inductive In
  | cmdSend (p : Bytes) (a : WAns)                   -- `send(sid, p)` (n == 0: nothing is enqueued) → `Cmd::Send` arm of `process()` → `doSend`
  | cmdClose (w : Why) (o : Origin)                  -- `Cmd::Close` arm of `process()`: stale-timeout guard, then `closeNow`
  | shutdown (residual : List Bytes)                 -- `shutdownDrain`: the session is closed; `residual` = payloads of the Send commands
                                                     -- still in `_cmds` at the residual swap (accepted by `enqueue`, never dispatched)
  | connectCheck (c : CAns)
  | event (ev : Ev) (soOk : Bool) (c : CAns) (h : HAns) (rs : List RAns) (ws : List WAns)
  deriving Repr

def step (cfg : Cfg) (s : St) : In → R
  | .cmdSend p a => if p.isEmpty then (s, []) else doSend cfg s p a
  | .cmdClose w o => if closeGuardSkips s o then (s, []) else closeNow s w
  | .shutdown residual =>
    let r := closeNow s .shutdown
    ({ r.1 with acceptedRev := (residual.filter (!·.isEmpty)).reverse ++ r.1.acceptedRev }, r.2)
  | .connectCheck c => connectCheck s c
  | .event ev soOk c h rs ws => onSession cfg s ev soOk c h rs ws

/-- run a whole input history from `s`, collecting the outputs -/
def run (cfg : Cfg) (s : St) : List In → R
  | [] => (s, [])
  | i :: is =>
    let r := step cfg s i
    let r' := run cfg r.1 is
    (r'.1, r.2 ++ r'.2)

/-- a session as `onListener` creates it (epoll ADD with EPOLLIN only) -/
def initAccepted (tls : Bool) : St := { tls := if tls then .handshake else .none }
/-- a session as `doConnect` creates it (epoll ADD with EPOLLIN | EPOLLOUT) -/
def initConnecting (tls : Bool) : St :=
  { tls := if tls then .handshake else .none, connectPending := true, tlsWantWrite := tls, interestOut := true, rearmed := true }

/-- a fresh session: nothing queued, nothing sent, nothing accepted, open -/
def St.Fresh (s : St) : Prop :=
  s.wq = [] ∧ s.wireRev = [] ∧ s.acceptedRev = [] ∧ s.deliveredRev = [] ∧ s.receivedRev = [] ∧ s.closed = false

/-! ## The command queue (`enqueue` / `process`), for T5

`enqueue()` is `lock(_cmdMutex); _cmds.push_back(cmd); write(eventfd); unlock` and `process()` is
`lock(_cmdMutex); q.swap(_cmds); unlock; for (c : q) dispatch(c)`.  `push_back` is modelled as the two memory steps it
consists of (read the end position, then store + publish the new size), so that the role of the mutex is visible:
without it two producers can read the same end position and one command is overwritten. -/
namespace Enq

abbrev Tid := Nat
/-- one command: (sending thread, per-thread sequence number) — the payload is irrelevant for ordering -/
abbrev Cmd := Tid × Nat

/-- program counter inside `enqueue` -/
inductive Pc
  | idle                 -- not inside enqueue
  | locked               -- holds `_cmdMutex` (or skipped it when `locking = false`), before reading the end position
  | readEnd (pos : Nat)  -- has read `_cmds.size()`, before the store
  | stored               -- element stored and size published, before unlock
  deriving DecidableEq, Repr

structure Thr where
  next : Nat := 0        -- sequence number of the next command this thread will send
  pc : Pc := .idle
  deriving Repr

structure Q where
  thr : List Thr                 -- sender threads, indexed by `Tid`
  owner : Option Nat := none     -- `_cmdMutex` owner: sender tid, or `thr.length` for the I/O thread
  cmds : List Cmd := []          -- `_cmds`
  taken : List Cmd := []         -- commands handed to the dispatch loop so far, in dispatch order
  ioTmp : Option (List Cmd) := none   -- only when the swap is NOT under the mutex: what `process()` has read and not yet cleared
  deriving Repr

/-- overwrite-or-append at position `pos` (what a store at a stale end position does) -/
def storeAt (l : List Cmd) (pos : Nat) (c : Cmd) : List Cmd :=
  if pos < l.length then l.set pos c else l ++ [c]

/-- who moves next -/
inductive Actor | sender (t : Tid) | io
  deriving DecidableEq, Repr

def setThr (q : Q) (t : Tid) (th : Thr) : Q := { q with thr := q.thr.set t th }

/-- one scheduler step. `locking` is the translator fact "push_back happens under `_cmdMutex`", `swapLocked` the fact
"`q.swap(_cmds)` in `process()` happens under `_cmdMutex`": then lock, swap, unlock are one critical section, enabled when the mutex
is free (`wholeBatch`: the fact "one `process()` call dispatches the whole swapped batch in order, nothing is handed back"); otherwise the swap is the two memory steps it consists of (read the contents, then clear) at any time. A choice that is not
enabled (mutex held by someone else, unknown thread) is a stutter. -/
def step (locking swapLocked wholeBatch : Bool) (q : Q) : Actor → Q
  | .sender t =>
    match q.thr[t]? with
    | none => q
    | some th =>
      match th.pc with
      | .idle =>
        if locking then
          if q.owner.isNone then setThr { q with owner := some t } t { th with pc := .locked } else q
        else setThr q t { th with pc := .locked }
      | .locked => setThr q t { th with pc := .readEnd q.cmds.length }
      | .readEnd pos => setThr { q with cmds := storeAt q.cmds pos (t, th.next) } t { th with pc := .stored }
      | .stored =>
        setThr { q with owner := if locking then none else q.owner } t { next := th.next + 1, pc := .idle }
  | .io =>
    if swapLocked then
      if wholeBatch then
        -- process(): lock, swap, unlock are one critical section, enabled when the mutex is free; the dispatch loop then walks the
        -- WHOLE swapped batch front to back (`processDispatchesWholeBatch`), so the batch joins `taken` in one piece
        if q.owner.isNone then { q with taken := q.taken ++ q.cmds, cmds := [] } else q
      else
        -- a per-wake-up budget (here: 1 command): the swap parks the batch in the local deque, the next step dispatches its first
        -- command and hands the unprocessed tail BACK to `_cmds` with push_back (under the mutex) — behind whatever was enqueued meanwhile
        match q.ioTmp with
        | none => if q.owner.isNone then { q with ioTmp := some q.cmds, cmds := [] } else q
        | some l => if q.owner.isNone then { q with taken := q.taken ++ l.take 1, cmds := q.cmds ++ l.drop 1, ioTmp := none } else q
    else
      match q.ioTmp with
      | none => { q with ioTmp := some q.cmds }
      | some l => { q with taken := q.taken ++ l, cmds := [], ioTmp := none }

def run (locking swapLocked wholeBatch : Bool) (q : Q) : List Actor → Q
  | [] => q
  | a :: as => run locking swapLocked wholeBatch (step locking swapLocked wholeBatch q a) as

def init (n : Nat) : Q := { thr := List.replicate n {} }

/-- the commands of thread `t` in a command list, as their sequence numbers -/
def seqOf (t : Tid) (l : List Cmd) : List Nat := (l.filter (·.1 == t)).map (·.2)

end Enq

/-! ## `EventBatchProcessor::processBatch` (batched loop): the order in which one `epoll_wait` batch is handled -/

/-- mirrors event_batch_processor.hpp::processBatch: one pass over the batch handles the special fds (eventfd, timerfd) at once and
appends every other event to `normalEvents`; a second pass handles those, in batch order -/
def batchOrder {α : Type} (special : α → Bool) (evs : List α) : List α :=
  evs.filter special ++ evs.filter (fun e => !special e)

/-! ## The receive side of the environment (whole-history T4)

What the peer has sent and the engine has not read yet sits in two places: the kernel socket buffer (`kern`, one entry per TLS
record / TCP segment) — the ONLY thing `epoll` looks at — and, on a TLS session, the plaintext of a record that `SSL_read` has
already pulled out of the kernel but not yet returned because the caller's buffer was smaller (`buf`). No epoll event ever
announces `buf`. -/
namespace Rd

structure Env where
  kern : List Bytes := []
  buf : Bytes := []
  deriving Repr

/-- `b` cut into reads of capacity `cap` (fuel-bounded by the length) -/
def chunksF (cap : Nat) : Nat → Bytes → List Bytes
  | 0, _ => []
  | f + 1, b => if b.isEmpty then [] else b.take cap :: chunksF cap f (b.drop cap)

def chunks (cap : Nat) (b : Bytes) : List Bytes := chunksF cap b.length b

/-- everything `recv` / `SSL_read` answers when called again and again with capacity `cap`, up to and including the first
"nothing more now": the buffered plaintext first, then record by record, then EAGAIN / WANT_READ -/
def Env.answers (ssl : Bool) (cap : Nat) (e : Env) : List RAns :=
  ((chunks cap e.buf ++ (e.kern.map (chunks cap)).flatten).map RAns.data) ++ [if ssl then .wantR else .again]

/-- all bytes the environment holds for the session, in stream order -/
def Env.content (e : Env) : Bytes := e.buf ++ e.kern.flatten

/-- the environment after ONE `SSL_read` of capacity `cap` (TLS: a whole record leaves the kernel buffer) -/
def Env.afterOneSslRead (cap : Nat) (e : Env) : Env :=
  if !e.buf.isEmpty then { e with buf := e.buf.drop cap }
  else match e.kern with
    | [] => e
    | r :: rs => { kern := rs, buf := r.drop cap }

/-- epoll (level-triggered) reports the session readable iff the KERNEL buffer is non-empty -/
def Env.epollIn (e : Env) : Bool := !e.kern.isEmpty

/-- the closed receive-side system: the peer appends records to the kernel buffer, epoll wakes the I/O thread only while the
kernel buffer is non-empty, a wake-up is one `readAvail` call answered by the environment -/
inductive Act
  | peerWrite (r : Bytes)
  | wake
  deriving Repr

structure Sys where
  s : St
  e : Env := {}
  sent : Bytes := []      -- ghost: everything the peer has written so far

def Sys.step (cfg : Cfg) (y : Sys) : Act → Sys
  | .peerWrite r => { y with e := { y.e with kern := y.e.kern ++ [r] }, sent := y.sent ++ r }
  | .wake =>
    if y.e.epollIn then
      let r := readAvail cfg y.s (y.e.answers (y.s.tls == .open) cfg.ioReadChunk)
      -- the drain loop consumes every answer (the environment is empty afterwards); one read per wake-up consumes one
      { y with s := r.1.1, e := if cfg.readDrains then {} else y.e.afterOneSslRead cfg.ioReadChunk }
    else y      -- epoll is silent: no wake-up happens

def Sys.run (cfg : Cfg) (y : Sys) : List Act → Sys
  | [] => y
  | a :: as => Sys.run cfg (Sys.step cfg y a) as

end Rd

end Iora.Tcp
