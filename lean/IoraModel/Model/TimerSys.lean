import IoraModel.Model.TimerService
import IoraModel.Gen.Timer
/-
Second layer of the model of `include/iora/core/timer.hpp` (property C08): the parts of `TimerService` that `Model/TimerService.lean`
leaves to "the scheduler's choice", made explicit.

* THE WAKE-UP PLUMBING of `runLoop`: the loop thread sleeps in `epoll_wait` on a `timerfd` and an `eventfd`.  At the top of every
  pass (`_running` true) it programs the timerfd for the heap top (`programTimerfd(heapTop)`: relative value `max(tp - now, 0)`, and a
  value of exactly zero — which would DISARM the timerfd — is bumped to 1 ns: the "zero guard"); every client call that changes what
  the loop must look at writes the eventfd AFTER its locked section (`poke()`).  `armed` is the absolute expiry programmed into the
  timerfd (`none` = disarmed), `poked` = eventfd counter non-zero, `owed` = number of client threads between their locked section and
  their `poke()`.  `epoll_wait` returns (step `wake`) exactly when `poked` or the timerfd has expired; returning for other reasons
  (`spurious`: time-out, EINTR) is always allowed.
* RESTART: `stop()` → `reset()` → `start()` on ONE service object.  `reset()` clears what the source clears
  (`Gen.Timer.svcResetClears`: the model is DEFINED from that list) and `_nextId = 0`; `start()` (`initialize()`) creates new fds and a new
  loop thread.  `epoch` counts the starts; `hist` is the history of the CURRENT epoch in terms of the first-layer model.

The first-layer steps are used unchanged (`Tsvc.step`): every theorem about `Tsvc.run` transfers to every epoch of every history of this
layer through `Tsys.refines` (Lemmas/TimerSys.lean).
-/
namespace Iora.Tsys
open Iora.Tsvc

/-- where the loop thread is: at the top of `for (;;)` (handlers of the last batch may still run); inside `epoll_wait`; past `epoll_wait`
and the fd drains, before the locked `collectDueLocked`; out of `runLoop` -/
inductive LPc where
  | top | parked | woken | gone
  deriving DecidableEq, Repr

structure Sys where
  s : Svc := {}
  /-- ghost: the first-layer history of the current epoch -/
  hist : Hist := []
  epoch : Nat := 0
  /-- `LifecycleState::Reset` (after `reset()`, before `start()`) -/
  isReset : Bool := false
  armed : Option Int := none
  /-- ghost: the clock value `programTimerfd` read when it last armed -/
  armNow : Int := 0
  poked : Bool := false
  owed : Nat := 0
  /-- `_eventFd >= 0` (`cleanup()` closes it, `poke()` then returns early) -/
  fdOpen : Bool := true
  lpc : LPc := .top
  deriving Repr

/-! ### programTimerfd -/

/-- mirrors `programTimerfd(nextDue)` as an absolute expiry: `nullopt` → `its = {}` disarms; `delta = tp > now ? tp - now : 0`; a zero
`it_value` would disarm too, so (`zeroGuard`, read from the source) it becomes `zeroNs` (1 ns).  `none` = disarmed. -/
def armValueWith (zeroGuard : Bool) (zeroNs : Nat) (now : Int) : Option HeapItem → Option Int
  | none => none
  | some t => if t.tp > now then some t.tp else if zeroGuard then some (now + zeroNs) else none

def armValue (now : Int) (top : Option HeapItem) : Option Int :=
  armValueWith Gen.Timer.svcTimerfdZeroGuard Gen.Timer.svcTimerfdZeroNs now top

/-- the timerfd is readable: armed and its expiry reached -/
def expired (a : Option Int) (now : Int) : Bool :=
  match a with
  | some x => decide (x ≤ now)
  | none => false

/-- `epoll_wait` has something to report -/
def wakeEnabled (y : Sys) (now : Int) : Bool := y.poked || expired y.armed now

/-! ### which client calls owe a `poke()` after their locked section (sites read from the source) -/

def pokes (site : String) : Bool := Gen.Timer.svcPokeSites.contains site

/-- `needsPoke` of `cancel(id)`: a record was found and was not cancelled yet -/
def cancelNeedsPoke (s : Svc) (id : Nat) : Bool :=
  match findRec s.records id with
  | some r => !r.canceled
  | none => false

/-- number of `poke()` calls a first-layer step leaves owing -/
def owes (s : Svc) : Tsvc.Op → Tsvc.Out → Nat
  | .schedAt _ _, .id n => if n ≠ 0 && pokes "scheduleAt" then 1 else 0
  | .schedPer _ _, .id n => if n ≠ 0 && pokes "schedulePeriodic" then 1 else 0
  | .cancel id, _ => if cancelNeedsPoke s id && pokes "cancel" then 1 else 0
  | .drainSweep _ _, _ => if s.dpc = .gated && pokes "drain" then 1 else 0
  | .stopHalt, _ => if s.spc = .flagged && pokes "stop" then 1 else 0
  | _, _ => 0

/-! ### restart -/

/-- mirrors `reset()` (from Stopped): clears what the source clears (`svcResetClears`), the loop thread is gone, nothing is accepted -/
def resetSvcWith (c : List String) (s : Svc) : Svc :=
  { records := if c.contains "records" then [] else s.records,
    periodic := if c.contains "periodic" then [] else s.periodic,
    heap := if c.contains "heap" then [] else s.heap,
    nextId := if c.contains "nextId" then 0 else s.nextId,
    accepting := false, running := false, life := .stopped, executing := s.executing, ready := s.ready, inflight := s.inflight,
    -- the invocation guards are objects owned by the records / periodic entries: cleared with them
    closed := if c.contains "periodic" && c.contains "records" then [] else s.closed,
    exiting := false, exited := true, dpc := s.dpc, spc := .done }

def resetSvc (s : Svc) : Svc := resetSvcWith Gen.Timer.svcResetClears s

/-- mirrors `start()` from Reset (`initialize()`): new fds, `_running = true`, a new loop thread, `_accepting = true`, Running; the
containers are what `reset()` left -/
def startSvc (s : Svc) : Svc :=
  { s with accepting := true, running := true, life := .running, exiting := false, exited := false, spc := .idle }

/-! ### the step system -/

inductive Op where
  /-- a locked section / handler step of the first-layer model, with its wake-up side effects -/
  | svc (op : Tsvc.Op)
  /-- a client thread performs the `poke()` it owes -/
  | poke
  /-- loop thread, top of the loop with `_running` true: `programTimerfd(heapTop)` under `_mutex`, then `epoll_wait` -/
  | arm (now : Int)
  /-- `epoll_wait` returns because the eventfd is readable or the timerfd has expired; `drainEventfd` / `drainTimerfd` -/
  | wake (now : Int)
  /-- `epoll_wait` returns for another reason: time-out (`toTop = false`: on to the collect section) or EINTR (`continue`) -/
  | spurious (toTop : Bool)
  | reset
  | start
  deriving Repr

inductive Out where
  | none
  | svc (o : Tsvc.Out)
  | bool (b : Bool)
  | id (n : Nat)
  deriving Repr

/-- may the loop thread execute this first-layer step where it is?  (client steps: always) -/
def loopGate (y : Sys) : Tsvc.Op → Bool
  | .collect _ false => y.lpc == .woken
  | .collect _ true => y.lpc == .top
  | _ => true

/-- loop position after a first-layer step -/
def lpcAfter (y : Sys) (s' : Svc) : Tsvc.Op → LPc
  | .collect _ false => .top
  | .loopExit => if s'.exited then .gone else y.lpc
  | _ => y.lpc

/-- `stop()` has come back from `_thread.join()`: `cleanup()` closes the fds -/
def closesFd : Tsvc.Op → Tsvc.Out → Bool
  | .stopFinish, .bool true => true
  | _, _ => false

/-- the exit branch of the loop also calls `programTimerfd(std::nullopt)` -/
def disarms (y : Sys) (s' : Svc) : Tsvc.Op → Bool
  | .collect _ true => s'.exiting && !y.s.exiting
  | _ => false

def svcStep (L : Limits) (y : Sys) (op : Tsvc.Op) : Sys × Out :=
  if y.isReset || !loopGate y op then (y, .none)
  else
    let r := Tsvc.step L y.s op
    ({ y with s := r.1, hist := y.hist ++ [(op, r.2)], owed := y.owed + owes y.s op r.2,
              lpc := if closesFd op r.2 then .gone else lpcAfter y r.1 op,
              fdOpen := if closesFd op r.2 then false else y.fdOpen,
              armed := if disarms y r.1 op then none else y.armed }, .svc r.2)

def step (L : Limits) (y : Sys) : Op → Sys × Out
  | .svc op => svcStep L y op
  | .poke =>
    if y.owed = 0 then (y, .none)
    else ({ y with owed := y.owed - 1, poked := if y.fdOpen then true else y.poked }, .none)
  | .arm now =>
    if y.isReset || y.lpc != .top || !y.s.running || !y.s.ready.isEmpty || y.s.inflight.isSome || y.s.exiting || y.s.exited then (y, .none)
    else ({ y with armed := armValue now y.s.heap.head?, armNow := now, lpc := .parked }, .none)
  | .wake now =>
    if y.lpc != .parked || !wakeEnabled y now then (y, .bool false)
    else ({ y with poked := false, armed := if expired y.armed now then none else y.armed, lpc := .woken }, .bool true)
  | .spurious toTop =>
    if y.lpc != .parked then (y, .none) else ({ y with lpc := if toTop then .top else .woken }, .none)
  | .reset =>
    if y.isReset || y.s.life != .stopped || y.s.dpc != .idle then (y, .bool false)
    else ({ y with s := resetSvc y.s, isReset := true, lpc := .gone }, .bool true)
  | .start =>
    if !y.isReset then (y, .bool false)
    else ({ y with s := startSvc y.s, hist := [], epoch := y.epoch + 1, isReset := false, armed := none, poked := false, fdOpen := true,
                   lpc := .top }, .bool true)

abbrev Trace := List (Op × Out)

def runFrom (L : Limits) : Sys → List Op → Sys
  | y, [] => y
  | y, op :: ops => runFrom L (step L y op).1 ops

def run (L : Limits) (ops : List Op) : Sys := runFrom L {} ops

def trace (L : Limits) : Sys → List Op → Trace
  | _, [] => []
  | y, op :: ops => (op, (step L y op).2) :: trace L (step L y op).1 ops

end Iora.Tsys
