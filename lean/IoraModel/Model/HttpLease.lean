import IoraModel.Model.HttpRetry
/-!
# Concurrent callers sharing one `HttpClient` (C17, lease part)

Several threads run `performRequest` on the same client.  `executeRequest` takes the per-host:port lease
(`acquireLease`: wait until the host is not in `_leasedHosts`, then insert it — one `_mutex` critical section), runs the
exchange, and the RAII guard releases the lease on every exit.  Granularity of the model:

* `acquire` — one step; enabled only while the host is not leased (a thread whose host is leased is blocked: its step is a
  stutter), or the environment lets the wait time out (`leaseAcquireTimeout`);
* `exchange` — everything between the acquisition and the release (`underLease` of `Model/HttpRetry.lean`) followed by the
  release and by performRequest's retry decision, as ONE step.  This is sound because, while the lease is held, no other thread
  touches the host's entry of `_connections` (every access is in `executeRequest` under the lease), accesses to different keys
  of the map commute (each is a `_mutex` critical section), and the engine's session-id counter is atomic — so an exchange
  commutes with the steps of all other threads up to the numbering of sessions.  (`cleanup()` is excluded by its documented
  precondition: no request in flight.)

"Every interleaving" is `∀ sched : List Nat` (the thread that moves next; ill-formed or blocked choices are stutters).
-/
namespace Iora.HttpRetry
open Iora

/-- what `performRequest` does with the outcome of attempt number `attempt`: `none` = leave the loop with this outcome,
`some n` = back off, then make attempt `n` -/
def nextAttempt (m : String) (retries : Int) (attempt : Nat) (res : Except Exn RespInfo) : Option Nat :=
  match res with
  | .ok _ => none
  | .error e =>
    match dispatch e with
    | .retry => if retryEligible m e && !budgetExhausted attempt retries then some (attempt + 1) else none
    | _ => none

/-- where a calling thread is inside `performRequest` -/
inductive Pc where
  | start (attempt : Nat)      -- about to call executeRequest for this attempt (also: after the back-off sleep)
  | holding (attempt : Nat)    -- inside executeRequest with the lease held
  | done (res : Except Exn RespInfo)

structure Thread where
  rq : Request
  pc : Pc := .start 0
  log : List AttemptLog := []

def Thread.holds (t : Thread) (h : Host) : Bool :=
  match t.pc with
  | .holding _ => t.rq.host == h
  | _ => false

def Thread.finished (t : Thread) : Bool :=
  match t.pc with
  | .done _ => true
  | _ => false

structure World where
  client : Client := {}
  threads : List Thread
  evs : List (Nat × Ev) := []     -- (thread, event), in the order of the steps

/-- thread `t` has finished attempt `n` with log entry `lg`: record it and apply the retry decision -/
def afterAttempt (t : Thread) (n : Nat) (lg : AttemptLog) : Thread :=
  { t with log := t.log ++ [lg],
           pc := match nextAttempt t.rq.method t.rq.retries n lg.result with
             | some n' => .start n'
             | none => .done lg.result }

/-- one step of thread `i` -/
def stepThread (cfg : Cfg) (w : World) (i : Nat) : World :=
  match w.threads[i]? with
  | none => w
  | some t =>
    match t.pc with
    | .done _ => w
    | .start n =>
      let a := t.rq.script n
      if !t.rq.urlOk then
        { w with threads := w.threads.set i (afterAttempt t n ⟨.error (exnOfName Gen.HttpRetry.urlFailThrow), false, 0⟩) }
      else match a.lease with
        | .granted =>
          if w.client.leased.contains t.rq.host then w      -- blocked in acquireLease
          else { w with client := { w.client with leased := t.rq.host :: w.client.leased },
                        threads := w.threads.set i { t with pc := .holding n },
                        evs := w.evs ++ [(i, .acquire t.rq.host)] }
        | _ =>  -- the wait timed out / the client is closing: the attempt fails without the lease
          { w with threads := w.threads.set i (afterAttempt t n ⟨.error (exnOfName Gen.HttpRetry.leaseFailThrow), false, 0⟩) }
    | .holding n =>
      let (c1, lg, ev) := underLease cfg w.client t.rq.host (t.rq.script n)
      { client := { c1 with leased := c1.leased.erase t.rq.host },
        threads := w.threads.set i (afterAttempt t n lg),
        evs := w.evs ++ (ev ++ [Ev.release t.rq.host]).map (fun e => (i, e)) }

/-- run a schedule -/
def runSched (cfg : Cfg) (w : World) (sched : List Nat) : World := sched.foldl (stepThread cfg) w

/-- number of threads that hold the lease of `h` -/
def holders (ts : List Thread) (h : Host) : Nat := (ts.map fun t => if t.holds h then 1 else 0).sum

def World.init (rqs : List Request) : World := { threads := rqs.map fun rq => { rq := rq } }

end Iora.HttpRetry
