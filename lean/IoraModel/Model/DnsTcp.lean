import IoraModel.Common.Bytes
import IoraModel.Common.Framing
import IoraModel.Model.DnsTransport
/-
Model of the receive side of `DnsTransport` (include/iora/network/dns/dns_transport.hpp): `handleTcpData` (2-byte length
prefix reassembly over the per-session `tcpBuffers_` deque, exact-size copy of every complete message, multi-message loop,
session → server lookup) and `handleUdpData` (session lookup, whole datagram), both ending in `processResponse`.
The limits come from the regenerated `Gen/Dns.lean` (`tcpMaxMessage` = `MAX_DNS_MESSAGE_SIZE`, `tcpDefaultBuffer` =
`DnsConfig::maxTcpBufferSize`).
-/
namespace Iora.DnsTcp
open Iora Iora.Dns

/-- what `handleTcpData` does with its buffer, in order -/
inductive Ev where
  | msg (m : Bytes)     -- a complete message: `messageData(buffer.begin() + 2, buffer.begin() + 2 + messageLength)`, then popped
  | close               -- `buffer.clear(); tcpTransport_->close(sessionId); return;`
  deriving DecidableEq, Repr

/-- the decisions of ONE round of the `while (buffer.size() >= 2)` loop on the current buffer, in source order:
too short → wait; length 0 or > `MAX_DNS_MESSAGE_SIZE` → close; length > `maxTcpBufferSize` → close; incomplete → wait;
otherwise hand out exactly `messageLength` bytes behind the prefix and pop `2 + messageLength`. -/
def frameAt (cap : Nat) (d : Bytes) : Framing.Res Ev :=
  match d with
  | b0 :: b1 :: rest =>
    let len := b0.toNat * 256 + b1.toNat            -- `(buffer[0] << 8) | buffer[1]`
    if len = 0 ∨ len > Gen.Dns.tcpMaxMessage then .fatal .close
    else if len > cap then .fatal .close
    else if rest.length < len then .more           -- `buffer.size() < 2 + messageLength`
    else .frame (.msg (rest.take len)) (2 + len)
  | _ => .more

/-- mirrors the `while (buffer.size() >= 2)` loop (fuel: one unit per round; `tcpLoop_fuel`: `|d| + 1` is always enough).
Result: the events in order and the buffer left behind (`[]` after a close: `buffer.clear()`). -/
def tcpLoop (cap : Nat) : Nat → Bytes → List Ev × Bytes
  | 0, d => ([], d)
  | f + 1, d =>
    match frameAt cap d with
    | .more => ([], d)
    | .fatal e => ([e], [])
    | .frame a n => let r := tcpLoop cap f (d.drop n); (a :: r.1, r.2)

/-- mirrors the buffer part of `handleTcpData(sessionId, data)`: growth check, append, loop -/
def tcpData (cap : Nat) (buf data : Bytes) : List Ev × Bytes :=
  if buf.length + data.length > cap then ([.close], [])
  else tcpLoop cap ((buf ++ data).length + 1) (buf ++ data)

/-- a sequence of reads on one session, carrying the buffer -/
def tcpFeed (cap : Nat) : Bytes → List Bytes → List Ev × Bytes
  | buf, [] => ([], buf)
  | buf, s :: ss =>
    let r := tcpData cap buf s
    let r' := tcpFeed cap r.2 ss
    (r.1 ++ r'.1, r'.2)

/-- no read of the sequence trips the growth check `buffer.size() + data.size() > maxTcpBufferSize` -/
def Fits (cap : Nat) : Bytes → List Bytes → Prop
  | _, [] => True
  | buf, s :: ss => buf.length + s.length ≤ cap ∧ Fits cap (tcpData cap buf s).2 ss

/-- the TCP byte stream of a list of messages (RFC 1035 §4.2.2: two-byte length prefix) -/
def tcpStream : List Bytes → Bytes
  | [] => []
  | m :: ms => be16 m.length ++ m ++ tcpStream ms

/-! ### sessions, servers, pending queries: the complete data callbacks -/

/-- state of the transport's receive side.  `sessions`: `sessionToServer_` (session id → index of the server:port),
`pending`: `pendingQueries_` as (query id, server index) — `QueryKey` is (id, server, port) —, `bufs`: `tcpBuffers_` -/
structure TSt where
  sessions : List (Nat × Nat) := []
  pending : List (Nat × Nat) := []
  bufs : List (Nat × Bytes) := []
  fallback : List (Nat × Nat) := []     -- pending queries whose `tcpFallback` flag is set (re-sent over TCP after a truncated UDP answer)
  tcpSess : List (Nat × Nat) := []      -- `serverSessions_` entries "<server>:<port>:tcp": server index → TCP session id
  nextSid : Nat := 1                    -- the session id the next `tcpTransport_->connect` returns
  deriving Repr

/-- what the outside sees of one callback -/
inductive Out where
  | done (c : DnsTransport.Completion) (server : Nat)
  | closed (sid : Nat)
  | resent (id server tcpSid : Nat)     -- `sendTcpQuery`: the query goes out again, length-prefixed, on TCP session `tcpSid`
  deriving Repr

def lookup {α : Type} (k : Nat) : List (Nat × α) → Option α
  | [] => none
  | (k', v) :: r => if k' = k then some v else lookup k r

def setBuf (sid : Nat) (b : Bytes) (bufs : List (Nat × Bytes)) : List (Nat × Bytes) :=
  (sid, b) :: bufs.filter (fun p => p.1 ≠ sid)

/-- `tcpBuffers_[sessionId]`: a session without a buffer gets an empty one -/
def bufOf (sid : Nat) (bufs : List (Nat × Bytes)) : Bytes :=
  match lookup sid bufs with
  | some b => b
  | none => []

/-- `processResponse(data, size, mode, server, port)` against the pending queries of ALL servers: only the queries of the
source server can be completed (`QueryKey::operator==` compares id, server and port) -/
def respond (pending : List (Nat × Nat)) (srv : Nat) (data : Bytes) : R (Option DnsTransport.Completion × List (Nat × Nat)) :=
  match DnsTransport.processResponse ((pending.filter (fun p => p.2 = srv)).map (·.1)) data with
  | .error e => .error e
  | .ok (c, left) => .ok (c, pending.filter (fun p => p.2 ≠ srv ∨ left.contains p.1))

/-- hand the messages of one callback to `processResponse`, in order (unknown session: the message is popped and dropped) -/
def deliver (sid : Nat) (srv : Option Nat) : List Ev → List (Nat × Nat) → R (List Out × List (Nat × Nat))
  | [], p => .ok ([], p)
  | .close :: r, p =>
    match deliver sid srv r p with
    | .error e => .error e
    | .ok (o, p') => .ok (.closed sid :: o, p')
  | .msg m :: r, p =>
    match srv with
    | none => deliver sid srv r p
    | some s =>
      match respond p s m with
      | .error e => .error e
      | .ok (c, p1) =>
        match deliver sid srv r p1 with
        | .error e => .error e
        | .ok (o, p') => .ok ((match c with | some c => [Out.done c s] | none => []) ++ o, p')

/-- mirrors `handleTcpData(sessionId, data, _)` -/
def handleTcpData (cap : Nat) (st : TSt) (sid : Nat) (data : Bytes) : R (List Out × TSt) :=
  let buf := bufOf sid st.bufs
  let (evs, buf') := tcpData cap buf data
  match deliver sid (lookup sid st.sessions) evs st.pending with
  | .error e => .error e
  | .ok (outs, p) => .ok (outs, { st with pending := p, bufs := setBuf sid buf' st.bufs, fallback := st.fallback.filter (p.contains ·) })

/-- mirrors `handleUdpData(sessionId, data, _)`: unknown session → nothing; otherwise the whole datagram -/
def handleUdpData (st : TSt) (sid : Nat) (data : Bytes) : R (List Out × TSt) :=
  match lookup sid st.sessions with
  | none => .ok ([], st)
  | some s =>
    match respond st.pending s data with
    | .error e => .error e
    | .ok (c, p) => .ok ((match c with | some c => [Out.done c s] | none => []), { st with pending := p })

/-- mirrors `handleUdpData` → `processResponse(…, UDP, …)` when `config_.transportMode == Both`: a TRUNCATED answer (TC = 1) for a
pending query that has not fallen back yet does NOT complete it — the flag is set and the query is re-sent over TCP
(`sendTcpQuery`: the TCP session to that server:port is looked up or connected and registered in `sessionToServer_`); a
truncated answer for a query that has already fallen back, for no pending query, or any other answer goes the normal way. -/
def handleUdpDataBoth (st : TSt) (sid : Nat) (data : Bytes) : R (List Out × TSt) :=
  match lookup sid st.sessions with
  | none => .ok ([], st)
  | some s =>
    let normal : R (List Out × TSt) :=
      match respond st.pending s data with
      | .error e => .error e
      | .ok (c, p) => .ok ((match c with | some c => [Out.done c s] | none => []),
                           { st with pending := p, fallback := st.fallback.filter (p.contains ·) })
    match parse data with
    | .ok r =>
      if r.header.tc ∧ st.pending.contains (r.header.id, s) ∧ ¬ st.fallback.contains (r.header.id, s) then
        match lookup s st.tcpSess with
        | some t => .ok ([.resent r.header.id s t], { st with fallback := (r.header.id, s) :: st.fallback })
        | none =>
          .ok ([.resent r.header.id s st.nextSid],
               { st with fallback := (r.header.id, s) :: st.fallback, tcpSess := (s, st.nextSid) :: st.tcpSess,
                         sessions := (st.nextSid, s) :: st.sessions, nextSid := st.nextSid + 1 })
      else normal
    | .error _ => normal

/-- mirrors `handleClose(sessionId, _)`: the session's mapping and buffer are dropped -/
def handleClose (st : TSt) (sid : Nat) : TSt :=
  { st with sessions := st.sessions.filter (fun p => p.1 ≠ sid), bufs := st.bufs.filter (fun p => p.1 ≠ sid),
            tcpSess := st.tcpSess.filter (fun p => p.2 ≠ sid) }

end Iora.DnsTcp
