import IoraModel.Model.HttpRespondConn
/-
Restart model for C16 (review round 2, F2): one `HttpServer` object across `stop()` / `start()`.

`stop()` sets `_shutdown`, stops the transport, waits AT MOST `Gen.stopDrainSeconds` seconds for the worker pool and then
resets `_transport` whether or not handlers are still running; the pool (`_threadPool`, a member) and its queued and
running tasks survive.  `start()` clears `_shutdown` and installs a NEW transport whose engine numbers its sessions from 1
again.  A task addresses its commands by session id only; whether it also checks that the transport is still the one its
request arrived on, and whether that identity is read at dispatch or only when a worker starts the task, are the translator
facts `Gen.dispatchChecksGeneration` / `Gen.epochCapturedAtDispatch` (parameter `k : EpochCheck` here).

A logged command records both generations, so "the response went to the connection the request came from" is
`transportGen = arrivedGen`.
-/
namespace Iora.HttpRespond
open Iora

/-- one engine command: the generation (number of `start()` calls) of the transport whose engine received it, the generation
    of the transport on which its request had arrived, the session id it is addressed to -/
structure RCmd where
  transportGen : Nat
  arrivedGen : Nat
  sid : Nat
  cmd : Cmd
  deriving DecidableEq, Repr

/-- one accepted request: the lambda `[this, sid, requestData]` in `ThreadPool::_tasks` or on a worker -/
structure RTask where
  /-- ghost: the generation of the transport the request arrived on -/
  gen : Nat
  /-- the epoch value the worker compares with `_transportEpoch` in its guards (`epoch` of `processHttpRequest`) -/
  stamp : Nat
  sid : Nat
  cmds : List Cmd
  running : Bool := false
  deriving DecidableEq, Repr

/-- what the worker knows about the transport its request came from -/
inductive EpochCheck where
  /-- nothing: commands are addressed by session id only (the code before FC16e) -/
  | none
  /-- `_transportEpoch.load()` is evaluated inside the pool lambda, i.e. when a worker STARTS the task: a request that is still
      queued across `stop()` + `start()` gets the new transport's epoch -/
  | atTaskStart
  /-- the epoch is read by `handleIncomingData` on the I/O thread and captured by value into the lambda (FC16e) -/
  | atDispatch
  deriving DecidableEq, Repr

/-- from the two translator facts: do the worker's guards compare an epoch, and is it the one captured at dispatch? -/
def EpochCheck.ofFacts (guardsCheck capturedAtDispatch : Bool) : EpochCheck :=
  if !guardsCheck then .none else if capturedAtDispatch then .atDispatch else .atTaskStart

structure RPool where
  /-- number of `start()` calls so far: the identity of `_transport` -/
  gen : Nat := 0
  /-- `_transport && !_shutdown` -/
  up : Bool := true
  tasks : List RTask := []
  log : List RCmd := []
  deriving Repr

inductive RStep where
  | arrive (sid : Nat) (data : Bytes)
  | pick
  | emit (i : Nat)
  /-- `stop()` returned: `_shutdown` set, `_transport` reset — after the bounded drain wait, with whatever tasks are left -/
  | stop
  /-- `start()`: `_shutdown = false`, a fresh `Transport` -/
  | start
  deriving Repr

def rqueued (ts : List RTask) : Nat := (ts.filter (fun t => !t.running)).length
def rrunning (ts : List RTask) : Nat := (ts.filter (fun t => t.running)).length

/-- a worker takes the first queued task; `restamp = some g`: the lambda reads the epoch now -/
def rmarkFirst (restamp : Option Nat) : List RTask → List RTask
  | [] => []
  | t :: ts =>
    if t.running then t :: rmarkFirst restamp ts
    else { t with running := true, stamp := (match restamp with | some g => g | none => t.stamp) } :: ts

/-- task `i` issues its next command (if it is running); a task without commands left retires -/
def remitAt : List RTask → Nat → Option (RTask × Cmd) × List RTask
  | [], _ => (none, [])
  | t :: ts, 0 =>
    if !t.running then (none, t :: ts)
    else
      match t.cmds with
      | [] => (none, ts)
      | [c] => (some (t, c), ts)
      | c :: r => (some (t, c), { t with cmds := r } :: ts)
  | t :: ts, i + 1 =>
    let r := remitAt ts i
    (r.1, t :: r.2)

/-- `k`: which epoch, if any, every `_transport && !_shutdown` guard of the worker compares with the current one -/
def stepR (k : EpochCheck) (P : Params) (p : RPool) : RStep → RPool
  | .arrive sid data =>
    -- no transport, no I/O thread, no arrival
    if !p.up then p
    else if rqueued p.tasks ≥ P.qcap then
      -- `sendErrorResponse` on the I/O thread of the current transport
      { p with log := p.log ++ (overflowCmds (isHeadRaw data)).map (fun c => ⟨p.gen, p.gen, sid, c⟩) }
    else { p with tasks := p.tasks ++ [{ gen := p.gen, stamp := p.gen, sid := sid, cmds := P.respond sid data }] }
  | .pick =>
    if rrunning p.tasks < P.w then
      { p with tasks := rmarkFirst (if k = .atTaskStart then some p.gen else none) p.tasks }
    else p
  | .emit i =>
    let r := remitAt p.tasks i
    match r.1 with
    | none => { p with tasks := r.2 }
    | some (t, c) =>
      -- the guarded send / close block: skipped while the server is down (and, if an epoch is checked, for a stale one)
      if p.up && (k == .none || t.stamp == p.gen) then { p with tasks := r.2, log := p.log ++ [⟨p.gen, t.gen, t.sid, c⟩] }
      else { p with tasks := r.2 }
  | .stop => { p with up := false }
  | .start => { p with up := true, gen := p.gen + 1 }

def runR (k : EpochCheck) (P : Params) (p : RPool) (steps : List RStep) : RPool := steps.foldl (stepR k P) p

/-- every command reached the transport its request arrived on -/
def LogSameGen (l : List RCmd) : Prop := ∀ e ∈ l, e.transportGen = e.arrivedGen

/-- hypothesis of the partial theorem: `start()` is called only when no task of the previous generation is left (the drain
    wait of `stop()` did not expire, or the application waited) -/
def StartsDrained (k : EpochCheck) (P : Params) : RPool → List RStep → Prop
  | _, [] => True
  | p, s :: rest =>
    (match s with
     | .start => p.tasks = []
     | _ => True) ∧ StartsDrained k P (stepR k P p s) rest

end Iora.HttpRespond
