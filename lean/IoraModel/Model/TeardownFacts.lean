import IoraModel.Gen.TeardownSkel
/-!
Facts the C05 models (`Model/Teardown.lean`, `Model/EngineQueue.lean`) take from the skeletons that `tools/tr_teardownskel.py`
regenerates from `transport_impl.hpp`, `tcp_engine.hpp` and `udp_engine.hpp` on every run.  Two kinds:

* values the models are INSTANTIATED with (`Teardown.nrIo`/`nrStopped`/`nrNormal`/`gated`/`ioBranchIdentityOnly`/
  `guardIdentityOnly` are defined in `Model/Teardown.lean` directly from `Gen.TeardownSkel`; `enqueueRefusesWhenClosed`,
  `residualPromisesFailed`, `dispatchFulfilsNormalArm`, `dispatchFulfilsCatchArm`, `drainClosesAndTakesUnderOneLock` below are used
  by `EngineQueue.step`): the lemmas about the models need them to be `true` and prove that by `decide`, so a change of the source
  that flips one of them breaks the build of the theorems that depend on it;
* shapes that are PINNED (`Props/C05.lean::teardown_skeleton_conforms`): the statement-level skeletons of `~Transport`,
  `teardownWaitOut`, `performTeardown`, `setTeardownFence`, `FlushFrame`, `releaseOwnFlushes`, the I/O-thread guards, and for both
  engines `stop`, `detachForTermination`, `scheduleSelfDestruct`, the thread epilogue, the loop functions and `addListener`.
-/
namespace Iora.TeardownFacts
open Iora.Gen.TeardownSkel

abbrev Event := String × String × String

def fn (name : String) : List Event :=
  match engine.find? (fun p => p.1 == name) with
  | some p => p.2
  | none => []

/-- `a` occurs and the very next event is `b` -/
def followedBy : List Event → Event → Event → Bool
  | a' :: b' :: rest, a, b => (a' == a && b' == b) || followedBy (b' :: rest) a b
  | _, _, _ => false

/-- `a` occurs somewhere before `b` -/
def before : List Event → Event → Event → Bool
  | [], _, _ => false
  | x :: rest, a, b => (x == a && rest.contains b) || before rest a b

def count (evs : List Event) (p : Event → Bool) : Nat := (evs.filter p).length

def engines : List String := ["tcp", "udp"]

/-! ### values `EngineQueue.step` is instantiated with (both engines) -/

/-- both `enqueue` overloads test the closed flag under the queue mutex, return false before pushing, and push + wake under the
same acquisition -/
def enqueueRefusesWhenClosed : Bool :=
  engines.all fun e => ["enqueue#0", "enqueue#1"].all fun f =>
    (fn (e ++ "." ++ f)).take 5 == [("lock", "qmx", ""), ("read", "closed", "qmx"), ("return", "false", "qmx"),
                                    ("push", "q", "qmx"), ("wake", "_eventFd", "qmx")] &&
    count (fn (e ++ "." ++ f)) (fun x => x.1 == "push") == 1

/-- `shutdownDrain` runs `process()` once more, then closes the queue, takes the residual commands and closes the eventfd under
ONE acquisition of the queue mutex; nothing else writes the flag -/
def drainClosesAndTakesUnderOneLock : Bool :=
  engines.all fun e =>
    let f := fn (e ++ ".shutdownDrain")
    before f ("call", "process", "") ("lock", "qmx", "") &&
    followedBy f ("lock", "qmx", "") ("write", "closed=true", "qmx") &&
    followedBy f ("write", "closed=true", "qmx") ("swap", "residual", "qmx") &&
    followedBy f ("swap", "residual", "qmx") ("close", "_eventFd", "qmx") &&
    followedBy f ("close", "_eventFd", "qmx") ("unlock", "qmx", "qmx") &&
    count f (fun x => x.1 == "write") == 1 && count f (fun x => x == ("lock", "qmx", "")) == 1

/-- after releasing the queue mutex `shutdownDrain` walks the residual commands and fails every listener promise -/
def residualPromisesFailed : Bool :=
  engines.all fun e =>
    let f := fn (e ++ ".shutdownDrain")
    followedBy f ("unlock", "qmx", "qmx") ("for", "residual", "") &&
    followedBy f ("for", "residual", "") ("if", "listenerReady", "") &&
    followedBy f ("if", "listenerReady", "") ("set_value", "false", "")

/-- `process()` swaps the queue out under the mutex; the AddListener arm fulfils a promise with the bind result -/
def dispatchFulfilsNormalArm : Bool :=
  engines.all fun e =>
    let f := fn (e ++ ".process")
    f.take 3 == [("lock", "qmx", ""), ("swap", "batch", "qmx"), ("unlock", "qmx", "qmx")] &&
    followedBy f ("case", "AddListener", "") ("call", "doAddListener", "") &&
    followedBy f ("call", "doAddListener", "") ("if", "listenerReady", "") &&
    followedBy f ("if", "listenerReady", "") ("set_value", "ok", "")
/-- … and the exception arm fails it -/
def dispatchFulfilsCatchArm : Bool :=
  engines.all fun e =>
    let f := fn (e ++ ".process")
    followedBy f ("catch", "", "") ("if", "listenerReady", "") &&
    before f ("catch", "", "") ("set_value", "false", "") &&
    count f (fun x => x.1 == "set_value") == 2

/-- the Shutdown command clears `_running` on the I/O thread -/
def shutdownCommandClearsRunning : Bool :=
  engines.all fun e => followedBy (fn (e ++ ".process")) ("case", "Shutdown", "") ("running", "store:false", "")

/-! ### pinned shapes (both engines) -/

/-- `stop()` is a CAS on `_running` (no-op when it fails), then Shutdown is enqueued and the I/O thread joined -/
def stopIsCasEnqueueJoin : Bool :=
  engines.all fun e =>
    fn (e ++ ".stop") == [("running", "compare_exchange_strong:exp,false", ""), ("return", "void", ""), ("enqueue", "shutdown", ""),
                          ("if", "joinable", ""), ("join", "_loop", "")]
/-- `detachForTermination` clears `_running` with no command and detaches the thread -/
def detachClearsRunning : Bool :=
  engines.all fun e =>
    fn (e ++ ".detachForTermination") == [("running", "store:false,std::memory_order_release", ""), ("if", "joinable", ""), ("detach", "_loop", "")]
def selfDestructStored : Bool :=
  engines.all fun e => fn (e ++ ".scheduleSelfDestruct") == [("read", "_loop.get_id", ""), ("write", "_selfDestruct=deleter", "")]
/-- the thread function runs `loop()`, and LAST takes the deleter out of the member and runs it if set -/
def epilogueRunsDeleterLast : Bool :=
  engines.all fun e =>
    fn (e ++ ".threadFn") == [("call", "loop", ""), ("catch", "", ""), ("swap", "sd<-_selfDestruct", ""), ("call", "sd-if-set", "")]
/-- both loop functions leave on `_running == false` and end in `shutdownDrain()` -/
def loopsExitIntoDrain : Bool :=
  engines.all fun e => ["loopUnbatched", "loopBatched"].all fun l =>
    let f := fn (e ++ "." ++ l)
    f.head? == some ("while", "running", "") && f.getLast? == some ("call", "shutdownDrain", "") &&
    count f (fun x => x.1 == "while") == 1
/-- `addListener` returns ShuttingDown without waiting when `enqueue` refuses the command, and only then waits on the future -/
def addListenerRejectsBeforeWaiting : Bool :=
  engines.all fun e =>
    let f := fn (e ++ ".addListener")
    followedBy f ("enqueue", "addListener+promise", "") ("return", "err:ShuttingDown", "") &&
    followedBy f ("return", "err:ShuttingDown", "") ("wait", "future", "") &&
    count f (fun x => x == ("wait", "future", "")) == 1

/-! ### pinned shapes (transport_impl.hpp) -/

def ioCond : String := "std::this_thread::get_id()==_impl->engine->getIoThreadId()"

/-- `~Transport`: no engine → nothing; the calling thread is inside the data callback of its own flush → release the own
flush guards, ordinary teardown, leave `Impl` to the outermost flush frame (FC05a); the calling thread is the I/O thread
(identity alone) → wait-out(true), release, scheduleSelfDestruct, detach; else ordinary teardown -/
def dtorShape : Bool :=
  dtor == [("if", "!_impl||!_impl->engine"), ("{", ""), ("stmt", "return"), ("}", ""),
           ("if", "Impl::FlushFrame*outer=_impl->releaseOwnFlushes()"), ("{", ""), ("stmt", "_impl->performTeardown()"),
           ("stmt", "outer->orphaned=true"), ("stmt", "(void)_impl.release()"), ("stmt", "return"), ("}", ""),
           ("if", ioCond), ("{", ""), ("stmt", "_impl->teardownWaitOut(true)"), ("stmt", "Impl*raw=_impl.release()"),
           ("stmt", "raw->engine->scheduleSelfDestruct([raw]{delete raw;})"), ("stmt", "raw->engine->detachForTermination()"),
           ("stmt", "return"), ("}", ""), ("stmt", "_impl->performTeardown()")]

def waitOutShape : Bool :=
  waitOut == [("stmt", "std::unique_lock<std::mutex>lk(syncMutex)"), ("stmt", "shuttingDown=true"),
              ("for", "auto&kv:pendingConnects"), ("{", ""), ("stmt", "kv.second->cv.notify_all()"), ("}", ""),
              ("if", "notifyReceive"), ("{", ""), ("for", "auto&kv:receiveBuffers"), ("{", ""), ("stmt", "kv.second->cv.notify_all()"),
              ("}", ""), ("}", ""),
              ("stmt", "teardownCv.wait(lk,[this]{return activeReceives==0&&activeConnects==0&&activeFlushes==0;})")]

def performTeardownShape : Bool :=
  performTeardown == [("if", "!engine->isRunning()"), ("{", ""), ("stmt", "teardownWaitOut(true)"), ("stmt", "return"), ("}", ""),
                      ("stmt", "setTeardownFence()"), ("stmt", "engine->stop()"), ("stmt", "teardownWaitOut(false)")]

def fenceShape : Bool :=
  setTeardownFence == [("stmt", "std::lock_guard<std::mutex>lk(syncMutex)"), ("stmt", "shuttingDown=true"),
                       ("for", "auto&kv:pendingConnects"), ("{", ""), ("stmt", "kv.second->cv.notify_all()"), ("}", "")]

/-- the flush frame: pushed on construction, popped on destruction, and an orphaned frame releases its guard and deletes `Impl`;
`releaseOwnFlushes` runs the guard destructor of every frame of THIS `Impl` on the calling thread and returns the outermost -/
def flushFrameShape : Bool :=
  flushFrameCtor == [("init", "impl(i),guard(g),prev(top())"), ("stmt", "top()=this")] &&
  flushFrameDtor == [("stmt", "top()=prev"), ("if", "orphaned"), ("{", ""), ("stmt", "guard.reset()"), ("stmt", "delete impl"), ("}", "")] &&
  releaseOwnFlushes == [("stmt", "FlushFrame*outer=nullptr"), ("for", "FlushFrame*f=FlushFrame::top();f!=nullptr;f=f->prev"), ("{", ""),
                        ("if", "f->impl==this"), ("{", ""), ("stmt", "f->guard.reset()"), ("stmt", "outer=f"), ("}", ""), ("}", ""),
                        ("stmt", "return outer")] &&
  flushLoopUsesLocalImplOnly && flushFrameDeclaredAfterGuard

/-- the four synchronous operations throw on the I/O thread on identity alone; `stop()`/`addListener()` carry the guard with the
`isRunning()` conjunct (they are legal before start / after stop on that thread id) -/
def ioGuardsShape : Bool :=
  ioGuards == [("connectSync", ioCond, "throw:logic_error"), ("receiveSync", ioCond, "throw:logic_error"),
               ("sendSync", ioCond, "throw:logic_error"), ("setReadMode", ioCond, "throw:logic_error"),
               ("addListener", "_impl->engine->isRunning()&&" ++ ioCond, "throw:logic_error"),
               ("stop", "_impl->engine->isRunning()&&" ++ ioCond, "throw:logic_error")]

/-- the counted windows of the model (`countedConn` covers parked, the unlocked close window and the re-lock; `countedRecv` the
whole park): the guards are declared at the top block level of the call and so live until it returns -/
def parkGuardsWholeCall : Bool := parkGuardsSpanWholeCall

end Iora.TeardownFacts
