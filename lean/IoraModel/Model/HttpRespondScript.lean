import IoraModel.Model.HttpServerRespond
/-
Scripted handlers: the small language the harness and the driver use to make a handler do something definite to the
`Response` object.  The theorems quantify over arbitrary handler functions; scripts are one way to write such functions,
and `ApiScript` singles out the handlers that only use the response API (`status =`, `set_content`, `set_header`).
-/
namespace Iora.HttpRespond
open Iora

inductive HAction where
  | setStatus (s : Int)                      -- `res.status = s`
  | setContent (body ctype : Bytes)          -- `res.set_content(body, ctype)`
  | setHeader (k v : Bytes)                  -- `res.set_header(k, v)`
  | setBodyRaw (body : Bytes)                -- `res.body = body` (NOT the API: no Content-Length)
  | eraseHeader (k : Bytes)                  -- `res.headers.erase(k)`
  | suppress                                 -- `res._suppressSend = true`
  | throwStd                                 -- `throw std::runtime_error`
  | throwOther                               -- `throw 42` (the `catch (...)` arm)
  | echo                                     -- `res.set_content(<method|path|pathRest|params|body>, "text/plain")`
  | big (n : Nat) (fill : UInt8)             -- `res.set_content(std::string(n, fill), "application/octet-stream")`
  | nop                                      -- `sleep`, `shut` (effects outside the response object)
  deriving Repr

abbrev Script := List HAction

def bytesLe : Bytes → Bytes → Bool
  | [], _ => true
  | _ :: _, [] => false
  | a :: as, b :: bs => if a.toNat < b.toNat then true else if b.toNat < a.toNat then false else bytesLe as bs

def insertSorted (e : Bytes × Bytes) : List (Bytes × Bytes) → List (Bytes × Bytes)
  | [] => [e]
  | x :: xs => if bytesLe e.1 x.1 then e :: x :: xs else x :: insertSorted e xs

def sortParams (ps : List (Bytes × Bytes)) : List (Bytes × Bytes) := ps.foldr insertSorted []

def echoBody (req : Req) : Bytes :=
  ascii req.method.name ++ [124] ++ req.path ++ [124] ++ req.pathRest ++ [124] ++
  (sortParams req.params).flatMap (fun kv => kv.1 ++ [61] ++ kv.2 ++ [38]) ++ [124] ++ req.body

/-- run a script against the response object; `true` = it threw -/
def runScript : Script → Req → Resp → HandlerOut
  | [], _, res => { res := res }
  | a :: rest, req, res =>
    match a with
    | .setStatus s => runScript rest req { res with status := s }
    | .setContent b ct => runScript rest req (res.setContent b ct)
    | .setHeader k v => runScript rest req (res.setHeader k v)
    | .setBodyRaw b => runScript rest req { res with body := b }
    | .eraseHeader k => runScript rest req { res with headers := hErase res.headers k }
    | .suppress => runScript rest req { res with suppress := true }
    | .throwStd => { res := res, threw := true }
    | .throwOther => { res := res, threw := true, nonStd := true }
    | .echo => runScript rest req (res.setContent (echoBody req) (ascii "text/plain"))
    | .big n fill => runScript rest req (res.setContent (List.replicate n fill) (ascii "application/octet-stream"))
    | .nop => runScript rest req res

/-- the actions of the response API proper -/
def HAction.isApi : HAction → Bool
  | .setStatus _ | .setContent .. | .echo | .big .. | .nop | .throwStd | .throwOther | .suppress => true
  | .setHeader k _ => !ciEq k (ascii "Content-Length")
  | .setBodyRaw _ | .eraseHeader _ => false

def ApiScript (s : Script) : Prop := ∀ a ∈ s, a.isApi = true

end Iora.HttpRespond
