import IoraModel.Model.HttpCommon
import IoraModel.Gen.Http
/-
Model of the request framing of `include/iora/network/http_server.hpp` (`handleIncomingData`,
`findChunkedRequestEnd`, as repaired by F25/F26/F27) and of the request parser
`HttpRequest::fromWireFormat / parseRequestLine / parseHeaderLine` in `include/iora/parsers/http_message.hpp`.
Limits and tables come from the regenerated `Gen/Http.lean`.
Position arithmetic: after the F26 repair every comparison is by subtraction with `pos ≤ data.length` and the
chunk size bounded by `MAX_BODY_SIZE`, so `size_t` arithmetic never wraps and `Nat` is exact.
-/
namespace Iora.Http.Srv
open Iora Iora.Http

/-! ### findChunkedRequestEnd -/

/-- result of `findChunkedRequestEnd(data, bodyStart, &decodedBody)` -/
inductive Scan where
  | needMore                                   -- `npos`
  | malformed                                  -- `kChunkedMalformed`
  | done (endPos : Nat) (decoded : Bytes)
  deriving DecidableEq, Repr

/-- the digit loop: `(chunkSize, digits, rest)`; `none` = a prefix value exceeded `MAX_BODY_SIZE` -/
def sizeDigits (maxBody : Nat) : Bytes → Nat → Nat → Option (Nat × Nat × Bytes)
  | [], acc, n => some (acc, n, [])
  | c :: cs, acc, n =>
    match digitVal 16 c with
    | none => some (acc, n, c :: cs)
    | some v => if acc * 16 + v > maxBody then none else sizeDigits maxBody cs (acc * 16 + v) (n + 1)

/-- the chunk-size line (bytes before its CRLF): `none` = malformed, `some size` otherwise -/
def sizeLine (maxBody : Nat) (line : Bytes) : Option Nat :=
  match sizeDigits maxBody line 0 0 with
  | none => none
  | some (size, digits, rest) =>
    if digits = 0 then none
    else if chunkExtOk rest then some size else none

/-- the trailer-section loop after the last chunk: the message ends after the first EMPTY line -/
def trailerEnd (data : Bytes) (pos : Nat) : Option Nat :=
  if h : pos < data.length then
    match findAux crlf (data.drop pos) 0 with
    | none => none
    | some off => if off = 0 then some (pos + 2) else trailerEnd data (pos + off + 2)
  else none
termination_by data.length - pos
decreasing_by omega

/-- one iteration of the `while (pos < data.length())` loop of `findChunkedRequestEnd` -/
inductive ScanStep where
  | needMore
  | malformed
  | last (endPos : Nat)                      -- the last chunk and its trailer section end here
  | next (pos : Nat) (chunk : Bytes)         -- one data chunk skipped (and appended to `*decodedBody`)
  deriving DecidableEq, Repr

def scanStep (maxBody : Nat) (data : Bytes) (pos : Nat) : ScanStep :=
  match findAux crlf (data.drop pos) 0 with
  | none => .needMore
  | some off =>
    match sizeLine maxBody ((data.drop pos).take off) with
    | none => .malformed
    | some size =>
      if size = 0 then
        match trailerEnd data (pos + off + 2) with
        | none => .needMore
        | some e => .last e
      else if data.length - (pos + off + 2) < size + 2 then .needMore
      else if data[pos + off + 2 + size]? ≠ some 13 ∨ data[pos + off + 2 + size + 1]? ≠ some 10 then .malformed
      else .next (pos + off + 2 + size + 2) ((data.drop (pos + off + 2)).take size)

theorem scanStep_next_lt (maxBody : Nat) (data : Bytes) (pos p : Nat) (c : Bytes)
    (h : scanStep maxBody data pos = .next p c) : pos < p := by
  unfold scanStep at h
  repeat' (split at h)
  all_goals first
    | (cases h; done)
    | (cases h; omega)

/-- the `while (pos < data.length())` loop of `findChunkedRequestEnd` -/
def chunkScan (maxBody : Nat) (data : Bytes) (pos : Nat) (decoded : Bytes) : Scan :=
  if h : pos < data.length then
    match hs : scanStep maxBody data pos with
    | .needMore => .needMore
    | .malformed => .malformed
    | .last e => .done e decoded
    | .next p c => chunkScan maxBody data p (decoded ++ c)
  else .needMore
termination_by data.length - pos
decreasing_by
  have := scanStep_next_lt maxBody data pos p c hs
  omega

/-- mirrors `findChunkedRequestEnd(data, bodyStart, &decodedBody)` -/
def findChunkedRequestEnd (data : Bytes) (bodyStart : Nat) : Scan :=
  chunkScan Gen.Http.serverMaxBodySize data bodyStart []

/-! ### the header scan of handleIncomingData -/

structure HdrScan where
  contentLength : Nat := 0
  haveCL : Bool := false
  isChunked : Bool := false
  haveTE : Bool := false
  deriving DecidableEq, Repr

/-- strip one trailing CR (`if (!line.empty() && line.back() == '\r') line.pop_back()`) -/
def stripCR (line : Bytes) : Bytes :=
  match line.getLast? with
  | some 13 => line.dropLast
  | _ => line

/-- lines as `std::getline` yields them, each with one trailing CR removed (a final empty line is harmless:
it has no colon / is skipped) -/
def getLines (s : Bytes) : List Bytes := (splitOn 10 s).map stripCR

/-- the per-line body of the header loop; `none` = `closeSession(sid); return;` -/
def scanHeaderLines : List Bytes → HdrScan → Option HdrScan
  | [], hs => some hs
  | line :: rest, hs =>
    match indexOf? (· == 58) line with
    | none => scanHeaderLines rest hs
    | some colon =>
      let key := lower (trim (line.take colon))
      let value := trim (line.drop (colon + 1))
      if key = ascii "content-length" then
        -- F25 repair: 1*DIGIT only, `std::stoull` overflow is `std::out_of_range`, repeated fields must agree
        match parseFullUInt 10 value with
        | none => none
        | some n =>
          if hs.haveCL ∧ n ≠ hs.contentLength then none
          else if n > Gen.Http.serverMaxBodySize then none
          else scanHeaderLines rest { hs with contentLength := n, haveCL := true }
      else if key = ascii "transfer-encoding" then
        -- FC15a repair: chunked iff the FINAL coding of the (last) Transfer-Encoding line is exactly `chunked`
        scanHeaderLines rest { hs with haveTE := true,
                                       isChunked := lastToken (splitOn 44 (lower value)) [] == ascii "chunked" }
      else scanHeaderLines rest hs

/-- The pipelining loop of `handleIncomingData` as THIS model reads it (statement skeleton regenerated from the source as
`Gen.Http.serverExtractLoop`; `C15.gen_extract_loop` pins the two against each other).  What the model relies on:
the header terminator is searched from offset 0 of the working buffer (`find` without a start offset); the header-size limit,
the header section, the chunk-scan start `headerEnd + 4`, `totalExpectedLength` and the extracted request are all taken from
that same origin; after each request the working buffer is TRIMMED (`dataStr = dataStr.substr(requestEndPos)`) and the session
keeps the trimmed rest - so every offset is relative to the start of the current request (`extractOne buf`, then
`drainLoop … (buf.drop n)`), never to the start of the pass. -/
def extractLoopModelled : List String :=
  ["auto headerEnd = dataStr.find(\"\\r\\n\\r\\n\")",
   "if (headerEnd == std::string::npos)",
   "if (headerEnd > SessionInfo::MAX_HEADER_SIZE)",
   "std::string headerSection = dataStr.substr(0, headerEnd)",
   "std::istringstream headerStream(headerSection)",
   "std::size_t requestEndPos",
   "requestEndPos = findChunkedRequestEnd(dataStr, headerEnd + 4, &decodedBody)",
   "if (requestEndPos == kChunkedMalformed)",
   "if (requestEndPos == std::string::npos)",
   "std::size_t totalExpectedLength = headerEnd + 4 + contentLength",
   "if (dataStr.length() < totalExpectedLength)",
   "requestEndPos = totalExpectedLength",
   "std::string requestData = dataStr.substr(0, requestEndPos)",
   "requestData = dataStr.substr(0, headerEnd + 4) + decodedBody",
   "dataStr = dataStr.substr(requestEndPos)",
   "it->second.buffer = dataStr",
   "if (!_threadPool.tryEnqueue([this, sid, requestData]()",
   "processHttpRequest(sid, requestData)"]

/-- The length conversions of both endpoints as the models read them (statement skeletons regenerated from the source as
`Gen.Http.numberParsers`; `C15.gen_number_parsers` pins the two against each other).  What the models rely on:
* server Content-Length: an all-digits test (`find_first_not_of("0123456789")`) and then `std::stoull`, whose
  `std::out_of_range` for values `>= 2^64` is caught by the `catch (...)` that closes the connection - modelled as
  `parseFullUInt 10` over the UNBOUNDED value of the digit string with an explicit `>= 2^64 => none`;
* client numbers: `std::from_chars` with `ec == errc()` (overflow is `result_out_of_range`) and `ptr == e` - the same
  `parseFullUInt`; Content-Length elements must all be equal; chunk sizes are additionally compared with the cap;
* server chunk size: an accumulator that is compared with `MAX_BODY_SIZE` right after every shift, inside the digit loop, so
  it never holds more than `16 * MAX_BODY_SIZE + 15` and cannot wrap - modelled as `sizeDigits` over unbounded `Nat`s with the
  same per-prefix limit check.
An accumulator loop without such a check (`parsedLength = parsedLength * 10 + …`) computes the value modulo 2^64 and is NOT
what these models describe. -/
def numberParsersModelled : List (String × List String) :=
  [("server Content-Length", ["try", "if (value.empty() || value.find_first_not_of(\"0123456789\") != std::string::npos)", "const std::size_t parsedLength = std::stoull(value)", "if (haveContentLength && parsedLength != contentLength)", "contentLength = parsedLength", "haveContentLength = true", "if (contentLength > SessionInfo::MAX_BODY_SIZE)", "catch (...)"]),
  ("client parseFullUInt", ["if (b == e)", "return false", "auto r = std::from_chars(b, e, out, base)", "return r.ec == std::errc() && r.ptr == e"]),
  ("client parseContentLength", ["std::uint64_t result = 0", "bool have = false", "std::uint64_t val = 0", "if (a == std::string::npos || a >= end || b == std::string::npos || b < a || !parseFullUInt(v.data() + a, v.data() + b + 1, 10, val))", "if (have && val != result)", "result = val", "have = true", "if (!have)", "return result"]),
  ("client chunk size", ["std::uint64_t chunkSize = 0", "if (!parseFullUInt(buf.data() + p, buf.data() + hexEnd, 16, chunkSize) || chunkSize > effectiveCap)", "if (chunkSize == 0)", "if (buf.size() < dataStart || buf.size() - dataStart < chunkSize || buf.size() - dataStart - chunkSize < 2)", "if (buf[dataStart + chunkSize] != '\\r' || buf[dataStart + chunkSize + 1] != '\\n')", "st.decoded.append(buf, dataStart, static_cast<std::size_t>(chunkSize))", "st.pos = dataStart + chunkSize + 2"]),
  ("server chunk size", ["std::size_t chunkSize = 0", "std::size_t digits = 0", "while (digits < chunkSizeStr.size())", "const char c = chunkSizeStr[digits]", "chunkSize = chunkSize * 16 + v", "++digits", "if (chunkSize > SessionInfo::MAX_BODY_SIZE)", "std::size_t afterSize = digits", "if (digits == 0 || (afterSize < chunkSizeStr.size() ? chunkSizeStr[afterSize] != '", "' : afterSize != digits))", "if (chunkSize == 0)", "if (data.length() - pos < chunkSize + 2)", "if (data[pos + chunkSize] != '\\r' || data[pos + chunkSize + 1] != '\\n')", "decodedBody->append(data, pos, chunkSize)", "pos += chunkSize + 2"])]

/-- one turn of the `while (true)` extraction loop -/
inductive Extract where
  | needMore
  | close
  | request (raw : Bytes) (consumed : Nat)     -- `requestData`, `requestEndPos`
  deriving DecidableEq, Repr

def extractOne (buf : Bytes) : Extract :=
  match find crlf2 buf 0 with
  | none => .needMore
  | some headerEnd =>
    if headerEnd > Gen.Http.serverMaxHeaderSize then .close
    else
      match scanHeaderLines (getLines (buf.take headerEnd)) {} with
      | none => .close
      | some hs =>
        if hs.haveTE ∧ ¬ hs.isChunked then .close          -- a transfer coding the server cannot decode
        else if hs.isChunked ∧ hs.haveCL then .close
        else if hs.isChunked then
          match findChunkedRequestEnd buf (headerEnd + 4) with
          | .malformed => .close
          | .needMore => .needMore
          | .done e decoded => .request (buf.take (headerEnd + 4) ++ decoded) e
        else
          let total := headerEnd + 4 + hs.contentLength
          if buf.length < total then .needMore else .request (buf.take total) total

/-! ### HttpRequest::fromWireFormat -/

structure Request where
  method : Nat            -- index into `Gen.Http.methods` = `enum class HttpMethod`
  uri : Bytes
  minor : Nat
  headers : Headers
  body : Bytes
  deriving DecidableEq, Repr

/-- mirrors `isHttpToken` -/
def isTchar (c : UInt8) : Bool :=
  decide ((65 ≤ c.toNat ∧ c.toNat ≤ 90) ∨ (97 ≤ c.toNat ∧ c.toNat ≤ 122) ∨ (48 ≤ c.toNat ∧ c.toNat ≤ 57)) ||
  (ascii Gen.Http.tcharPunct).contains c
def isHttpToken (s : Bytes) : Bool := !s.isEmpty && s.all isTchar

/-- mirrors `parseMethod`: table index, or the `HttpRequestError` status -/
def parseMethod (m : Bytes) : Except Nat Nat :=
  match (Gen.Http.methods.map ascii).idxOf? m with
  | some i => .ok i
  | none => if isHttpToken m then .error 501 else .error 400

/-- mirrors `HttpVersion::parse`: (major, minor) or `none` (`std::invalid_argument`) -/
def parseVersion (v : Bytes) : Option (Nat × Nat) :=
  match v with
  | [72, 84, 84, 80, 47, a, 46, b] => if isDigit a ∧ isDigit b then some (a.toNat - 48, b.toNat - 48) else none
  | _ => none

/-- mirrors `parseRequestLine`: (method, target, minor version) or the error status -/
def parseRequestLine (line : Bytes) : Except Nat (Nat × Bytes × Nat) :=
  match indexOf? (· == 32) line with
  | none => .error 400
  | some p1 =>
    match indexOf? (· == 32) (line.drop (p1 + 1)) with
    | none => .error 400
    | some k =>
      let p2 := p1 + 1 + k
      if p1 = 0 ∨ p2 = p1 + 1 ∨ p2 + 1 ≥ line.length then .error 400
      else
        let methodStr := line.take p1
        let target := (line.drop (p1 + 1)).take k
        let versionStr := line.drop (p2 + 1)
        if methodStr.any (fun c => c.toNat < 0x21) then .error 400
        else if versionStr.any (fun c => c.toNat < 0x21) then .error 400
        else if target.length > Gen.Http.maxRequestTargetSize then .error 414
        else if target.any (fun c => c.toNat < 0x20 ∨ c.toNat = 0x7F) then .error 400
        else
          match parseMethod methodStr with
          | .error s => .error s
          | .ok m =>
            match parseVersion versionStr with
            | none => .error 400
            | some (major, minor) => if major ≠ 1 then .error 505 else .ok (m, target, minor)

/-- mirrors `detail::isListValuedHeader` -/
def isListValued (name : Bytes) : Bool := (Gen.Http.listValuedHeaders.map ascii).any (ciEq · name)

/-- mirrors `detail::addOrCombineHeader` -/
def addOrCombine : Headers → Bytes → Bytes → Headers
  | [], k, v => [(k, v)]
  | (k', v') :: t, k, v =>
    if ciEq k' k then
      if isListValued k then
        if v.isEmpty then (k', v') :: t
        else if v'.isEmpty then (k', v) :: t
        else (k', v' ++ ascii ", " ++ v) :: t
      else (k', v) :: t
    else (k', v') :: addOrCombine t k v

/-- `colonPos > 0 && (line[colonPos - 1] == ' ' || line[colonPos - 1] == '\t')` on `raw = line.substr(0, colonPos)`:
whitespace between the field name and the colon (RFC 9112 §5.1; repair FC15d) -/
def nameEndsWithOWS (raw : Bytes) : Bool :=
  match raw.getLast? with
  | some c => isOWS c
  | none => false

/-- the header-line loop of `fromWireFormat` after the request line: (headers, hostCount) or status -/
def parseReqLines : List Bytes → Headers → Nat → Except Nat (Headers × Nat)
  | [], h, n => .ok (h, n)
  | line :: rest, h, n =>
    match line with
    | [] => parseReqLines rest h n
    | c0 :: _ =>
      if c0 = 32 ∨ c0 = 9 then .error 400
      else
        match indexOf? (· == 58) line with
        | none => parseReqLines rest h n
        | some colon =>
          if nameEndsWithOWS (line.take colon) then .error 400          -- `Content-Length : 5` (FC15d)
          else
            let name := trim (line.take colon)
            let value := trim (line.drop (colon + 1))
            parseReqLines rest (addOrCombine h name value) (if ciEq name (ascii "Host") then n + 1 else n)

/-- mirrors `HttpRequest::fromWireFormat(data)` for data that contains a header terminator -/
def fromWireFormat (data : Bytes) : Except Nat Request :=
  match find crlf2 data 0 with
  | none => .error 500                         -- `std::invalid_argument` → generic 500 (never after extraction)
  | some headerEnd =>
    let body := data.drop (headerEnd + 4)
    match getLines (data.take headerEnd) with
    | [] => .error 400
    | first :: lines =>
      match parseRequestLine first with
      | .error s => .error s
      | .ok (m, target, minor) =>
        match parseReqLines lines [] 0 with
        | .error s => .error s
        | .ok (h, hostCount) =>
          if hostCount > 1 then .error 400
          else if minor ≥ 1 ∧ hostCount = 0 then .error 400
          else if hostCount ≥ 1 ∧ hdrFind h (ascii "Host") = some [] then .error 400
          else .ok { method := m, uri := target, minor := minor, headers := h, body := body }

/-! ### handleIncomingData as a step system -/

/-- what the application / the peer observes for one extracted request (`processHttpRequest`, default handler only) -/
inductive Ev where
  | handled (r : Request) (path : Bytes)       -- the handler saw `r` (path = uri without the query), then 200
  | optionsStar                                -- `OPTIONS *`: answered without a handler
  | rejected (status : Nat)                    -- error response + close
  deriving DecidableEq, Repr

/-- `req.path` after the query strip in `processHttpRequest` -/
def stripQuery (uri : Bytes) : Bytes :=
  match indexOf? (· == 63) uri with
  | none => uri
  | some q => uri.take q

def dispatch (raw : Bytes) : Ev :=
  match fromWireFormat raw with
  | .error s => .rejected s
  | .ok r =>
    let path := stripQuery r.uri
    if r.method = 5 ∧ path = ascii "*" then .optionsStar else .handled r path

structure Sess where
  buffer : Bytes := []
  alive : Bool := true
  deriving DecidableEq, Repr

/-- the extraction loop on the complete buffer: dispatched requests, whether the I/O thread closed, remainder -/
def drainLoop : Nat → Bytes → List Ev × Bool × Bytes
  | 0, buf => ([], false, buf)
  | fuel + 1, buf =>
    match extractOne buf with
    | .needMore => ([], false, buf)
    | .close => ([], true, buf)
    | .request raw n =>
      if n = 0 then ([], false, buf)       -- cannot happen (`headerEnd + 4 ≤ n`); keeps the fuel argument honest
      else
        let r := drainLoop fuel (buf.drop n)
        (dispatch raw :: r.1, r.2.1, r.2.2)

/-- mirrors `handleIncomingData(sid, data, len)` for a non-upgraded session: (worker events, closed by the I/O thread?).
`closeSession` makes the engine close the connection; its close callback erases the session, so a closed session sees
no further data (`alive := false`; engine behaviour, modelled not verified). -/
def handleIncomingData (s : Sess) (seg : Bytes) : Sess × List Ev × Bool :=
  if !s.alive then (s, [], false)
  else if s.buffer.length + seg.length > Gen.Http.serverMaxBufferSize then ({ s with alive := false }, [], true)
  else
    let buf := s.buffer ++ seg
    let r := drainLoop (buf.length + 1) buf
    ({ buffer := r.2.2, alive := !r.2.1 }, r.1, r.2.1)

end Iora.Http.Srv
