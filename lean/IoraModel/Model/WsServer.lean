import IoraModel.Model.WsFrame
/-
Model of the per-session data path of `include/iora/network/websocket_server.hpp`:
`onUpgradedData`, `handleFrame`, `handleDataFrame`, `sendText/sendBinary/sendPing/sendClose`.
One `Sess` is one entry of `_sessions` (plus "entry erased" = `alive = false`).
-/
namespace Iora.Ws

/-- externally visible effects, in the order the real code produces them -/
inductive Ev where
  | text (bs : Bytes)                 -- `_onTextMessage`
  | binary (bs : Bytes)               -- `_onBinaryMessage`
  | sent (wire : Bytes)               -- `sendRaw` (bytes handed to the transport)
  | onClose (code : Nat) (reason : Bytes)
  | onError
  | closeSession                      -- `closeSession(sid)`
  deriving DecidableEq, Repr

structure Sess where
  alive : Bool := true
  buffer : Bytes := []
  fragBuf : Bytes := []
  fragOp : Nat := 0
  closeSent : Bool := false
  deriving DecidableEq, Repr

def str (s : String) : Bytes := s.toUTF8.toList

/-- mirrors `sendClose(sid, code, reason)`: flag under the lock (if the session exists), frame sent outside -/
def sendClose (s : Sess) (code : Nat) (reason : Bytes) : Sess × List Ev :=
  ({ s with closeSent := if s.alive then true else s.closeSent }, [.sent (serialize (makeClose code reason))])

/-- erase the `_sessions` entry -/
def erase (_s : Sess) : Sess := { alive := false }

/-- mirrors `handleDataFrame` -/
def handleDataFrame (maxFrame : Nat) (s : Sess) (f : Frame) : Sess × List Ev :=
  if !s.alive then (s, []) else
  let isStart := f.opcode = 1 || f.opcode = 2
  let s1 : Sess :=
    if isStart then { s with fragOp := f.opcode, fragBuf := f.payload }
    else if f.opcode = 0 then { s with fragBuf := s.fragBuf ++ f.payload }
    else s
  if s1.fragBuf.length > maxFrame then
    let (s2, ev) := sendClose s1 1009 (str "Message Too Big")
    (s2, ev ++ [.onError])
  else if f.fin then
    let op := s1.fragOp
    let pl := s1.fragBuf
    let s2 := { s1 with fragBuf := [], fragOp := 0 }
    if op = 1 then
      if !isValidUtf8 pl then sendClose s2 1007 (str "Invalid UTF-8")
      else (s2, [.text pl])
    else if op = 2 then (s2, [.binary pl])
    else (s2, [])
  else (s1, [])

/-- mirrors `handleFrame` -/
def handleFrame (maxFrame : Nat) (s : Sess) (f : Frame) : Sess × List Ev :=
  if f.opcode = 1 || f.opcode = 2 || f.opcode = 0 then handleDataFrame maxFrame s f
  else if f.opcode = 9 then (s, [.sent (serialize (mkFrame 10 true f.payload))])
  else if f.opcode = 10 then (s, [])
  else if f.opcode = 8 then
    let (code, reason) := closePayload f.payload
    let echo : List Ev := if s.alive && !s.closeSent then [.sent (serialize (makeClose code reason))] else []
    (erase s, echo ++ [.onClose code reason, .closeSession])
  else
    let (s2, ev) := sendClose s 1002 (str "Unsupported opcode")
    (s2, ev ++ [.onError])

/-- the parse loop of `onUpgradedData` over the local buffer; returns the session, the events and the
unconsumed remainder (`none` = the connection was failed and nothing is put back) -/
def loop (maxFrame : Nat) : Nat → Sess → Bytes → Sess × List Ev × Option Bytes
  | 0, s, d => (s, [], some d)
  | fuel + 1, s, d =>
    if d.isEmpty then (s, [], some d) else
    match parse maxFrame d with
    | .incomplete => (s, [], some d)
    | .protocolError =>
      let (s2, ev) := sendClose s 1002 (str "Protocol error")
      (erase s2, ev ++ [.onError, .closeSession], none)
    | .tooLarge =>
      let (s2, ev) := sendClose s 1009 (str "Message Too Big")
      (erase s2, ev ++ [.onError, .closeSession], none)
    | .frame f n =>
      let (s1, ev1) := handleFrame maxFrame s f
      let (s2, ev2, r) := loop maxFrame fuel s1 (d.drop n)
      (s2, ev1 ++ ev2, r)

/-- mirrors `onUpgradedData(sid, data, len)` -/
def onData (maxFrame : Nat) (s : Sess) (data : Bytes) : Sess × List Ev :=
  if !s.alive then (s, []) else
  let local_ := s.buffer ++ data
  let (s1, ev, r) := loop maxFrame (local_.length + 1) { s with buffer := [] } local_
  match r with
  | some rest => (if s1.alive then { s1 with buffer := rest } else s1, ev)
  | none => (s1, ev)

/-- application-side operations -/
inductive AppOp where
  | sendText (bs : Bytes)
  | sendBinary (bs : Bytes)
  | sendPing (bs : Bytes)
  | sendClose (code : Nat) (reason : Bytes)
  | data (bs : Bytes)
  deriving Repr

/-- mirrors `sendText/sendBinary/sendPing`: check-and-send is one `_wsMutex` critical section -/
def appSend (s : Sess) (op : Nat) (pl : Bytes) : Sess × List Ev :=
  if !s.alive || s.closeSent then (s, []) else (s, [.sent (serialize (mkFrame op true pl))])

def step (maxFrame : Nat) (s : Sess) : AppOp → Sess × List Ev
  | .sendText bs => appSend s 1 bs
  | .sendBinary bs => appSend s 2 bs
  | .sendPing bs => appSend s 9 bs
  | .sendClose c r => sendClose s c r
  | .data bs => onData maxFrame s bs

def run (maxFrame : Nat) : Sess → List AppOp → Sess × List Ev
  | s, [] => (s, [])
  | s, op :: ops =>
    let (s1, e1) := step maxFrame s op
    let (s2, e2) := run maxFrame s1 ops
    (s2, e1 ++ e2)

end Iora.Ws
