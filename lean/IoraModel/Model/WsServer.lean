import IoraModel.Model.WsFrame
/-
Model of the per-session data path of `include/iora/network/websocket_server.hpp`:
`onUpgradedData`, `handleFrame`, `handleDataFrame`, `sendText/sendBinary/sendPing/sendClose`, and of the upgrade
boundary of `http_server.hpp` (the 101 response followed by the drain of the bytes that arrived with the request).
One `Sess` is one entry of `_sessions` (plus "entry erased" = `alive = false`).

Application callbacks run outside `_wsMutex` (pinned by `Gen.Ws.serverSkeleton`), so an application may SEND from
inside them. What it sends there is part of the input: `Cbs` gives, per callback, the list of sends the application
issues re-entrantly; they take effect at the point of the callback, before the handler continues.
-/
namespace Iora.Ws

/-- externally visible effects, in the order the real code produces them -/
inductive Ev where
  | text (bs : Bytes)                 -- `_onTextMessage`
  | binary (bs : Bytes)               -- `_onBinaryMessage`
  | sent (wire : Bytes)               -- `sendRaw` (bytes handed to the transport)
  | onClose (code : Nat) (reason : Bytes)
  | onError
  | closeSession                      -- `closeSession(sid)`
  | connected                         -- `_onConnect` (upgrade accepted)
  | upgraded                          -- the `101 Switching Protocols` response handed to the transport
  deriving DecidableEq, Repr

structure Sess where
  alive : Bool := true
  buffer : Bytes := []
  fragBuf : Bytes := []
  fragOp : Nat := 0
  closeSent : Bool := false
  deriving DecidableEq, Repr

/-- what the application sends from inside each callback -/
structure Cbs where
  onText : List Send := []
  onBinary : List Send := []
  onClose : List Send := []
  onError : List Send := []
  deriving Repr

def str (s : String) : Bytes := s.toUTF8.toList

/-- mirrors `sendClose(sid, code, reason)`: flag under the lock (if the session exists), frame sent outside -/
def sendClose (s : Sess) (code : Nat) (reason : Bytes) : Sess × List Ev :=
  ({ s with closeSent := if s.alive then true else s.closeSent }, [.sent (serialize (makeClose code reason))])

/-- erase the `_sessions` entry -/
def erase (_s : Sess) : Sess := { alive := false }

/-- mirrors `sendText/sendBinary` (and the locked part of `sendPing`): check-and-send is one `_wsMutex` critical section -/
def appSend (s : Sess) (op : Nat) (pl : Bytes) : Sess × List Ev :=
  if !s.alive || s.closeSent then (s, []) else (s, [.sent (serialize (mkFrame op true pl))])

/-- mirrors `sendPing`: a payload that would not be a valid control frame is dropped before anything else -/
def sendPing (s : Sess) (pl : Bytes) : Sess × List Ev :=
  if pl.length > Gen.Ws.serverPingMax then (s, []) else appSend s 9 pl

def sendStep (s : Sess) : Send → Sess × List Ev
  | .text bs => appSend s 1 bs
  | .binary bs => appSend s 2 bs
  | .ping bs => sendPing s bs
  | .close c r => sendClose s c r

def runSends : Sess → List Send → Sess × List Ev
  | s, [] => (s, [])
  | s, a :: as =>
    let (s1, e1) := sendStep s a
    let (s2, e2) := runSends s1 as
    (s2, e1 ++ e2)

/-- invoke a callback: the callback event, then whatever the application sends from inside it -/
def fire (s : Sess) (e : Ev) (script : List Send) : Sess × List Ev :=
  let (s1, ev) := runSends s script
  (s1, e :: ev)

/-- a complete message is handed to the application (text only if valid UTF-8, else close 1007) -/
def deliver (cb : Cbs) (s : Sess) (op : Nat) (pl : Bytes) : Sess × List Ev :=
  if op = 1 then
    if !isValidUtf8 pl then sendClose s 1007 (str "Invalid UTF-8")
    else fire s (.text pl) cb.onText
  else if op = 2 then fire s (.binary pl) cb.onBinary
  else (s, [])

/-- mirrors the failure sequence shared by the frame-level and the message-level size/protocol errors:
`sendClose`, `_onError`, erase the session, `closeSession` -/
def failSession (cb : Cbs) (s : Sess) (code : Nat) (reason : Bytes) : Sess × List Ev :=
  let (s2, ev) := sendClose s code reason
  let (s3, ev3) := fire s2 .onError cb.onError
  (erase s3, ev ++ ev3 ++ [.closeSession])

/-- the locked part of `handleDataFrame`: a start frame replaces the fragment buffer, a continuation frame appends -/
def accumulate (s : Sess) (f : Frame) : Sess :=
  if f.opcode = 1 || f.opcode = 2 then { s with fragOp := f.opcode, fragBuf := f.payload }
  else if f.opcode = 0 then { s with fragBuf := s.fragBuf ++ f.payload }
  else s

/-- mirrors `handleDataFrame` -/
def handleDataFrame (maxFrame : Nat) (cb : Cbs) (s : Sess) (f : Frame) : Sess × List Ev :=
  if !s.alive then (s, []) else
  let s1 := accumulate s f
  if s1.fragBuf.length > maxFrame then
    failSession cb { s1 with fragBuf := [], fragOp := 0 } 1009 (str "Message Too Big")
  else if f.fin then
    deliver cb { s1 with fragBuf := [], fragOp := 0 } s1.fragOp s1.fragBuf
  else (s1, [])

/-- mirrors `handleFrame` -/
def handleFrame (maxFrame : Nat) (cb : Cbs) (s : Sess) (f : Frame) : Sess × List Ev :=
  if f.opcode = 1 || f.opcode = 2 || f.opcode = 0 then handleDataFrame maxFrame cb s f
  else if f.opcode = 9 then (s, [.sent (serialize (mkFrame 10 true f.payload))])
  else if f.opcode = 10 then (s, [])
  else if f.opcode = 8 then
    let (code, reason) := closePayload f.payload
    let doEcho := s.alive && !s.closeSent
    let s1 : Sess := if doEcho then { s with closeSent := true } else s
    let echo : List Ev := if doEcho then [.sent (serialize (makeClose code reason))] else []
    let (s2, evc) := fire s1 (.onClose code reason) cb.onClose
    (erase s2, echo ++ evc ++ [.closeSession])
  else
    let (s2, ev) := sendClose s 1002 (str "Unsupported opcode")
    let (s3, ev3) := fire s2 .onError cb.onError
    (s3, ev ++ ev3)

/-- the parse loop of `onUpgradedData` over the local buffer; returns the session, the events and the
unconsumed remainder (`none` = the connection was failed and nothing is put back) -/
def loop (maxFrame : Nat) (cb : Cbs) : Nat → Sess → Bytes → Sess × List Ev × Option Bytes
  | 0, s, d => (s, [], some d)
  | fuel + 1, s, d =>
    if d.isEmpty then (s, [], some d) else
    match parse maxFrame d with
    | .incomplete => (s, [], some d)
    | .protocolError =>
      let (s2, ev) := failSession cb s 1002 (str "Protocol error")
      (s2, ev, none)
    | .tooLarge =>
      let (s2, ev) := failSession cb s 1009 (str "Message Too Big")
      (s2, ev, none)
    | .frame f n =>
      let (s1, ev1) := handleFrame maxFrame cb s f
      let (s2, ev2, r) := loop maxFrame cb fuel s1 (d.drop n)
      (s2, ev1 ++ ev2, r)

/-- mirrors `onUpgradedData(sid, data, len)` -/
def onData (maxFrame : Nat) (cb : Cbs) (s : Sess) (data : Bytes) : Sess × List Ev :=
  if !s.alive then (s, []) else
  let local_ := s.buffer ++ data
  let (s1, ev, r) := loop maxFrame cb (local_.length + 1) { s with buffer := [] } local_
  match r with
  | some rest => (if s1.alive then { s1 with buffer := rest } else s1, ev)
  | none => (s1, ev)

/-- mirrors the upgrade boundary (`onUpgradeRequest` + `http_server.hpp` processHttpRequest): a fresh session entry,
`_onConnect`, the 101 response, then the bytes that arrived in the same read(s) as the request are drained into
`onUpgradedData` (only if there are any) -/
def upgrade (maxFrame : Nat) (cb : Cbs) (trailing : Bytes) : Sess × List Ev :=
  let (s1, ev) := if trailing.isEmpty then (({} : Sess), []) else onData maxFrame cb {} trailing
  (s1, [.connected, .upgraded] ++ ev)

/-- application-side operations on ONE connection (an upgrade starts a new connection: see `upgrade`) -/
inductive AppOp where
  | sendText (bs : Bytes)
  | sendBinary (bs : Bytes)
  | sendPing (bs : Bytes)
  | sendClose (code : Nat) (reason : Bytes)
  | data (bs : Bytes)
  | transportClosed                  -- the transport's close callback: `handleSessionClosed` → `onSessionClosed(sid)`
  deriving Repr

def step (maxFrame : Nat) (cb : Cbs) (s : Sess) : AppOp → Sess × List Ev
  | .sendText bs => sendStep s (.text bs)
  | .sendBinary bs => sendStep s (.binary bs)
  | .sendPing bs => sendStep s (.ping bs)
  | .sendClose c r => sendStep s (.close c r)
  | .data bs => onData maxFrame cb s bs
  | .transportClosed => (erase s, [])     -- mirrors `WebSocketServer::onSessionClosed`: `_sessions.erase(sid)` (repair FC18g)

def run (maxFrame : Nat) (cb : Cbs) : Sess → List AppOp → Sess × List Ev
  | s, [] => (s, [])
  | s, op :: ops =>
    let (s1, e1) := step maxFrame cb s op
    let (s2, e2) := run maxFrame cb s1 ops
    (s2, e1 ++ e2)

end Iora.Ws
