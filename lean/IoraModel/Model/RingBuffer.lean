import IoraModel.Gen.Orders
/-!
# Sequential model of `iora::core::RingBuffer<T, Capacity>` and `iora::core::DynamicRingBuffer<T>`
(include/iora/core/ring_buffer.hpp) — DESIGN §7 C10.

Both classes share one algorithm: monotone `size_t` counters `_head` (producer) / `_tail` (consumer), slots addressed
by `counter & mask`.  The model keeps the counters as `UInt64` (so every wrap the C++ can perform, the model performs
too) and the slot array as a total function `Nat → α` (indices are always `x &&& mask`, proved `< cap` in
`Lemmas/RingBuffer.lean`, so no out-of-range read exists to be modelled).
The SPSC interleaving / release-acquire view model lives in `Model/RingSpsc.lean`.
-/
namespace Iora.Ring

/-- state of either ring class; `cap`/`mask` are the template constant `Capacity`/`kMask` for the static class and the
fields `_capacity`/`_mask` for the dynamic one; `dflt` is the value-initialised `T{}` of fresh slots -/
structure Ring (α : Type) where
  cap : UInt64
  mask : UInt64
  buf : Nat → α
  head : UInt64
  tail : UInt64
  dflt : α

/-- slot update -/
def upd {α : Type} (b : Nat → α) (k : Nat) (x : α) : Nat → α := fun i => if i = k then x else b i

/-- slot index `c & mask` -/
def slot {α : Type} (r : Ring α) (c : UInt64) : Nat := (c &&& r.mask).toNat

/-- the bit smear `v |= v >> k` for every `k` of the list, in order -/
def smear (ks : List UInt64) (v : UInt64) : UInt64 := ks.foldl (fun v k => v ||| (v >>> k)) v

/-- mirrors include/iora/core/ring_buffer.hpp::nextPowerOfTwo — DEFINED from the shift list the translator extracts from
the source (`Gen.Orders.npotShifts`; the surrounding shape `if (v == 0) return 1; v--; …; return v + 1` is enforced by the
translator).  64-bit arithmetic as in the code: for `v > 2^63` the result wraps to 0 (`R1_nextPowerOfTwo_wraps`). -/
def nextPowerOfTwo (v : UInt64) : UInt64 :=
  if v = 0 then 1 else smear Gen.Orders.npotShifts (v - 1) + 1

/-- mirrors include/iora/core/ring_buffer.hpp::RingBuffer (constructor; `Capacity` must be a power of two — the
`static_assert`s; the driver refuses other values) -/
def mkStatic {α : Type} (d : α) (capacity : UInt64) : Ring α :=
  { cap := capacity, mask := capacity - 1, buf := fun _ => d, head := 0, tail := 0, dflt := d }

/-- mirrors include/iora/core/ring_buffer.hpp::DynamicRingBuffer (constructor) -/
def mkDynamic {α : Type} (d : α) (requested : UInt64) : Ring α :=
  mkStatic d (nextPowerOfTwo requested)

/-- mirrors include/iora/core/ring_buffer.hpp::tryPush (both overloads, both classes) -/
def tryPush {α : Type} (r : Ring α) (x : α) : Bool × Ring α :=
  if r.head - r.tail ≥ r.cap then (false, r)
  else (true, { r with buf := upd r.buf (slot r r.head) x, head := r.head + 1 })

/-- mirrors include/iora/core/ring_buffer.hpp::tryPop -/
def tryPop {α : Type} (r : Ring α) : Option α × Ring α :=
  if r.tail ≥ r.head then (none, r)
  else (some (r.buf (slot r r.tail)), { r with tail := r.tail + 1 })

/-- mirrors include/iora/core/ring_buffer.hpp::peek -/
def peek {α : Type} (r : Ring α) : Option α :=
  if r.tail ≥ r.head then none else some (r.buf (slot r r.tail))

/-- the copy loop of `tryPushBatch`: `_buffer[(head + i) & mask] = items[i]` for `i = k, k+1, …` -/
def writeFrom {α : Type} (r : Ring α) (b : Nat → α) (k : Nat) : List α → Nat → α
  | [] => b
  | x :: xs => writeFrom r (upd b (slot r (r.head + UInt64.ofNat k)) x) (k + 1) xs

/-- mirrors include/iora/core/ring_buffer.hpp::tryPushBatch -/
def tryPushBatch {α : Type} (r : Ring α) (items : List α) : Nat × Ring α :=
  let available := r.cap - (r.head - r.tail)
  let toPush := if items.length < available.toNat then items.length else available.toNat
  (toPush, { r with buf := writeFrom r r.buf 0 (items.take toPush), head := r.head + UInt64.ofNat toPush })

/-- the copy loop of `tryPopBatch`/`resize`: `buf[(start + i) & mask]` for `i < n` -/
def readFrom {α : Type} (r : Ring α) (start : UInt64) (n : Nat) : List α :=
  (List.range n).map (fun i => r.buf (slot r (start + UInt64.ofNat i)))

/-- mirrors include/iora/core/ring_buffer.hpp::tryPopBatch -/
def tryPopBatch {α : Type} (r : Ring α) (maxCount : Nat) : List α × Ring α :=
  let available := r.head - r.tail
  let toPop := if maxCount < available.toNat then maxCount else available.toNat
  (readFrom r r.tail toPop, { r with tail := r.tail + UInt64.ofNat toPop })

/-- mirrors include/iora/core/ring_buffer.hpp::size -/
def size {α : Type} (r : Ring α) : UInt64 := r.head - r.tail
/-- mirrors include/iora/core/ring_buffer.hpp::empty -/
def empty {α : Type} (r : Ring α) : Bool := size r == 0
/-- mirrors include/iora/core/ring_buffer.hpp::full -/
def full {α : Type} (r : Ring α) : Bool := size r ≥ r.cap
/-- mirrors include/iora/core/ring_buffer.hpp::capacity -/
def capacity {α : Type} (r : Ring α) : UInt64 := r.cap

/-- mirrors include/iora/core/ring_buffer.hpp::clear -/
def clear {α : Type} (r : Ring α) : Ring α := { r with head := 0, tail := 0 }

/-- list → slot function of a fresh buffer (`newBuffer[i] = …` for `i < toCopy`, `T{}` elsewhere) -/
def ofList {α : Type} (d : α) (xs : List α) : Nat → α := fun i => match xs[i]? with | some x => x | none => d

/-- value of an extracted `resize` expression (64-bit unsigned arithmetic, wrapping like the C++) -/
def evalRE (env : String → UInt64) : Gen.Orders.RE → UInt64
  | .v n => env n
  | .n k => UInt64.ofNat k
  | .sub a b => evalRE env a - evalRE env b
  | .add a b => evalRE env a + evalRE env b
  | .ite lt a b t e =>
    if (if lt then evalRE env a < evalRE env b else evalRE env a > evalRE env b) then evalRE env t else evalRE env e

/-- binding of one more local of `resize` (the translator rejects any name that is not bound at that point) -/
def bind (env : String → UInt64) (name : String) (x : UInt64) : String → UInt64 := fun s => if s = name then x else env s

/-- mirrors include/iora/core/ring_buffer.hpp::resize (DynamicRingBuffer only); returns the number of dropped items.
The arithmetic (`count`, `toCopy`, `startTail`, `dropped`, the two final stores) is EVALUATED from the expression trees the
translator extracts (`Gen.Orders.resize*`); the statement sequence around them is pinned by the translator. -/
def resize {α : Type} (r : Ring α) (newRequested : UInt64) : UInt64 × Ring α :=
  let newCapacity := nextPowerOfTwo newRequested
  let newMask := newCapacity - 1
  let env := bind (bind (bind (fun _ => 0) "head" r.head) "tail" r.tail) "newCapacity" newCapacity
  let count := evalRE env Gen.Orders.resizeCount
  let env := bind env "count" count
  let toCopy := evalRE env Gen.Orders.resizeToCopy
  let env := bind env "toCopy" toCopy
  let startTail := evalRE env Gen.Orders.resizeStart
  let env := bind env "startTail" startTail
  let items := readFrom r startTail toCopy.toNat
  (evalRE env Gen.Orders.resizeDropped,
   { r with cap := newCapacity, mask := newMask, buf := ofList r.dflt items,
            tail := evalRE env Gen.Orders.resizeNewTail, head := evalRE env Gen.Orders.resizeNewHead })

/-- the same function written out by hand (what `resize` evaluates to on the unmodified source: `resize_unfold`) -/
def resizeRef {α : Type} (r : Ring α) (newRequested : UInt64) : UInt64 × Ring α :=
  let newCapacity := nextPowerOfTwo newRequested
  let newMask := newCapacity - 1
  let count := r.head - r.tail
  let toCopy := if count < newCapacity then count else newCapacity
  let startTail := if count > newCapacity then r.head - newCapacity else r.tail
  let items := readFrom r startTail toCopy.toNat
  (count - toCopy,
   { r with cap := newCapacity, mask := newMask, buf := ofList r.dflt items, tail := 0, head := toCopy })

/-! ## Operations as data (driver, run-level theorems) -/

inductive Op (α : Type)
  | push (x : α) | pop | peek | pushBatch (xs : List α) | popBatch (n : Nat)
  | size | empty | full | capacity | clear | resize (n : UInt64)

inductive Out (α : Type)
  | bool (b : Bool) | item (o : Option α) | count (n : Nat) | items (xs : List α)
  deriving DecidableEq, Repr

def step {α : Type} (r : Ring α) : Op α → Ring α × Out α
  | .push x => let (b, r') := tryPush r x; (r', .bool b)
  | .pop => let (o, r') := tryPop r; (r', .item o)
  | .peek => (r, .item (peek r))
  | .pushBatch xs => let (n, r') := tryPushBatch r xs; (r', .count n)
  | .popBatch n => let (xs, r') := tryPopBatch r n; (r', .items xs)
  | .size => (r, .count (size r).toNat)
  | .empty => (r, .bool (empty r))
  | .full => (r, .bool (full r))
  | .capacity => (r, .count (capacity r).toNat)
  | .clear => (clear r, .count 0)
  | .resize n => let (d, r') := resize r n; (r', .count d.toNat)

def run {α : Type} (r : Ring α) : List (Op α) → Ring α × List (Out α)
  | [] => (r, [])
  | o :: os => let (r', out) := step r o; let (r'', outs) := run r' os; (r'', out :: outs)

/-! ## Specification: a bounded FIFO -/

structure Fifo (α : Type) where
  cap : Nat
  items : List α

def Fifo.step {α : Type} (q : Fifo α) : Op α → Fifo α × Out α
  | .push x => if q.items.length ≥ q.cap then (q, .bool false) else ({ q with items := q.items ++ [x] }, .bool true)
  | .pop => match q.items with
    | [] => (q, .item none)
    | x :: xs => ({ q with items := xs }, .item (some x))
  | .peek => (q, .item q.items.head?)
  | .pushBatch xs =>
    let n := min xs.length (q.cap - q.items.length)
    ({ q with items := q.items ++ xs.take n }, .count n)
  | .popBatch n => ({ q with items := q.items.drop n }, .items (q.items.take n))
  | .size => (q, .count q.items.length)
  | .empty => (q, .bool q.items.isEmpty)
  | .full => (q, .bool (q.items.length ≥ q.cap))
  | .capacity => (q, .count q.cap)
  | .clear => ({ q with items := [] }, .count 0)
  | .resize n =>
    -- the new capacity is the next power of two; when shrinking below the item count the NEWEST items are kept
    let c := (nextPowerOfTwo n).toNat
    let dropped := q.items.length - c
    ({ cap := c, items := q.items.drop dropped }, .count dropped)

def Fifo.run {α : Type} (q : Fifo α) : List (Op α) → Fifo α × List (Out α)
  | [] => (q, [])
  | o :: os => let (q', out) := q.step o; let (q'', outs) := Fifo.run q' os; (q'', out :: outs)

/-- the FIFO content a ring state stands for: slots `tail, tail+1, …, head-1` -/
def abs {α : Type} (r : Ring α) : Fifo α :=
  { cap := r.cap.toNat, items := readFrom r r.tail (r.head - r.tail).toNat }

/-- number of items an operation may add to `_head` -/
def Op.weight {α : Type} : Op α → Nat
  | .push _ => 1
  | .pushBatch xs => xs.length
  | _ => 0

end Iora.Ring
