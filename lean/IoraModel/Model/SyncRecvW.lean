import IoraModel.Model.SyncRecv
/-!
# `ITransport::receiveSyncCancellable` over the C03 model

Mirrors transport_impl.hpp::ITransport::receiveSyncCancellable: an entry token check, then a loop whose head checks the deadline
(`steady_clock::now() < deadline`, `remaining <= 0`: a scheduler choice here, time is not modelled) and the token, and whose body is
ONE `receiveSync(sid, buffer, len, min(remaining, 100 ms))` call of the same application thread; the loop is left with the sub-call's
result unless that result is `Timeout`.

The layer adds no behaviour to the core model: every core step of a wrapper execution is a `.base` step (`wstep_core`), the
sub-calls being ordinary `recvEnter`/`recvWake` steps of the wrapper's thread; what the layer adds is the loop head (`wLoop`, which
runs right after the previous sub-call released `syncMutex`, i.e. possibly long before the next sub-call acquires it) and the
wrapper's own return value (`WEv.wrapRet`).
-/
namespace Iora.SyncRecv
open Iora

inductive WPhase
  | idle        -- before a loop head (after entry, or after a sub-call returned `Timeout`)
  | entering    -- the loop head decided to call `receiveSync`; the sub-call has not acquired `syncMutex` yet
  | inCall      -- the sub-call is parked
  deriving Repr, DecidableEq

/-- a running `receiveSyncCancellable(sid, …, len, token, timeout)` call -/
structure WCall where
  len : Nat
  phase : WPhase
  deriving Repr, DecidableEq

structure WState where
  core : State := {}
  tok : Nat → Bool := fun _ => false          -- the cancellation token of session `sid`'s caller has been cancelled
  w : Nat → Option WCall := fun _ => none     -- the wrapper call running for session `sid` (one application thread per session)

inductive WStep
  | base (st : Step)
  | cancel (sid : Nat)
  | reset (sid : Nat)                     -- transport_types.hpp::CancellationToken::reset (the token is reused for a later call)
  | wCall (sid len : Nat)                 -- entry: `if (token.isCancelled()) return Cancelled`
  | wLoop (sid : Nat) (expired : Bool)    -- loop head: deadline, token
  deriving Repr

inductive WEv
  | base (e : Ev)
  | wrapRet (sid : Nat) (r : RecvRes)
  deriving Repr, DecidableEq

def setW (f : Nat → Option WCall) (i : Nat) (v : Option WCall) : Nat → Option WCall := fun j => if j = i then v else f j

/-- what the wrapper does with the outcome of a sub-call's critical section: parked → keep waiting; `Timeout` → next loop
iteration; anything else → return it -/
def afterSub (ws : WState) (sid : Nat) (c : WCall) : Option RecvRes → WState × List WEv
  | none => ({ ws with w := setW ws.w sid (some { c with phase := .inCall }) }, [])
  | some .timeout => ({ ws with w := setW ws.w sid (some { c with phase := .idle }) }, [])
  | some r => ({ ws with w := setW ws.w sid none }, [.wrapRet sid r])

/-- the receive result (if any) among a core step's events, with its session -/
def recvOf : List Ev → Option (Nat × RecvRes)
  | [] => none
  | .recvRet j r :: _ => some (j, r)
  | _ :: rest => recvOf rest

/-- is this core step a critical section of a `receiveSync` call on `sid`? -/
def recvStepOf : Step → Option Nat
  | .recvEnter sid _ => some sid
  | .recvWake sid _ => some sid
  | _ => none

def wstep (cfg : Cfg) (ws : WState) : WStep → WState × List WEv
  | .base st =>
    let r := step cfg ws.core st
    let ws1 := { ws with core := r.1 }
    match recvStepOf st with
    | some sid =>
      match ws.w sid with
      | some c =>
        let res := match recvOf r.2 with | some (_, x) => some x | none => none
        let active : Bool := match st with
          | .recvEnter _ _ => c.phase == WPhase.entering
          | _ => c.phase == WPhase.inCall
        if active then ((afterSub ws1 sid c res).1, r.2.map WEv.base ++ (afterSub ws1 sid c res).2)
        else (ws1, r.2.map WEv.base)
      | none => (ws1, r.2.map WEv.base)
    | none => (ws1, r.2.map WEv.base)
  | .cancel sid => ({ ws with tok := fun j => if j = sid then true else ws.tok j }, [])
  | .reset sid => ({ ws with tok := fun j => if j = sid then false else ws.tok j }, [])
  | .wCall sid len =>
    match ws.w sid with
    | some _ => (ws, [])
    | none =>
      if ws.tok sid then (ws, [.wrapRet sid .cancelled])
      else ({ ws with w := setW ws.w sid (some { len := len, phase := .idle }) }, [])
  | .wLoop sid expired =>
    match ws.w sid with
    | some c =>
      if c.phase != WPhase.idle then (ws, [])
      else if expired then ({ ws with w := setW ws.w sid none }, [.wrapRet sid .timeout])
      else if ws.tok sid then ({ ws with w := setW ws.w sid none }, [.wrapRet sid .cancelled])
      else ({ ws with w := setW ws.w sid (some { c with phase := .entering }) }, [])
    | none => (ws, [])

def wrun (cfg : Cfg) (ws : WState) : List WStep → WState × List WEv
  | [] => (ws, [])
  | st :: rest => ((wrun cfg (wstep cfg ws st).1 rest).1, (wstep cfg ws st).2 ++ (wrun cfg (wstep cfg ws st).1 rest).2)

/-- the core steps of a wrapper execution -/
def coreSteps : List WStep → List Step
  | [] => []
  | .base st :: r => st :: coreSteps r
  | _ :: r => coreSteps r

def coreEvs : List WEv → List Ev
  | [] => []
  | .base e :: r => e :: coreEvs r
  | _ :: r => coreEvs r

/-- environment discipline of the wrapper layer: core steps are disciplined, and the thread inside
`receiveSyncCancellable(sid, …, len, …)` makes no other call on that session meanwhile: its only `recvEnter` is the sub-call the loop
head decided on, with the caller's `len` (transport_impl.hpp passes `buffer, len` through), and it does not switch the mode -/
def okW (ws : WState) : WStep → Bool
  | .base (.recvEnter sid len) =>
    ok ws.core (.recvEnter sid len) &&
      (match ws.w sid with | some c => c.phase == WPhase.entering && len == c.len | none => true)
  | .base (.setMode sid m) => (ws.w sid).isNone && ok ws.core (.setMode sid m)
  | .base st => ok ws.core st
  | .wCall sid _ => (ws.w sid).isNone
  | .wLoop sid _ => match ws.w sid with | some c => c.phase == WPhase.idle | none => false
  | .cancel _ => true
  | .reset sid => (ws.w sid).isNone      -- "MUST NOT be called while any sync operation is in flight using this token"

def DisciplinedW (cfg : Cfg) : WState → List WStep → Prop
  | _, [] => True
  | ws, st :: rest => okW ws st = true ∧ DisciplinedW cfg (wstep cfg ws st).1 rest

def winit : WState := {}

/-! ## what the CALLERS see (the composed stream)

A sub-call of a running wrapper is made by the wrapper, not by the application: its `recvRet` is internal, the application sees the
wrapper's own `wrapRet`. Every other receive result, and every data-callback delivery, is seen as it is. -/

/-- is the base step `st` a critical section of the running wrapper's sub-call (exactly the test `wstep` makes)? -/
def subActive (ws : WState) (st : WStep) : Bool :=
  match st with
  | .base (.recvEnter sid _) => (match ws.w sid with | some c => c.phase == WPhase.entering | none => false)
  | .base (.recvWake sid _) => (match ws.w sid with | some c => c.phase == WPhase.inCall | none => false)
  | _ => false

/-- the bytes of session `sid` that one step's events hand to the application: wrapper returns, data-callback deliveries, and plain
`receiveSync` returns (`hide`: the step is a sub-call section, its `recvRet` is the wrapper's business) -/
def userBytes (sid : Nat) (hide : Bool) : List WEv → Bytes
  | [] => []
  | .wrapRet j (.ok bs) :: r => (if j = sid then bs else []) ++ userBytes sid hide r
  | .base (.recvRet j (.ok bs)) :: r => (if j = sid ∧ hide = false then bs else []) ++ userBytes sid hide r
  | .base (.cbData j d) :: r => (if j = sid then d else []) ++ userBytes sid hide r
  | _ :: r => userBytes sid hide r

/-- everything the application has been handed for `sid` over a whole wrapper execution, in order -/
def wrunUser (sid : Nat) (cfg : Cfg) : WState → List WStep → Bytes
  | _, [] => []
  | ws, st :: rest => userBytes sid (subActive ws st) (wstep cfg ws st).2 ++ wrunUser sid cfg (wstep cfg ws st).1 rest

end Iora.SyncRecv
