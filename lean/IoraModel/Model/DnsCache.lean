import IoraModel.Model.Dns
/-
Model of `include/iora/util/expiring_cache.hpp` (`ExpiringCache<K,V>`: set/get/remove + the purge thread's sweep) and of
`include/iora/network/dns/dns_cache.hpp` (`DnsCache`: key normalisation, TTL computation, put / putNegative / get / remove /
clear, statistics).  The steady clock is an INPUT of every operation (nanoseconds), so quantifying over operation lists
quantifies over every way time can pass between operations.
-/
namespace Iora.DnsCache
open Iora Iora.Dns

def nsPerSec : Nat := 1000000000

/-! ### ExpiringCache -/

structure Entry (V : Type) where
  value : V
  expiration : Nat           -- steady_clock time point, ns
  deriving Repr

/-- `_cache` (an unordered_map: key-unique association list) and `_ttl` (seconds) -/
structure EC (K V : Type) where
  entries : List (K × Entry V) := []
  ttl : Nat
  deriving Repr

variable {K V : Type} [DecidableEq K]

def findKey (k : K) : List (K × Entry V) → Option (Entry V)
  | [] => none
  | (k', e) :: r => if k' = k then some e else findKey k r

def eraseKey (k : K) : List (K × Entry V) → List (K × Entry V)
  | [] => []
  | (k', e) :: r => if k' = k then eraseKey k r else (k', e) :: eraseKey k r

/-- mirrors `ExpiringCache::set(key, value, customTtl)` at clock reading `now` -/
def EC.set (c : EC K V) (k : K) (v : V) (customTtl now : Nat) : EC K V :=
  let exp := now + (if customTtl > 0 then customTtl else c.ttl) * nsPerSec
  { c with entries := (k, { value := v, expiration := exp }) :: eraseKey k c.entries }

/-- is an entry with this expiration served at `now`?  (`expiration > now`) -/
def live (exp now : Nat) : Bool :=
  if Gen.Dns.getStrict then decide (exp > now) else decide (exp ≥ now)

/-- mirrors `ExpiringCache::get(key)`: (value, cache afterwards, entry handed to the eviction callback) -/
def EC.get (c : EC K V) (k : K) (now : Nat) : Option V × EC K V × Option V :=
  match findKey k c.entries with
  | none => (none, c, none)
  | some e =>
    if live e.expiration now then (some e.value, c, none)
    else (none, { c with entries := eraseKey k c.entries }, some e.value)

/-- mirrors `ExpiringCache::remove(key)`: (cache afterwards, entry handed to the eviction callback) -/
def EC.remove (c : EC K V) (k : K) : EC K V × Option V :=
  match findKey k c.entries with
  | none => (c, none)
  | some e => ({ c with entries := eraseKey k c.entries }, some e.value)

/-- is an entry removed by the purge sweep at `now`?  (`expiration <= now`) -/
def purged (exp now : Nat) : Bool :=
  if Gen.Dns.purgeInclusive then decide (exp ≤ now) else decide (exp < now)

/-- one sweep of the purge thread at clock reading `now`: (cache afterwards, evicted values) -/
def EC.purge (c : EC K V) (now : Nat) : EC K V × List V :=
  ({ c with entries := c.entries.filter (fun p => !purged p.2.expiration now) },
   (c.entries.filter (fun p => purged p.2.expiration now)).map (fun p => p.2.value))

/-! ### DnsCache -/

structure Key where
  qname : Bytes
  qtype : Nat
  qclass : Nat
  deriving DecidableEq, Repr

/-- `::tolower` in the "C" locale -/
def lowerByte (b : UInt8) : UInt8 := if 65 ≤ b.toNat ∧ b.toNat ≤ 90 then b + 32 else b

/-- mirrors `DnsCacheKey::fromQuestion` -/
def Key.fromQuestion (q : Question) : Key :=
  { qname := q.qname.map lowerByte, qtype := q.qtype, qclass := q.qclass }

/-- `CachedDnsResult` -/
structure Cached where
  result : Result
  isNegative : Bool
  errorMessage : Bytes
  deriving Repr

/-- `AtomicStats` (64-bit wrapping counters) -/
structure Stats where
  hits : UInt64 := 0
  misses : UInt64 := 0
  negativeHits : UInt64 := 0
  insertions : UInt64 := 0
  replacements : UInt64 := 0
  negativeInsertions : UInt64 := 0
  negativeReplacements : UInt64 := 0
  currentEntries : UInt64 := 0
  currentNegativeEntries : UInt64 := 0
  deriving DecidableEq, Repr

structure DC where
  cache : EC Key Cached
  defaultTtl : Nat                  -- `defaultTtlSeconds_` (assumed 0 ≤ · < 2^63)
  stats : Stats := {}
  deriving Repr

/-- `DnsCache(std::chrono::seconds ttl)` -/
def DC.new (ttl : Nat) : DC := { cache := { ttl := ttl }, defaultTtl := ttl }

/-- the eviction callback installed by `initializeCache` -/
def evicted (s : Stats) : Option Cached → Stats
  | none => s
  | some v => if v.isNegative then { s with currentNegativeEntries := s.currentNegativeEntries - 1 }
              else { s with currentEntries := s.currentEntries - 1 }

def u32max : Nat := 4294967295

/-- mirrors `calculateResultTtl`: minimum over every record of every collection; the default when there is none -/
def resultTtl (r : Result) (defaultTtl : Nat) : Nat :=
  let ttls := r.answers.map (·.ttl) ++ r.authority.map (·.ttl) ++ r.additional.map (·.ttl) ++ r.typed.map (·.ttl)
  let m := ttls.foldl min u32max
  if m = u32max then defaultTtl % 4294967296 else m

def firstSoa : List Typed → Option (Nat × Nat)
  | [] => none
  | .soa _ _ _ _ _ _ _ minimum ttl :: _ => some (minimum, ttl)
  | _ :: r => firstSoa r

def firstSoaRaw : List RR → Option Nat
  | [] => none
  | rr :: r => if rr.type = 6 then some rr.ttl else firstSoaRaw r

/-- mirrors `calculateNegativeTtl(result)` (`defaultNegativeTtl = 0`) -/
def negativeTtl (r : Result) (defaultTtl : Nat) : Nat :=
  match firstSoa r.typed with
  | some (minimum, ttl) => min minimum ttl
  | none =>
    match firstSoaRaw r.authority with
    | some ttl => ttl
    | none => defaultTtl % 4294967296

/-- common body of `put` / `putNegative(question, result, negativeTtl, errorMessage)` -/
def DC.store (d : DC) (q : Question) (v : Cached) (ttl : Nat) (zeroGuard : Bool) (now : Nat) : DC :=
  let key := Key.fromQuestion q
  let (existing, c1, ev) := d.cache.get key now
  let s1 := evicted d.stats ev
  let hadEntry := existing.isSome
  let hadNeg := match existing with | some e => e.isNegative | none => false
  if zeroGuard && ttl = 0 then
    let (c2, ev2) := c1.remove key
    { d with cache := c2, stats := evicted s1 ev2 }
  else
    let c2 := c1.set key v ttl now
    let s2 :=
      if v.isNegative then
        if !hadEntry then { s1 with negativeInsertions := s1.negativeInsertions + 1, currentNegativeEntries := s1.currentNegativeEntries + 1 }
        else if !hadNeg then { s1 with negativeReplacements := s1.negativeReplacements + 1, currentEntries := s1.currentEntries - 1,
                                       currentNegativeEntries := s1.currentNegativeEntries + 1 }
        else { s1 with negativeReplacements := s1.negativeReplacements + 1 }
      else
        if !hadEntry then { s1 with insertions := s1.insertions + 1, currentEntries := s1.currentEntries + 1 }
        else if hadNeg then { s1 with replacements := s1.replacements + 1, currentNegativeEntries := s1.currentNegativeEntries - 1,
                                      currentEntries := s1.currentEntries + 1 }
        else { s1 with replacements := s1.replacements + 1 }
    { d with cache := c2, stats := s2 }

/-- mirrors `DnsCache::put(question, result)` -/
def DC.put (d : DC) (q : Question) (r : Result) (now : Nat) : DC :=
  d.store q { result := r, isNegative := false, errorMessage := [] } (resultTtl r d.defaultTtl) Gen.Dns.zeroTtlNotCachedPut now

/-- mirrors `DnsCache::putNegative(question, result, negativeTtl, errorMessage)` -/
def DC.putNegative (d : DC) (q : Question) (r : Result) (ttl : Nat) (msg : Bytes) (now : Nat) : DC :=
  d.store q { result := r, isNegative := true, errorMessage := msg } ttl Gen.Dns.zeroTtlNotCachedNeg now

/-- mirrors `DnsCache::putNegative(question, result, errorMessage)` -/
def DC.putNegativeAuto (d : DC) (q : Question) (r : Result) (msg : Bytes) (now : Nat) : DC :=
  d.putNegative q r (negativeTtl r d.defaultTtl) msg now

/-- mirrors `DnsCache::get(question, result)` -/
def DC.get (d : DC) (q : Question) (now : Nat) : Option Cached × DC :=
  let (v, c1, ev) := d.cache.get (Key.fromQuestion q) now
  let s1 := evicted d.stats ev
  match v with
  | none => (none, { d with cache := c1, stats := { s1 with misses := s1.misses + 1 } })
  | some e =>
    (some e, { d with cache := c1,
                      stats := if e.isNegative then { s1 with negativeHits := s1.negativeHits + 1 } else { s1 with hits := s1.hits + 1 } })

/-- mirrors `DnsCache::remove(question)` -/
def DC.remove (d : DC) (q : Question) : DC :=
  let (c1, ev) := d.cache.remove (Key.fromQuestion q)
  { d with cache := c1, stats := evicted d.stats ev }

/-- mirrors `DnsCache::clear(resetHistoricalStats)`: a fresh `ExpiringCache` with the current default TTL -/
def DC.clear (d : DC) (reset : Bool) : DC :=
  { d with cache := { ttl := d.defaultTtl },
           stats := if reset then {} else { d.stats with currentEntries := 0, currentNegativeEntries := 0 } }

/-- mirrors `DnsCache::setDefaultTtl` -/
def DC.setDefaultTtl (d : DC) (ttl : Nat) : DC := { d with defaultTtl := ttl }

/-- one sweep of the underlying cache's purge thread -/
def DC.purge (d : DC) (now : Nat) : DC :=
  let (c1, evs) := d.cache.purge now
  { d with cache := c1, stats := evs.foldl (fun s v => evicted s (some v)) d.stats }

/-! ### histories -/

inductive Op where
  | put (now : Nat) (q : Question) (r : Result)
  | putNeg (now : Nat) (q : Question) (r : Result) (ttl : Nat) (msg : Bytes)
  | putNegAuto (now : Nat) (q : Question) (r : Result) (msg : Bytes)
  | get (now : Nat) (q : Question)
  | remove (q : Question)
  | clear (reset : Bool)
  | setDefault (ttl : Nat)
  | purge (now : Nat)
  deriving Repr

def DC.step (d : DC) : Op → DC
  | .put now q r => d.put q r now
  | .putNeg now q r ttl msg => d.putNegative q r ttl msg now
  | .putNegAuto now q r msg => d.putNegativeAuto q r msg now
  | .get now q => (d.get q now).2
  | .remove q => d.remove q
  | .clear reset => d.clear reset
  | .setDefault ttl => d.setDefaultTtl ttl
  | .purge now => d.purge now

def DC.run (d : DC) (ops : List Op) : DC := ops.foldl DC.step d

end Iora.DnsCache
