import IoraModel.Model.TlsPlan
/-!
# C07 — lifecycles around the TLS plan: `HttpServer` enableTls/start/stop, the RECEIVE side of a session, `UdpEngine`

`Model/TlsPlan.lean` decides what ONE freshly configured object does.  This file adds what happens over a history of
calls: an `HttpServer` whose `enableTls` may come before or after `start()` and that may be stopped and restarted; a
session on which bytes ARRIVE (`readAvail`, reached from `onSession` and from `driveHandshake`); and the UDP engine's
two entry points, which must refuse a TLS request rather than serve it as a datagram session in clear.
Every guard is again a fact of `Gen/TlsCalls.lean`; the machines do what the C++ would do WITHOUT the guard when the
fact is `false`.
-/
namespace Iora.Tls
open Iora.Gen.TlsCalls

/-! ## `HttpServer`: `enableTls` / `start` / `stop` -/

inductive HSOp
  | enableTls (c : HttpSrvTls)
  | start
  | stop
  deriving DecidableEq, Repr

structure HSState where
  stored : Option HttpSrvTls := none               -- `_tlsConfig`
  running : Option (Option HttpSrvTls) := none     -- `_transport` exists: the settings its listener was created from
  deriving DecidableEq, Repr

/-- `enableTls`' own preconditions on the settings (mirrors the two `throw`s that `httpServerPlan` also honours) -/
def enableTlsInvalid (c : HttpSrvTls) : Bool :=
  (enableTlsRequiresCertAndKey && !(c.certFileSet && c.keyFileSet)) ||
  (enableTlsRequiresCaForClientCert && c.requireClientCert && !c.caFileSet)

/-- mirrors `HttpServer::enableTls`, `start`, `stop`: (state, the call threw) -/
def hsStep (s : HSState) : HSOp → HSState × Bool
  | .enableTls c =>
    if enableTlsRejectsWhenStarted && s.running.isSome then (s, true)
    else if enableTlsInvalid c then (s, true)
    else ({ s with stored := some c }, false)          -- accepted: also on a started server when the guard is missing
  | .start => ({ s with running := some s.stored }, false)   -- a fresh transport, configured from `_tlsConfig` as it is NOW
  | .stop => ({ stored := if stopKeepsTlsConfig then s.stored else none, running := none }, false)

def hsRun : HSState → List HSOp → HSState
  | s, [] => s
  | s, o :: os => hsRun (hsStep s o).1 os

/-- what the listener of a started server does with an accepted connection -/
def HSState.plan (s : HSState) (tf : TFiles) : Option Plan := s.running.map (fun a => httpServerPlan a tf)

/-! ## the receive side: `readAvail` and the two places it is called from -/

inductive REv
  | out (e : SEv)                                     -- everything `sessStep` knows (connect tail, EPOLLOUT, sends)
  | inp (wire : List UInt8) (rc : Option Bool)        -- one `onSession` call with EPOLLIN: `wire` = bytes the peer has sent and that are
                                                      --   still unread; `rc` = the answer of `SSL_do_handshake` IF it is driven
  deriving DecidableEq, Repr

inductive ROut
  | out (o : SOut)
  | deliverTls (bs : List UInt8)     -- `onData` with what `SSL_read` returned
  | deliverRaw (bs : List UInt8)     -- `onData` with bytes taken straight off the socket by `::recv`
  deriving DecidableEq, Repr

/-- mirrors `readAvail`: `SSL_read` for an Open TLS session, otherwise the raw `::recv` — for EVERY other session, a TLS
session still in its handshake included; that one is kept away by the callers only -/
def readAvail (s : Sess) (wire : List UInt8) : List ROut :=
  if wire.isEmpty then []
  else if s.openTls && readAvailSslWhenOpenTls then [.deliverTls wire]
  else [.deliverRaw wire]

/-- mirrors `onSession` for an EPOLLIN event (gate, `driveHandshake` incl. its own `readAvail`, then the read) -/
def recvStep (s : Sess) (wire : List UInt8) (rc : Option Bool) : Sess × List ROut :=
  if s.closed then (s, []) else
  -- a read placed in front of the handshake gate sees the session as it is
  let r0 := if readAvailAfterHandshakeGate then [] else readAvail s wire
  let wire := if r0.isEmpty then wire else []
  if s.inHs && handshakeDrivenFirst then
    let d := driveHs s rc
    -- `driveHandshake`'s own `readAvail(s)`: inside `if (rc == 1)`, after `tlsState = Open` — or, unguarded, on the session as it was
    let r1 := if driveHsReadsOnlyAfterOpen then (if d.2.2 then readAvail d.1 wire else []) else readAvail s wire
    let wire := if r1.isEmpty then wire else []
    let outs := r0 ++ d.2.1.map ROut.out ++ r1
    if !d.2.2 && handshakeReturnsWhenIncomplete then (d.1, outs)
    else if d.1.closed then (d.1, outs)
    else (d.1, outs ++ readAvail d.1 wire)
  else (s, r0 ++ readAvail s wire)

def rStep (s : Sess) : REv → Sess × List ROut
  | .out e => ((sessStep s e).1, (sessStep s e).2.map ROut.out)
  | .inp wire rc => recvStep s wire rc

def rRun : Sess → List REv → List ROut
  | _, [] => []
  | s, e :: es => (rStep s e).2 ++ rRun (rStep s e).1 es

/-- the event "`SSL_do_handshake` returned 1" -/
def REv.isHsOk : REv → Bool
  | .out (.epoll _ (some true)) => true
  | .inp _ (some true) => true
  | _ => false

/-! ## `IoraService::applyConfig`: when does the service's webhook server get `enableTls` -/

/-- `Config.server.tls`: which of the optional settings are present -/
structure SvcTls where
  certSet : Bool := false
  keySet : Bool := false
  caSet : Bool := false
  requireClientCert : Bool := false
  deriving DecidableEq, Repr

/-- the operator ASKED for TLS: a certificate or a key is named, or client certificates are required (the CA file alone asks for nothing:
it only serves to verify client certificates) -/
def SvcTls.requested (c : SvcTls) : Bool := c.certSet || c.keySet || c.requireClientCert

/-- valuation of the atoms of the generated condition `serviceHasTls` -/
def SvcTls.env (c : SvcTls) : Env :=
  { cfg := { certFileSet := c.certSet, keyFileSet := c.keySet, caFileSet := c.caSet, verifyPeer := c.requireClientCert } }

/-- mirrors the webhook-server part of `IoraService::applyConfig`: `if (hasTls) enableTls(the four settings); start()` -/
def servicePlan (c : SvcTls) (tf : TFiles) : Plan :=
  if serviceHasTls.eval c.env then
    httpServerPlan (some { certFileSet := c.certSet, keyFileSet := c.keySet, caFileSet := c.caSet, requireClientCert := c.requireClientCert }) tf
  else httpServerPlan none tf

/-! ## `UdpEngine::connect` / `addListener` -/

/-- UDP has no DTLS: a request that names a TLS mode is refused, never served as a clear datagram session -/
def udpConnectPlan (req : Mode) : Plan :=
  if udpConnectRefusesTls && req != .none then .refuse .connect else .plain

def udpListenPlan (req : Mode) : Plan :=
  if udpListenRefusesTls && req != .none then .refuse .listen else .plain

end Iora.Tls
