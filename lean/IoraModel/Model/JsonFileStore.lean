import IoraModel.Model.KvLog
/-!
# JsonFileStore persistence (C11, clause J1)

Mirrors `include/iora/storage/json_file_store.hpp` `saveToFile()` / constructor at the level of file operations: the
serialised text is an opaque byte string (what `Json::dump` produces and `operator>>` reads back is C13's subject).
The directory is the `Fs` of `Model/KvLog.lean` with `snap` = the store file and `tmp` = `<file>.tmp`.
-/
namespace Iora.Jfs
open Iora Iora.Kv

/-- mirrors `saveToFile()` after the F04 repair: write a sibling temp file, rename it over the target -/
def saveOps (data : Bytes) : List FsOp := [.trunc .tmp 0, .append .tmp data, .rename .tmp .snap]

/-- the in-place rewrite of the unrepaired code (kept for the refutation witness): `ofstream(_filename)` truncates the
live file, then the text is written into it -/
def saveOpsInPlace (data : Bytes) : List FsOp := [.trunc .snap 0, .append .snap data]

/-- `saveToFile()` of the working tree: which of the two shapes it has is a generated fact (`Gen/Kv.lean`) -/
def saveToFile (data : Bytes) : List FsOp :=
  if Gen.Kv.jsonSaveViaTempRename then saveOps data else saveOpsInPlace data

/-- what the constructor loads: the store file, whatever `<file>.tmp` holds -/
def loaded (fs : Fs) : Option Bytes := fs.snap

/-- a sequence of flushes -/
def flushAll (fs : Fs) (datas : List Bytes) : Fs := datas.foldl (fun fs d => applyAll fs (saveToFile d)) fs

end Iora.Jfs
