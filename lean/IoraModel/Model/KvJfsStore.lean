import IoraModel.Model.JsonFileStore
import IoraModel.Model.JsonApi
/-!
# JsonFileStore as a store with state (C11, clause J1) and its two flushing roles

`Model/JsonFileStore.lean` is about the bytes of one `saveToFile()`.  This file puts the rest of
`include/iora/storage/json_file_store.hpp` into the model:

* the constructor: read the whole file, `Json::parseOrThrow(content, ownFileLimits())`, fall back to an EMPTY store on a parse
  error (`openStore`; the limits are generated: `Gen.Kv.jsonCtor*`);
* `set` / `remove` / `flush()` / the destructor (`Store.step`, `closeStore`): `_store`, `_dirty`, the text `_store.dump(2)`;
* the flusher thread against the application thread (`Race`): `tryFlushIfDirty()` ∥ `set()` / `flush()`, with the lock scope of
  the save as a generated fact (`Gen.Kv.jsonSaveCallersHoldMutex`).
-/
namespace Iora.Jfs
open Iora Iora.Kv

/-- the `ParseLimits` the constructor reads its own file with (generated from `ownFileLimits()`) -/
def ctorLimits : Json.Limits :=
  { depthMax := Gen.Kv.jsonCtorDepthMax, arrayItemsMax := Gen.Kv.jsonCtorArrayItemsMax,
    membersMax := Gen.Kv.jsonCtorMembersMax, stringLengthMax := Gen.Kv.jsonCtorStringLengthMax }

/-- `_store`, `_dirty` -/
structure Store where
  doc : Json.Json
  dirty : Bool

/-- `parsers::Json::object()`, clean -/
def Store.empty : Store := ⟨.obj [], false⟩

/-- the text `saveToFile()` writes: `_store.dump(2)` -/
def text (ops : Json.FloatOps) (doc : Json.Json) : Bytes := Json.dump ops Gen.Kv.jsonSaveDumpIndent 0x20 false doc

/-- mirrors the constructor: no file ⇒ empty store; otherwise the whole file through `parseOrThrow` with `ownFileLimits()`;
a parse error is caught and the store starts EMPTY ("Failed to parse JSON ... starting with empty store") -/
def openStore (ops : Json.FloatOps) (fs : Fs) : Store :=
  match loaded fs with
  | none => .empty
  | some d =>
    match Json.parseOrThrow ops ctorLimits d with
    | .ok v => ⟨v, false⟩
    | .error _ => .empty

inductive Op
  | set (k : Bytes) (v : Json.Json)
  | remove (k : Bytes)
  | flush

/-- mirrors `remove(key)`: `find`, `erase` and `_dirty = true` only when the key is there -/
def Store.remove (s : Store) (k : Bytes) : Store :=
  match s.doc with
  | .obj ms => if ms.any (fun x => x.1 == k) then ⟨.obj (ms.filter (fun x => !(x.1 == k))), true⟩ else s
  | _ => s

/-- one call on the application thread: the new store, the new directory, the file operations issued -/
def Store.step (ops : Json.FloatOps) (s : Store) (fs : Fs) : Op → Store × Fs
  | .set k v => (⟨Json.setKey s.doc k v, true⟩, fs)
  | .remove k => (s.remove k, fs)
  | .flush => if s.dirty then (⟨s.doc, false⟩, applyAll fs (saveToFile (text ops s.doc))) else (s, fs)

/-- the file operations of the call (what a crash can cut) -/
def Store.fileOps (ops : Json.FloatOps) (s : Store) : Op → List FsOp
  | .flush => if s.dirty then saveToFile (text ops s.doc) else []
  | _ => []

def runOps (ops : Json.FloatOps) (s : Store) (fs : Fs) : List Op → Store × Fs
  | [] => (s, fs)
  | o :: os => let r := s.step ops fs o; runOps ops r.1 r.2 os

/-- mirrors the destructor (`unregisterStore(); flush();`) followed by a new instance on the same directory -/
def reopen (ops : Json.FloatOps) (s : Store) (fs : Fs) : Store × Fs :=
  let r := s.step ops fs .flush
  (openStore ops r.2, r.2)

/-! ## size of a document (for "fits into the address space") -/
mutual
/-- a lower bound of the bytes the value occupies in memory: one per node plus the bytes of every string and key -/
def weight : Json.Json → Nat
  | .str s => 1 + s.length
  | .arr xs => 1 + weightList xs
  | .obj ms => 1 + weightMembers ms
  | _ => 1
def weightList : List Json.Json → Nat
  | [] => 0
  | x :: xs => weight x + weightList xs
def weightMembers : List (Bytes × Json.Json) → Nat
  | [] => 0
  | (k, v) :: ms => 1 + k.length + weight v + weightMembers ms
end

end Iora.Jfs

/-! ## the flusher thread against the application thread -/
namespace Iora.Jfs.Race

/-- where a role is inside `flush()` / `tryFlushIfDirty()`: not in it; dump of generation `g` taken, `<file>.tmp` not yet
written; `<file>.tmp` written, not yet renamed -/
inductive Pc
  | idle
  | save (g : Nat)
  | ren (g : Nat)
  deriving DecidableEq, Repr

/-- documents are abstracted to their generation: the number of completed `set()`/`remove()` calls -/
structure St where
  /-- generation of `_store` -/
  mem : Nat := 0
  dirty : Bool := false
  /-- generation the store file holds (0 = what the constructor loaded) -/
  file : Nat := 0
  /-- generation `<file>.tmp` holds, if it exists (ONE name shared by every writer) -/
  tmp : Option Nat := none
  /-- generation covered by the last COMPLETED `flush()` of the application thread -/
  acked : Nat := 0
  /-- application thread (`flush()`, destructor) -/
  fg : Pc := .idle
  /-- flusher thread (`tryFlushIfDirty()`) -/
  bg : Pc := .idle
  deriving DecidableEq, Repr

/-- scheduler choices; the `Bool` says which role moves (`true` = application thread) -/
inductive Ev
  | set
  | start (fg : Bool)
  | write (fg : Bool)
  | rename (fg : Bool)
  deriving DecidableEq, Repr

def St.pc (s : St) (f : Bool) : Pc := if f then s.fg else s.bg
def St.setPc (s : St) (f : Bool) (p : Pc) : St := if f then { s with fg := p } else { s with bg := p }

/-- `_mutex` is free: when the save runs under the lock (`locked`), a role holds it from `start` to the end of its flush -/
def St.lockFree (locked : Bool) (s : St) : Bool := !locked || (s.fg == .idle && s.bg == .idle)

/-- one atomic step.  `locked = true` is the shape `{ lock_guard lock(_mutex); if (_dirty) { saveToFile(); _dirty = false; } }`;
`locked = false` is a save whose file operations run after the lock has been released (dump and `_dirty = false` under the lock,
`<file>.tmp` + rename outside). -/
def step (locked : Bool) (s : St) : Ev → St
  | .set => if s.lockFree locked then { s with mem := s.mem + 1, dirty := true } else s
  | .start f =>
    if s.pc f == .idle && s.lockFree locked then
      if s.dirty then
        if locked then s.setPc f (.save s.mem) else ({ s with dirty := false }).setPc f (.save s.mem)
      else if f then { s with acked := max s.acked s.mem } else s
    else s
  | .write f =>
    match s.pc f with
    | .save g => ({ s with tmp := some g }).setPc f (.ren g)
    | _ => s
  | .rename f =>
    match s.pc f with
    | .ren g =>
      let s1 : St := match s.tmp with
        | some t => { s with file := t, tmp := none }      -- `rename(2)` moves whatever `<file>.tmp` holds now
        | none => s                                         -- somebody else renamed it away: rename fails, nothing published
      let s2 : St := if locked then { s1 with dirty := false } else s1
      let s3 : St := if f then { s2 with acked := max s2.acked g } else s2
      s3.setPc f .idle
    | _ => s

def run (locked : Bool) (s : St) (evs : List Ev) : St := evs.foldl (step locked) s

/-- the lock scope of the working tree (generated) -/
def runGen (s : St) (evs : List Ev) : St := run Gen.Kv.jsonSaveCallersHoldMutex s evs

end Iora.Jfs.Race
