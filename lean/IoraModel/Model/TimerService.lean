import IoraModel.Gen.Timer
/-
Model of `include/iora/core/timer.hpp` (class `TimerService`), property C08.

Time points and durations are `Int` nanoseconds (`steady_clock`).  The service is a monitor: every public call and
every iteration of the loop thread works on the shared state only inside `std::lock_guard<std::mutex> lock(_mutex)`
sections, so the ATOMIC STEPS of the model are exactly those locked sections (plus the start and the end of a handler,
which run outside the lock).  "All interleavings" = all lists of steps (`Op`); a step whose guard is false is a stutter.
The clock value read inside a section is an input of the step.

`records` = `_records` (at most one per id), `periodic` = `_periodicTimers`, `heap` = `_heap` (array heap, index
arithmetic as in `siftUp/siftDown/heapPop`), `ready` = the loop thread's local `ready` vector (handlers collected and
pre-announced in `_executingCallbacks`, not started yet), `inflight` = the handler the loop thread is executing.

The model follows the code AS REPAIRED by F23 (`stop()` clears `_accepting` under `_mutex` before it stops the loop and
publishes Stopped + not-accepting together at the end) and F41 (every invocation of a periodic handler goes through a
guard that `cancel()` closes).

Second layer (`Model/TimerSys.lean`): the timerfd/eventfd/epoll wake-up plumbing and `stop()` → `reset()` → `start()`;
`Model/SteadyTimer.lean`: `SteadyTimer`.  Not modelled: statistics, logging, error handlers, the pool (it only delegates), a second
concurrent `stop()`, the system-error exits of `runLoop`.
-/
namespace Iora.Tsvc

/-- `TimerLimits` (only what `schedule*` tests) -/
structure Limits where
  maxTimers : Nat
  maxPeriodic : Nat
  maxTimeoutNs : Int
  deriving Repr

/-- `struct Record` + its key; `guarded` = the stored handler is the periodic guard wrapper.  Ghost fields: `k` = firing index
(0 for a one-shot, 1, 2, … for a periodic timer), `t0`/`iv` = what the caller asked for (one-shot: `t0 = tp`, `iv = 0`;
periodic: `t0` = clock at `schedulePeriodic`, `iv` = interval), so that `tp = t0 + k * iv` (theorem S2) -/
structure Rec where
  id : Nat
  tp : Int
  canceled : Bool
  guarded : Bool
  k : Nat
  t0 : Int
  iv : Int
  deriving DecidableEq, Repr

/-- `struct PeriodicTimer` -/
structure Per where
  id : Nat
  interval : Int
  next : Int
  canceled : Bool
  deriving DecidableEq, Repr

structure HeapItem where
  tp : Int
  id : Nat
  deriving DecidableEq, Repr

/-- a collected handler invocation (the record it was collected from, minus the cancel flag) -/
structure Hnd where
  id : Nat
  tp : Int
  guarded : Bool
  k : Nat
  t0 : Int
  iv : Int
  deriving DecidableEq, Repr

def Rec.hnd (r : Rec) : Hnd := ⟨r.id, r.tp, r.guarded, r.k, r.t0, r.iv⟩

inductive Life where
  | running | draining | stopped
  deriving DecidableEq, Repr

/-- progress of the (at most one) `drain()` call that has passed the entry gate -/
inductive DPc where
  | idle | gated | waiting | timedOut
  deriving DecidableEq, Repr

/-- progress of `stop()` -/
inductive SPc where
  | idle | flagged | halted | done
  deriving DecidableEq, Repr

structure Svc where
  records : List Rec := []
  periodic : List Per := []
  heap : List HeapItem := []
  nextId : Nat := 0
  accepting : Bool := true
  running : Bool := true
  life : Life := .running
  executing : Nat := 0
  ready : List Hnd := []
  inflight : Option Hnd := none
  /-- periodic ids whose invocation guard `cancel()` has closed -/
  closed : List Nat := []
  /-- the loop thread took the `!_running` branch (`shouldExit`) -/
  exiting : Bool := false
  /-- the loop thread has left `runLoop` (it can be joined) -/
  exited : Bool := false
  dpc : DPc := .idle
  spc : SPc := .idle
  deriving Repr

/-! ### the heap (`less`, `siftUp`, `siftDown`, `heapPop`) -/

/-- mirrors `less(a, b)` -/
def less (a b : HeapItem) : Bool := a.tp < b.tp || (a.tp == b.tp && a.id < b.id)

/-- `std::swap(_heap[i], _heap[j])` (both indices are valid at every call site: `swap_valid`) -/
def swap (h : List HeapItem) (i j : Nat) : List HeapItem :=
  match h[i]?, h[j]? with
  | some a, some b => (h.set i b).set j a
  | _, _ => h

/-- mirrors `siftUp(idx)`; the index halves, fuel `idx + 1` is enough -/
def siftUp : Nat → List HeapItem → Nat → List HeapItem
  | 0, h, _ => h
  | f + 1, h, idx =>
    if idx = 0 then h
    else
      let parent := (idx - 1) / 2
      match h[idx]?, h[parent]? with
      | some x, some p => if less x p then siftUp f (swap h idx parent) parent else h
      | _, _ => h

/-- the `smallest` index computed by one round of `siftDown(idx)` (`x = _heap[idx]`): the left child if it is less than `x`,
then the right child if it is less than that -/
def smallestOf (h : List HeapItem) (idx : Nat) (x : HeapItem) : Nat :=
  let left := idx * 2 + 1
  let right := left + 1
  let s1 : Nat × HeapItem := match h[left]? with
    | some l => if less l x then (left, l) else (idx, x)
    | none => (idx, x)
  let s2 : Nat × HeapItem := match h[right]? with
    | some r => if less r s1.2 then (right, r) else s1
    | none => s1
  s2.1

/-- mirrors `siftDown(idx)`; the index grows, fuel `size` is enough -/
def siftDown : Nat → List HeapItem → Nat → List HeapItem
  | 0, h, _ => h
  | f + 1, h, idx =>
    match h[idx]? with
    | none => h
    | some x =>
      if smallestOf h idx x = idx then h else siftDown f (swap h idx (smallestOf h idx x)) (smallestOf h idx x)

/-- `_heap.emplace_back(item); siftUp(_heap.size() - 1);` -/
def heapPush (h : List HeapItem) (x : HeapItem) : List HeapItem :=
  siftUp (h.length + 1) (h ++ [x]) h.length

/-- mirrors `heapPop()` -/
def heapPop (h : List HeapItem) : List HeapItem :=
  if h.isEmpty then h
  else
    let h1 := (swap h 0 (h.length - 1)).dropLast
    if h1.isEmpty then h1 else siftDown h1.length h1 0

/-! ### the maps -/

def findRec (rs : List Rec) (id : Nat) : Option Rec := rs.find? (·.id == id)
def eraseRec (rs : List Rec) (id : Nat) : List Rec := rs.filter (·.id != id)
def findPer (ps : List Per) (id : Nat) : Option Per := ps.find? (·.id == id)
def erasePer (ps : List Per) (id : Nat) : List Per := ps.filter (·.id != id)

/-- number of records that are not cancelled (`getInFlightCount`, `drainDone`) -/
def liveCount (s : Svc) : Nat := (s.records.filter (fun r => !r.canceled)).length

/-! ### schedule / cancel -/

/-- mirrors `scheduleAt(tp, handler)`; `now` is what `isValidTimeout` reads -/
def scheduleAt (L : Limits) (s : Svc) (now tp : Int) : Svc × Nat :=
  if !s.accepting then (s, 0)                                   -- lock-free test
  else if tp - now > L.maxTimeoutNs then (s, 0)                 -- isValidTimeout
  else if !s.accepting then (s, 0)                              -- re-test under `_mutex` (same flag in one atomic step)
  else if s.records.length ≥ L.maxTimers then (s, 0)
  else
    let id := s.nextId + 1
    ({ s with nextId := id, records := s.records ++ [⟨id, tp, false, false, 0, tp, 0⟩], heap := heapPush s.heap ⟨tp, id⟩ }, id)

/-- `scheduleAt`, the part BEFORE `_mutex` is taken: the lock-free `_accepting` test and `isValidTimeout` (clock `now`) -/
def scheduleAtPre (L : Limits) (s : Svc) (now tp : Int) : Bool := s.accepting && !decide (tp - now > L.maxTimeoutNs)

/-- `scheduleAt`, the locked section: `_accepting` re-tested, the limit, the insert.  Another thread may have run any number of steps
between `scheduleAtPre` and this section (theorem `S6_concurrent`). -/
def scheduleAtLocked (L : Limits) (s : Svc) (tp : Int) : Svc × Nat :=
  if !s.accepting then (s, 0)
  else if s.records.length ≥ L.maxTimers then (s, 0)
  else
    let id := s.nextId + 1
    ({ s with nextId := id, records := s.records ++ [⟨id, tp, false, false, 0, tp, 0⟩], heap := heapPush s.heap ⟨tp, id⟩ }, id)

/-- mirrors `schedulePeriodic(interval, handler)` -/
def schedulePeriodic (L : Limits) (s : Svc) (now interval : Int) : Svc × Nat :=
  let deadline := now + interval
  if !s.accepting then (s, 0)
  else if deadline - now > L.maxTimeoutNs then (s, 0)
  else if !s.accepting then (s, 0)
  else if s.periodic.length ≥ L.maxPeriodic then (s, 0)
  else if s.records.length ≥ L.maxTimers then (s, 0)
  else
    let id := s.nextId + 1
    ({ s with nextId := id,
              periodic := s.periodic ++ [⟨id, interval, deadline, false⟩],
              records := s.records ++ [⟨id, deadline, false, true, 1, now, interval⟩],
              heap := heapPush s.heap ⟨deadline, id⟩ }, id)

/-- `it->second.canceled = true` for the record with this id, if it is not cancelled yet -/
def markCanceled (id : Nat) (r : Rec) : Rec := if r.id == id && !r.canceled then { r with canceled := true } else r

/-- mirrors `cancel(id)` (one locked section): a live record is marked; a periodic entry is marked (if it is not yet — a `drain`
sweep may have marked it before), its invocation guard is closed and the entry is erased.  WHERE the guard store sits relative to
the `if (!entry.canceled)` transition block is read from the source (`Gen.Timer.svcCancelClosesGuardAlways`): the model closes the
guard exactly when the code does. -/
def cancelWith (always : Bool) (s : Svc) (id : Nat) : Svc × Bool :=
  let hit1 := match findRec s.records id with
    | some r => !r.canceled
    | none => false
  let recs := s.records.map (markCanceled id)
  match findPer s.periodic id with
  | some pt =>
    let closes := always || !pt.canceled
    ({ s with records := recs, periodic := erasePer s.periodic id, closed := if closes then id :: s.closed else s.closed }, true)
  | none => ({ s with records := recs }, hit1)

def cancel (s : Svc) (id : Nat) : Svc × Bool := cancelWith Gen.Timer.svcCancelClosesGuardAlways s id

/-! ### the loop thread -/

/-- loop state of `collectDueLocked`: the three containers it works on, `out`, and (ghost) the cancelled records it erased
without handing them over -/
structure CL where
  records : List Rec
  periodic : List Per
  heap : List HeapItem
  out : List Hnd := []
  dropped : List Rec := []
  /-- the loop left through `break` / empty heap (`true`) rather than by running out of fuel -/
  complete : Bool := false

/-- mirrors the `while (!_heap.empty())` loop of `collectDueLocked(now, out)`.  Fuel can only run out with a non-positive
periodic interval (then the C++ loop does not terminate either) -/
def collectLoop (now : Int) : Nat → CL → CL
  | 0, c => { c with complete := false }
  | f + 1, c =>
    match c.heap with
    | [] => { c with complete := true }
    | top :: _ =>
      if top.tp > now then { c with complete := true }
      else
        match findRec c.records top.id with
        | none => collectLoop now f { c with heap := heapPop c.heap }
        | some rc =>
          let recs := eraseRec c.records rc.id
          let out2 := if !rc.canceled then c.out ++ [rc.hnd] else c.out
          let dr2 := if !rc.canceled then c.dropped else c.dropped ++ [rc]
          match findPer c.periodic rc.id with
          | none => collectLoop now f { c with heap := heapPop c.heap, records := recs, out := out2, dropped := dr2 }
          | some pt =>
            if !pt.canceled && !rc.canceled then
              let nx := pt.next + pt.interval
              collectLoop now f
                { c with periodic := c.periodic.map (fun p => if p.id == rc.id then { p with next := nx } else p),
                         records := recs ++ [⟨rc.id, nx, false, true, rc.k + 1, rc.t0, rc.iv⟩],
                         heap := heapPush (heapPop c.heap) ⟨nx, rc.id⟩,
                         out := out2, dropped := dr2 }
            else collectLoop now f { c with heap := heapPop c.heap, records := recs, periodic := erasePer c.periodic rc.id, out := out2, dropped := dr2 }

/-- fuel for `collectLoop` used by `collect`: far more than any run with positive intervals needs in the driver's cases;
the theorems hold for every fuel value -/
def collectFuel : Nat := 1000000

/-- one of the two locked sections of `runLoop` that call `collectDueLocked` and pre-announce `_executingCallbacks`; enabled when the
loop thread is not busy with handlers and has not exited.  `atExit = false`: the section after `epoll_wait` (the loop goes on);
`atExit = true`: the section at the top of the loop when `_running` is false (`shouldExit`): after running what it collected the
loop thread leaves.  The C++ can run the first and then the second in one pass of the loop; both hand their handlers to `safeRun`. -/
def collect (s : Svc) (now : Int) (atExit : Bool := false) : Svc × List Hnd × List Rec :=
  if s.exited || s.exiting || !s.ready.isEmpty || s.inflight.isSome || (atExit && s.running) then (s, [], [])
  else
    let r := collectLoop now collectFuel { records := s.records, periodic := s.periodic, heap := s.heap }
    ({ s with records := r.records, periodic := r.periodic, heap := r.heap,
              ready := r.out, executing := s.executing + r.out.length, exiting := atExit }, r.out, r.dropped)

inductive StartOut where
  | none                      -- nothing to start
  | started (h : Hnd)         -- the user's handler starts
  | skipped (h : Hnd)         -- periodic invocation guard closed by `cancel()`: the user's handler is not called
  deriving Repr

def StartOut.startedId : StartOut → Option Nat
  | .started h => some h.id
  | _ => Option.none

def StartOut.skippedId : StartOut → Option Nat
  | .skipped h => some h.id
  | _ => Option.none

/-- the loop thread takes the next collected handler: `safeRun(h)` up to the call of the user's code -/
def hstart (s : Svc) : Svc × StartOut :=
  if s.inflight.isSome then (s, .none)
  else match s.ready with
    | [] => (s, .none)
    | h :: rest =>
      if h.guarded && s.closed.contains h.id then
        ({ s with ready := rest, executing := s.executing - 1 }, .skipped h)     -- CountGuard still decrements
      else ({ s with ready := rest, inflight := some h }, .started h)

/-- the running handler returns (or throws): `CountGuard` decrements `_executingCallbacks` -/
def hend (s : Svc) : Svc :=
  match s.inflight with
  | none => s
  | some _ => { s with inflight := none, executing := s.executing - 1 }

/-- the loop thread leaves `runLoop` after the exit branch has run its handlers -/
def loopExit (s : Svc) : Svc :=
  if s.exiting && s.ready.isEmpty && s.inflight.isNone then { s with exited := true } else s

/-! ### drain / stop -/

/-- `drainDone` predicate: no live record and nothing executing -/
def drainPred (s : Svc) : Bool := liveCount s == 0 && s.executing == 0

/-- entry gate of `drain()`: CAS Running → Draining and `_accepting = false`, under `_mutex` -/
def drainGate (s : Svc) : Svc × Bool :=
  if s.life = .running ∧ s.dpc = .idle then ({ s with life := .draining, accepting := false, dpc := .gated }, true) else (s, false)

/-- the cancellation sweep of `drain(timeoutMs)` -/
def drainSweep (s : Svc) (now timeoutNs : Int) : Svc :=
  if s.dpc ≠ .gated then s
  else if timeoutNs > 0 then
    { s with records := s.records.map (fun r => if !r.canceled && r.tp > now + timeoutNs then { r with canceled := true } else r),
             periodic := s.periodic.map (fun p => { p with canceled := true }),
             dpc := .waiting }
  else { s with dpc := .waiting }

/-- the wait ends with the predicate true: `drain()` returns success -/
def drainDone (s : Svc) : Svc × Bool :=
  if s.dpc = .waiting ∧ drainPred s then ({ s with dpc := .idle }, true) else (s, false)

/-- the wait times out with the predicate false -/
def drainTimeout (s : Svc) : Svc :=
  if s.dpc = .waiting ∧ !drainPred s then { s with dpc := .timedOut } else s

/-- timed-out path: CAS Draining → Running and `_accepting = true`, under `_mutex` -/
def drainRestore (s : Svc) : Svc :=
  if s.dpc ≠ .timedOut then s
  else if s.life = .draining then { s with life := .running, accepting := true, dpc := .idle }
  else { s with dpc := .idle }

/-- `stop()`, first repaired block: `_accepting = false` under `_mutex` (after the internal drain, whatever its outcome) -/
def stopFlag (s : Svc) : Svc :=
  if s.spc = .idle ∧ s.life ≠ .stopped then { s with accepting := false, spc := .flagged } else s

/-- `_running.compare_exchange_strong(true, false)` + `poke()` -/
def stopHalt (s : Svc) : Svc :=
  if s.spc = .flagged then { s with running := false, spc := .halted } else s

/-- `_thread.join()` has returned (needs the loop thread to have exited), `cleanup()`, `markStopped()` -/
def stopFinish (s : Svc) : Svc × Bool :=
  if s.spc = .halted ∧ s.exited then ({ s with accepting := false, life := .stopped, spc := .done }, true) else (s, false)

/-! ### the service as a step system -/

inductive Op where
  | schedAt (now tp : Int)
  | schedPer (now interval : Int)
  | cancel (id : Nat)
  | collect (now : Int) (atExit : Bool)
  | hstart
  | hend
  | loopExit
  | drainGate
  | drainSweep (now timeoutNs : Int)
  | drainDone
  | drainTimeout
  | drainRestore
  | stopFlag
  | stopHalt
  | stopFinish
  deriving Repr

inductive Out where
  | none
  | id (n : Nat)
  | bool (b : Bool)
  | collected (hs : List Hnd) (dropped : List Rec)
  | start (o : StartOut)
  deriving Repr

def step (L : Limits) (s : Svc) : Op → Svc × Out
  | .schedAt now tp => let r := scheduleAt L s now tp; (r.1, .id r.2)
  | .schedPer now iv => let r := schedulePeriodic L s now iv; (r.1, .id r.2)
  | .cancel id => let r := cancel s id; (r.1, .bool r.2)
  | .collect now ax => let r := collect s now ax; (r.1, .collected r.2.1 r.2.2)
  | .hstart => let r := hstart s; (r.1, .start r.2)
  | .hend => (hend s, .none)
  | .loopExit => (loopExit s, .none)
  | .drainGate => let r := drainGate s; (r.1, .bool r.2)
  | .drainSweep now t => (drainSweep s now t, .none)
  | .drainDone => let r := drainDone s; (r.1, .bool r.2)
  | .drainTimeout => (drainTimeout s, .none)
  | .drainRestore => (drainRestore s, .none)
  | .stopFlag => (stopFlag s, .none)
  | .stopHalt => (stopHalt s, .none)
  | .stopFinish => let r := stopFinish s; (r.1, .bool r.2)

abbrev Hist := List (Op × Out)

def runFrom (L : Limits) : Svc → Hist → List Op → Svc × Hist
  | s, h, [] => (s, h)
  | s, h, op :: ops => runFrom L (step L s op).1 (h ++ [(op, (step L s op).2)]) ops

/-- the constructor leaves a running, accepting service with a live loop thread -/
def run (L : Limits) (ops : List Op) : Svc × Hist := runFrom L {} [] ops

def trace (L : Limits) : Svc → List Op → Hist
  | _, [] => []
  | s, op :: ops => (op, (step L s op).2) :: trace L (step L s op).1 ops

/-! ### observation functions on histories -/

/-- handler invocations whose user code started in a step -/
def startedOf : Op × Out → List Hnd
  | (_, .start (.started h)) => [h]
  | _ => []

/-- handler invocations a step collected -/
def collectedOf : Op × Out → List Hnd
  | (_, .collected hs _) => hs
  | _ => []

/-- handler invocations a step skipped because `cancel()` had closed the periodic guard -/
def skippedOf : Op × Out → List Hnd
  | (_, .start (.skipped h)) => [h]
  | _ => []

def started (h : Hist) : List Hnd := h.flatMap startedOf
def skipped (h : Hist) : List Hnd := h.flatMap skippedOf
def collected (h : Hist) : List Hnd := h.flatMap collectedOf

/-- ids handed out by `scheduleAt` (one-shot timers) -/
def issued1Of : Op × Out → List Nat
  | (.schedAt _ _, .id n) => if n = 0 then [] else [n]
  | _ => []

/-- ids for which a `cancel` step answered `true` -/
def userCancelledOf : Op × Out → List Nat
  | (.cancel id, .bool true) => [id]
  | _ => []

def issued1 (h : Hist) : List Nat := h.flatMap issued1Of
def userCancelled (h : Hist) : List Nat := h.flatMap userCancelledOf

/-- no `drain(timeoutMs > 0)` sweep among the steps (the hypothesis of `C08_S3b_partial`) -/
def noSweep (ops : List Op) : Prop := ∀ op ∈ ops, ∀ now t, op = .drainSweep now t → t ≤ 0

/-- what the CALLER asked for, from the history alone: for `scheduleAt(tp)` the pair `(tp, 0)`, for `schedulePeriodic(interval)`
issued at clock `now` the pair `(now, interval)`; a firing `k` of that id is due at `t0 + k * iv` -/
def reqUpd (d : Nat → Option (Int × Int)) : Op × Out → Nat → Option (Int × Int)
  | (.schedAt _ tp, .id n) => fun i => if n ≠ 0 ∧ i = n then some (tp, 0) else d i
  | (.schedPer now iv, .id n) => fun i => if n ≠ 0 ∧ i = n then some (now, iv) else d i
  | _ => d

def reqOf (h : Hist) : Nat → Option (Int × Int) := h.foldl reqUpd (fun _ => none)

end Iora.Tsvc
