import IoraModel.Model.Assets
import IoraModel.Gen.AssetsServe
/-
Model of the HTTP glue in front of `Assets::getStatic` (C20, serve layer): `parsers::detail::hexNibble` / `percentDecode` /
`parsers::urlDecode` (`include/iora/parsers/html_escape.hpp`), `Application::hasDotDotSegment` and the handler registered by
`Application::serveStatic` (`include/iora/web/application.hpp`).  Constants, operands and the shape of the handler come from
the regenerated `Gen/AssetsServe.lean`.

NOT modelled (said once, here): the `If-None-Match` / 304 branch (the harness never sends that header; a 304 carries no body
at all: `res.body.clear()`), ETag / Cache-Control / Vary / CSP headers, the q-value grammar of `gzipAcceptable` (the model takes
its boolean answer as the input `acceptGzip`; the harness sends `Accept-Encoding: gzip` or no such header), the metrics wrapper
`instrument` (it calls the handler and does not touch the response), and Mustache itself (`render`: only the census of
`_assets.` accesses is a generated fact; every partial name goes through `getTemplate`, i.e. `getTemplateAt` of the C20 model).
-/
namespace Iora.Assets
open Iora

/-- mirrors the chain of range tests of `detail::hexNibble` (`none` = the C++ `-1`) -/
def hexNibbleIn : List (UInt8 × UInt8 × Nat) → UInt8 → Option Nat
  | [], _ => none
  | r :: rs, c =>
    if r.1.toNat ≤ c.toNat ∧ c.toNat ≤ r.2.1.toNat then some (c.toNat - r.1.toNat + r.2.2) else hexNibbleIn rs c

/-- mirrors `parsers::detail::hexNibble` -/
def hexNibble (c : UInt8) : Option Nat := hexNibbleIn Gen.AssetsServe.hexRanges c

/-- the look-ahead test `i + lookAhead < n` of `percentDecode`, on the number `n - i` of bytes from the `%` (inclusive) to the end -/
def lookAheadOk (remaining : Nat) : Bool :=
  if Gen.AssetsServe.lookCmp = "<" then decide (Gen.AssetsServe.lookAhead < remaining)
  else decide (Gen.AssetsServe.lookAhead ≤ remaining)

/-- mirrors `parsers::detail::percentDecode(in, plusIsSpace)`: one left-to-right pass; `%XY` with two hex digits becomes the byte
`(X << 4) | Y` (= `16·X + Y`, both below 16) and the pass continues AFTER the three bytes (the produced byte is never looked at
again); an escape byte that is not followed by two hex digits is copied.  The two digits are the bytes at offsets 1 and 2
(`Gen.hiOffset`, `Gen.loOffset`; pinned by `Iora.C20.Gen_percent_shape`). -/
def percentDecode (plus : Bool) : Bytes → Bytes
  | [] => []
  | c :: rest =>
    if c = Gen.AssetsServe.escapeByte then
      match rest with
      | h :: l :: rest' =>
        match lookAheadOk (rest'.length + 3), hexNibble h, hexNibble l with
        | true, some a, some b => b8 (a * 2 ^ Gen.AssetsServe.hiShift + b) :: percentDecode plus rest'
        | _, _, _ => Gen.AssetsServe.literalByte :: percentDecode plus (h :: l :: rest')
      | short => Gen.AssetsServe.literalByte :: percentDecode plus short
    else if plus && c = Gen.AssetsServe.plusByte then Gen.AssetsServe.spaceByte :: percentDecode plus rest
    else c :: percentDecode plus rest

/-- mirrors `parsers::urlDecode` -/
def urlDecode (p : Bytes) : Bytes := percentDecode Gen.AssetsServe.urlDecodePlusIsSpace p

/-- `urlDecode` applied `n` times (the handler's `decodedPath` initialiser nests it `Gen.decodeDepth` times) -/
def decodeTimes : Nat → Bytes → Bytes
  | 0, p => p
  | n + 1, p => decodeTimes n (urlDecode p)

/-- mirrors the `while (true)` segment loop of `Application::hasDotDotSegment`: `seg` is the segment read so far -/
def ddLoop (seg : Bytes) : Bytes → Bool
  | [] => decide (seg = Gen.AssetsServe.ddRefused)
  | c :: cs =>
    if c = Gen.AssetsServe.ddSeparator then decide (seg = Gen.AssetsServe.ddRefused) || ddLoop [] cs
    else ddLoop (seg ++ [c]) cs

/-- mirrors `Application::hasDotDotSegment` -/
def hasDotDotSegment (p : Bytes) : Bool := ddLoop [] p

/-- what the monitor-relevant part of the HTTP response is: status code, body, `Content-Encoding: gzip` present, `Content-Type` -/
structure ServeRes where
  status : Nat
  body : Bytes
  gzip : Bool
  mime : String
  deriving DecidableEq, Repr

/-- the decoded path of the handler: `urlDecode` nested `Gen.decodeDepth` times around `req.pathRest` -/
def decodedPathOf (raw : Bytes) : Bytes := decodeTimes Gen.AssetsServe.decodeDepth raw

/-- the handler's pre-check: `hasDotDotSegment(x) || (!x.empty() && x.front() == '/')` -/
def precheck (x : Bytes) : Bool := hasDotDotSegment x || x.head? == some Gen.AssetsServe.precheckLeading

/-- mirrors the handler registered by `Application::serveStatic` (without the `If-None-Match` branch), step by step:
decode → pre-check → 400 | `getStatic` → Rejected 400 | NotFound 404 | select representation → 200.
`raw` is `req.pathRest` (the RAW wildcard suffix), `acceptGzip` the answer of `gzipAcceptable(Accept-Encoding)`. -/
def serveStaticAt (sn : Snaps) (a : Assets) (raw : Bytes) (acceptGzip : Bool) : ServeRes × Assets :=
  let decodedPath := decodedPathOf raw
  if precheck (if Gen.AssetsServe.precheckOnDecoded then decodedPath else raw) then
    (⟨Gen.AssetsServe.precheckStatus, Gen.AssetsServe.precheckBody, false, Gen.AssetsServe.precheckType⟩, a)
  else
    match getStaticAt sn a (if Gen.AssetsServe.getStaticOnDecoded then decodedPath else raw) with
    | (.rejected, a') => (⟨Gen.AssetsServe.rejectedStatus, Gen.AssetsServe.rejectedBody, false, Gen.AssetsServe.rejectedType⟩, a')
    | (.notFound, a') => (⟨Gen.AssetsServe.notFoundStatus, Gen.AssetsServe.notFoundBody, false, Gen.AssetsServe.notFoundType⟩, a')
    | (.found b, a') =>
      -- `gzipVariantExists && gzipBytes.has_value() && gzipAcceptable(..)`: the blob of the model has one field for both
      let serveGzip := b.gz.isSome && acceptGzip
      let wantGz := if Gen.AssetsServe.gzipBytesWhenServeGzip then serveGzip else !serveGzip
      match wantGz, b.gz with
      | true, some g => (⟨Gen.AssetsServe.okStatus, g, serveGzip, b.mime⟩, a')
      | true, none => (⟨0, [], serveGzip, b.mime⟩, a')     -- `*blob.gzipBytes` of an empty optional: undefined behaviour, explicit outcome
      | false, _ => (⟨Gen.AssetsServe.okStatus, b.bytes, serveGzip, b.mime⟩, a')

def serveStatic (fs : Fs) (a : Assets) (raw : Bytes) (acceptGzip : Bool) : ServeRes × Assets :=
  serveStaticAt (Snaps.const fs) a raw acceptGzip

end Iora.Assets
