import IoraModel.Model.LifecycleCore
import IoraModel.Gen.CloseSites
/-!
# The close-site table of the lifecycle model (C02)

Every lifecycle site the translator finds in tcp_engine.hpp / udp_engine.hpp (`Gen.CloseSites.tcpSites/udpSites`: enclosing
function, kind, hash of the guard) is listed here, in source order, next to the piece of the MODEL that plays its part: a
`closeNow(`/`closeCb(` call site is the transition that emits `Out.close _ site`; the other kinds are parts of a primitive of
`Model/LifecycleCore.lean`.  `closeSites_covered` (Props/C02, by `decide`) states that the generated list equals this table:
adding, removing, moving or re-guarding a site in the source breaks the build until the model has been reviewed.

Two entries are optional: the repairs F18 (TLS requested without a client context is refused at the top of doConnect) and F20
(SSL_set1_host failure) each add one close site to doConnect; `variant` recognises them in the generated list and the model
takes the corresponding `Cfg` flags from it, so the table follows the tree in either state.
-/
namespace Iora.Lifecycle.Sites
open Iora.Lifecycle

abbrev GSite := Iora.Gen.CloseSites.Site

inductive Role
  | close (s : Site)      -- the transition emitting `close _ s`
  | closeProc             -- the `closeNow(` of process(): emits `close _ (procClose o)` for the command's origin
  | prim (what : String)  -- part of a primitive operation of the model
  deriving DecidableEq, Repr

def f18Site : GSite := ⟨"doConnect", "closeCb", "1fce4c5b"⟩
def f20Site : GSite := ⟨"doConnect", "closeCb", "2a346285"⟩

/-- which optional repairs the tree contains -/
structure Variant where
  f18 : Bool
  f20 : Bool
  deriving DecidableEq, Repr

def variantOf (g : List GSite) : Variant := ⟨g.contains f18Site, g.contains f20Site⟩

def tcpTable (v : Variant) : List (GSite × Role) :=
  [
    (⟨"connect", "idAlloc", "e3b0c442"⟩, .prim "apiConnect: id allocation"),
    (⟨"shutdownDrain", "closedTrue", "1ac95619"⟩, .prim "drainClose: closed flag"),
    (⟨"shutdownDrain", "gaugeDec", "1ac95619"⟩, .prim "drainClose: gauge"),
    (⟨"shutdownDrain", "closeCb", "a6a26016"⟩, .close .drainSession),
    (⟨"shutdownDrain", "closeCb", "6c8c3b5d"⟩, .close .drainResidual),
    (⟨"process", "closeNow", "fad6cd2a"⟩, .closeProc),
    (⟨"onListener", "idAlloc", "eec7f35e"⟩, .prim "acceptFresh: id allocation"),
    (⟨"onListener", "gaugeInc", "6144a05b"⟩, .prim "acceptFresh: gauge"),
    (⟨"onListener", "acceptCb", "c86245ed"⟩, .prim "acceptFresh: accept callback")]
  ++ (if v.f18 then [(f18Site, .close .tlsRefused)] else [])
  ++ [
    (⟨"doConnect", "closeCb", "85f40a20"⟩, .close .resolveTimeout),
    (⟨"doConnect", "closeCb", "ac74439f"⟩, .close .resolveFail),
    (⟨"doConnect", "closeCb", "bf0ae740"⟩, .close .refused),
    (⟨"doConnect", "closeCb", "fdff434e"⟩, .close .noSocket),
    (⟨"doConnect", "closeCb", "b9f38041"⟩, .close .sslNewFail)]
  ++ (if v.f20 then [(f20Site, .close .sniFail)] else [])
  ++ [
    (⟨"doConnect", "gaugeInc", "e3b0c442"⟩, .prim "insertCur: gauge"),
    (⟨"doConnect", "closeNow", "6af1d857"⟩, .close .immGsoFail),
    (⟨"doConnect", "connectCb", "516c9d07"⟩, .prim "announceConnect"),
    (⟨"doConnect", "closeNow", "1399e51a"⟩, .close .immPeerFail),
    (⟨"doConnect", "closeNow", "76ea59c3"⟩, .close .immSoErr),
    (⟨"onSession", "closeNow", "7374e549"⟩, .close .evSoErrEarly),
    (⟨"onSession", "closeNow", "c8e06dd9"⟩, .close .evGsoFail),
    (⟨"onSession", "connectCb", "6e03885a"⟩, .prim "announceConnect"),
    (⟨"onSession", "closeNow", "274123c3"⟩, .close .evPeerFail),
    (⟨"onSession", "closeNow", "4f589569"⟩, .close .evSoErr),
    (⟨"onSession", "closeNow", "3a5776c7"⟩, .close .hup),
    (⟨"driveHandshake", "closeNow", "3f961aa4"⟩, .close .hsTimeoutInline),
    (⟨"driveHandshake", "closeNow", "d221658d"⟩, .close .hsHookBefore),
    (⟨"driveHandshake", "closeNow", "f4e7d1c7"⟩, .close .hsHookAfterOk),
    (⟨"driveHandshake", "connectCb", "6a9f3dd8"⟩, .prim "announceConnect"),
    (⟨"driveHandshake", "closeNow", "263698ff"⟩, .close .hsHookAfterErr),
    (⟨"driveHandshake", "closeNow", "b6977e8c"⟩, .close .hsFatal),
    (⟨"readAvail", "closeNow", "1b42488f"⟩, .close .rdHook),
    (⟨"readAvail", "closeNow", "688bbcb3"⟩, .close .tlsZeroReturn),
    (⟨"readAvail", "closeNow", "03926d68"⟩, .close .tlsReadErr),
    (⟨"readAvail", "closeNow", "97788593"⟩, .close .recvErr),
    (⟨"readAvail", "closeNow", "7df8a78d"⟩, .close .fin),
    (⟨"readAvail", "dataCb", "2eb901df"⟩, .prim "dataCb"),
    (⟨"writePending", "closeNow", "d5b61f00"⟩, .close .wrHook),
    (⟨"writePending", "closeNow", "36281991"⟩, .close .tlsWriteErr),
    (⟨"writePending", "closeNow", "3a584380"⟩, .close .sendErr),
    (⟨"doSend", "closeNow", "c23bb1b5"⟩, .close .dsHook),
    (⟨"doSend", "closeNow", "a70aa4c5"⟩, .close .dsTlsErr),
    (⟨"doSend", "closeNow", "23bb904f"⟩, .close .dsSendErr),
    (⟨"doSend", "closeNow", "38623c8c"⟩, .close .backpressure),
    (⟨"closeNow", "closedTrue", "73045f30"⟩, .prim "closeNow: closed flag"),
    (⟨"closeNow", "gaugeDec", "73045f30"⟩, .prim "closeNow: gauge"),
    (⟨"closeNow", "closeCb", "9b757aab"⟩, .prim "closeNow: close callback"),
    (⟨"runGc", "closeNow", "7c13bc5c"⟩, .close .gc)]

def udpTable : List (GSite × Role) :=
  [
    (⟨"connect", "idAlloc", "66628004"⟩, .prim "apiConnect: id allocation"),
    (⟨"connectViaListener", "idAlloc", "e3b0c442"⟩, .prim "apiVia: id allocation"),
    (⟨"shutdownDrain", "closedTrue", "1ac95619"⟩, .prim "drainClose: closed flag"),
    (⟨"shutdownDrain", "gaugeDec", "1ac95619"⟩, .prim "drainClose: gauge"),
    (⟨"shutdownDrain", "closeCb", "a6a26016"⟩, .close .drainSession),
    (⟨"shutdownDrain", "closeCb", "621d9188"⟩, .close .drainResidual),
    (⟨"process", "closeNow", "43ccd617"⟩, .closeProc),
    (⟨"readFromListener", "idAlloc", "9dfba1c3"⟩, .prim "acceptFresh: id allocation"),
    (⟨"readFromListener", "gaugeInc", "9dfba1c3"⟩, .prim "acceptFresh: gauge"),
    (⟨"readFromListener", "acceptCb", "eca7863a"⟩, .prim "acceptFresh: accept callback"),
    (⟨"readFromListener", "dataCb", "2eb901df"⟩, .prim "dataCb"),
    (⟨"connectDo", "closeCb", "ac74439f"⟩, .close .uResolveFail),
    (⟨"connectDo", "closeCb", "6a1f9818"⟩, .close .uNoSocket),
    (⟨"connectDo", "gaugeInc", "e3b0c442"⟩, .prim "insertCur: gauge"),
    (⟨"connectDo", "connectCb", "64573140"⟩, .prim "announceConnect"),
    (⟨"viaDo", "closeCb", "6cbdedb4"⟩, .close .vNoListener),
    (⟨"viaDo", "closeCb", "81cb36c2"⟩, .close .vAfUnknown),
    (⟨"viaDo", "closeCb", "ac74439f"⟩, .close .vResolveFail),
    (⟨"viaDo", "closeCb", "69ae4981"⟩, .close .vAfMismatch),
    (⟨"viaDo", "closeCb", "768c9afe"⟩, .close .vCap),
    (⟨"viaDo", "gaugeInc", "e3b0c442"⟩, .prim "insertCur: gauge"),
    (⟨"viaDo", "connectCb", "64573140"⟩, .prim "announceConnect"),
    (⟨"onClient", "dataCb", "5f9fce6c"⟩, .prim "dataCb"),
    (⟨"onClient", "dataCb", "25ebf0c8"⟩, .prim "dataCb (empty datagram)"),
    (⟨"onClient", "closeNow", "4de9d284"⟩, .close .ucRecvErr),
    (⟨"writeClient", "closeNow", "9f3bcdb7"⟩, .close .ucWriteErr),
    (⟨"sendDo", "closeNow", "d9c13387"⟩, .close .usBackpressure),
    (⟨"sendDo", "closeNow", "8e2ed6e9"⟩, .close .usSendErr),
    (⟨"sendDo", "closeNow", "97373233"⟩, .close .usListenerGone),
    (⟨"sendDo", "closeNow", "0ea05bfd"⟩, .close .usLstBackpressure),
    (⟨"sendDo", "closeNow", "5d982ed3"⟩, .close .usPeerSendErr),
    (⟨"closeNow", "closedTrue", "73045f30"⟩, .prim "closeNow: closed flag"),
    (⟨"closeNow", "gaugeDec", "73045f30"⟩, .prim "closeNow: gauge"),
    (⟨"closeNow", "closeCb", "9b757aab"⟩, .prim "closeNow: close callback"),
    (⟨"runGc", "closeNow", "60ca6198"⟩, .close .gc)]

/-- the close sites of each engine's model, from the table -/
def closeRoles (t : List (GSite × Role)) : List Site := t.filterMap fun p => match p.2 with | .close s => some s | _ => none

/-! ## expected call skeletons (the shape of the functions the harness re-plays step by step) -/
def loopUnbatched : List String := ["whileRunning", "epoll_wait", "drainEvt", "process", "drainTim", "runGc", "handleFdEvent", "shutdownDrain"]
def loopBatched : List String := ["whileRunning", "batch", "handleFdEvent", "drainEvt", "process", "drainTim", "runGc", "shutdownDrain"]
def handleFdEvent : List String := ["tagFind", "notFoundReturn", "onListener", "onSession"]
def tcpProcess : List String := ["swap", "caseShutdown", "runningFalse", "caseAddListener", "caseConnect", "doConnect", "caseSend", "doSend", "caseClose", "find", "closeNow"]
def udpProcess : List String := ["swap", "caseShutdown", "runningFalse", "caseAddListener", "caseConnect", "doConnect", "caseVia", "viaDo", "caseSend", "doSend", "caseClose", "find", "closeNow"]
def shutdownDrain : List String := ["process", "forToClose", "skipClosed", "closedTrue", "gaugeDec", "closeCb", "sessionsClear", "queueClosed", "residualSwap", "forResidual", "promiseFail", "closeCb"]
def tcpConnect : List String := ["idAlloc", "enqueue", "retErr", "retOk"]
def udpConnect : List String := ["retErr", "idAlloc", "enqueue", "retErr", "retOk"]
def udpConnectVia : List String := ["idAlloc", "enqueue", "retErr", "retOk"]
def tcpEnqueue : List String := ["lock", "closedCheck", "retFalse", "push", "retTrue", "retFalse"]
def udpEnqueue : List String := ["lock", "closedCheck", "retFalse", "push", "retTrue"]
/-- order of Transport::Impl's close handler: connectSync suppression, global callback, observers (copy, erase, iterate), tombstone, user data -/
def fanout : List String := ["pendingFind", "pendingErase", "suppressReturn", "copyGlobal", "callGlobal", "observersFind", "observersCopy", "obsIndexErase", "observersErase", "forObservers", "callObserver", "tombstone", "dataFind", "dataErase", "cleanupGuard", "callCleanup"]
def observe : List String := ["idAlloc", "append", "index"]
def unobserve : List String := ["indexFind", "retFalse", "indexErase", "removeIf", "eraseEmpty", "retTrue"]
def setSessionData : List String := ["assign"]

end Iora.Lifecycle.Sites
