import IoraModel.Model.LifecycleCore
import IoraModel.Gen.CloseSites
/-!
# The close-site table of the lifecycle model (C02)

Every lifecycle site the translator finds in tcp_engine.hpp / udp_engine.hpp (`Gen.CloseSites.tcpSites/udpSites`: enclosing
function, kind, hash of the guard) is listed here, in source order, next to the piece of the MODEL that plays its part: a
`closeNow(`/`closeCb(` call site is the transition that emits `Out.close _ site`; the other kinds (id allocation, gauge, closed
flag, accept/connect/data callbacks, `connectPending = false`) are parts of a primitive of `Model/LifecycleCore.lean`.
`closeSites_covered` (Props/C02, by `decide`) states that the generated list equals this table: adding, removing, moving or
re-guarding a site in the source - including dropping the `return` of an earlier failure block - breaks the build until the model
has been reviewed.  (The table is for the tree with the F17/F18/F19/F20/F30/F35 repairs.)
-/
namespace Iora.Lifecycle.Sites
open Iora.Lifecycle

abbrev GSite := Iora.Gen.CloseSites.Site

inductive Role
  | close (s : Site)      -- the transition emitting `close _ s`
  | closeProc             -- the `closeNow(` of process(): emits `close _ (procClose o)` for the command's origin
  | prim (what : String)  -- part of a primitive operation of the model
  deriving DecidableEq, Repr

def tcpTable : List (GSite × Role) :=
  [
    (⟨"connect", "idAlloc", "e3b0c442"⟩, .prim "apiConnect: id allocation"),
    (⟨"shutdownDrain", "closedTrue", "1ac95619"⟩, .prim "drainClose: closed flag"),
    (⟨"shutdownDrain", "gaugeDec", "1ac95619"⟩, .prim "drainClose: gauge"),
    (⟨"shutdownDrain", "closeCb", "a6a26016"⟩, .close .drainSession),
    (⟨"shutdownDrain", "closeCb", "6c8c3b5d"⟩, .close .drainResidual),
    (⟨"process", "closeNow", "fad6cd2a"⟩, .closeProc),
    (⟨"onListener", "idAlloc", "eec7f35e"⟩, .prim "acceptFresh: id allocation"),
    (⟨"onListener", "gaugeInc", "6144a05b"⟩, .prim "acceptFresh: gauge"),
    (⟨"onListener", "acceptCb", "c86245ed"⟩, .prim "acceptFresh: accept callback"),
    (⟨"doConnect", "closeCb", "1fce4c5b"⟩, .close .tlsRefused),
    (⟨"doConnect", "closeCb", "eac47871"⟩, .close .resolveThrow),
    (⟨"doConnect", "closeCb", "7b49ac7a"⟩, .close .resolveTimeout),
    (⟨"doConnect", "closeCb", "5840638a"⟩, .close .resolveFail),
    (⟨"doConnect", "closeCb", "3f03fe11"⟩, .close .refused),
    (⟨"doConnect", "closeCb", "68a7f34b"⟩, .close .noSocket),
    (⟨"doConnect", "closeCb", "9ed6c2e1"⟩, .close .sslNewFail),
    (⟨"doConnect", "closeCb", "3bc97122"⟩, .close .sniFail),
    (⟨"doConnect", "gaugeInc", "cedf8ff6"⟩, .prim "insertCur: gauge"),
    (⟨"doConnect", "closeNow", "ce12445f"⟩, .close .immGsoFail),
    (⟨"doConnect", "connectCb", "d89883d6"⟩, .prim "announceConnect"),
    (⟨"doConnect", "pendingClear", "24a91420"⟩, .prim "announceConnect: connectPending cleared"),
    (⟨"doConnect", "closeNow", "cdc464b5"⟩, .close .immPeerFail),
    (⟨"doConnect", "closeNow", "d2f417a6"⟩, .close .immSoErr),
    (⟨"onSession", "closeNow", "7374e549"⟩, .close .evSoErrEarly),
    (⟨"onSession", "closeNow", "c198da00"⟩, .close .evGsoFail),
    (⟨"onSession", "connectCb", "d39da0c1"⟩, .prim "announceConnect"),
    (⟨"onSession", "pendingClear", "77db0560"⟩, .prim "announceConnect: connectPending cleared"),
    (⟨"onSession", "closeNow", "18950fb9"⟩, .close .evPeerFail),
    (⟨"onSession", "closeNow", "d8d607b0"⟩, .close .evSoErr),
    (⟨"onSession", "closeNow", "baabe4bb"⟩, .close .hup),
    (⟨"driveHandshake", "closeNow", "3f961aa4"⟩, .close .hsTimeoutInline),
    (⟨"driveHandshake", "closeNow", "698d02ed"⟩, .close .hsHookBefore),
    (⟨"driveHandshake", "closeNow", "16dcc23b"⟩, .close .hsHookAfterOk),
    (⟨"driveHandshake", "connectCb", "9b3c2788"⟩, .prim "announceConnect"),
    (⟨"driveHandshake", "pendingClear", "12e40e5f"⟩, .prim "announceConnect: connectPending cleared"),
    (⟨"driveHandshake", "closeNow", "54417d5e"⟩, .close .hsHookAfterErr),
    (⟨"driveHandshake", "closeNow", "42e56eee"⟩, .close .hsFatal),
    (⟨"readAvail", "closeNow", "1b42488f"⟩, .close .rdHook),
    (⟨"readAvail", "closeNow", "53f5ad9c"⟩, .close .tlsZeroReturn),
    (⟨"readAvail", "closeNow", "bf908e6f"⟩, .close .tlsReadErr),
    (⟨"readAvail", "closeNow", "ef44175b"⟩, .close .recvErr),
    (⟨"readAvail", "closeNow", "a1438f81"⟩, .close .fin),
    (⟨"readAvail", "dataCb", "99789937"⟩, .prim "dataCb"),
    (⟨"writePending", "closeNow", "d5b61f00"⟩, .close .wrHook),
    (⟨"writePending", "closeNow", "cea421a8"⟩, .close .tlsWriteErr),
    (⟨"writePending", "closeNow", "2ada9b39"⟩, .close .sendErr),
    (⟨"doSend", "closeNow", "c23bb1b5"⟩, .close .dsHook),
    (⟨"doSend", "closeNow", "7353c97d"⟩, .close .dsTlsErr),
    (⟨"doSend", "closeNow", "0c17404f"⟩, .close .dsSendErr),
    (⟨"doSend", "closeNow", "577dd086"⟩, .close .backpressure),
    (⟨"closeNow", "closedTrue", "73045f30"⟩, .prim "closeNow: closed flag"),
    (⟨"closeNow", "gaugeDec", "73045f30"⟩, .prim "closeNow: gauge"),
    (⟨"closeNow", "closeCb", "9b757aab"⟩, .prim "closeNow: close callback"),
    (⟨"runGc", "closeNow", "7c13bc5c"⟩, .close .gc)]

def udpTable : List (GSite × Role) :=
  [
    (⟨"<ctor>", "pendingClear", "e3b0c442"⟩, .prim "constructor (timer lambda): connectPending cleared"),
    (⟨"connect", "idAlloc", "66628004"⟩, .prim "apiConnect: id allocation"),
    (⟨"connectViaListener", "idAlloc", "e3b0c442"⟩, .prim "apiVia: id allocation"),
    (⟨"shutdownDrain", "closedTrue", "1ac95619"⟩, .prim "drainClose: closed flag"),
    (⟨"shutdownDrain", "gaugeDec", "1ac95619"⟩, .prim "drainClose: gauge"),
    (⟨"shutdownDrain", "closeCb", "a6a26016"⟩, .close .drainSession),
    (⟨"shutdownDrain", "closeCb", "621d9188"⟩, .close .drainResidual),
    (⟨"process", "closeNow", "43ccd617"⟩, .closeProc),
    (⟨"readFromListener", "idAlloc", "97ae9b42"⟩, .prim "acceptFresh: id allocation"),
    (⟨"readFromListener", "gaugeInc", "97ae9b42"⟩, .prim "acceptFresh: gauge"),
    (⟨"readFromListener", "acceptCb", "82bddb7e"⟩, .prim "acceptFresh: accept callback"),
    (⟨"readFromListener", "dataCb", "ca9b79c8"⟩, .prim "dataCb"),
    (⟨"connectDo", "closeCb", "ac74439f"⟩, .close .uResolveFail),
    (⟨"connectDo", "closeCb", "4d0cff4a"⟩, .close .uNoSocket),
    (⟨"connectDo", "pendingClear", "46c86777"⟩, .prim "connectNow: created with connectPending = false"),
    (⟨"connectDo", "gaugeInc", "46c86777"⟩, .prim "connectNow: gauge"),
    (⟨"connectDo", "connectCb", "a3069416"⟩, .prim "connectNow: connect callback"),
    (⟨"viaDo", "closeCb", "6cbdedb4"⟩, .close .vNoListener),
    (⟨"viaDo", "closeCb", "c4d16601"⟩, .close .vAfUnknown),
    (⟨"viaDo", "closeCb", "c22a8bfa"⟩, .close .vResolveFail),
    (⟨"viaDo", "closeCb", "f2859527"⟩, .close .vAfMismatch),
    (⟨"viaDo", "closeCb", "11b10a75"⟩, .close .vKeyFail),
    (⟨"viaDo", "closeCb", "5e9362a5"⟩, .close .vCap),
    (⟨"viaDo", "pendingClear", "884ee47e"⟩, .prim "connectNow: created with connectPending = false"),
    (⟨"viaDo", "gaugeInc", "884ee47e"⟩, .prim "connectNow: gauge"),
    (⟨"viaDo", "connectCb", "494c3a95"⟩, .prim "connectNow: connect callback"),
    (⟨"onClient", "dataCb", "5f9fce6c"⟩, .prim "dataCb"),
    (⟨"onClient", "dataCb", "4342727a"⟩, .prim "dataCb (empty datagram)"),
    (⟨"onClient", "closeNow", "d8fb10d8"⟩, .close .ucRecvErr),
    (⟨"writeClient", "closeNow", "9f3bcdb7"⟩, .close .ucWriteErr),
    (⟨"sendDo", "closeNow", "d9c13387"⟩, .close .usBackpressure),
    (⟨"sendDo", "closeNow", "0b3f135f"⟩, .close .usSendErr),
    (⟨"sendDo", "closeNow", "a05e848b"⟩, .close .usListenerGone),
    (⟨"sendDo", "closeNow", "c4f065e9"⟩, .close .usLstBackpressure),
    (⟨"sendDo", "closeNow", "027d2fb2"⟩, .close .usPeerSendErr),
    (⟨"closeNow", "closedTrue", "73045f30"⟩, .prim "closeNow: closed flag"),
    (⟨"closeNow", "gaugeDec", "73045f30"⟩, .prim "closeNow: gauge"),
    (⟨"closeNow", "closeCb", "9b757aab"⟩, .prim "closeNow: close callback"),
    (⟨"runGc", "closeNow", "60ca6198"⟩, .close .gc)]

/-- the close sites of each engine's model, from the table -/
def closeRoles (t : List (GSite × Role)) : List Site := t.filterMap fun p => match p.2 with | .close s => some s | _ => none

/-! ## expected call skeletons (the shape of the functions the harness re-plays step by step) -/
def loopUnbatched : List String := ["whileRunning", "epoll_wait", "drainEvt", "process", "drainTim", "runGc", "handleFdEvent", "shutdownDrain"]
def loopBatched : List String := ["whileRunning", "batch", "handleFdEvent", "drainEvt", "process", "drainTim", "runGc", "shutdownDrain"]
def handleFdEvent : List String := ["tagFind", "notFoundReturn", "onListener", "onSession"]
def tcpProcess : List String := ["swap", "caseShutdown", "runningFalse", "caseAddListener", "caseConnect", "doConnect", "caseSend", "doSend", "caseClose", "find", "closeNow"]
def udpProcess : List String := ["swap", "caseShutdown", "runningFalse", "caseAddListener", "caseConnect", "doConnect", "caseVia", "viaDo", "caseSend", "doSend", "caseClose", "find", "closeNow"]
def shutdownDrain : List String := ["process", "forToClose", "skipClosed", "closedTrue", "gaugeDec", "closeCb", "sessionsClear", "queueClosed", "residualSwap", "forResidual", "promiseFail", "closeCb"]
def tcpConnect : List String := ["idAlloc", "enqueue", "retErr", "retOk"]
def udpConnect : List String := ["retErr", "idAlloc", "enqueue", "retErr", "retOk"]
def udpConnectVia : List String := ["idAlloc", "enqueue", "retErr", "retOk"]
def tcpEnqueue : List String := ["lock", "closedCheck", "retFalse", "push", "retTrue", "retFalse"]
def udpEnqueue : List String := ["lock", "closedCheck", "retFalse", "push", "retTrue"]
/-- a connecting socket is registered for EPOLLIN|EPOLLOUT, and updateInterest keeps EPOLLOUT while `connectPending` (outside the TLS
handshake): the completion of the connect is always reported - what the environment contract of T3 rests on -/
def tcpConnectEpollMask : List String := ["EPOLLIN", "EPOLLOUT"]
def tcpUpdateInterest : List String := ["base", "ifHandshake", "orTlsWantWrite", "else", "orConnectPending", "ifNeedWrite", "outBit", "modEpoll"]
/-- order (and locks) of Transport::Impl's close handler: connectSync suppression, THEN the syncMutex block that marks the session
closed (closed flag / tombstone, readModes.erase - `Deliver.closeMark`; repair FC03c moved it in front of all user code), global
callback, observers (copy, erase, iterate) (`Deliver.closeCbs` / `Fanout.closeFan`), user data -/
def fanout : List String := ["lockSync", "pendingFind", "pendingErase", "suppressReturn", "lockSync", "tombstone", "lockCallback", "copyGlobal", "callGlobal", "lockObserver", "observersFind", "observersCopy", "obsIndexErase", "observersErase", "forObservers", "callObserver", "lockUserData", "dataFind", "dataErase", "cleanupGuard", "callCleanup"]
def observe : List String := ["idAlloc", "lockObserver", "append", "index"]
def unobserve : List String := ["lockObserver", "indexFind", "retFalse", "indexErase", "removeIf", "eraseEmpty", "retTrue"]
def setSessionData : List String := ["lockUserData", "assign"]

/-- TcpEngine::close / UdpEngine::close are ONE statement: the enqueue of a Close command for that id (`stepShared (.apiClose sid)` =
`apiPlain (.close sid .app)`): an accepted request is queued FIFO behind everything queued before it, whatever the session table says
(seed C04-d answers `true` without queueing for an id that is not registered yet) -/
def tcpClose : List String := ["0:returnenqueue(Command::close(sid));"]
def udpClose : List String := ["0:returnenqueue(Cmd::close(sid));"]
/-- `CloseOrigin` enumerator of an `Origin` -/
def originName : Origin → String
  | .app => "App" | .connectTimeout => "ConnectTimeout" | .handshakeTimeout => "HandshakeTimeout" | .writeStall => "WriteStall"
/-- the three handlers the TimerService thread runs are exactly `enqueue(Command::close(sid, err, msg, origin))` - the model's
`In.timer sid o` = `apiPlain (.close sid o)`: no callback, no table access on that thread (seed C05-d folds them into a helper that
calls err()) -/
def tcpTimerHandlers : List (String × String × String) :=
  [("handleConnectTimeout", originName .connectTimeout, "Timeout"), ("handleHandshakeTimeout", originName .handshakeTimeout, "TLSHandshake"),
   ("handleWriteStallTimeout", originName .writeStall, "Timeout")]
/-- start() as `apiStart` mirrors it: the `_running` CAS (a running engine refuses), fresh epoll/eventfd/timerfd, the command queue
is re-opened - on tcp since repair FC05c in ONE `_cmdMutex` section together with the publication of the fresh `_eventFd` (until then
the queue stays closed: a stale timer close of the previous run is refused) -, a new I/O thread; the session maps and the id counter are NOT touched (no token `mapsTouched` / `idCounter`) -/
def tcpStart : List String := ["runningCas", "retAlreadyRunning", "initTls", "epollCreate", "eventfd", "lockCmd", "publishEventFd", "queueOpen", "timerfd", "ioThread", "retOk"]
def udpStart : List String := ["runningCas", "retAlreadyRunning", "queueOpen", "epollCreate", "eventfd", "timerfd", "ioThread", "retOk"]

/-- the syncMutex block of the Transport close handler ("step 6" before repair FC03c, step 2 since) as `Model/CloseDeliver.lean`
(`closeMark` = `markClosed`, `eraseMode`, `sweep`) mirrors it: under
syncMutex, close the buffer (and wake its waiters) or insert a closed tombstone; erase the read mode UNCONDITIONALLY (depth 0);
sweep every other closed, drained, unparked, unflushed entry once the map is over the threshold -/
def closeStep6 : List String := [
  "0:std::lock_guard<std::mutex>lk(syncMutex);",
  "0:autobufIt=receiveBuffers.find(sid);",
  "0:if(bufIt!=receiveBuffers.end())",
  "1:bufIt->second->closed=true;",
  "1:bufIt->second->cv.notify_all();",
  "0:else",
  "1:autotomb=std::make_shared<SyncReceiveBuffer>();",
  "1:tomb->closed=true;",
  "1:receiveBuffers[sid]=tomb;",
  "0:readModes.erase(sid);",
  "0:conststd::size_tgcThreshold=config.syncBufferGcThreshold;",
  "0:if(receiveBuffers.size()>gcThreshold)",
  "1:for(autoit=receiveBuffers.begin();it!=receiveBuffers.end();)",
  "2:if(it->first!=sid&&it->second->closed&&!it->second->hasData&&it->second->waiters==0&&!it->second->flushing&&(!it->second->overflow||it->second->overflowReported))",
  "3:it=receiveBuffers.erase(it);",
  "2:else",
  "3:++it;"]

/-- Transport::setReadMode up to the end of its first syncMutex section as `Deliver.setMode` mirrors it: I/O-thread refusal,
`allowReadModeSwitch`, then under the lock the tombstone guard of repair FC02a (vacuous success) BEFORE readModes is read or written, the old mode
(absent = Async), and the non-flush transitions (register the mode, create the buffer for Sync) -/
def setReadModeEntry : List String := [
  "0:if(std::this_thread::get_id()==_impl->engine->getIoThreadId())",
  "1:throwstd::logic_error(\"\"\"\");",
  "0:if(!_impl->config.allowReadModeSwitch)",
  "1:returnfalse;",
  "0:ReadModeoldMode=ReadMode::Async;",
  "0:{",
  "1:std::lock_guard<std::mutex>lk(_impl->syncMutex);",
  "1:autoclosedIt=_impl->receiveBuffers.find(sid);",
  "1:if(closedIt!=_impl->receiveBuffers.end()&&closedIt->second->closed)",
  "2:returntrue;",
  "1:autoit=_impl->readModes.find(sid);",
  "1:if(it!=_impl->readModes.end())",
  "2:oldMode=it->second;",
  "1:if(!(oldMode!=ReadMode::Async&&mode==ReadMode::Async))",
  "2:_impl->readModes[sid]=mode;",
  "2:if(mode==ReadMode::Sync)",
  "3:if(_impl->receiveBuffers.find(sid)==_impl->receiveBuffers.end())",
  "4:_impl->receiveBuffers[sid]=std::make_shared<Impl::SyncReceiveBuffer>();",
  "2:returntrue;"]

end Iora.Lifecycle.Sites
