import IoraModel.Model.ConnectSyncFacts
/-!
# Model of `Transport::connectSync` / `ITransport::connectSyncCancellable` (C04)

Mirrors `include/iora/network/transport_impl.hpp`: the caller program of `Transport::connectSync` (lock → entry fence →
`engine->connect` (enqueue only, `detail/engine_base.hpp` contract) → register in `pendingConnects` → `ParkGuard` → `wait_for`
→ three exits; the timeout exit = unlock, `engine->close(sid)`, relock), the I/O-thread `onConnect` / `onClose` handlers of
`Transport::Impl::setupEngineCallbacks`, `Impl::setTeardownFence`, and the sub-timeout loop of
`ITransport::connectSyncCancellable`.  The engine is the abstract FIFO the contract describes: commands are processed in
order (Connect before Close), a started connect later completes, fails or stays pending — environment choices.

`syncMutex` is explicit (`lock`): a caller holds it across several steps (from its entry section until it parks), handler
critical sections and the fence are atomic steps that are only enabled while it is free.  `wait_for` is park /
wake-and-reacquire; a timeout is a scheduler choice (`cWake c true`).  Modelled as REPAIRED (fixes/F16-…): every exit of
`connectSync` that does not return the handler's result marks the pending record `abandoned`, and the `onConnect` handler
leaves an abandoned record in place.

Every step appends what it did to `log`; the theorems are statements about `log` for ALL step sequences.
-/
namespace Iora.ConnectSync

/-- `timeout` = connectSync's OWN timeout exit; `closed` = the error the engine's onClose delivered to the waiter (its reason class —
refused, unresolved, engine-side connect timeout, TLS failure, … — is carried per session by `ConnectSyncX.reason`);
`refused` = `engine->connect` itself returned an error (e.g. the queue is closed) -/
inductive Err | timeout | shuttingDown | cancelled | closed | refused
  deriving DecidableEq, Repr

inductive Res | ok (sid : Nat) | err (e : Err)
  deriving DecidableEq, Repr

/-- program counter of an application thread inside connectSync (or between sub-attempts of the cancellable wrapper) -/
inductive Pc
  | idle
  | start                              -- connectSync entered, `syncMutex` not yet acquired
  | haveLock                           -- lock held, fence passed, about to call `engine->connect`
  | connected (sid : Nat)              -- `engine->connect` returned `sid` (command enqueued), not yet registered
  | registered (sid : Nat)             -- `pendingConnects[sid] = op`, ParkGuard constructed, about to wait
  | parked (sid : Nat) (awake : Bool)  -- asleep in `op->cv.wait_for` (lock released)
  | closing (sid : Nat)                -- timeout exit: lock released, about to call `engine->close(sid)`
  | relock (sid : Nat)                 -- `engine->close(sid)` issued, about to re-acquire the lock
  | wloop                              -- cancellable wrapper: a sub-attempt timed out, loop condition not yet evaluated
  | finished
  deriving DecidableEq, Repr

structure Caller where
  pc : Pc := .idle
  done : Option Res := none            -- `op->done` / `op->result` of the current attempt
  wrapped : Bool := false              -- inside connectSyncCancellable
  cancelled : Bool := false            -- the CancellationToken
  deriving Repr

inductive Cmd | connect (sid : Nat) | close (sid : Nat)
  deriving DecidableEq, Repr

/-- the engine's view of a session id -/
inductive ES | none | connecting | established | closed
  deriving DecidableEq, Repr

/-- program counter of the I/O thread inside one of the Transport's handlers -/
inductive IoPc
  | idle
  | connCS (sid : Nat)        -- onConnect fired, `syncMutex` section not yet run
  | connNotify (c sid : Nat)  -- waiter completed under the lock; `op->cv.notify_one()` pending (outside the lock)
  | connGlobal (sid : Nat)    -- no pending record: global onConnect callback pending
  | closeCS (sid : Nat)
  | closeNotify (c sid : Nat)
  | closeGlobal (sid : Nat)
  deriving DecidableEq, Repr

/-- `pendingConnects` entry -/
structure Pend where
  owner : Nat
  abandoned : Bool := false
  deriving DecidableEq, Repr

inductive Ev
  | created (c sid : Nat)                    -- `engine->connect` returned `sid` to caller `c`
  | registered (c sid : Nat)
  | engineClose (c sid : Nat)                -- caller `c` issued `engine->close(sid)` (timeout exit)
  | hConnect (sid : Nat)                     -- the onConnect handler's critical section ran
  | hClose (sid : Nat)
  | delivered (sid : Nat) (ok : Bool)        -- a handler completed the waiter of `sid` (ok = by onConnect)
  | reaped (sid : Nat)                       -- onClose erased an abandoned record (its op object is dead; global close suppressed)
  | globalConnect (sid : Nat)
  | globalClose (sid : Nat)
  | attemptRet (c : Nat) (sid : Option Nat) (r : Res)   -- one connectSync call returned
  | wrapRet (c : Nat) (r : Res)              -- connectSyncCancellable returned
  | fenceSet
  deriving DecidableEq, Repr

structure State where
  callers : Nat → Caller := fun _ => {}
  lock : Option Nat := none            -- caller holding `syncMutex` across steps
  pend : Nat → Option Pend := fun _ => none
  activeConnects : Nat := 0
  shuttingDown : Bool := false
  nextSid : Nat := 1
  fifo : List Cmd := []
  eng : Nat → ES := fun _ => .none
  io : IoPc := .idle
  log : List Ev := []

inductive Step
  | call (c : Nat) (wrapped : Bool)
  | cancel (c : Nat)
  | cEnter (c : Nat)
  | cConnect (c : Nat)
  | cRefuse (c : Nat)                  -- `engine->connect` returns an error synchronously (no id, nothing enqueued)
  | cRegister (c : Nat)
  | cPark (c : Nat)
  | cWake (c : Nat) (timedOut : Bool)
  | cClose (c : Nat)
  | cRelock (c : Nat)
  | wLoop (c : Nat) (deadlinePassed : Bool)
  | ioPop (succeeds : Bool)            -- the I/O thread processes the head command (a Connect starts, or fails at once)
  | ioComplete (sid : Nat)             -- handshake of a connecting session completed
  | ioFail (sid : Nat)                 -- a connecting session failed (refused, reset, TLS failure, …)
  | ioPeerClose (sid : Nat)            -- an established session was closed by the peer
  | timerClose (sid : Nat)             -- the I/O thread processes the Close the engine's CONNECT-TIMEOUT timer enqueued for `sid`
  | ioStep                             -- the I/O thread advances inside the current handler
  | fence                              -- `setTeardownFence` / first half of `teardownWaitOut`
  deriving Repr

def setC (f : Nat → Caller) (c : Nat) (x : Caller) : Nat → Caller := fun j => if j = c then x else f j
def setP (f : Nat → Option Pend) (sid : Nat) (p : Option Pend) : Nat → Option Pend := fun j => if j = sid then p else f j
def setE (f : Nat → ES) (sid : Nat) (e : ES) : Nat → ES := fun j => if j = sid then e else f j

/-- where a connectSync call that returns `r` leaves its thread: a plain call is over; under the cancellable wrapper only a
Timeout goes back to the loop condition -/
def retPc (wrapped : Bool) (r : Res) : Pc := if wrapped && r == .err .timeout then .wloop else .finished

def retEvs (c : Nat) (sid : Option Nat) (wrapped : Bool) (r : Res) : List Ev :=
  if wrapped && r != .err .timeout then [.attemptRet c sid r, .wrapRet c r] else [.attemptRet c sid r]

/-- a connectSync call of caller `c` returns `r` (attempt id `sid`) -/
def ret (s : State) (c : Nat) (sid : Option Nat) (r : Res) : State :=
  { s with callers := setC s.callers c { s.callers c with pc := retPc (s.callers c).wrapped r, done := none },
           log := s.log ++ retEvs c sid (s.callers c).wrapped r }

/-- `op->cv.notify_one()` for the op of attempt `sid`: wakes caller `c` only if it is asleep on that very op -/
def notify (s : State) (c sid : Nat) : State :=
  match (s.callers c).pc with
  | .parked sid' _ =>
    if sid' = sid then { s with callers := setC s.callers c { s.callers c with pc := .parked sid' true } } else s
  | _ => s

/-- `for (auto &kv : pendingConnects) kv.second->cv.notify_all()` -/
def notifyPending (s : State) : Nat → Caller := fun j =>
  match (s.callers j).pc with
  | .parked sid _ =>
    (match s.pend sid with
     | some p => if p.owner = j then { s.callers j with pc := .parked sid true } else s.callers j
     | none => s.callers j)
  | _ => s.callers j

/-- mirrors transport_impl.hpp::Transport::Impl::setupEngineCallbacks — the `onConnect` handler -/
def connHandler (s : State) (sid : Nat) : State :=
  match s.pend sid with
  | some p =>
    if p.abandoned then { s with io := .idle, log := s.log ++ [.hConnect sid] }
    else
      { s with pend := setP s.pend sid none,
               callers := setC s.callers p.owner { s.callers p.owner with done := some (.ok sid) },
               io := .connNotify p.owner sid, log := s.log ++ [.hConnect sid, .delivered sid true] }
  | none => { s with io := .connGlobal sid, log := s.log ++ [.hConnect sid] }

/-- mirrors transport_impl.hpp::Transport::Impl::setupEngineCallbacks — the `onClose` handler, step 1 -/
def closeHandler (s : State) (sid : Nat) : State :=
  match s.pend sid with
  | some p =>
    if p.abandoned then
      -- the record's op object is no longer looked at by anybody: completing it has no effect; the global close is suppressed
      { s with pend := setP s.pend sid none, io := .closeNotify p.owner sid, log := s.log ++ [.hClose sid, .reaped sid] }
    else
      { s with pend := setP s.pend sid none,
               callers := setC s.callers p.owner { s.callers p.owner with done := some (.err .closed) },
               io := .closeNotify p.owner sid, log := s.log ++ [.hClose sid, .delivered sid false] }
  | none => { s with io := .closeGlobal sid, log := s.log ++ [.hClose sid] }

/-- mirrors transport_impl.hpp::Transport::connectSync — everything after `wait_for` returned with the lock re-acquired -/
def afterWait (s : State) (c sid : Nat) : State :=
  let x := s.callers c
  match x.done with
  | some r => ret { s with activeConnects := s.activeConnects - 1 } c (some sid) r
  | none =>
    let pend' := match s.pend sid with
      | some p => setP s.pend sid (some { p with abandoned := true })
      | none => s.pend
    if s.shuttingDown then
      ret { s with pend := pend', activeConnects := s.activeConnects - 1 } c (some sid) (.err .shuttingDown)
    else
      { s with pend := pend', callers := setC s.callers c { x with pc := .closing sid } }

def doCall (s : State) (c : Nat) (wrapped : Bool) : State :=
  let x := s.callers c
  match x.pc with
  | .idle | .finished =>
    if wrapped && x.cancelled then
      { s with callers := setC s.callers c { x with pc := .finished, wrapped := true },
               log := s.log ++ [.wrapRet c (.err .cancelled)] }
    else { s with callers := setC s.callers c { x with pc := .start, wrapped := wrapped, done := none } }
  | _ => s

def doCancel (s : State) (c : Nat) : State :=
  { s with callers := setC s.callers c { s.callers c with cancelled := true } }

def doEnter (s : State) (c : Nat) : State :=
  match (s.callers c).pc, s.lock with
  | .start, none =>
    if s.shuttingDown then ret s c none (.err .shuttingDown)
    else { s with lock := some c, callers := setC s.callers c { s.callers c with pc := .haveLock } }
  | _, _ => s

def doConnect (s : State) (c : Nat) : State :=
  match (s.callers c).pc with
  | .haveLock =>
    { s with nextSid := s.nextSid + 1, fifo := s.fifo ++ [.connect s.nextSid],
             callers := setC s.callers c { s.callers c with pc := .connected s.nextSid },
             log := s.log ++ [.created c s.nextSid] }
  | _ => s

/-- mirrors transport_impl.hpp::Transport::connectSync — the `result.isErr()` branch: the engine's error is returned as is, the
lock is released by the `unique_lock` destructor, nothing was registered and the connect guard was never constructed -/
def doRefuse (s : State) (c : Nat) : State :=
  match (s.callers c).pc with
  | .haveLock => ret { s with lock := none } c none (.err .refused)
  | _ => s

def doRegister (s : State) (c : Nat) : State :=
  match (s.callers c).pc with
  | .connected sid =>
    { s with pend := setP s.pend sid (some { owner := c }), activeConnects := s.activeConnects + 1,
             callers := setC s.callers c { s.callers c with pc := .registered sid, done := none },
             log := s.log ++ [.registered c sid] }
  | _ => s

def doPark (s : State) (c : Nat) : State :=
  match (s.callers c).pc with
  | .registered sid =>
    { s with lock := none, callers := setC s.callers c { s.callers c with pc := .parked sid false } }
  | _ => s

def doWake (s : State) (c : Nat) (timedOut : Bool) : State :=
  match (s.callers c).pc, s.lock with
  | .parked sid _, none =>
    if (s.callers c).done.isSome || s.shuttingDown || timedOut then afterWait s c sid
    else { s with callers := setC s.callers c { s.callers c with pc := .parked sid false } }
  | _, _ => s

def doClose (s : State) (c : Nat) : State :=
  match (s.callers c).pc with
  | .closing sid =>
    { s with fifo := s.fifo ++ [.close sid], callers := setC s.callers c { s.callers c with pc := .relock sid },
             log := s.log ++ [.engineClose c sid] }
  | _ => s

def doRelock (s : State) (c : Nat) : State :=
  match (s.callers c).pc, s.lock with
  | .relock sid, none =>
    ret { s with activeConnects := s.activeConnects - 1 } c (some sid)
      (.err (if s.shuttingDown then .shuttingDown else .timeout))
  | _, _ => s

def doWLoop (s : State) (c : Nat) (deadlinePassed : Bool) : State :=
  let x := s.callers c
  match x.pc with
  | .wloop =>
    if deadlinePassed then
      { s with callers := setC s.callers c { x with pc := .finished }, log := s.log ++ [.wrapRet c (.err .timeout)] }
    else if x.cancelled then
      { s with callers := setC s.callers c { x with pc := .finished }, log := s.log ++ [.wrapRet c (.err .cancelled)] }
    else { s with callers := setC s.callers c { x with pc := .start, done := none } }
  | _ => s

def doPop (s : State) (succeeds : Bool) : State :=
  match s.io, s.fifo with
  | .idle, .connect sid :: rest =>
    (match s.eng sid with
     | .none =>
       if succeeds then { s with fifo := rest, eng := setE s.eng sid .connecting }
       else { s with fifo := rest, eng := setE s.eng sid .closed, io := .closeCS sid }
     | _ => { s with fifo := rest })     -- ids are never reused by the engine
  | .idle, .close sid :: rest =>
    (match s.eng sid with
     | .connecting | .established => { s with fifo := rest, eng := setE s.eng sid .closed, io := .closeCS sid }
     | _ => { s with fifo := rest })
  | _, _ => s

def doComplete (s : State) (sid : Nat) : State :=
  match s.io, s.eng sid with
  | .idle, .connecting => { s with eng := setE s.eng sid .established, io := .connCS sid }
  | _, _ => s

def doFail (s : State) (sid : Nat) : State :=
  match s.io, s.eng sid with
  | .idle, .connecting => { s with eng := setE s.eng sid .closed, io := .closeCS sid }
  | _, _ => s

def doPeerClose (s : State) (sid : Nat) : State :=
  match s.io, s.eng sid with
  | .idle, .established => { s with eng := setE s.eng sid .closed, io := .closeCS sid }
  | _, _ => s

def doIoStep (s : State)  : State :=
  match s.io, s.lock with
  | .connCS sid, none => connHandler s sid
  | .closeCS sid, none => closeHandler s sid
  | .connNotify c sid, _ => { notify s c sid with io := .idle }
  | .closeNotify c sid, _ => { notify s c sid with io := .idle }
  | .connGlobal sid, _ => { s with io := .idle, log := s.log ++ [.globalConnect sid] }
  | .closeGlobal sid, _ => { s with io := .idle, log := s.log ++ [.globalClose sid] }
  | _, _ => s

def doFence (s : State)  : State :=
  match s.lock with
  | none => { s with shuttingDown := true, callers := notifyPending s, log := s.log ++ [.fenceSet] }
  | some _ => s

def step (s : State) : Step → State
  | .call c wrapped => doCall s c wrapped
  | .cancel c => doCancel s c
  | .cEnter c => doEnter s c
  | .cConnect c => doConnect s c
  | .cRefuse c => doRefuse s c
  | .cRegister c => doRegister s c
  | .cPark c => doPark s c
  | .cWake c timedOut => doWake s c timedOut
  | .cClose c => doClose s c
  | .cRelock c => doRelock s c
  | .wLoop c deadlinePassed => doWLoop s c deadlinePassed
  | .ioPop succeeds => doPop s succeeds
  | .ioComplete sid => doComplete s sid
  | .ioFail sid => doFail s sid
  | .ioPeerClose sid => doPeerClose s sid
  -- mirrors tcp_engine.hpp::process(), Close arm, origin ConnectTimeout (`if (!s->connectPending) break;`): the close is executed
  -- only while the connect is still pending — exactly `doFail`; once the connect completed it is a stale timer and ignored
  | .timerClose sid => doFail s sid
  | .ioStep  => doIoStep s 
  | .fence  => doFence s 

def run (s : State) : List Step → State
  | [] => s
  | st :: rest => run (step s st) rest

def init : State := {}

/-! ## instantiation from the regenerated skeleton (DESIGN §2.1, §6.3)

`step` above is the model of the code AS THE SKELETON FACTS DESCRIBE IT.  `stepC cfg` is what runs (driver) and what the
theorems of `Props/C04.lean` quantify over: where a fact does not hold of the working tree it takes the corresponding
*other* behaviour (lock released between `engine->connect` and the registration; no `abandoned` mark / no `engine->close` in
the window; an `onConnect` handler that erases an abandoned record), for which the theorems are NOT claimed — they carry the
hypothesis `cfg.Good`, discharged for `genCfg` by `decide` (`Props/C04.skeleton_conforms`). -/

structure Cfg where
  /-- `syncMutex` is held from before `engine->connect` through registration and guard into `wait_for` -/
  lockHeld : Bool
  /-- after the wait: `abandoned` is set under the lock, then exactly one unlock window containing only `engine->close` -/
  closeWindow : Bool
  /-- both handlers complete the waiter under the lock and notify outside; `onConnect` checks `abandoned` before erasing -/
  handlers : Bool
  /-- `wait_for` waits for the caller's timeout; the cancellable wrapper's sub-interval, deadline and sub-timeouts are the
  documented expressions (the "in time" tie: durations themselves are not modelled, a timeout is a scheduler choice); the wrapper
  looks at a sub-attempt's RESULT before the token (`wrapperOrderExact`; otherwise `doWakeTokenFirst` runs) -/
  timing : Bool
  /-- the requested host/port/TLS mode are passed to `engine->connect` unchanged and an engine error is returned as is -/
  args : Bool
  /-- the engine side of the EngineBase contract, regenerated from tcp_engine.hpp / udp_engine.hpp (`ConnectSyncFacts.genEngine`):
  `close()` and `connect()` of both engines only enqueue, the Close arm of `process()` closes what it finds -/
  engine : Bool
  /-- `connectSync` has no protocol-dependent bypass that returns `engine->connect(...)` directly (repair FC04b) -/
  noBypass : Bool

def Cfg.Good (cfg : Cfg) : Prop :=
  cfg.lockHeld = true ∧ cfg.closeWindow = true ∧ cfg.handlers = true ∧ cfg.timing = true ∧ cfg.args = true ∧
  cfg.engine = true ∧ cfg.noBypass = true

/-- every flag is computed from regenerated source facts: the order predicates of `Model/TsyncFacts.lean` AND the exact-equality
pins of `Model/ConnectSyncFacts.lean` (second review, item C) -/
def genCfg : Cfg :=
  { lockHeld := TsyncFacts.connectLockHeld && ConnectSyncFacts.connectHeadExact,
    closeWindow := TsyncFacts.connectCloseWindow && ConnectSyncFacts.connectTailExact,
    handlers := TsyncFacts.handlersCompleteUnderLock && ConnectSyncFacts.onConnectPendingExact &&
                ConnectSyncFacts.onClosePendingExact,
    timing := TsyncFacts.connectTimingArgs && ConnectSyncFacts.timeoutOnlyClamped && ConnectSyncFacts.wrapperOrderExact,
    args := ConnectSyncFacts.connectPassesArgsR,
    engine := ConnectSyncFacts.genEngine.holds,
    noBypass := ConnectSyncFacts.noProtocolBypass }

/-- the timeout exit WITHOUT the `abandoned` mark (the tree before fix F16) -/
def afterWaitU (s : State) (c sid : Nat) : State :=
  match (s.callers c).done with
  | some r => ret { s with activeConnects := s.activeConnects - 1 } c (some sid) r
  | none =>
    if s.shuttingDown then ret { s with activeConnects := s.activeConnects - 1 } c (some sid) (.err .shuttingDown)
    else { s with callers := setC s.callers c { s.callers c with pc := .closing sid } }

/-- an `onConnect` handler that does not look at `abandoned` (the tree before fix F16) -/
def connHandlerU (s : State) (sid : Nat) : State :=
  match s.pend sid with
  | some p =>
    { s with pend := setP s.pend sid none,
             callers := setC s.callers p.owner { s.callers p.owner with done := some (.ok sid) },
             io := .connNotify p.owner sid, log := s.log ++ [.hConnect sid, .delivered sid true] }
  | none => { s with io := .connGlobal sid, log := s.log ++ [.hConnect sid] }

/-- `engine->close(sid)` of an engine that does NOT honour the contract: it returns `true` without queueing a Close when `sid`
is not in its session table — which is also the case while the Connect of `sid` is still queued (seed C04-d) -/
def doCloseDrop (s : State) (c : Nat) : State :=
  match (s.callers c).pc with
  | .closing sid =>
    if s.eng sid == .none || s.eng sid == .closed then
      { s with callers := setC s.callers c { s.callers c with pc := .relock sid }, log := s.log ++ [.engineClose c sid] }
    else doClose s c
  | _ => s

/-- the protocol bypass of the tree before repair FC04b (`if (protocol == UDP) return engine->connect(host, port, tls);`):
no lock, no fence check, no registration — the engine's `ok sid` is handed out at once -/
def doEnterBypass (s : State) (c : Nat) : State :=
  match (s.callers c).pc with
  | .start =>
    let sid := s.nextSid
    ret { s with nextSid := sid + 1, fifo := s.fifo ++ [.connect sid], log := s.log ++ [.created c sid] } c (some sid) (.ok sid)
  | _ => s

/-- a cancellable wrapper that looks at the TOKEN before it looks at the sub-attempt's result (the statement order pinned by
`ConnectSyncFacts.wrapperOrderExact`, part of `Cfg.timing`, is result first; seed C04-b swapped it): a sub-attempt that returns
`ok sid` to a wrapper whose token is cancelled is reported as Cancelled — and nobody closes `sid` -/
def doWakeTokenFirst (s : State) (c : Nat) (t : Bool) : State :=
  let s' := doWake s c t
  match (s.callers c).pc, (s.callers c).done, s.lock with
  | .parked sid _, some (.ok sid'), none =>
    if (s.callers c).wrapped && (s.callers c).cancelled then
      { s' with log := s.log ++ [.attemptRet c (some sid) (.ok sid'), .wrapRet c (.err .cancelled)] }
    else s'
  | _, _, _ => s'

/-- the Close of a timer handler that does NOT tag its origin (seed C04-e: `handleConnectTimeout` enqueues a plain close, origin
App): `process()` executes it like an application close, whatever the state of the connect -/
def doTimerCloseUntagged (s : State) (sid : Nat) : State :=
  match s.io, s.eng sid with
  | .idle, .connecting | .idle, .established => { s with eng := setE s.eng sid .closed, io := .closeCS sid }
  | _, _ => s

def stepC (cfg : Cfg) (s : State) : Step → State
  | .timerClose sid => if cfg.engine then doFail s sid else doTimerCloseUntagged s sid
  | .cEnter c => if cfg.noBypass then doEnter s c else doEnterBypass s c
  | .cClose c => if cfg.engine then doClose s c else doCloseDrop s c
  | .cConnect c => if cfg.lockHeld then doConnect s c else { doConnect s c with lock := none }
  | .cWake c t =>
    if cfg.closeWindow then (if cfg.timing then doWake s c t else doWakeTokenFirst s c t)
    else
      (match (s.callers c).pc, s.lock with
       | .parked sid _, none =>
         if (s.callers c).done.isSome || s.shuttingDown || t then afterWaitU s c sid
         else { s with callers := setC s.callers c { s.callers c with pc := .parked sid false } }
       | _, _ => s)
  | .ioStep =>
    if cfg.handlers then doIoStep s
    else (match s.io, s.lock with | .connCS sid, none => connHandlerU s sid | _, _ => doIoStep s)
  | st => step s st

def runC (cfg : Cfg) (s : State) : List Step → State
  | [] => s
  | st :: rest => runC cfg (stepC cfg s st) rest

theorem stepC_good {cfg : Cfg} (hg : cfg.Good) (s : State) (st : Step) : stepC cfg s st = step s st := by
  obtain ⟨h1, h2, h3, h4, _, h6, h7⟩ := hg
  cases st <;> simp [stepC, step, h1, h2, h3, h4, h6, h7]

theorem runC_good {cfg : Cfg} (hg : cfg.Good) : ∀ (steps : List Step) (s : State), runC cfg s steps = run s steps := by
  intro steps
  induction steps with
  | nil => intro s; rfl
  | cons st rest ih => intro s; simp only [runC, run, stepC_good hg, ih]

/-- is the step enabled (does the thread it belongs to stand at this instruction, and is the mutex available if it needs it)?
A step that is not enabled is a stutter of `step`; the acceptor answers `disabled` for it instead of silently accepting. -/
def enabled (s : State) : Step → Bool
  | .call c _ => (s.callers c).pc == .idle || (s.callers c).pc == .finished
  | .cancel _ => true
  | .cEnter c => (s.callers c).pc == .start && s.lock.isNone
  | .cConnect c | .cRefuse c => (s.callers c).pc == .haveLock
  | .cRegister c => (match (s.callers c).pc with | .connected _ => true | _ => false)
  | .cPark c => (match (s.callers c).pc with | .registered _ => true | _ => false)
  | .cWake c _ => (match (s.callers c).pc with | .parked _ _ => s.lock.isNone | _ => false)
  | .cClose c => (match (s.callers c).pc with | .closing _ => true | _ => false)
  | .cRelock c => (match (s.callers c).pc with | .relock _ => s.lock.isNone | _ => false)
  | .wLoop c _ => (s.callers c).pc == .wloop
  | .ioPop _ => s.io == .idle && !s.fifo.isEmpty
  | .ioComplete sid => s.io == .idle && s.eng sid == .connecting
  | .ioFail sid => s.io == .idle && s.eng sid == .connecting
  | .ioPeerClose sid => s.io == .idle && s.eng sid == .established
  | .timerClose _ => s.io == .idle        -- a stale timer close is processed too (and ignored)
  | .ioStep => (match s.io with | .idle => false | .connCS _ | .closeCS _ => s.lock.isNone | _ => true)
  | .fence => s.lock.isNone

end Iora.ConnectSync
