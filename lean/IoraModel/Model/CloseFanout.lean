/-!
# Transport-level close fan-out (C02, T5)

Mirror of `include/iora/network/transport_impl.hpp`: the `cbs.onClose` handler installed by `setupEngineCallbacks`
(global close callback first, then a COPY of the session's observer list in registration order, then the user-data
cleanup), and of `Transport::observe`, `Transport::unobserve`, `Transport::setSessionData`, `Transport::getSessionData`.

User callbacks may re-enter the API; what a callback does is an input: `inside` holds one-shot actions keyed by the
callback they run in.
-/
namespace Iora.Fanout

abbrev Sid := Nat
abbrev Obs := Nat

/-- API calls a callback (or the application) can make -/
inductive Act
  | observe (sid : Sid)
  | unobserve (o : Obs)
  | setData (sid : Sid) (tag : Nat) (cleanup : Bool)     -- tag 0 = null data pointer
  deriving DecidableEq, Repr

/-- where a nested action runs -/
inductive Where
  | global | obs (o : Obs) | cleanup (tag : Nat)
  deriving DecidableEq, Repr

inductive Out
  | global (sid : Sid)
  | observer (sid : Sid) (o : Obs)
  | cleanup (sid : Sid) (tag : Nat)
  | unobserved (o : Obs) (ok : Bool)       -- return value of unobserve
  deriving DecidableEq, Repr

structure F where
  hasGlobal : Bool := false
  observers : Sid → List Obs := fun _ => []         -- `observers[sid]` (vector of (id, cb)), registration order
  obsIndex : Obs → Option Sid := fun _ => none      -- `observerToSession`
  nextObs : Obs := 1                                 -- `nextObserverId`
  data : Sid → Option (Nat × Bool) := fun _ => none -- `sessionData[sid]` = (tag, has a cleanup function)
  inside : List (Where × Act) := []

def updL (f : Nat → List Obs) (k : Nat) (v : List Obs) : Nat → List Obs := fun x => if x = k then v else f x
def updO {β : Type} (f : Nat → Option β) (k : Nat) (v : Option β) : Nat → Option β := fun x => if x = k then v else f x

/-- mirrors Transport::observe -/
def observe (sid : Sid) (f : F) : F :=
  let id := f.nextObs
  { f with nextObs := id + 1, observers := updL f.observers sid (f.observers sid ++ [id]), obsIndex := updO f.obsIndex id (some sid) }

/-- mirrors Transport::unobserve -/
def unobserve (o : Obs) (f : F) : F × Bool :=
  match f.obsIndex o with
  | none => (f, false)
  | some sid =>
    ({ f with obsIndex := updO f.obsIndex o none, observers := updL f.observers sid ((f.observers sid).filter (· != o)) }, true)

/-- mirrors Transport::setSessionData (the previous entry is overwritten, its cleanup is NOT run) -/
def setData (sid : Sid) (tag : Nat) (cleanup : Bool) (f : F) : F :=
  { f with data := updO f.data sid (some (tag, cleanup)) }

def applyAct (a : Act) (f : F) : F × List Out :=
  match a with
  | .observe sid => (observe sid f, [])
  | .unobserve o => let (f, ok) := unobserve o f; (f, [.unobserved o ok])
  | .setData sid tag c => (setData sid tag c f, [])

def runActs : List Act → F → F × List Out
  | [], f => (f, [])
  | a :: r, f =>
    let (f, o1) := applyAct a f
    let (f, o2) := runActs r f
    (f, o1 ++ o2)

/-- the user callback at `w` runs the one-shot actions registered for it -/
def runInside (w : Where) (f : F) : F × List Out :=
  let mine := (f.inside.filter (·.1 = w)).map (·.2)
  runActs mine { f with inside := f.inside.filter (·.1 != w) }

/-- iterate over the COPY of the observer list (steps 3-5 of the handler) -/
def notify (sid : Sid) : List Obs → F → F × List Out
  | [], f => (f, [])
  | o :: r, f =>
    let (f, o1) := runInside (.obs o) f
    let (f, o2) := notify sid r f
    (f, .observer sid o :: o1 ++ o2)

def eraseIndex : List Obs → (Obs → Option Sid) → (Obs → Option Sid)
  | [], ix => ix
  | o :: r, ix => eraseIndex r (updO ix o none)

/-- step 2 of the handler: the global onClose callback first (it may re-enter the API) -/
def globalPart (sid : Sid) (f : F) : F × List Out :=
  if f.hasGlobal then
    let r := runInside .global f
    (r.1, Out.global sid :: r.2)
  else (f, [])

/-- steps 3-5: copy the observers, drop them from both maps, then call the copy -/
def observerPart (sid : Sid) (f : F) : F × List Out :=
  let snap := f.observers sid
  notify sid snap { f with observers := updL f.observers sid [], obsIndex := eraseIndex snap f.obsIndex }

/-- step 7: user data cleanup last (`if (ud.cleanup && ud.data)`); the entry is erased before the callback runs -/
def cleanupPart (sid : Sid) (f : F) : F × List Out :=
  match f.data sid with
  | none => (f, [])
  | some (tag, hasCleanup) =>
    let f := { f with data := updO f.data sid none }
    if hasCleanup ∧ tag ≠ 0 then
      let r := runInside (.cleanup tag) f
      (r.1, Out.cleanup sid tag :: r.2)
    else (f, [])

/-- mirrors the `cbs.onClose` lambda of Transport::Impl::setupEngineCallbacks (step 1, a close that answers a pending
connectSync is swallowed, is C04's `pendingConnects`; step 6, the receiveSync tombstone, is C03: neither is modelled here) -/
def closeFan (sid : Sid) (f : F) : F × List Out :=
  let g := globalPart sid f
  let n := observerPart sid g.1
  let c := cleanupPart sid n.1
  (c.1, g.2 ++ n.2 ++ c.2)

inductive Op
  | act (a : Act)
  | inside (w : Where) (a : Act)
  | close (sid : Sid)
  deriving Repr

def step (f : F) : Op → F × List Out
  | .act a => applyAct a f
  | .inside w a => ({ f with inside := f.inside ++ [(w, a)] }, [])
  | .close sid => closeFan sid f

end Iora.Fanout
