import IoraModel.Common.Bytes
/-
String/number/header-map vocabulary shared by the HTTP/1.1 framing models (C15):
`std::string::find`, OWS trimming, ASCII case folding, `std::from_chars`-style full-token numbers,
and the case-insensitive header map (`std::map<std::string,std::string,CaseInsensitiveCompare>`).
Core Lean only.
-/
namespace Iora.Http
open Iora

def CR : UInt8 := 13
def LF : UInt8 := 10
def crlf : Bytes := [13, 10]
def crlf2 : Bytes := [13, 10, 13, 10]

/-- ASCII bytes of a string literal (used for method names / header names in the model) -/
def ascii (s : String) : Bytes := s.toList.map (fun c => UInt8.ofNat c.toNat)

/-! ### `std::string::find` -/

/-- scan for the first position (counted from `i`) at which `pat` is a prefix -/
def findAux (pat : Bytes) : Bytes → Nat → Option Nat
  | [], _ => none
  | c :: cs, i => if pat.isPrefixOf (c :: cs) then some i else findAux pat cs (i + 1)

/-- mirrors `s.find(pat, pos)` for a NON-EMPTY `pat` (`none` = `npos`) -/
def find (pat s : Bytes) (pos : Nat) : Option Nat := findAux pat (s.drop pos) pos

theorem findAux_bounds (pat : Bytes) (hp : pat ≠ []) : ∀ (s : Bytes) (i k : Nat),
    findAux pat s i = some k → i ≤ k ∧ k + pat.length ≤ i + s.length := by
  intro s
  induction s with
  | nil => intro i k h; simp [findAux] at h
  | cons c cs ih =>
    intro i k h
    simp only [findAux] at h
    split at h
    · rename_i hpre
      cases h
      have := (List.isPrefixOf_iff_prefix.mp hpre).length_le
      exact ⟨Nat.le_refl _, by omega⟩
    · have := ih (i + 1) k h
      simp only [List.length_cons]
      omega

theorem find_bounds (pat s : Bytes) (hp : pat ≠ []) (pos k : Nat) (h : find pat s pos = some k) :
    pos ≤ k ∧ k + pat.length ≤ s.length := by
  unfold find at h
  have := findAux_bounds pat hp (s.drop pos) pos k h
  simp only [List.length_drop] at this
  have hk := this.2
  have : pat.length > 0 := List.length_pos_iff.mpr hp
  omega

/-! ### character classes, trimming, case folding -/

def isOWS (c : UInt8) : Bool := c == 32 || c == 9
def isDigit (c : UInt8) : Bool := decide (48 ≤ c.toNat ∧ c.toNat ≤ 57)

/-- mirrors `HttpClient::isHexDigit` -/
def isHexDigit (c : UInt8) : Bool :=
  decide ((48 ≤ c.toNat ∧ c.toNat ≤ 57) ∨ (97 ≤ c.toNat ∧ c.toNat ≤ 102) ∨ (65 ≤ c.toNat ∧ c.toNat ≤ 70))

/-- value of a digit in `base` (10 or 16), `none` if the byte is not a digit of that base -/
def digitVal (base : Nat) (c : UInt8) : Option Nat :=
  let n := c.toNat
  let v : Option Nat :=
    if 48 ≤ n ∧ n ≤ 57 then some (n - 48)
    else if 97 ≤ n ∧ n ≤ 102 then some (n - 87)
    else if 65 ≤ n ∧ n ≤ 70 then some (n - 55)
    else none
  match v with
  | some d => if d < base then some d else none
  | none => none

def trimLeft (s : Bytes) : Bytes := s.dropWhile isOWS
def trimRight (s : Bytes) : Bytes := (s.reverse.dropWhile isOWS).reverse
/-- OWS (`" \t"`) trimming at both ends, as every `find_first_not_of/find_last_not_of(" \t")` pair does -/
def trim (s : Bytes) : Bytes := trimRight (trimLeft s)

/-- mirrors `CaseInsensitiveCompare::asciiLower` -/
def asciiLower (c : UInt8) : UInt8 := if 65 ≤ c.toNat ∧ c.toNat ≤ 90 then c + 32 else c
def lower (s : Bytes) : Bytes := s.map asciiLower
/-- mirrors `HttpClient::ciEquals` / equivalence under `CaseInsensitiveCompare` -/
def ciEq (a b : Bytes) : Bool := lower a == lower b

/-- `needle` occurs somewhere in `s` (`s.find(needle) != npos`) -/
def contains (s needle : Bytes) : Bool := (find needle s 0).isSome

/-! ### full-token unsigned numbers (`std::from_chars` + `ptr == end`) -/

def parseDigits (base : Nat) : Bytes → Nat → Option Nat
  | [], acc => some acc
  | c :: cs, acc =>
    match digitVal base c with
    | none => none
    | some v => if acc * base + v < 2 ^ 64 then parseDigits base cs (acc * base + v) else none

/-- mirrors `parseFullUInt(b, e, base, out)`: the WHOLE token must be digits of `base`, non-empty, no sign,
no white space, value `< 2^64` (`std::errc::result_out_of_range` otherwise) -/
def parseFullUInt (base : Nat) (s : Bytes) : Option Nat :=
  if s.isEmpty then none else parseDigits base s 0

/-- what may follow the hex digits of a chunk-size line (before its CRLF): nothing, or optional BWS and a `;`-led chunk
extension; BWS directly before the CRLF is malformed (RFC 9112 §7.1.1) -/
def chunkExtOk (afterHex : Bytes) : Bool :=
  match afterHex.drop (afterHex.takeWhile isOWS).length with
  | c :: _ => c == 59
  | [] => (afterHex.takeWhile isOWS).isEmpty

/-! ### splitting -/

/-- split at every occurrence of the byte `sep` (separator removed); never returns `[]` -/
def splitOn (sep : UInt8) : Bytes → List Bytes
  | [] => [[]]
  | c :: rest =>
    if c = sep then [] :: splitOn sep rest
    else match splitOn sep rest with
      | [] => [[c]]
      | l :: ls => (c :: l) :: ls

/-- split at every CRLF (separators removed); never returns `[]` -/
def splitCRLF : Bytes → List Bytes
  | [] => [[]]
  | [c] => [[c]]
  | c :: d :: rest =>
    if c = 13 ∧ d = 10 then [] :: splitCRLF rest
    else match splitCRLF (d :: rest) with
      | [] => [[c]]
      | l :: ls => (c :: l) :: ls

/-- last non-empty OWS-trimmed element of a comma list (the final coding of a Transfer-Encoding value) -/
def lastToken : List Bytes → Bytes → Bytes
  | [], last => last
  | e :: es, last => lastToken es (if (trim e).isEmpty then last else trim e)

/-- position of the first byte satisfying `p` -/
def indexOf? (p : UInt8 → Bool) : Bytes → Option Nat
  | [] => none
  | c :: cs => if p c then some 0 else (indexOf? p cs).map (· + 1)

/-! ### the case-insensitive header map -/

abbrev Headers := List (Bytes × Bytes)

/-- mirrors `headers[name] = value` on a `std::map` ordered by `CaseInsensitiveCompare`: an equivalent key keeps its
first spelling and gets the new value -/
def hdrSet : Headers → Bytes → Bytes → Headers
  | [], k, v => [(k, v)]
  | (k', v') :: t, k, v => if ciEq k' k then (k', v) :: t else (k', v') :: hdrSet t k v

/-- mirrors `headers.find(name)` -/
def hdrFind : Headers → Bytes → Option Bytes
  | [], _ => none
  | (k', v') :: t, k => if ciEq k' k then some v' else hdrFind t k

/-- mirrors the store at the end of `parseHeaderBlock`'s field loop: a repeated `Connection` field line is combined with the
earlier value (`old ", " new`, RFC 9110 §5.3), every other field is `headers[name] = value` (last value wins) -/
def hdrAdd (h : Headers) (name value : Bytes) : Headers :=
  if ciEq name (ascii "Connection") then
    match hdrFind h name with
    | some old => hdrSet h name (old ++ ascii ", " ++ value)
    | none => hdrSet h name value
  else hdrSet h name value

end Iora.Http
