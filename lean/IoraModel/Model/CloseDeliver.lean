/-!
# Transport-level delivery around a close (C02, T3 at the Transport level)

Mirror of `include/iora/network/transport_impl.hpp`, the part of `Transport` that decides WHAT reaches the application's
accept / connect / data callbacks and WHEN, relative to the close handler:

* `cbs.onAccept`, `cbs.onConnect`, `cbs.onData` installed by `setupEngineCallbacks` (the read mode decides: Async -> data
  callback, Sync -> append to the session's receive buffer, Disabled -> drop),
* step 6 of `cbs.onClose` (mark the buffer closed or leave a closed tombstone, erase the read mode, sweep drained tombstones
  when the map is over `syncBufferGcThreshold`) - steps 2-5 and 7 (the callbacks) are `Model/CloseFanout.lean`,
* `Transport::setReadMode` (incl. the ordered Sync/Disabled -> Async flush through the data callback) and
  `Transport::receiveSync` with a zero timeout.

Every op is one API call or one engine callback run to completion (a sequential history: the calls of several threads in some
order, none overlapping another - the flush of `setReadMode` overlapping an engine callback on the I/O thread is C03's
flush-window model and is NOT covered here).  Not modelled: `pendingConnects` (C04: a close that answers a connectSync is
swallowed before any of this), teardown (`shuttingDown` is false), parked waiters (a zero timeout never parks).

Two source variants are parameters of the model (the driver sets them from `Gen/CloseSites.lean`, the theorems need both):
`eraseAlways` - the close handler erases the read mode unconditionally; `tombGuard` - `setReadMode` on a session whose
receive buffer is a closed tombstone is vacuous: it returns true, registers no mode and flushes nothing (repair FC02a).

The close handler is TWO ops, because it is not atomic for the other threads: `closeMark sid` is its syncMutex block (mark the
buffer closed / leave the tombstone, erase the read mode, sweep) and `closeCbs sid` is the part that runs user code (global
close callback, observers).  Complete application calls (`setMode`, `recv`) of OTHER threads may stand between the two ops of
one handler run in a history; engine ops may not (the I/O thread is inside the handler).  In which ORDER one handler run
performs the two is the third source variant, `markFirst` (Gen fact `closeMarksBeforeCallbacks`; repair FC03c made it true):
`handlerOps` is one handler run, `orderB` / `HandlerOrder` is the shape of a history all of whose handler runs have that order.
-/
namespace Iora.Deliver

abbrev Sid := Nat
abbrev Bytes := List UInt8

/-- `ReadMode` -/
inductive Mode
  | async | sync | disabled
  deriving DecidableEq, Repr

/-- `Transport::Impl::SyncReceiveBuffer` (`hasData` mirrors `!data.empty()`: INV-1, every mutation re-derives it) -/
structure Buf where
  data : Bytes := []
  closed : Bool := false
  overflow : Bool := false
  overflowReported : Bool := false   -- a receiveSync has answered BufferOverflow for this buffer (fix 3fba082 / FC03d)
  deriving Repr

structure Cfg where
  maxBuf : Nat := 1048576          -- `config.maxSyncReceiveBuffer`
  gcThreshold : Nat := 1024        -- `config.syncBufferGcThreshold`
  allowSwitch : Bool := true       -- `config.allowReadModeSwitch`
  hasDataCb : Bool := true         -- a global data callback is installed
  eraseAlways : Bool := true       -- source variant: `readModes.erase(sid)` of the close handler is unconditional
  tombGuard : Bool := true         -- source variant: setReadMode is vacuous (returns true, no effect) for a closed tombstone (FC02a)
  markFirst : Bool := true         -- source variant: the close handler marks the session closed BEFORE it runs the close callbacks (FC03c)
  deriving Repr

structure T where
  cfg : Cfg := {}
  modes : Sid → Option Mode := fun _ => none      -- `readModes`
  bufs : Sid → Option Buf := fun _ => none        -- `receiveBuffers`
  keys : List Sid := []                            -- the keys of `receiveBuffers` (its `size()` and the GC sweep)
  closedH : Sid → Bool := fun _ => false          -- ghost: the close callbacks (global, observers) have been started for this id
  marked : Sid → Bool := fun _ => false           -- ghost: the handler's syncMutex block (closed flag / tombstone / erase) has run for this id

inductive RecvRes
  | bytes (b : Bytes) | timeout | peerClosed | overflow
  deriving DecidableEq, Repr

inductive Op
  | engAccept (sid : Sid)
  | engConnect (sid : Sid)
  | engData (sid : Sid) (b : Bytes)
  /-- the close handler's syncMutex block: closed flag or tombstone, `readModes.erase`, sweep -/
  | closeMark (sid : Sid)
  /-- the close handler's user-code part: global close callback, then the observers -/
  | closeCbs (sid : Sid)
  | setMode (sid : Sid) (m : Mode)
  | recv (sid : Sid) (len : Nat)
  deriving DecidableEq, Repr

inductive Out
  | acceptCb (sid : Sid)
  | connectCb (sid : Sid)
  | dataCb (sid : Sid) (b : Bytes)
  /-- the close handler runs: the global close callback and the observers (Fanout.closeFan) fire here -/
  | closeH (sid : Sid)
  | modeRet (sid : Sid) (ok : Bool)
  | recvRet (sid : Sid) (r : RecvRes)
  deriving DecidableEq, Repr

def upd {β : Type} (f : Nat → β) (k : Nat) (v : β) : Nat → β := fun x => if x = k then v else f x

def modeOf (t : T) (sid : Sid) : Mode :=
  match t.modes sid with
  | some m => m
  | none => .async

def bufData (t : T) (sid : Sid) : Bytes :=
  match t.bufs sid with
  | some b => b.data
  | none => []

/-- the session's receive buffer exists and is marked closed (a tombstone once the close handler has run) -/
def tomb (t : T) (sid : Sid) : Bool :=
  match t.bufs sid with
  | some b => b.closed
  | none => false

/-- `receiveBuffers[sid] = b` -/
def setBuf (sid : Sid) (b : Buf) (t : T) : T :=
  { t with bufs := upd t.bufs sid (some b), keys := if t.keys.contains sid then t.keys else t.keys ++ [sid] }

/-- `receiveBuffers.erase(sid)` -/
def eraseBuf (sid : Sid) (t : T) : T :=
  { t with bufs := upd t.bufs sid none, keys := t.keys.filter (· != sid) }

def dataCb (t : T) (sid : Sid) (b : Bytes) : List Out := if t.cfg.hasDataCb then [.dataCb sid b] else []

/-- mirrors `cbs.onData`: mode read and buffer append under one `syncMutex` section; Async delivers to the callback -/
def onData (sid : Sid) (bytes : Bytes) (t : T) : T × List Out :=
  match modeOf t sid with
  | .sync =>
    match t.bufs sid with
    | none => (t, [])
    | some b =>
      if b.overflow then (t, [])
      else if b.data.length + bytes.length > t.cfg.maxBuf then (setBuf sid { b with overflow := true } t, [])
      else (setBuf sid { b with data := b.data ++ bytes } t, [])
  | .disabled => (t, [])
  | .async => (t, dataCb t sid bytes)

/-- a tombstone the sweep may reclaim: closed and drained (no waiter, no flush in a sequential history) -/
def reclaimable (b : Buf) : Bool := b.closed && b.data.isEmpty && (!b.overflow || b.overflowReported)

def dead (sid : Sid) (t : T) (k : Sid) : Bool :=
  k != sid && (match t.bufs k with | some b => reclaimable b | none => false)

/-- the sweep of step 6 (every other reclaimable entry goes) -/
def gc (sid : Sid) (t : T) : T :=
  { t with bufs := fun k => if dead sid t k then none else t.bufs k, keys := t.keys.filter (fun k => !dead sid t k) }

/-- step 6, first half: `bufIt->second->closed = true` or a fresh closed tombstone -/
def markClosed (sid : Sid) (t : T) : T :=
  match t.bufs sid with
  | some b => setBuf sid { b with closed := true } t
  | none => setBuf sid { closed := true } t

/-- step 6, `readModes.erase(sid)`: unconditional in the source as it is (`eraseAlways`); the other variant keeps the mode of a
buffer that still holds bytes -/
def eraseMode (sid : Sid) (t : T) : T :=
  if t.cfg.eraseAlways || (bufData t sid).isEmpty then { t with modes := upd t.modes sid none } else t

/-- step 6, the sweep once the map is over the threshold -/
def sweep (sid : Sid) (t : T) : T := if t.keys.length > t.cfg.gcThreshold then gc sid t else t

/-- mirrors the syncMutex block of `cbs.onClose` ("step 6" before FC03c, step 2 after it): close the buffer or leave a tombstone,
erase the read mode, sweep.  Nothing the application can observe happens here. -/
def closeMark (sid : Sid) (t : T) : T × List Out :=
  let t3 := sweep sid (eraseMode sid (markClosed sid t))
  ({ t3 with marked := upd t3.marked sid true }, [])

/-- the callback part of `cbs.onClose` (global close callback, observers: `Fanout.closeFan`): from here on the application knows -/
def closeCbs (sid : Sid) (t : T) : T × List Out :=
  ({ t with closedH := upd t.closedH sid true }, [.closeH sid])

/-- mirrors `Transport::receiveSync(sid, buf, len, 0ms)`: find-or-create, one evaluation of the wait predicate, drain first,
then overflow, then PeerClosed (which reclaims the entry and the mode) -/
def recv (sid : Sid) (len : Nat) (t : T) : T × List Out :=
  match t.bufs sid with
  | none => (setBuf sid {} t, [.recvRet sid .timeout])
  | some b =>
    if !b.data.isEmpty then
      let n := min len b.data.length
      (setBuf sid { b with data := b.data.drop n } t, [.recvRet sid (.bytes (b.data.take n))])
    else if b.overflow then (setBuf sid { b with overflowReported := true } t, [.recvRet sid .overflow])
    else if b.closed then ({ eraseBuf sid t with modes := upd t.modes sid none }, [.recvRet sid .peerClosed])
    else (t, [.recvRet sid .timeout])

/-- mirrors `Transport::setReadMode` on an application thread, run to completion: tombstone guard (FC02a), the simple
transitions, and the ordered flush (take everything under the lock, deliver it, find the buffer empty, switch to Async) -/
def setMode (sid : Sid) (m : Mode) (t : T) : T × List Out :=
  if !t.cfg.allowSwitch then (t, [.modeRet sid false])
  else if t.cfg.tombGuard && tomb t sid then (t, [.modeRet sid true])
  else if !(modeOf t sid != .async && m == .async) then
    let t1 := { t with modes := upd t.modes sid (some m) }
    let t2 := if m == .sync then (match t1.bufs sid with | none => setBuf sid {} t1 | some _ => t1) else t1
    (t2, [.modeRet sid true])
  else
    match t.bufs sid with
    | none => ({ t with modes := upd t.modes sid (some .async) }, [.modeRet sid true])
    | some b =>
      let t1 := setBuf sid { b with data := [] } { t with modes := upd t.modes sid (some .async) }
      (t1, (if b.data.isEmpty then [] else dataCb t sid b.data) ++ [.modeRet sid true])

def step (t : T) : Op → T × List Out
  | .engAccept sid => (t, [.acceptCb sid])
  | .engConnect sid => (t, [.connectCb sid])
  | .engData sid b => onData sid b t
  | .closeMark sid => closeMark sid t
  | .closeCbs sid => closeCbs sid t
  | .setMode sid m => setMode sid m t
  | .recv sid len => recv sid len t

/-- the outputs of a history, in order -/
def run : T → List Op → List Out
  | _, [] => []
  | t, op :: r => (step t op).2 ++ run (step t op).1 r

def runState : T → List Op → T
  | t, [] => t
  | t, op :: r => runState (step t op).1 r

def init (cfg : Cfg) : T := { cfg := cfg }

/-- ONE run of the close handler on the I/O thread, in the order the source variant says; `window` = the complete application
calls other threads make while the handler is between its two halves (for the callbacks-first order: while the close callbacks run
and until the syncMutex block has been executed) -/
def handlerOps (markFirst : Bool) (sid : Sid) (window : List Op) : List Op :=
  if markFirst then .closeMark sid :: window ++ [.closeCbs sid] else .closeCbs sid :: window ++ [.closeMark sid]

/-- every handler run of the history has the order `markFirst` says: with it every `closeCbs sid` is preceded by a `closeMark sid`,
without it every `closeMark sid` is preceded by a `closeCbs sid` (`seen` = ids whose first half has run) -/
def orderB (markFirst : Bool) : List Sid → List Op → Bool
  | _, [] => true
  | seen, .closeMark s :: r => (markFirst || seen.contains s) && orderB markFirst (if markFirst then s :: seen else seen) r
  | seen, .closeCbs s :: r => (!markFirst || seen.contains s) && orderB markFirst (if markFirst then seen else s :: seen) r
  | seen, _ :: r => orderB markFirst seen r

def HandlerOrder (markFirst : Bool) (ops : List Op) : Prop := orderB markFirst [] ops = true

instance (markFirst : Bool) (ops : List Op) : Decidable (HandlerOrder markFirst ops) :=
  inferInstanceAs (Decidable (orderB markFirst [] ops = true))

end Iora.Deliver
