import IoraModel.Common.Bytes
import IoraModel.Gen.Udp
/-!
# Model of `iora::network::UdpEngine` bookkeeping (include/iora/network/detail/udp_engine.hpp) — property C06

What is mirrored: the session table `_sessions`, the listener table `_listeners` with the per-listener out-queue
(`Listener::wq`, `OutDg` = destination + payload), the per-client-session out-queue (`Session::wq`), the peer index
`_peerIndex` (source address → the ONE session that receives that peer's datagrams on listener sockets), the
`sessionsCurrent` counter, the idle/age/write-stall garbage collector, and every function of the I/O thread that reads or
writes them: `readFromListener`, `onClient`, `connectDo`, `viaDo`, `sendDo`, `flushListener`, `writeClient`, `closeNow`, `runGc`.

The I/O thread is single-threaded; one model step = one thing that thread does between two `epoll_wait` calls for ONE event
(a command taken from the queue, `EPOLLIN` on one socket, `EPOLLOUT` on one socket, the GC timer).  Everything the kernel
decides is an INPUT of the step (DESIGN §6.2): which datagrams a `recvfrom` loop returns and from whom, and what every single
`send`/`sendto` answers (`ok` / `EAGAIN` / another error).  Quantifying over input lists therefore quantifies over all peers,
sizes, contents, interleavings and fault sequences.

Modelled, not verified (assumed behaviour of the environment, stated here once):
* kernel UDP: one successful `send`/`sendto` = one datagram with exactly these bytes to exactly this destination, a datagram
  longer than `maxDatagram` (65507, IPv4) is refused with an error; a connected client socket only returns datagrams of its peer;
* `key()` (getnameinfo numeric host:port) is the function `Cfg.key : Addr → Nat` from socket addresses to index keys; the model does
  NOT assume it injective — the theorems that need "distinct peers have distinct keys" carry the explicit hypothesis `KeyInjective`
  (and `Props/C06.lean` shows what breaks without it). A `getnameinfo` FAILURE (empty key) is a separate input: the datagram is dropped /
  the connect-via-listener refused (the FC06a repair), nothing is indexed under the empty key;
* name resolution in `connectDo`/`viaDo` succeeds and address families match (the failure arms fire a close for the id and create
  nothing; they belong to the lifecycle property C02).

Ghost data: every step is told its position `tok` in the history, and a datagram queued or sent by `sendDo` carries the position
of the `cmdSend` input that created it.  It is never read by the model's control flow (nor printed by the driver); it lets the
theorems say "this `sent` belongs to that `send`".
-/
namespace Iora.Udp

abbrev Addr := Nat
abbrev Sid := Nat
abbrev Lid := Nat
abbrev Tok := Nat

/-- `enum class Role` as used by the UDP engine: `ClientConnected` (own connected socket) / `ServerPeer` (shares a listener socket) -/
inductive Role | client | serverPeer
  deriving DecidableEq, Repr

/-- what the kernel answers to one `send`/`sendto` -/
inductive Ans | ok | eagain | err
  deriving DecidableEq, Repr

/-- `TransportError` passed to the close callback -/
inductive Why | unknown | gc | backpressure | socket | config
  deriving DecidableEq, Repr

/-- the socket a datagram leaves from -/
inductive Src | lst (lid : Lid) | cli (sid : Sid)
  deriving DecidableEq, Repr

/-- largest UDP payload over IPv4 (65535 − 20 − 8); a kernel fact, not a constant of the repository -/
def maxDatagram : Nat := 65507

/-- largest UDP payload for a datagram that travels over IPv6 (`v6`) or IPv4: IPv6 does not count its own header (65535 − 8) -/
def maxDatagramFor (v6 : Bool) : Nat := if v6 then 65527 else maxDatagram


/-- the part of `TransportConfig` the UDP engine consults, plus the two translated facts about the source (`Gen/Udp.lean`) -/
structure Cfg where
  ioReadChunk : Nat := Gen.Udp.ioReadChunk
  maxSessions : Nat := Gen.Udp.maxSessions
  maxWriteQueue : Nat := Gen.Udp.maxWriteQueue
  closeOnBackpressure : Bool := Gen.Udp.closeOnBackpressure
  idleTimeoutMs : Nat := Gen.Udp.idleTimeoutS * 1000
  maxConnAgeMs : Nat := Gen.Udp.maxConnAgeS * 1000
  writeStallTimeoutMs : Nat := Gen.Udp.writeStallTimeoutMs
  /-- `closeNow` removes `_peerIndex[pkey]` only when it maps to the closing session (translated from the source) -/
  eraseGuarded : Bool := Gen.Udp.closeNowEraseGuarded
  /-- the same fact for the erase in `shutdownDrain` (either form empties the index there: `Lemmas` prove it) -/
  drainGuarded : Bool := Gen.Udp.shutdownDrainEraseGuarded
  clientOverflowStrict : Bool := Gen.Udp.clientOverflowStrict
  /-- `key()`: the index key of a socket address (canonical numeric "host:port" string, here a number). Default: the address itself. -/
  key : Addr → Nat := fun a => a
  /-- which addresses are IPv4-mapped IPv6 addresses (`::ffff:a.b.c.d`): a datagram to one of them travels over IPv4 even from an IPv6
  socket, so the IPv4 size limit applies (a kernel fact the environment supplies) -/
  mapped : Addr → Bool := fun _ => false
  /-- translated facts about the epoll interest masks: does `addEpoll` in `addListenerDo`/`connectDo` arm `EPOLLIN`, does the mask
  rebuilt by `updateListener`/`updateClient` keep it -/
  listenerAddIn : Bool := Gen.Udp.listenerAddArmsIn
  listenerUpdIn : Bool := Gen.Udp.listenerUpdateKeepsIn
  clientAddIn : Bool := Gen.Udp.clientAddArmsIn
  clientUpdIn : Bool := Gen.Udp.clientUpdateKeepsIn
  listenerOverflowStrict : Bool := Gen.Udp.listenerOverflowStrict

/-- queued datagram: `OutDg{to, payload}` (listener queue) or `ByteBuffer` (client queue; `dest` = the connected peer).
`tok` is ghost: the index of the `cmdSend` input that queued it. -/
structure Item where
  tok : Nat
  dest : Addr
  payload : Bytes
  deriving DecidableEq, Repr

/-- `struct Session` -/
structure Sess where
  role : Role
  peer : Addr
  owner : Lid := 0
  wq : List Item := []
  wantWrite : Bool := false
  created : Nat := 0
  lastActivity : Nat := 0
  lastWriteProgress : Nat := 0
  /-- the interest mask last handed to epoll for the session's own socket (client sessions only): `EPOLLIN` / `EPOLLOUT` armed -/
  armIn : Bool := false
  armOut : Bool := false
  /-- address family of the session's own socket (client sessions) -/
  v6 : Bool := false
  deriving Repr

/-- `struct Listener` (+ the address family of its socket and the interest mask last handed to epoll for it) -/
structure Lst where
  wq : List Item := []
  wantWrite : Bool := false
  v6 : Bool := false
  armIn : Bool := false
  armOut : Bool := false
  deriving Repr

/-- finite map as a function; `upd m k v` sets (`some`) or erases (`none`) key `k` -/
def upd {α : Type} (m : Nat → Option α) (k : Nat) (v : Option α) : Nat → Option α :=
  fun x => if x = k then v else m x

@[simp] theorem upd_same {α : Type} (m : Nat → Option α) (k : Nat) (v : Option α) : upd m k v k = v := by simp [upd]
theorem upd_other {α : Type} (m : Nat → Option α) (k : Nat) (v : Option α) (x : Nat) (h : x ≠ k) : upd m k v x = m x := by
  simp [upd, h]

structure State where
  sessions : Sid → Option Sess := fun _ => none
  listeners : Lid → Option Lst := fun _ => none
  /-- `_peerIndex`: index KEY (`Cfg.key` of a source address) → session -/
  peerIndex : Nat → Option Sid := fun _ => none
  nextSid : Nat := Gen.Udp.nextSessionIdInit
  nextLid : Nat := Gen.Udp.nextListenerIdInit
  sessionsCurrent : Nat := 0
  /-- `MonoClock::now()` in ms; moves only by `advance` -/
  now : Nat := 0

inductive In
  /-- `addListenerDo` succeeded: a new bound listener socket (IPv6 or IPv4) -/
  | listen (v6 : Bool)
  /-- `EPOLLIN` on listener `lid`: the `recvfrom` loop returns these datagrams (source, bytes) in this order, then `EAGAIN` -/
  | recvFrom (lid : Lid) (dgs : List (Addr × Bytes))
  /-- `EPOLLIN` on listener `lid` returning `n` datagrams for each of which `key()` failed (getnameinfo error → empty key) -/
  | recvKeyFail (lid : Lid) (n : Nat)
  /-- `connectViaListener()` + `viaDo` where `key()` of the target failed -/
  | viaKeyFail (lid : Lid)
  /-- `EPOLLIN` on the socket of client session `sid`: the `recv` loop returns these datagrams, then `EAGAIN` -/
  | clientRecv (sid : Sid) (dgs : List Bytes)
  /-- `connect()` + `connectDo`: a connected client socket to `addr` (`v6` = the family `addr` resolves to) -/
  | connect (addr : Addr) (v6 : Bool)
  /-- `connectViaListener()` + `viaDo`; `v6` = the address family the target resolves to -/
  | via (lid : Lid) (addr : Addr) (v6 : Bool)
  /-- `send()` accepted + `sendDo`; `ans` = what the kernel answers to the ONE `send`/`sendto` it makes -/
  | cmdSend (sid : Sid) (p : Bytes) (ans : Ans)
  /-- `EPOLLOUT` on listener `lid`; `answers` = kernel answers to the successive `sendto` calls of `flushListener` -/
  | writableL (lid : Lid) (answers : List Ans)
  /-- `EPOLLOUT` on client session `sid`; `answers` for `writeClient` -/
  | writableC (sid : Sid) (answers : List Ans)
  /-- `close()` + the `Close` arm of `process()` -/
  | close (sid : Sid)
  /-- the monotonic clock moves forward -/
  | advance (ms : Nat)
  /-- the GC timer fires: `runGc` -/
  | gc
  /-- `stop()` (the `Shutdown` command, then `shutdownDrain`) followed by `start()`: id counters, clock and `_peerIndex` are members
  that survive; sessions and listeners do not -/
  | restart

inductive Out
  /-- the kernel accepted ONE datagram `bytes` for `dest` from socket `src` (`tok`: ghost, the `cmdSend` it belongs to) -/
  | sent (src : Src) (dest : Addr) (bytes : Bytes) (tok : Nat)
  | accept (sid : Sid) (addr : Addr)
  | connected (sid : Sid) (addr : Addr)
  | data (sid : Sid) (bytes : Bytes)
  | closed (sid : Sid) (why : Why)
  /-- `error(TransportError::Socket, …)` callback (a queued datagram dropped by `flushListener`) -/
  | error
  /-- `_sessions[sid]` on an index entry without session: a null `unique_ptr` is dereferenced (theorem: unreachable) -/
  | nullDeref
  deriving DecidableEq, Repr

/-- does a datagram from a socket of family `sockV6` to `dest` travel over IPv6? (not if `dest` is v4-mapped) -/
def overV6 (cfg : Cfg) (sockV6 : Bool) (dest : Addr) : Bool := sockV6 && !cfg.mapped dest

/-- the kernel refuses a datagram above the maximum of the socket's family (EMSGSIZE) whatever else happens -/
def kernelAns (v6 : Bool) (p : Bytes) (a : Ans) : Ans := if p.length > maxDatagramFor v6 then .err else a

/-- `wq.size() > maxWriteQueue` (or `>=` if the source says so), tested after the push -/
def over (strict : Bool) (len cap : Nat) : Bool := if strict then decide (len > cap) else decide (len ≥ cap)

/-- `maxSessions && sessionsCurrent >= maxSessions` -/
def capReached (cfg : Cfg) (st : State) : Bool := cfg.maxSessions != 0 && decide (st.sessionsCurrent ≥ cfg.maxSessions)

/-- mirrors udp_engine.hpp::updateListener: the mask is rebuilt from scratch — `EPOLLIN` (if the source says so) and `EPOLLOUT`
exactly when `wantWrite && !wq.empty()` -/
def updL (cfg : Cfg) (l : Lst) : Lst := { l with armIn := cfg.listenerUpdIn, armOut := l.wantWrite && !l.wq.isEmpty }

/-- mirrors udp_engine.hpp::updateClient -/
def updC (cfg : Cfg) (s : Sess) : Sess := { s with armIn := cfg.clientUpdIn, armOut := s.wantWrite && !s.wq.isEmpty }

@[simp] theorem updC_role (cfg : Cfg) (s : Sess) : (updC cfg s).role = s.role := rfl
@[simp] theorem updC_peer (cfg : Cfg) (s : Sess) : (updC cfg s).peer = s.peer := rfl
@[simp] theorem updC_owner (cfg : Cfg) (s : Sess) : (updC cfg s).owner = s.owner := rfl
@[simp] theorem updC_wq (cfg : Cfg) (s : Sess) : (updC cfg s).wq = s.wq := rfl
@[simp] theorem updC_wantWrite (cfg : Cfg) (s : Sess) : (updC cfg s).wantWrite = s.wantWrite := rfl
@[simp] theorem updL_wq (cfg : Cfg) (l : Lst) : (updL cfg l).wq = l.wq := rfl
@[simp] theorem updL_wantWrite (cfg : Cfg) (l : Lst) : (updL cfg l).wantWrite = l.wantWrite := rfl
@[simp] theorem updL_v6 (cfg : Cfg) (l : Lst) : (updL cfg l).v6 = l.v6 := rfl

/-- mirrors udp_engine.hpp::closeNow (callers have looked the session up; `closed` sessions never stay in the table) -/
def closeNow (cfg : Cfg) (st : State) (sid : Sid) (why : Why) : State × List Out :=
  match st.sessions sid with
  | none => (st, [])
  | some s =>
    let idx : Nat → Option Sid :=
      match s.role with
      | .client => st.peerIndex
      | .serverPeer =>
        if cfg.eraseGuarded then
          (if st.peerIndex (cfg.key s.peer) = some sid then upd st.peerIndex (cfg.key s.peer) none else st.peerIndex)
        else upd st.peerIndex (cfg.key s.peer) none
    ({ st with sessions := upd st.sessions sid none, peerIndex := idx, sessionsCurrent := st.sessionsCurrent - 1 },
     [.closed sid why])

/-- mirrors udp_engine.hpp::readFromListener — the body of the loop for ONE datagram returned by `recvfrom` -/
def recvOne (cfg : Cfg) (lid : Lid) (st : State) (d : Addr × Bytes) : State × List Out :=
  let got := d.2.take cfg.ioReadChunk          -- recvfrom(buf of ioReadChunk bytes, flags 0): the excess is discarded
  if got = [] then (st, [])                    -- `n == 0 acceptable`: consumed, no event
  else
    match st.peerIndex (cfg.key d.1) with
    | none =>
      if capReached cfg st then (st, [])       -- `continue`: dropped, no session, no event
      else
        let sid := st.nextSid
        let s : Sess := { role := .serverPeer, peer := d.1, owner := lid, created := st.now, lastActivity := st.now,
                          lastWriteProgress := st.now }
        ({ st with sessions := upd st.sessions sid (some s), peerIndex := upd st.peerIndex (cfg.key d.1) (some sid),
                   nextSid := sid + 1, sessionsCurrent := st.sessionsCurrent + 1 },
         [.accept sid d.1, .data sid got])
    | some sid =>
      match st.sessions sid with
      | none => (st, [.nullDeref])
      | some s =>
        ({ st with sessions := upd st.sessions sid (some { s with lastActivity := st.now }) }, [.data sid got])

/-- mirrors udp_engine.hpp::readFromListener — the `for (;;)` loop over what the kernel has queued -/
def recvMany (cfg : Cfg) (lid : Lid) : State → List (Addr × Bytes) → State × List Out
  | st, [] => (st, [])
  | st, d :: ds =>
    let r1 := recvOne cfg lid st d
    let r2 := recvMany cfg lid r1.1 ds
    (r2.1, r1.2 ++ r2.2)

/-- `s->lastActivity = MonoClock::now()` in the `n > 0` branch of onClient -/
def touchClient (st : State) (sid : Sid) : State :=
  match st.sessions sid with
  | none => st
  | some s => { st with sessions := upd st.sessions sid (some { s with lastActivity := st.now }) }

/-- mirrors udp_engine.hpp::onClient (EPOLLIN part), the loop body for the datagrams ONE wake-up reads (which ones those are — all that
is queued, for the loop as written — is decided by `Model/UdpWake.lean` from the translated loop shape). A zero-length read
(`n == 0`) delivers an empty view, does not touch `lastActivity`, and the loop goes on (`continue`, the FC06b repair; with the
unrepaired `break` the wake-up simply ends there: `UdpWake.takeLoop` hands this function nothing behind a zero-length datagram). -/
def clientRecvMany (cfg : Cfg) (sid : Sid) : State → List Bytes → State × List Out
  | st, [] => (st, [])
  | st, d :: ds =>
    let got := d.take cfg.ioReadChunk
    let r2 := clientRecvMany cfg sid (if got = [] then st else touchClient st sid) ds
    (r2.1, .data sid got :: r2.2)

/-- mirrors udp_engine.hpp::connectDo (resolution and `::connect` succeed) -/
def connectDo (cfg : Cfg) (st : State) (addr : Addr) (v6 : Bool) : State × List Out :=
  let sid := st.nextSid
  let s : Sess := { role := .client, peer := addr, created := st.now, lastActivity := st.now, lastWriteProgress := st.now,
                    armIn := cfg.clientAddIn, v6 := v6 }
  ({ st with sessions := upd st.sessions sid (some s), nextSid := sid + 1, sessionsCurrent := st.sessionsCurrent + 1 },
   [.connected sid addr])

/-- mirrors udp_engine.hpp::viaDo -/
def viaDo (cfg : Cfg) (st : State) (lid : Lid) (addr : Addr) (v6 : Bool) : State × List Out :=
  let sid := st.nextSid
  let st0 := { st with nextSid := sid + 1 }    -- connectViaListener() has already handed the id out
  match st.listeners lid with
  | none => (st0, [.closed sid .config])
  | some l =>
    if l.v6 != v6 then (st0, [.closed sid .config])        -- "AF mismatch": no address of the listener's family
    else if capReached cfg st then (st0, [.closed sid .config])
    else
      let s : Sess := { role := .serverPeer, peer := addr, owner := lid, created := st.now, lastActivity := st.now,
                        lastWriteProgress := st.now }
      let idx := match st.peerIndex (cfg.key addr) with
        | none => upd st.peerIndex (cfg.key addr) (some sid)
        | some _ => st.peerIndex                 -- `if (!peerExists)`: an existing mapping is kept
      ({ st0 with sessions := upd st.sessions sid (some s), peerIndex := idx, sessionsCurrent := st.sessionsCurrent + 1 },
       [.connected sid addr])

/-- mirrors udp_engine.hpp::sendDo -/
def sendDo (cfg : Cfg) (tok : Nat) (st : State) (sid : Sid) (p : Bytes) (ans0 : Ans) : State × List Out :=
  match st.sessions sid with
  | none => (st, [])
  | some s =>
    let it : Item := { tok := tok, dest := s.peer, payload := p }
    match s.role with
    | .client =>
      match kernelAns (overV6 cfg s.v6 s.peer) p ans0 with
      | .ok =>
        ({ st with sessions := upd st.sessions sid (some { s with lastActivity := st.now, lastWriteProgress := st.now }) },
         [.sent (.cli sid) s.peer p tok])
      | .eagain =>
        let wq' := s.wq ++ [it]
        if over cfg.clientOverflowStrict wq'.length cfg.maxWriteQueue then
          if cfg.closeOnBackpressure then closeNow cfg st sid .backpressure
          else ({ st with sessions := upd st.sessions sid (some (updC cfg { s with wq := wq'.tail, wantWrite := true })) }, [])
        else ({ st with sessions := upd st.sessions sid (some (updC cfg { s with wq := wq', wantWrite := true })) }, [])
      | .err => closeNow cfg st sid .socket
    | .serverPeer =>
      match st.listeners s.owner with
      | none => closeNow cfg st sid .unknown
      | some l =>
        match kernelAns (overV6 cfg l.v6 s.peer) p ans0 with
        | .ok =>
          ({ st with sessions := upd st.sessions sid (some { s with lastActivity := st.now, lastWriteProgress := st.now }) },
           [.sent (.lst s.owner) s.peer p tok])
        | .eagain =>
          let wq' := l.wq ++ [it]
          if over cfg.listenerOverflowStrict wq'.length cfg.maxWriteQueue then
            if cfg.closeOnBackpressure then
              -- the datagram STAYS in the listener queue; the session is closed
              closeNow cfg { st with listeners := upd st.listeners s.owner (some (updL cfg { l with wq := wq', wantWrite := true })) } sid .backpressure
            else ({ st with listeners := upd st.listeners s.owner (some (updL cfg { l with wq := wq'.tail, wantWrite := true })) }, [])
          else ({ st with listeners := upd st.listeners s.owner (some (updL cfg { l with wq := wq', wantWrite := true })) }, [])
        | .err => closeNow cfg st sid .socket

/-- next scripted kernel answer (an exhausted script answers `ok`) -/
def nextAns : List Ans → Ans × List Ans
  | [] => (.ok, [])
  | a :: as => (a, as)

/-- mirrors udp_engine.hpp::flushListener — the `while (!wq.empty())` loop: (what stays queued, what happened) -/
def flushLoopL (lid : Lid) (v6 : Addr → Bool) : List Item → List Ans → List Item × List Out
  | [], _ => ([], [])
  | it :: rest, as =>
    match kernelAns (v6 it.dest) it.payload (nextAns as).1 with
    | .ok => let r := flushLoopL lid v6 rest (nextAns as).2; (r.1, .sent (.lst lid) it.dest it.payload it.tok :: r.2)
    | .eagain => (it :: rest, [])
    | .err => let r := flushLoopL lid v6 rest (nextAns as).2; (r.1, .error :: r.2)   -- dropped, loop goes on

/-- mirrors udp_engine.hpp::flushListener; the kernel reports `EPOLLOUT` only while it is in the interest mask (`armOut`) -/
def flushListener (cfg : Cfg) (st : State) (lid : Lid) (answers : List Ans) : State × List Out :=
  match st.listeners lid with
  | none => (st, [])
  | some l =>
    if l.armOut then
      let r := flushLoopL lid (overV6 cfg l.v6) l.wq answers
      ({ st with listeners := upd st.listeners lid (some (updL cfg { l with wq := r.1, wantWrite := !r.1.isEmpty })) }, r.2)
    else (st, [])

/-- mirrors udp_engine.hpp::writeClient — the loop: (what stays queued, datagrams sent, `true` if a hard error ended it) -/
def flushLoopC (sid : Sid) (v6 : Addr → Bool) : List Item → List Ans → List Item × List Out × Bool
  | [], _ => ([], [], false)
  | it :: rest, as =>
    match kernelAns (v6 it.dest) it.payload (nextAns as).1 with
    | .ok => let r := flushLoopC sid v6 rest (nextAns as).2; (r.1, .sent (.cli sid) it.dest it.payload it.tok :: r.2.1, r.2.2)
    | .eagain => (it :: rest, [], false)
    | .err => (it :: rest, [], true)

/-- mirrors udp_engine.hpp::writeClient (`EPOLLOUT` on a client socket, reported only while armed by updateClient) -/
def writeClient (cfg : Cfg) (st : State) (sid : Sid) (answers : List Ans) : State × List Out :=
  match st.sessions sid with
  | none => (st, [])
  | some s =>
    match s.role with
    | .serverPeer => (st, [])
    | .client =>
      if s.armOut then
        let r := flushLoopC sid (overV6 cfg s.v6) s.wq answers
        let lwp := if r.2.1.isEmpty then s.lastWriteProgress else st.now
        let s1 : Sess := updC cfg { s with wq := r.1, wantWrite := !r.1.isEmpty, lastWriteProgress := lwp }
        let st1 := { st with sessions := upd st.sessions sid (some s1) }
        if r.2.2 then
          let c := closeNow cfg st1 sid .socket
          (c.1, r.2.1 ++ c.2)
        else (st1, r.2.1)
      else (st, [])

/-- the four tests of `runGc` (`connectPending` is never set by the UDP engine) -/
def gcExpired (cfg : Cfg) (now : Nat) (s : Sess) : Bool :=
  (decide (cfg.idleTimeoutMs > 0) && decide (now - s.lastActivity > cfg.idleTimeoutMs)) ||
  (decide (cfg.maxConnAgeMs > 0) && decide (now - s.created > cfg.maxConnAgeMs)) ||
  (decide (cfg.writeStallTimeoutMs > 0) && !s.wq.isEmpty && decide (now - s.lastWriteProgress > cfg.writeStallTimeoutMs))

/-- the second loop of `runGc`: close what was collected -/
def closeAll (cfg : Cfg) (why : Why) : State → List Sid → State × List Out
  | st, [] => (st, [])
  | st, sid :: rest =>
    let r1 := closeNow cfg st sid why
    let r2 := closeAll cfg why r1.1 rest
    (r2.1, r1.2 ++ r2.2)

/-- mirrors udp_engine.hpp::runGc (hash-map iteration order is unspecified in C++; the model closes in ascending id order and
the harness sorts the close events of one GC run) -/
def runGc (cfg : Cfg) (st : State) : State × List Out :=
  let due := (List.range st.nextSid).filter (fun sid =>
    match st.sessions sid with
    | some s => gcExpired cfg st.now s
    | none => false)
  closeAll cfg .gc st due

/-- mirrors udp_engine.hpp::shutdownDrain — the body of the session loop: the close callback fires ("shutdown"), a ServerPeer session
removes its peer key from the index; the session object stays in `_sessions` until the `clear()` after the loop -/
def drainOne (cfg : Cfg) (st : State) (sid : Sid) : State × List Out :=
  match st.sessions sid with
  | none => (st, [])
  | some s =>
    let idx : Nat → Option Sid :=
      match s.role with
      | .client => st.peerIndex
      | .serverPeer =>
        if cfg.drainGuarded then
          (if st.peerIndex (cfg.key s.peer) = some sid then upd st.peerIndex (cfg.key s.peer) none else st.peerIndex)
        else upd st.peerIndex (cfg.key s.peer) none
    ({ st with peerIndex := idx, sessionsCurrent := st.sessionsCurrent - 1 }, [.closed sid .unknown])

def drainAll (cfg : Cfg) : State → List Sid → State × List Out
  | st, [] => (st, [])
  | st, sid :: rest =>
    let r1 := drainOne cfg st sid
    let r2 := drainAll cfg r1.1 rest
    (r2.1, r1.2 ++ r2.2)

/-- mirrors udp_engine.hpp::shutdownDrain (no command is pending: the harness serialises) -/
def shutdownDrain (cfg : Cfg) (st : State) : State × List Out :=
  let r := drainAll cfg st (List.range st.nextSid)
  ({ r.1 with sessions := fun _ => none, listeners := fun _ => none }, r.2)

/-- one event of the I/O thread; `tok` (ghost) = the position of this input in the history -/
def step (cfg : Cfg) (tok : Nat) (st : State) : In → State × List Out
  | .listen v6 =>
    ({ st with listeners := upd st.listeners st.nextLid (some ({ v6 := v6, armIn := cfg.listenerAddIn } : Lst)),
               nextLid := st.nextLid + 1 }, [])
  | .recvFrom lid dgs =>
    match st.listeners lid with
    | none => (st, [])
    | some l => if l.armIn then recvMany cfg lid st dgs else (st, [])     -- not armed: the datagrams stay in the kernel, unseen
  | .recvKeyFail lid n =>
    -- mirrors readFromListener with `k.empty()`: each such datagram is reported (`error`) and dropped; no session, no index entry
    match st.listeners lid with
    | none => (st, [])
    | some l => if l.armIn then (st, List.replicate n .error) else (st, [])
  | .viaKeyFail _ =>
    -- mirrors viaDo with `k.empty()` (and every earlier refusal): the id handed out by connectViaListener() is closed, nothing is created
    ({ st with nextSid := st.nextSid + 1 }, [.closed st.nextSid .config])
  | .clientRecv sid dgs =>
    match st.sessions sid with
    | none => (st, [])
    | some s =>
      match s.role with
      | .serverPeer => (st, [])
      | .client => if s.armIn then clientRecvMany cfg sid st dgs else (st, [])
  | .connect addr v6 => connectDo cfg st addr v6
  | .via lid addr v6 => viaDo cfg st lid addr v6
  | .cmdSend sid p ans => if p = [] then (st, []) else sendDo cfg tok st sid p ans     -- `send()` with n == 0 queues nothing
  | .writableL lid answers => flushListener cfg st lid answers
  | .writableC sid answers => writeClient cfg st sid answers
  | .close sid => closeNow cfg st sid .unknown
  | .advance ms => ({ st with now := st.now + ms }, [])
  | .gc => runGc cfg st
  | .restart => shutdownDrain cfg st

/-- the order in which one `epoll_wait` batch is handled: `loopUnbatched` takes the events as they come; `loopBatched`
(EventBatchProcessor::processBatch) handles the special descriptors (command eventfd, GC timer) first, in place, and every socket
event afterwards -/
def batchOrder {α : Type} (special : α → Bool) (batched : Bool) (evs : List α) : List α :=
  if batched then evs.filter special ++ evs.filter (fun e => !special e) else evs

/-- run a history from a state, the first input being number `n`; returns the final state and everything that happened -/
def runFrom (cfg : Cfg) : Nat → State → List In → State × List Out
  | _, st, [] => (st, [])
  | n, st, i :: is =>
    let r1 := step cfg n st i
    let r2 := runFrom cfg (n + 1) r1.1 is
    (r2.1, r1.2 ++ r2.2)

/-- the I/O thread on history `h` from a fresh engine -/
def run (cfg : Cfg) (h : List In) : State × List Out := runFrom cfg 0 {} h

end Iora.Udp
