import IoraModel.Model.TimerService
import IoraModel.Gen.Timer
/-
Model of `class SteadyTimer` (`include/iora/core/timer.hpp`), property C08: a handle that owns at most one armed one-shot timer of a
`TimerService`.  Every `asyncWait` creates a fresh `Shared` object ("arm") whose `state` leaves `Armed` exactly once, by a
compare-and-swap: in the wrapper around the user's handler (`Armed → Started`, then the handler is called) or in `cancel()`
(`Armed → Canceled`).  The model follows the code AS REPAIRED by FC08b; the unrepaired `cancel()` (flag stored first, answer = the
service-level answer) is `legacy = true`, kept for the witness theorem.  Which of the two the working tree has is read from the source
(`Gen.Timer.steadyCancelReportsSuppressed`).

A thin layer over the first-layer service model: the service steps are `Tsvc.step` unchanged; only the START of a collected handler
goes through the wrapper.  Arms are keyed by the service id of their record (ids are unique within an epoch of the service).
-/
namespace Iora.Steady
open Iora.Tsvc

/-- `SteadyTimer::Shared::state` -/
inductive Sh where
  | armed | started | cancelled
  deriving DecidableEq, Repr

structure Lay where
  s : Svc := {}
  /-- the `Shared` object of the arm whose record has this service id -/
  arms : List (Nat × Sh) := []
  /-- `SteadyTimer[i]._token` -/
  tokens : Nat → Option Nat := fun _ => none

def armState (arms : List (Nat × Sh)) (tok : Nat) : Option Sh := (arms.find? (·.1 == tok)).map (·.2)

def setArm (arms : List (Nat × Sh)) (tok : Nat) (v : Sh) : List (Nat × Sh) :=
  arms.map (fun a => if a.1 == tok then (a.1, v) else a)

/-- the wrapper when the loop thread starts the record's handler: `w.lock()` and CAS `Armed → Started`; `true` = the user's handler is
called.  A record that is not a SteadyTimer arm is an ordinary handler. -/
def wrapperStart (arms : List (Nat × Sh)) (tok : Nat) : List (Nat × Sh) × Bool :=
  match armState arms tok with
  | some .armed => (setArm arms tok .started, true)
  | some _ => (arms, false)
  | none => (arms, true)

def getTok (l : Lay) (i : Nat) : Option Nat := l.tokens i

def setTok (ts : Nat → Option Nat) (i : Nat) (t : Option Nat) : Nat → Option Nat :=
  fun j => if j = i then t else ts j

/-- mirrors `SteadyTimer::cancel()`.  Repaired: `suppressed = CAS(Armed → Canceled)`; with a token: `ok = _svc.cancel(token)`, token
reset, answer `ok || suppressed`; without: `false`.  Legacy (`reportsSuppressed = false`): the flag is set all the same, the answer is
`ok` alone. -/
def cancelWith (reportsSuppressed : Bool) (l : Lay) (i : Nat) : Lay × Bool :=
  match getTok l i with
  | none => (l, false)
  | some tok =>
    ({ s := (Tsvc.cancel l.s tok).1,
       arms := if armState l.arms tok == some .armed then setArm l.arms tok .cancelled else l.arms,
       tokens := setTok l.tokens i none },
     if reportsSuppressed then (Tsvc.cancel l.s tok).2 || (armState l.arms tok == some .armed) else (Tsvc.cancel l.s tok).2)

def cancel (l : Lay) (i : Nat) : Lay × Bool := cancelWith Gen.Timer.steadyCancelReportsSuppressed l i

/-- `asyncWait` after its `cancel()`: a fresh `Shared`, `scheduleAt(tp, wrapper)`; a refused arm (id 0) resets the token -/
def armAfter (L : Limits) (l1 : Lay) (i : Nat) (now tp : Int) : Lay × Nat :=
  if (scheduleAt L l1.s now tp).2 = 0 then ({ l1 with s := (scheduleAt L l1.s now tp).1, tokens := setTok l1.tokens i none }, 0)
  else ({ s := (scheduleAt L l1.s now tp).1, arms := ((scheduleAt L l1.s now tp).2, .armed) :: l1.arms,
          tokens := setTok l1.tokens i (some (scheduleAt L l1.s now tp).2) }, (scheduleAt L l1.s now tp).2)

/-- mirrors `expiresAt(tp); asyncWait(h)`: `cancel()`, then `armAfter` -/
def asyncWait (L : Limits) (l : Lay) (i : Nat) (now tp : Int) : Lay × Nat := armAfter L (cancel l i).1 i now tp

inductive Op where
  | svc (op : Tsvc.Op)
  | sat (i : Nat) (now tp : Int)
  | scancel (i : Nat)
  deriving Repr

inductive Out where
  | svc (o : Tsvc.Out)
  /-- a service-level `hstart` whose record is started: did the wrapper call the user's handler? -/
  | hstart (id : Nat) (user : Bool)
  | id (n : Nat)
  | bool (b : Bool)
  deriving Repr

/-- the service id whose (stored) handler a first-layer step starts -/
def startedId : Tsvc.Out → Option Nat
  | .start (.started h) => some h.id
  | _ => none

def step (L : Limits) (l : Lay) : Op → Lay × Out
  | .svc op =>
    let r := Tsvc.step L l.s op
    match startedId r.2 with
    | some id => ({ l with s := r.1, arms := (wrapperStart l.arms id).1 }, .hstart id (wrapperStart l.arms id).2)
    | none => ({ l with s := r.1 }, .svc r.2)
  | .sat i now tp => let r := asyncWait L l i now tp; (r.1, .id r.2)
  | .scancel i => let r := cancel l i; (r.1, .bool r.2)

def runFrom (L : Limits) : Lay → List Op → Lay
  | l, [] => l
  | l, op :: ops => runFrom L (step L l op).1 ops

def run (L : Limits) (ops : List Op) : Lay := runFrom L {} ops

def trace (L : Limits) : Lay → List Op → List (Op × Out)
  | _, [] => []
  | l, op :: ops => (op, (step L l op).2) :: trace L (step L l op).1 ops

/-- service ids whose USER handler a step started -/
def userStartedOf : Op × Out → List Nat
  | (_, .hstart id true) => [id]
  | _ => []

def userStarted (t : List (Op × Out)) : List Nat := t.flatMap userStartedOf

end Iora.Steady
