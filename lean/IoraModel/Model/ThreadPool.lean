import IoraModel.Gen.TpSkel
/-!
# Monitor model of `iora::core::ThreadPool` (include/iora/core/thread_pool.hpp) — property C09

Granularity (DESIGN §6.3 = DetSched, harness/detsched): a thread's state names its *pending* pthread operation
(lock / unlock / condition wait / notify / thread create / join / detach / sleep / explicit yield).  One scheduler
step performs the effect of that operation **and** the code up to (not including) the next pthread operation;
atomics are not pre-emption points, except where the guarded hook `IORA_VERIF_POINT("tp:popped")` marks one
(between leaving the pop critical section and `++_activeThreads`).
"Every interleaving" is `∀ sched : List Choice`; a choice that is not enabled is a stutter.

The model follows the code AS REPAIRED by fixes/F24-threadpool-atomic-spawn.patch: the `_threads.size() < _maxSize`
test, the thread creation and the registration in `_threads` are one critical section of `enqueueImpl`/`tryEnqueueImpl`.

Threads: thread 0 is the *controller* (constructs the pool, creates the submitter threads, calls
`drain/stop/shutdown`, joins the submitters, destroys the pool — an arbitrary script `Cfg.main`), *submitters*
run an arbitrary script of `enqueue / tryEnqueue / enqueueWithResult` calls, *workers* run the worker lambda of
`spawnWorker`; task bodies are scripts too (`Cfg.bodies`): they submit further tasks and end by returning or throwing.
The state of a thread is typed by its kind, so that "a worker between pop and `task = {}` has exactly one task in
hand" and "only the controller runs controller code" hold by construction.

Restart (`reset()` + `start()` after `stop()`) is modelled (`rsL … kU`), the theorems of Props/C09 about whole runs assume it
is not used.  Not modelled as transitions: `setShutdownMode` at run time, the contents of tasks other than submit/throw; a
failing `std::thread` creation is modelled at the level of the submitting critical section only (`spawnFailed`, fixes/FC09e).
-/
namespace Iora.ThreadPool
open Iora

abbrev Tid := Nat

/-- which public entry point submits: `enqueue` (throws on refusal), `tryEnqueue` (returns false),
`enqueueWithResult` (throws, returns a future) -/
inductive Mode | enq | tryEnq | withResult
  deriving DecidableEq, Repr, Inhabited

/-- one scripted action of a submitter or of a task body: submit a task whose body is `Cfg.bodies[body]` -/
structure Act where
  mode : Mode
  body : Nat
  deriving DecidableEq, Repr, Inhabited

/-- a task body: submits `acts` in order, then returns (`throws = false`) or throws -/
structure Body where
  acts : List Act
  throws : Bool
  /-- the error handler `_onTaskError` itself throws when it is first invoked for this task (the wrapper's `catch` lets
  that exception escape; the worker loop's own `catch (...)` then invokes the handler a second time) -/
  hthrow : Bool := false
  deriving DecidableEq, Repr, Inhabited

/-- controller operations -/
inductive MOp
  | act (a : Act)
  | spawnSub (script : List Act)
  | joinSubs
  | drain (timeoutMs : Nat)
  | stop
  | shutdown
  | destroy
  /-- create a further controller thread running `Cfg.ctls[ix]` (it may call drain/stop/shutdown and submit; `destroy`
  and `restart` are ignored there: only the owning thread destroys or restarts the pool) -/
  | spawnCtl (ix : Nat)
  /-- `reset()` then `start()` (only from state Stopped) -/
  | restart
  deriving DecidableEq, Repr, Inhabited

structure Cfg where
  /-- `_initialSize` -/
  initialSize : Nat
  /-- `_maxSize` -/
  maxSize : Nat
  /-- `_maxQueueSize` -/
  maxQueue : Nat
  /-- `_shutdownMode == DETACHED` -/
  detached : Bool
  /-- the tree has the `IORA_VERIF_POINT("tp:popped")` hook -/
  hook : Bool
  bodies : List Body
  main : List MOp
  /-- scripts of the additional controller threads -/
  ctls : List (List MOp) := []
  /-- `restart` operations are executed (the driver sets this; the theorems of Props/C09 are about pools that are not
  restarted and assume `false`, in which case `restart` is a no-op) -/
  allowRestart : Bool := false
  deriving Repr, Inhabited

def Cfg.bodyAt (cfg : Cfg) (i : Nat) : Body :=
  match cfg.bodies[i]? with
  | some b => b
  | none => { acts := [], throws := false }

def Cfg.ctlAt (cfg : Cfg) (i : Nat) : List MOp :=
  match cfg.ctls[i]? with
  | some l => l
  | none => []

/-- mirrors `ThreadPool::effectiveMaxSize` (fixes/FC09b): the worker limit actually used is at least 1 and at least
`initialSize` -/
def Cfg.effMax (cfg : Cfg) : Nat :=
  let atLeast := if cfg.initialSize > 0 then cfg.initialSize else 1
  if cfg.maxSize < atLeast then atLeast else cfg.maxSize

/-- `iora::common::LifecycleState` -/
inductive Life | created | running | draining | stopped | reset
  deriving DecidableEq, Repr, Inhabited

/-- outcome of a submission -/
inductive Res | pending | accepted | refDraining | refShutdown | refFull
  deriving DecidableEq, Repr, Inhabited

/-- the four bounded polling loops `while (waitMs < max) { active==0 && pending==0 ? break : sleep 50ms }` -/
inductive Poll | drain | shut | race | dtor
  deriving DecidableEq, Repr, Inhabited

-- ------------------------------------------------------------------------------------------- thread states
/-- inside `enqueueImpl` / `tryEnqueueImpl`: the pending operation -/
inductive EPc
  /-- L _mutex -/
  | lock
  /-- C: `std::thread t(...)` inside the critical section, followed by `_threads.emplace` -/
  | create
  /-- U _mutex (accepted) -/
  | unlock
  /-- N _condition -/
  | notify
  /-- U _mutex (refused: shutdown / full) -/
  | unlockR
  deriving DecidableEq, Repr, Inhabited

/-- a scripted caller of the enqueue API -/
inductive CallSt
  /-- Y "call": harness yield before the next call (`script` = this call and the following ones); the step
  allocates the call id and reads `_accepting` -/
  | yield_ (script : List Act)
  /-- call `cid` in progress; `rest` = the calls after it -/
  | inCall (rest : List Act) (cid : Nat) (e : EPc)
  deriving DecidableEq, Repr, Inhabited

/-- worker lambda of `spawnWorker` -/
inductive WSt
  /-- S: first scheduling -/
  | start
  /-- L _mutex at the top of the loop -/
  | lock
  /-- W: about to sleep in `_condition.wait_for` (holds the mutex, predicate false) -/
  | waitReady
  /-- inside `wait_for`: mutex released, sleeping -/
  | asleep
  /-- R: woken (notify / time-out / spuriously), must re-acquire; `to` = woken by the time-out -/
  | woken (to : Bool)
  /-- D: idle exit, `it->second.detach()`, followed by `_threads.erase(it)` -/
  | detach
  /-- U _mutex, then the lambda returns -/
  | unlockExit
  /-- U _mutex, then `continue` -/
  | unlockCont
  /-- U _mutex with task `id` in hand -/
  | unlockTask (id : Nat)
  /-- Y "tp:popped" (hook): between the critical section and `++_activeThreads` -/
  | popped (id : Nat)
  /-- Y "b": first yield of the scripted body of task `id` -/
  | bYield (id : Nat) (script : List Act)
  /-- the body of task `id` is inside / before an enqueue call -/
  | body (id : Nat) (c : CallSt)
  /-- L _configMutex in the `catch (...)` of the `enqueue`/`tryEnqueue` wrapper -/
  | cfgLock (id : Nat) (again : Bool)
  /-- U _configMutex, then the error handler runs; `again` = this is the worker loop's own `catch`, entered because the
  handler threw out of the wrapper's `catch` -/
  | cfgUnlock (id : Nat) (again : Bool)
  /-- the lambda has returned -/
  | done
  deriving DecidableEq, Repr, Inhabited

/-- submitter thread -/
inductive SSt
  | start (script : List Act)
  | run (c : CallSt)
  | done
  deriving DecidableEq, Repr, Inhabited

/-- controller: pending operation -/
inductive MPc
  /-- S -/
  | start
  /-- S of an additional controller thread -/
  | startAux
  /-- constructor `spawnWorker()`: L _mutex / C / U _mutex -/
  | cL | cC | cU
  /-- Y "m": harness yield between controller operations -/
  | mYield
  /-- the controller itself submits -/
  | inCall (c : CallSt)
  /-- C: create a submitter thread running `script` -/
  | mSpawn (script : List Act)
  /-- C: create a further controller thread -/
  | mSpawnCtl (ix : Nat)
  /-- J: join the first remaining submitter / controller -/
  | mJoin
  /-- `getInFlightCount()` at the start of `drain()`: L / U -/
  | dInfL | dInfU
  /-- polling loop: L / U of `getPendingTaskCount()`, Z = `sleep_for(50ms)` -/
  | pollL (k : Poll) | pollU (k : Poll) | pollZ (k : Poll)
  /-- after a polling loop timed out (drain, dtor): final `getPendingTaskCount()` L / U -/
  | finL (k : Poll) | finU (k : Poll)
  /-- `shutdown()` / phase 1: L, U (already shut down), U, B -/
  | sFlagL | sFlagUA (ep : Nat) | sFlagU | sBcast
  /-- `shutdown()` found `_shutdown` already set and read `_shutdownEpoch = ep` under `_mutex`: Z 1 ms while
  `_shutdownCompleteEpoch < ep` (fixes/FC09a, FC09d) -/
  | sDoneZ (ep : Nat)
  /-- `shutdown()`: Z 10 ms, then the re-check L / U -/
  | sGrace | sChkL | sChkU
  /-- join loop (shutdown() and phase 4): L (pick), U, J / D, U (none left) -/
  | jL | jU (target : Tid) | jJoin (target : Tid) | jDetach (target : Tid) | jUnone
  /-- phase 2 barrier: Z 100 us, Z 5 ms -/
  | p2Z | p2Grace
  /-- phase 4: read the mode under _configMutex -/
  | p4CfgL | p4CfgU
  /-- phase 5: L / U -/
  | p5L | p5U
  /-- `reset()`: L (clear `_tasks`, `_threads`) / U (counters), then `start()`: L (`_shutdown = false`) / U, then
  `spawnWorker()` × initialSize: L / C / U -/
  | rsL | rsU | stL | stU | kL | kC | kU
  /-- the controller function has returned -/
  | done
  deriving DecidableEq, Repr, Inhabited

/-- controller registers -/
structure MRegs where
  mscript : List MOp := []
  subs : List Tid := []
  ctor : Nat := 0
  inStop : Bool := false
  inDtor : Bool := false
  a : Nat := 0
  p : Nat := 0
  waitMs : Nat := 0
  maxWait : Nat := 0
  iter : Nat := 0
  inflight : Nat := 0
  /-- an additional controller thread (not the owner of the pool) -/
  aux : Bool := false
  /-- `myEpoch` of `shutdown()`: the number this caller gave to the shutdown it owns -/
  ep : Nat := 0
  deriving DecidableEq, Repr, Inhabited

inductive Thread
  | main (pc : MPc) (r : MRegs)
  | sub (s : SSt)
  | worker (w : WSt)
  deriving DecidableEq, Repr, Inhabited

/-- everything except the threads' local states: the pool's members and the ghost observations -/
structure Shared where
  -- ---- the pool's data
  /-- `_tasks` (ids of queued tasks, front first) -/
  tasks : List Nat := []
  /-- keys of `_threads` (registered, joinable workers) -/
  threads : List Tid := []
  shutdown : Bool := false
  accepting : Bool := false
  life : Life := .created
  active : Nat := 0
  busy : Nat := 0
  created : Nat := 0
  started : Nat := 0
  exited : Nat := 0
  waiting : Nat := 0
  /-- owner of `_mutex` / `_configMutex` -/
  owner : Option Tid := none
  ownerCfg : Option Tid := none
  -- ---- ghost state (observations the theorems talk about)
  nextId : Nat := 0
  bodyIx : Nat → Nat := fun _ => 0
  modeOf : Nat → Mode := fun _ => .enq
  result : Nat → Res := fun _ => .pending
  accCnt : Nat → Nat := fun _ => 0
  startCnt : Nat → Nat := fun _ => 0
  doneCnt : Nat → Nat := fun _ => 0
  /-- `some true` = ended by an exception (stored in the future / passed to the error handler) -/
  outcome : Nat → Option Bool := fun _ => none
  handled : Nat → Nat := fun _ => 0
  nStart : Nat := 0
  nDone : Nat := 0
  /-- `drain()` has begun / `shutdown()` or the destructor has set the flag -/
  drainCalled : Bool := false
  shutCalled : Bool := false
  /-- a join loop has completed (found no joinable thread) -/
  quiesced : Bool := false
  /-- `_shutdownCompleteEpoch`: number of the last `shutdown()` that has joined every worker (only grows; `start()` does not
  touch it — fixes/FC09d) -/
  complete : Nat := 0
  /-- `_shutdownEpoch`: number of the shutdown that last set `_shutdown` (guarded by `_mutex`) -/
  epoch : Nat := 0
  /-- results of the controller operations, newest first: 1 drain() ok, 2 drain() timed out, 3 drain() refused (state),
  4 stop ok, 5 stop failed (drain), 6 stop refused (state), 7 shutdown returned, 8 destructor returned,
  9 destructor returned with joinable threads left (`std::terminate`), 10 restarted (`reset()` + `start()`),
  11 restart refused (state), 13 destructor returned although another thread's `shutdown()` had not completed -/
  mlog : List Nat := []

structure St where
  sh : Shared := {}
  /-- all threads in creation order (index = DetSched thread id) -/
  thr : List Thread := []

def bump (f : Nat → Nat) (k : Nat) : Nat → Nat := fun i => if i = k then f i + 1 else f i
def setF {α : Type} (f : Nat → α) (k : Nat) (x : α) : Nat → α := fun i => if i = k then x else f i

/-- scheduler choices -/
inductive Choice
  /-- thread `t` performs its pending operation.  `alt`: the sleeper a `notify_one` wakes; for the re-acquisition
  after a wake-up `alt ≠ 0` = the deadline has passed meanwhile (libstdc++ decides "timeout" by looking at the
  clock, not at the return code); for the join loop the entry of `_threads` that the iteration finds first -/
  | run (t : Tid) (alt : Nat)
  /-- the timed wait of sleeping thread `t` times out -/
  | timeout (t : Tid)
  /-- sleeping thread `t` wakes up spuriously -/
  | spurious (t : Tid)
  deriving DecidableEq, Repr

/-- what a step does to OTHER threads -/
inductive Post
  | none
  /-- a new thread is appended (its id is the current number of threads) -/
  | spawn (th : Thread)
  /-- `notify_one` -/
  | wakeOne
  /-- `notify_all` -/
  | wakeAll
  deriving DecidableEq, Repr

/-- before the controller has been scheduled for the first time -/
def init (cfg : Cfg) : St :=
  { thr := [.main .start { mscript := cfg.main, ctor := cfg.initialSize }] }

def newWorker : Thread := .worker .start

-- ------------------------------------------------------------------------------------------- condition variable
def isAsleep : Thread → Bool
  | .worker .asleep => true
  | _ => false

def wake (th : Thread) (to : Bool) : Thread :=
  match th with
  | .worker .asleep => .worker (.woken to)
  | th => th

def wakeAll (l : List Thread) : List Thread := l.map (fun th => wake th false)

def anyAsleep (l : List Thread) : Bool := l.any isAsleep

def countAsleep (l : List Thread) : Nat := l.countP isAsleep

/-- `notify_one`: wakes sleeper `alt` (if nobody sleeps: no effect); `none` = ill-formed choice -/
def notifyOne (l : List Thread) (alt : Nat) : Option (List Thread) :=
  if anyAsleep l then
    match l[alt]? with
    | some th => if isAsleep th then some (l.set alt (wake th false)) else none
    | none => none
  else some l

def applyPost (l : List Thread) (p : Post) (alt : Nat) : Option (List Thread) :=
  match p with
  | .none => some l
  | .spawn th => some (l ++ [th])
  | .wakeOne => notifyOne l alt
  | .wakeAll => some (wakeAll l)

def isFinished : Thread → Bool
  | .main .done _ => true
  | .sub .done => true
  | .worker .done => true
  | _ => false

-- ------------------------------------------------------------------------------------------- enqueue call
/-- what the caller sees after one step of a call -/
inductive CallOut
  /-- still calling (or the next call is pending) -/
  | more (c : CallSt)
  /-- the last call of the script has returned -/
  | done
  deriving DecidableEq, Repr

def refuse (sh : Shared) (id : Nat) (r : Res) : Shared := { sh with result := setF sh.result id r }

/-- the call has returned (or thrown into the harness' catch): next scripted action -/
def nextCall (rest : List Act) : CallOut := if rest = [] then .done else .more (.yield_ rest)

/-- mirrors `enqueueImpl` / `tryEnqueueImpl`, one pthread operation per step; `n` = id of a thread created now -/
def callStep (cfg : Cfg) (sh : Shared) (n : Nat) (t : Tid) (c : CallSt) : Shared × CallOut × Post :=
  match c with
  | .yield_ [] => (sh, .done, .none)
  | .yield_ (a :: rest) =>
    -- Y "call": allocate the id; `if (!_accepting.load()) refuse`
    if sh.accepting then
      ({ sh with nextId := sh.nextId + 1, bodyIx := setF sh.bodyIx sh.nextId a.body, modeOf := setF sh.modeOf sh.nextId a.mode },
       .more (.inCall rest sh.nextId .lock), .none)
    else
      ({ sh with nextId := sh.nextId + 1, bodyIx := setF sh.bodyIx sh.nextId a.body, modeOf := setF sh.modeOf sh.nextId a.mode,
                 result := setF sh.result sh.nextId .refDraining },
       nextCall rest, .none)
  | .inCall rest cid .lock =>
    -- L _mutex, then `if (_shutdown) refuse; if (_tasks.size() >= _maxQueueSize) refuse; _tasks.emplace(f);
    -- if (_threads.size() < _maxSize) spawn`
    if sh.shutdown then
      ({ sh with owner := some t, result := setF sh.result cid .refShutdown }, .more (.inCall rest cid .unlockR), .none)
    else if sh.tasks.length ≥ cfg.maxQueue then
      ({ sh with owner := some t, result := setF sh.result cid .refFull }, .more (.inCall rest cid .unlockR), .none)
    else if sh.threads.length < cfg.effMax then
      ({ sh with owner := some t, tasks := sh.tasks ++ [cid], accCnt := bump sh.accCnt cid,
                 result := setF sh.result cid .accepted }, .more (.inCall rest cid .create), .none)
    else
      ({ sh with owner := some t, tasks := sh.tasks ++ [cid], accCnt := bump sh.accCnt cid,
                 result := setF sh.result cid .accepted }, .more (.inCall rest cid .unlock), .none)
  | .inCall rest cid .create =>
    -- C, then `_threads.emplace(id, std::move(t))`
    ({ sh with threads := sh.threads ++ [n] }, .more (.inCall rest cid .unlock), .spawn newWorker)
  | .inCall rest cid .unlock => ({ sh with owner := none }, .more (.inCall rest cid .notify), .none)
  | .inCall rest _ .notify => (sh, nextCall rest, .wakeOne)
  | .inCall rest _ .unlockR => ({ sh with owner := none }, nextCall rest, .none)

/-- mirrors the `catch (const std::system_error &)` block of `enqueueImpl` / `tryEnqueueImpl` (fixes/FC09e), entered inside the
critical section right after `_tasks.emplace` when `std::thread` could not be created: with no registered worker the task pushed
last is taken back (`discardNewestTaskLocked`) and the call is refused (`true`); otherwise the task stays queued, the call is
accepted and an existing worker runs it.  (Function-level model of the failure path: `callStep`'s `create` step is the successful
creation; the interleaving theorems assume creations succeed.) -/
def spawnFailed (sh : Shared) : Shared × Bool :=
  if sh.threads = [] then ({ sh with tasks := sh.tasks.dropLast }, true) else (sh, false)

-- ------------------------------------------------------------------------------------------- worker
/-- mirrors the tail of the worker loop after `task()` returned: `task = {}`; `--_activeThreads`; `--_busyThreads` -/
def taskDone (sh : Shared) : Shared × WSt :=
  ({ sh with active := sh.active - 1, busy := sh.busy - 1 }, .lock)

/-- the scripted body of task `id` has executed its last statement -/
def bodyEnd (cfg : Cfg) (sh : Shared) (id : Nat) : Shared × WSt :=
  if (cfg.bodyAt (sh.bodyIx id)).throws && sh.modeOf id != .withResult then
    ({ sh with doneCnt := bump sh.doneCnt id, nDone := sh.nDone + 1,
               outcome := setF sh.outcome id (some (cfg.bodyAt (sh.bodyIx id)).throws) }, .cfgLock id false)
  else
    ({ sh with doneCnt := bump sh.doneCnt id, nDone := sh.nDone + 1,
               outcome := setF sh.outcome id (some (cfg.bodyAt (sh.bodyIx id)).throws),
               active := sh.active - 1, busy := sh.busy - 1 }, .lock)

/-- `++_activeThreads; task();` up to the first yield of the body -/
def beginTask (cfg : Cfg) (sh : Shared) (id : Nat) : Shared × WSt :=
  ({ sh with active := sh.active + 1, startCnt := bump sh.startCnt id, nStart := sh.nStart + 1 },
   .bYield id (cfg.bodyAt (sh.bodyIx id)).acts)

def waitPred (sh : Shared) : Bool := sh.shutdown || !sh.tasks.isEmpty

/-- the code after `wait_for` returned `res`, still inside the critical section -/
def afterWait (cfg : Cfg) (sh : Shared) (t : Tid) (res : Bool) : Shared × WSt :=
  if !res then
    -- idle time-out: CAS loop on _threadsExited
    if sh.created - sh.exited ≤ cfg.initialSize then (sh, .unlockCont)
    else if t ∈ sh.threads then ({ sh with exited := sh.exited + 1 }, .detach)
    else ({ sh with exited := sh.exited + 1 }, .unlockExit)
  else if sh.shutdown && sh.tasks.isEmpty then ({ sh with exited := sh.exited + 1 }, .unlockExit)
  else
    match sh.tasks with
    | [] => (sh, .unlockCont)
    | id :: rest => ({ sh with tasks := rest, busy := sh.busy + 1 }, .unlockTask id)

/-- R: re-acquire; `late` = the clock says the deadline has passed -/
def reacq (cfg : Cfg) (sh : Shared) (t : Tid) (late : Bool) : Shared × WSt :=
  if late then afterWait cfg { sh with owner := some t, waiting := sh.waiting - 1 } t (waitPred sh)
  else if waitPred sh then afterWait cfg { sh with owner := some t, waiting := sh.waiting - 1 } t true
  else ({ sh with owner := some t }, .waitReady)

/-- one step of a worker that is neither asleep nor woken -/
def transW (cfg : Cfg) (sh : Shared) (n : Nat) (t : Tid) (w : WSt) : Shared × WSt × Post :=
  match w with
  | .start => ({ sh with created := sh.created + 1, started := sh.started + 1 }, .lock, .none)
  | .lock =>
    -- L _mutex; `++_waitingThreads`; `wait_for` evaluates the predicate first
    if waitPred sh then
      let x := afterWait cfg { sh with owner := some t } t true
      (x.1, x.2, .none)
    else ({ sh with owner := some t, waiting := sh.waiting + 1 }, .waitReady, .none)
  | .waitReady => ({ sh with owner := none }, .asleep, .none)
  | .asleep => (sh, .asleep, .none)
  | .woken to => (sh, .woken to, .none)
  | .detach => ({ sh with threads := sh.threads.erase t }, .unlockExit, .none)
  | .unlockExit => ({ sh with owner := none }, .done, .none)
  | .unlockCont => ({ sh with owner := none }, .lock, .none)
  | .unlockTask id =>
    if cfg.hook then ({ sh with owner := none }, .popped id, .none)
    else
      let x := beginTask cfg { sh with owner := none } id
      (x.1, x.2, .none)
  | .popped id =>
    let x := beginTask cfg sh id
    (x.1, x.2, .none)
  | .bYield id script =>
    if script = [] then
      let x := bodyEnd cfg sh id
      (x.1, x.2, .none)
    else (sh, .body id (.yield_ script), .none)
  | .body id c =>
    let x := callStep cfg sh n t c
    match x.2.1 with
    | .more c' => (x.1, .body id c', x.2.2)
    | .done => let y := bodyEnd cfg x.1 id; (y.1, y.2, x.2.2)
  | .cfgLock id again => ({ sh with ownerCfg := some t }, .cfgUnlock id again, .none)
  | .cfgUnlock id again =>
    if !again && (cfg.bodyAt (sh.bodyIx id)).hthrow then
      -- the handler throws: the exception leaves the wrapper and is caught by the worker loop's own `catch (...)`
      ({ sh with ownerCfg := none, handled := bump sh.handled id }, .cfgLock id true, .none)
    else
      let x := taskDone { sh with ownerCfg := none, handled := bump sh.handled id }
      (x.1, x.2, .none)
  | .done => (sh, .done, .none)

-- ------------------------------------------------------------------------------------------- submitter
def transS (cfg : Cfg) (sh : Shared) (n : Nat) (t : Tid) (s : SSt) : Shared × SSt × Post :=
  match s with
  | .start script => if script = [] then (sh, .done, .none) else (sh, .run (.yield_ script), .none)
  | .run c =>
    let x := callStep cfg sh n t c
    match x.2.1 with
    | .more c' => (x.1, .run c', x.2.2)
    | .done => (x.1, .done, x.2.2)
  | .done => (sh, .done, .none)

-- ------------------------------------------------------------------------------------------- controller
def logM (sh : Shared) (code : Nat) : Shared := { sh with mlog := code :: sh.mlog }

/-- `shutdown()` has returned -/
def shutdownReturn (sh : Shared) (r : MRegs) : Shared × MPc × MRegs :=
  if r.inStop then ({ sh with life := .stopped, mlog := 4 :: 7 :: sh.mlog }, .mYield, { r with inStop := false })
  else ({ sh with mlog := 7 :: sh.mlog }, .mYield, r)

/-- `drain()` has returned -/
def drainReturn (sh : Shared) (r : MRegs) (ok : Bool) : Shared × MPc × MRegs :=
  if r.inStop then
    -- inside stop(): only the outcome of stop() itself is logged
    if ok then (sh, .sFlagL, r)
    else ({ sh with mlog := 5 :: sh.mlog }, .mYield, { r with inStop := false })
  else ({ sh with mlog := (if ok then 1 else 2) :: sh.mlog }, .mYield, r)

/-- entry of `drain(timeoutMs)` (state already checked to be Running) -/
def drainEnter (sh : Shared) (r : MRegs) (timeoutMs : Nat) : Shared × MPc × MRegs :=
  ({ sh with life := .draining, accepting := false, drainCalled := true }, .dInfL,
   { r with maxWait := (if timeoutMs = 0 then Gen.TpSkel.drainZeroMs else timeoutMs), waitMs := 0 })

/-- after a polling loop ended (`done` = saw 0/0) -/
def pollExit (sh : Shared) (r : MRegs) (k : Poll) (done : Bool) : Shared × MPc × MRegs :=
  match k with
  | .drain => if done then drainReturn sh r true else (sh, .finL .drain, r)
  | .shut => (sh, .sGrace, r)
  | .race => (sh, .jL, r)
  | .dtor => if done then (sh, .p4CfgL, r) else (sh, .finL .dtor, r)

/-- loop head `while (waitMs < maxWaitMs) { a = _activeThreads; getPendingTaskCount() …` -/
def pollHead (sh : Shared) (r : MRegs) (k : Poll) : Shared × MPc × MRegs :=
  if r.waitMs < r.maxWait then (sh, .pollL k, { r with a := sh.active }) else pollExit sh r k false

/-- Y "m": dispatch the next controller operation -/
def stepMYield (cfg : Cfg) (sh : Shared) (r : MRegs) : Shared × MPc × MRegs :=
  match r.mscript with
  | [] => (sh, .done, r)
  | op :: rest =>
    match op with
    | .act a => (sh, .inCall (.yield_ [a]), { r with mscript := rest })
    | .spawnSub sc => (sh, .mSpawn sc, { r with mscript := rest })
    | .joinSubs => if r.subs = [] then (sh, .mYield, { r with mscript := rest }) else (sh, .mJoin, { r with mscript := rest })
    | .drain tmo =>
      if sh.life = .running then drainEnter sh { r with mscript := rest } tmo
      else ({ sh with mlog := 3 :: sh.mlog }, .mYield, { r with mscript := rest })
    | .stop =>
      if sh.life = .running then drainEnter sh { r with mscript := rest, inStop := true } Gen.TpSkel.drainDefaultMs
      else if sh.life = .draining then (sh, .sFlagL, { r with mscript := rest, inStop := true })
      else ({ sh with mlog := 6 :: sh.mlog }, .mYield, { r with mscript := rest })
    | .shutdown => (sh, .sFlagL, { r with mscript := rest })
    | .destroy =>
      if r.aux then (sh, .mYield, { r with mscript := rest }) else (sh, .sFlagL, { r with mscript := rest, inDtor := true })
    | .spawnCtl ix => (sh, .mSpawnCtl ix, { r with mscript := rest })
    | .restart =>
      if r.aux || !cfg.allowRestart then (sh, .mYield, { r with mscript := rest })
      else if sh.life = .stopped then (sh, .rsL, { r with mscript := rest })
      else ({ sh with mlog := 11 :: sh.mlog }, .mYield, { r with mscript := rest })

/-- the destructor returns (members are destroyed: a joinable `std::thread` left in `_threads` terminates) -/
def dtorReturn (sh : Shared) (r : MRegs) : Shared × MPc × MRegs :=
  ({ sh with mlog := (if sh.threads = [] then 8 else 9) :: sh.mlog }, .mYield, { r with inDtor := false })

/-- the destructor finds `_shutdown` already set and returns at once; if the `shutdown()` that set it has not completed,
another thread is still using the object (the caller violated the object's lifetime): code 13 -/
def dtorEarly (sh : Shared) (r : MRegs) : Shared × MPc × MRegs :=
  if sh.epoch ≤ sh.complete then dtorReturn sh r
  else ({ sh with mlog := 13 :: sh.mlog }, .mYield, { r with inDtor := false })

/-- one step of the controller -/
def transM (cfg : Cfg) (sh : Shared) (n : Nat) (t : Tid) (pc : MPc) (r : MRegs) (alt : Nat) : Shared × (MPc × MRegs) × Post :=
  match pc with
  | .start =>
    -- constructor: `_accepting.store(true)`, state Running, then `initialSize` times `spawnWorker()`
    if r.ctor = 0 then ({ sh with accepting := true, life := .running }, (.mYield, r), .none)
    else ({ sh with accepting := true, life := .running }, (.cL, r), .none)
  | .startAux => (sh, (.mYield, r), .none)
  | .cL => ({ sh with owner := some t }, (.cC, r), .none)
  | .cC => ({ sh with threads := sh.threads ++ [n] }, (.cU, r), .spawn newWorker)
  | .cU =>
    if r.ctor ≤ 1 then ({ sh with owner := none }, (.mYield, { r with ctor := r.ctor - 1 }), .none)
    else ({ sh with owner := none }, (.cL, { r with ctor := r.ctor - 1 }), .none)
  | .mYield => let x := stepMYield cfg sh r; (x.1, (x.2.1, x.2.2), .none)
  | .inCall c =>
    let x := callStep cfg sh n t c
    match x.2.1 with
    | .more c' => (x.1, (.inCall c', r), x.2.2)
    | .done => (x.1, (.mYield, r), x.2.2)
  | .mSpawn sc => (sh, (.mYield, { r with subs := r.subs ++ [n] }), .spawn (.sub (.start sc)))
  | .mSpawnCtl ix =>
    (sh, (.mYield, { r with subs := r.subs ++ [n] }), .spawn (.main .startAux { mscript := cfg.ctlAt ix, aux := true }))
  | .mJoin =>
    match r.subs with
    | [] => (sh, (.mYield, r), .none)
    | _ :: rest =>
      if rest = [] then (sh, (.mYield, { r with subs := rest }), .none)
      else (sh, (.mJoin, { r with subs := rest }), .none)
  -- drain(): getInFlightCount, then the loop
  | .dInfL => ({ sh with owner := some t }, (.dInfU, { r with p := sh.tasks.length }), .none)
  | .dInfU => let x := pollHead { sh with owner := none } { r with inflight := r.p + sh.active } .drain; (x.1, (x.2.1, x.2.2), .none)
  | .pollL k => ({ sh with owner := some t }, (.pollU k, { r with p := sh.tasks.length }), .none)
  | .pollU k =>
    if r.a = 0 ∧ r.p = 0 then let x := pollExit { sh with owner := none } r k true; (x.1, (x.2.1, x.2.2), .none)
    else ({ sh with owner := none }, (.pollZ k, r), .none)
  | .pollZ k => let x := pollHead sh { r with waitMs := r.waitMs + Gen.TpSkel.pollMs } k; (x.1, (x.2.1, x.2.2), .none)
  | .finL k => ({ sh with owner := some t }, (.finU k, { r with a := sh.active, p := sh.tasks.length }), .none)
  | .finU k =>
    match k with
    | .drain => let x := drainReturn { sh with owner := none } r false; (x.1, (x.2.1, x.2.2), .none)
    | _ => ({ sh with owner := none }, (.p4CfgL, r), .none)
  -- shutdown() / phase 1
  | .sFlagL =>
    -- `if (_shutdown) { epoch = _shutdownEpoch; … }` / `_shutdown = true; myEpoch = ++_shutdownEpoch;`
    if sh.shutdown then ({ sh with owner := some t }, (.sFlagUA sh.epoch, r), .none)
    else ({ sh with owner := some t, shutdown := true, shutCalled := true, epoch := sh.epoch + 1 }, (.sFlagU, { r with ep := sh.epoch + 1 }), .none)
  | .sFlagUA ep =>
    if r.inDtor then let x := dtorEarly { sh with owner := none } r; (x.1, (x.2.1, x.2.2), .none)
    else if ep ≤ sh.complete then let x := shutdownReturn { sh with owner := none } r; (x.1, (x.2.1, x.2.2), .none)
    else ({ sh with owner := none }, (.sDoneZ ep, r), .none)
  | .sDoneZ ep =>
    -- `while (_shutdownCompleteEpoch.load(acquire) < epoch) sleep 1 ms`
    if ep ≤ sh.complete then let x := shutdownReturn sh r; (x.1, (x.2.1, x.2.2), .none)
    else (sh, (.sDoneZ ep, r), .none)
  | .sFlagU => ({ sh with owner := none }, (.sBcast, r), .none)
  | .sBcast =>
    if r.inDtor then (sh, (.p2Z, { r with iter := 0 }), .wakeAll)
    else let x := pollHead sh { r with waitMs := 0, maxWait := Gen.TpSkel.shutdownMaxWaitMs } .shut; (x.1, (x.2.1, x.2.2), .wakeAll)
  | .sGrace => (sh, (.sChkL, { r with a := sh.active }), .none)
  | .sChkL => ({ sh with owner := some t }, (.sChkU, { r with p := sh.tasks.length }), .none)
  | .sChkU =>
    if r.a ≠ 0 ∨ r.p ≠ 0 then
      let x := pollHead { sh with owner := none } { r with waitMs := 0, maxWait := Gen.TpSkel.raceMaxWaitMs } .race; (x.1, (x.2.1, x.2.2), .none)
    else ({ sh with owner := none }, (.jL, r), .none)
  -- join loop
  | .jL =>
    if sh.threads = [] then ({ sh with owner := some t, quiesced := true }, (.jUnone, r), .none)
    else if alt ∈ sh.threads then ({ sh with owner := some t, threads := sh.threads.erase alt }, (.jU alt, r), .none)
    else (sh, (.jL, r), .none)
  | .jU w =>
    if r.inDtor && cfg.detached then ({ sh with owner := none }, (.jDetach w, r), .none)
    else ({ sh with owner := none }, (.jJoin w, r), .none)
  | .jJoin _ => (sh, (.jL, r), .none)
  | .jDetach _ => (sh, (.jL, r), .none)
  | .jUnone =>
    if r.inDtor then ({ sh with owner := none }, (.p5L, r), .none)
    else let x := shutdownReturn { sh with owner := none, complete := r.ep } r; (x.1, (x.2.1, x.2.2), .none)   -- `_shutdownCompleteEpoch.store(myEpoch)`
  -- destructor phases 2..5
  | .p2Z =>
    if sh.waiting = 0 ∧ sh.exited ≥ sh.created then (sh, (.p2Grace, { r with iter := r.iter + 1 }), .none)
    else if r.iter + 1 < Gen.TpSkel.phase2MaxIterations then (sh, (.p2Z, { r with iter := r.iter + 1 }), .none)
    else let x := pollHead sh { r with iter := r.iter + 1, waitMs := 0, maxWait := Gen.TpSkel.phase3MaxWaitMs } .dtor; (x.1, (x.2.1, x.2.2), .none)
  | .p2Grace => let x := pollHead sh { r with waitMs := 0, maxWait := Gen.TpSkel.phase3MaxWaitMs } .dtor; (x.1, (x.2.1, x.2.2), .none)
  | .p4CfgL => ({ sh with ownerCfg := some t }, (.p4CfgU, r), .none)
  | .p4CfgU => ({ sh with ownerCfg := none }, (.jL, r), .none)
  | .p5L => ({ sh with owner := some t }, (.p5U, r), .none)
  | .p5U => let x := dtorReturn { sh with owner := none } r; (x.1, (x.2.1, x.2.2), .none)
  -- reset() + start()
  | .rsL => ({ sh with owner := some t, tasks := [], threads := [] }, (.rsU, r), .none)
  | .rsU =>
    ({ sh with owner := none, active := 0, busy := 0, created := 0, started := 0, exited := 0, waiting := 0, life := .reset },
     (.stL, r), .none)
  | .stL => ({ sh with owner := some t, shutdown := false, quiesced := false }, (.stU, r), .none)
  | .stU =>
    if cfg.initialSize = 0 then
      ({ sh with owner := none, accepting := true, life := .running, mlog := 10 :: sh.mlog }, (.mYield, r), .none)
    else
      ({ sh with owner := none, accepting := true, life := .running, mlog := 10 :: sh.mlog }, (.kL, { r with ctor := cfg.initialSize }), .none)
  | .kL =>
    -- `std::lock_guard lock(_mutex); if (_threads.size() < workerCount) spawnWorkerLocked();` (FC09c)
    if sh.threads.length < cfg.initialSize then ({ sh with owner := some t }, (.kC, r), .none)
    else ({ sh with owner := some t }, (.kU, r), .none)
  | .kC => ({ sh with threads := sh.threads ++ [n] }, (.kU, r), .spawn newWorker)
  | .kU =>
    if r.ctor ≤ 1 then ({ sh with owner := none }, (.mYield, { r with ctor := r.ctor - 1 }), .none)
    else ({ sh with owner := none }, (.kL, { r with ctor := r.ctor - 1 }), .none)
  | .done => (sh, (.done, r), .none)

/-- one step of a thread that is neither asleep, woken nor finished -/
def trans (cfg : Cfg) (sh : Shared) (n : Nat) (t : Tid) (th : Thread) (alt : Nat) : Shared × Thread × Post :=
  match th with
  | .main pc r => let x := transM cfg sh n t pc r alt; (x.1, .main x.2.1.1 x.2.1.2, x.2.2)
  | .sub s => let x := transS cfg sh n t s; (x.1, .sub x.2.1, x.2.2)
  | .worker w => let x := transW cfg sh n t w; (x.1, .worker x.2.1, x.2.2)

/-- does the pending operation of the call acquire `_mutex`? -/
def CallSt.locks : CallSt → Bool
  | .inCall _ _ .lock => true
  | _ => false

/-- is the pending operation enabled?  (threads asleep / woken / finished are handled by `step`) -/
def enabled (s : St) (th : Thread) : Bool :=
  match th with
  | .worker .lock => s.sh.owner.isNone
  | .worker (.body _ c) => !c.locks || s.sh.owner.isNone
  | .worker (.cfgLock _ _) => s.sh.ownerCfg.isNone
  | .worker _ => true
  | .sub (.run c) => !c.locks || s.sh.owner.isNone
  | .sub _ => true
  | .main pc r =>
    match pc with
    | .cL | .dInfL | .pollL _ | .finL _ | .sFlagL | .sChkL | .jL | .p5L | .rsL | .stL | .kL => s.sh.owner.isNone
    | .inCall c => !c.locks || s.sh.owner.isNone
    | .p4CfgL => s.sh.ownerCfg.isNone
    | .mJoin =>
      match r.subs with
      | [] => true
      | j :: _ => match s.thr[j]? with
        | some tj => isFinished tj
        | none => false
    | .jJoin j => match s.thr[j]? with
      | some tj => isFinished tj
      | none => false
    | _ => true

/-- `some to` = the thread has been woken and must re-acquire the mutex -/
def wokenBy : Thread → Option Bool
  | .worker (.woken to) => some to
  | _ => none

def step (cfg : Cfg) (s : St) : Choice → St
  | .timeout t =>
    match s.thr[t]? with
    | some th => if isAsleep th then { s with thr := s.thr.set t (wake th true) } else s
    | none => s
  | .spurious t =>
    match s.thr[t]? with
    | some th => if isAsleep th then { s with thr := s.thr.set t (wake th false) } else s
    | none => s
  | .run t alt =>
    match s.thr[t]? with
    | none => s
    | some th =>
      match wokenBy th with
      | some to =>
        if s.sh.owner.isNone then
          { sh := (reacq cfg s.sh t (to || alt != 0)).1, thr := s.thr.set t (.worker (reacq cfg s.sh t (to || alt != 0)).2) }
        else s
      | none =>
        if isAsleep th || isFinished th then s
        else if enabled s th then
          match applyPost (s.thr.set t (trans cfg s.sh s.thr.length t th alt).2.1) (trans cfg s.sh s.thr.length t th alt).2.2 alt with
          | some l => { sh := (trans cfg s.sh s.thr.length t th alt).1, thr := l }
          | none => s
        else s

/-- the state reached by a schedule -/
def run (cfg : Cfg) (sched : List Choice) : St := sched.foldl (step cfg) (init cfg)

def runFrom (cfg : Cfg) (s : St) (sched : List Choice) : St := sched.foldl (step cfg) s

theorem runFrom_append (cfg : Cfg) (s : St) (a b : List Choice) :
    runFrom cfg s (a ++ b) = runFrom cfg (runFrom cfg s a) b := by
  simp [runFrom, List.foldl_append]

theorem run_append (cfg : Cfg) (a b : List Choice) : run cfg (a ++ b) = runFrom cfg (run cfg a) b := by
  simp [run, runFrom, List.foldl_append]

/-- invariants lift from one step to every schedule -/
theorem inv_run (cfg : Cfg) (Inv : St → Prop) (h0 : Inv (init cfg))
    (hs : ∀ s c, Inv s → Inv (step cfg s c)) : ∀ sched, Inv (run cfg sched) := by
  intro sched
  suffices h : ∀ s, Inv s → Inv (List.foldl (step cfg) s sched) from h _ h0
  induction sched with
  | nil => intro s h; exact h
  | cons c cs ih => intro s h; exact ih _ (hs s c h)

theorem inv_runFrom (cfg : Cfg) (Inv : St → Prop)
    (hs : ∀ s c, Inv s → Inv (step cfg s c)) : ∀ sched s, Inv s → Inv (runFrom cfg s sched) := by
  intro sched
  induction sched with
  | nil => intro s h; exact h
  | cons c cs ih => intro s h; exact ih _ (hs s c h)

end Iora.ThreadPool
