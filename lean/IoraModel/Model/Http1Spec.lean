import IoraModel.Model.HttpCommon
/-
Reference syntax of HTTP/1.1 messages (RFC 9112) used by the exactness theorems of C15: a message is a syntax tree
(start line, field list, body framed by Content-Length / chunked coding with extensions and trailers / connection
close) with a `render` function to bytes.  Nothing here is used by the framing models; the theorems say that the
models, applied to `render m`, return the parts of `m`.
-/
namespace Iora.Http.Spec
open Iora Iora.Http

def NoCRLF (s : Bytes) : Prop := ∀ c ∈ s, c ≠ 13 ∧ c ≠ 10
def AllOWS (s : Bytes) : Prop := ∀ c ∈ s, isOWS c = true
/-- neither end is SP / HTAB -/
def Trimmed (s : Bytes) : Prop :=
  (∀ c, s.head? = some c → isOWS c = false) ∧ (∀ c, s.getLast? = some c → isOWS c = false)

instance (s : Bytes) : Decidable (NoCRLF s) := inferInstanceAs (Decidable (∀ c ∈ s, c ≠ 13 ∧ c ≠ 10))
instance (s : Bytes) : Decidable (AllOWS s) := inferInstanceAs (Decidable (∀ c ∈ s, isOWS c = true))
def trimmedB (s : Bytes) : Bool :=
  (match s.head? with | some c => !isOWS c | none => true) && (match s.getLast? with | some c => !isOWS c | none => true)

theorem trimmed_iff (s : Bytes) : Trimmed s ↔ trimmedB s = true := by
  unfold Trimmed trimmedB
  cases h1 : s.head? <;> cases h2 : s.getLast? <;> simp

instance (s : Bytes) : Decidable (Trimmed s) := decidable_of_iff _ (trimmed_iff s).symm

/-- value of a digit token, most significant digit first; `none` if empty or some byte is not a digit of `base` -/
def tokFold (base : Nat) : Bytes → Nat → Option Nat
  | [], acc => some acc
  | c :: cs, acc =>
    match digitVal base c with
    | none => none
    | some v => tokFold base cs (acc * base + v)
def tokValue (base : Nat) (tok : Bytes) : Option Nat := if tok.isEmpty then none else tokFold base tok 0

/-- a field line `name ":" OWS value OWS` -/
structure Field where
  name : Bytes
  ows1 : Bytes := [32]
  value : Bytes
  ows2 : Bytes := []

def Field.line (f : Field) : Bytes := f.name ++ 58 :: (f.ows1 ++ f.value ++ f.ows2)

structure Field.WF (f : Field) : Prop where
  name_ne : f.name ≠ []
  name_tok : ∀ c ∈ f.name, c ≠ 58 ∧ c ≠ 13 ∧ c ≠ 10 ∧ isOWS c = false
  value_ok : NoCRLF f.value
  value_trim : Trimmed f.value
  ows1_ok : AllOWS f.ows1
  ows2_ok : AllOWS f.ows2

/-- the header map a recipient must build: per case-insensitive name the last value wins and the first spelling is kept,
except that repeated `Connection` field lines combine into one comma-separated list (RFC 9110 §5.3) -/
def headerMap (fs : List Field) : Headers := fs.foldl (fun h f => hdrAdd h f.name f.value) []

/-- `l0 CRLF l1 CRLF … ln` (no trailing CRLF) -/
def joinCRLF : List Bytes → Bytes
  | [] => []
  | [l] => l
  | l :: ls => l ++ crlf ++ joinCRLF ls

/-- chunk extension: empty, or optional BWS, `;`, anything without CR/LF -/
def ExtOK (ext : Bytes) : Prop := ext = [] ∨ ∃ bws rest, ext = bws ++ 59 :: rest ∧ AllOWS bws ∧ NoCRLF rest

structure Chunk where
  tok : Bytes
  ext : Bytes := []
  data : Bytes

def Chunk.render (c : Chunk) : Bytes := c.tok ++ c.ext ++ crlf ++ c.data ++ crlf

structure Chunk.WF (limit : Nat) (c : Chunk) : Prop where
  size : tokValue 16 c.tok = some c.data.length
  nonempty : c.data ≠ []
  small : c.data.length ≤ limit
  small64 : c.data.length < 2 ^ 64
  ext_ok : ExtOK c.ext

structure LastChunk where
  tok : Bytes := [48]
  ext : Bytes := []
  trailers : List Bytes := []

def LastChunk.render (l : LastChunk) : Bytes :=
  l.tok ++ l.ext ++ crlf ++ (l.trailers.map (· ++ crlf)).flatten ++ crlf

structure LastChunk.WF (l : LastChunk) : Prop where
  size : tokValue 16 l.tok = some 0
  ext_ok : ExtOK l.ext
  trailers_ok : ∀ t ∈ l.trailers, t ≠ [] ∧ NoCRLF t

def renderChunks (cs : List Chunk) : Bytes := (cs.map Chunk.render).flatten
def chunksData (cs : List Chunk) : Bytes := (cs.map Chunk.data).flatten

/-! ### responses -/

/-- three decimal digits of a status code -/
def digits3 (s : Nat) : Bytes := [b8 (48 + s / 100 % 10), b8 (48 + s / 10 % 10), b8 (48 + s % 10)]

structure StatusLine where
  minor : Nat                  -- HTTP/1.<minor>, 0 or 1
  status : Nat
  reason : Option Bytes        -- `none`: the line ends after the status code

def StatusLine.version (sl : StatusLine) : Bytes := [49, 46, b8 (48 + sl.minor)]
def StatusLine.render (sl : StatusLine) : Bytes :=
  [72, 84, 84, 80, 47] ++ sl.version ++ 32 :: (digits3 sl.status ++ (match sl.reason with | none => [] | some r => 32 :: r))

structure StatusLine.WF (sl : StatusLine) : Prop where
  minor_ok : sl.minor ≤ 1
  status_ok : sl.status < 1000
  reason_ok : ∀ r, sl.reason = some r → NoCRLF r

/-- how the body of a response is framed -/
inductive Body where
  | empty                                                    -- no body bytes (HEAD, 204, 304)
  | sized (tok : Bytes) (body : Bytes)                       -- `Content-Length: tok`
  | chunked (te : Bytes) (cs : List Chunk) (l : LastChunk)   -- `Transfer-Encoding: te`, final coding chunked
  | untilClose (body : Bytes)                                -- neither: delimited by connection close

def clName : Bytes := ascii "Content-Length"
def teName : Bytes := ascii "Transfer-Encoding"

/-- the framing field line of a body, if any -/
def Body.field : Body → Option Field
  | .empty => none
  | .sized tok _ => some { name := clName, value := tok }
  | .chunked te _ _ => some { name := teName, value := te }
  | .untilClose _ => none

/-- the bytes after the header section -/
def Body.wire : Body → Bytes
  | .empty => []
  | .sized _ b => b
  | .chunked _ cs l => renderChunks cs ++ l.render
  | .untilClose b => b

/-- the body a recipient must deliver -/
def Body.content : Body → Bytes
  | .empty => []
  | .sized _ b => b
  | .chunked _ cs _ => chunksData cs
  | .untilClose b => b

structure Response where
  sl : StatusLine
  before : List Field := []      -- field lines before the framing field
  after : List Field := []       -- … and after it
  body : Body

def Response.fields (m : Response) : List Field :=
  m.before ++ (match m.body.field with | none => [] | some f => [f]) ++ m.after

/-- header section without its terminating empty line -/
def Response.head (m : Response) : Bytes := joinCRLF (m.sl.render :: m.fields.map Field.line)
def Response.render (m : Response) : Bytes := m.head ++ crlf2 ++ m.body.wire

/-- other fields do not name the framing headers -/
def PlainField (f : Field) : Prop := f.WF ∧ ciEq f.name clName = false ∧ ciEq f.name teName = false

/-- what the client must hand to the application for `m` -/
def Response.expected (m : Response) : Bytes × Nat × Bytes × Headers × Bytes :=
  (m.sl.version, m.sl.status, m.sl.reason.getD [], headerMap m.fields, m.body.content)

/-- an interim (1xx) response: a header section only -/
structure Interim where
  sl : StatusLine
  fields : List Field := []

def Interim.render (i : Interim) : Bytes := joinCRLF (i.sl.render :: i.fields.map Field.line) ++ crlf2

def renderInterims (is : List Interim) : Bytes := (is.map Interim.render).flatten

end Iora.Http.Spec
