import IoraModel.Model.LifecycleCore
/-!
# Engine session lifecycle — TcpEngine and UdpEngine (C02)

Function-by-function mirror of the lifecycle-relevant control flow of
`include/iora/network/detail/tcp_engine.hpp` and `udp_engine.hpp`: which callback fires where, which call decides
which branch, where a session enters and leaves the map, where the gauge moves, where an id is allocated.
Byte-level behaviour (what is sent, queue contents) is C01/C06; here a write queue is its length.

One step of the system (`In`) is an atomic action of an application thread (an API call, serialised by the
command-queue mutex), of a timer thread, or one handler invocation on the I/O thread.
-/
namespace Iora.Lifecycle

/-! ## shared between the engines: API, command queue, Close command, GC, shutdown drain -/

/-- mirrors TcpEngine::connect / UdpEngine::connect: allocate the id, then enqueue; a closed queue is reported as an error
(the id is burnt, never handed out). -/
def apiConnect (tls : TlsReq) (named : Bool) (g : G) : G :=
  let sid := g.nextId
  let g := { g with nextId := g.nextId + 1 }
  if g.cmdsClosed then emit (.ret sid false) g
  else emit (.ret sid true) { g with queue := g.queue ++ [.connect sid tls named] }

/-- mirrors UdpEngine::connectViaListener -/
def apiVia (lid : Lid) (k : Key) (g : G) : G :=
  let sid := g.nextId
  let g := { g with nextId := g.nextId + 1 }
  if g.cmdsClosed then emit (.ret sid false) g
  else emit (.ret sid true) { g with queue := g.queue ++ [.via sid lid k] }

/-- enqueue of a command that carries no fresh id (Close / Send / AddListener / Shutdown) -/
def apiPlain (c : Cmd) (g : G) : G := (enqueue c g).1

/-- mirrors stop(): CAS on `_running`, then `enqueue(Command::shutdown())` (the join is the I/O thread reaching `stopped`). -/
def apiStop (g : G) : G :=
  if g.running then apiPlain .shutdown { g with running := false } else g

/-- mirrors start() on an engine whose previous run has been drained (restart): the `_running` CAS, `_cmdsClosed = false`, a new I/O
thread. Ids keep counting (`_nextSessionId` is not reset); nothing of the previous run is left in the maps (tcp: since the F35
repair the drain also drops the fd tags, see `drainErasesTags`). On a running engine start() fails ("already running"). -/
def apiStart (g : G) : G :=
  if g.phase = .stopped ∧ !g.running then { g with running := true, cmdsClosed := false, phase := .loop } else g

/-- mirrors the first lines of process(): `q.swap(_cmds)` -/
def ioSwap (g : G) : G :=
  match g.batch with
  | [] => { g with batch := g.queue, queue := [] }
  | _ :: _ => g

/-- mirrors the `Cmd::Close` arm of TcpEngine::process (stale timer-originated closes are re-validated) and of UdpEngine::process -/
def closeCmd (sid : Sid) (o : Origin) (g : G) : G :=
  match g.table sid with
  | none => g
  | some s =>
    match o with
    | .connectTimeout => if !s.connectPending then g else closeNow sid (.procClose o) g
    | .handshakeTimeout => if s.tls != .handshake then g else closeNow sid (.procClose o) g
    | .writeStall => if s.wq = 0 then g else closeNow sid (.procClose o) g
    | .app => closeNow sid (.procClose o) g

/-- mirrors the second loop of runGc: `for sid in toClose: find -> closeNow(GCClosed)`; which sessions the clock condemns is an input -/
def runGc : List Sid → G → G
  | [], g => g
  | sid :: r, g => runGc r (closeNow sid .gc g)

/-- mirrors one iteration of the session loop of shutdownDrain: skip closed, mark, release, counters, close callback
(the entry stays in the map until `_sessions.clear()`). -/
def drainClose (sid : Sid) (g : G) : G :=
  match g.table sid with
  | none => g
  | some s =>
    if s.closed then g else
    emit (.close sid .drainSession)
      { g with table := upd g.table sid (some { s with closed := true }),
               index := eraseIdx g.cfg.peerEraseGuardedDrain g.index s.pkey sid,
               closedCnt := g.closedCnt + 1, current := g.current - 1 }

def drainAll : List Sid → G → G
  | [], g => g
  | sid :: r, g => drainAll r (drainClose sid g)

/-- the residual-queue loop of shutdownDrain (after the F30 repair): `for (auto &c : residual)` - a Connect / Via command that
will never run gets its close (its id was returned by connect()); the other commands are dropped. The residual deque is the
model's `batch`; the fuel is its length. -/
def residualLoop : Nat → G → G
  | 0, g => g
  | n + 1, g =>
    match popCmd g with
    | (none, g) => g
    | (some (.connect _ _ _), g) => residualLoop n (failConnect .drainResidual g)
    | (some (.via _ _ _), g) => residualLoop n (failConnect .drainResidual g)
    | (some _, g) => residualLoop n g

/-- mirrors the rest of shutdownDrain after process(): close every remaining session, clear the maps, close the queue under the
mutex taking the residual commands, then fail/close the residual commands. -/
def drainFinish (g : G) : G :=
  let g := drainAll (List.range g.nextId) g
  let g := { g with table := fun _ => none, listeners := fun _ => none, index := fun _ => none,
                    cmdsClosed := true, batch := g.queue, queue := [], phase := .stopped }
  residualLoop g.batch.length g

/-! ## inputs -/

inductive In
  | apiConnect (tls : TlsReq) (named : Bool)
  | apiVia (lid : Lid) (k : Key)
  | apiClose (sid : Sid)
  | apiSend (sid : Sid)
  | apiAddListener (lid : Lid) (tls : Bool)
  | apiStop
  | apiStart
  | timer (sid : Sid) (o : Origin)
  | ioSwap
  | ioCmd (as : List A)
  | ioAccept (lstTls : Bool) (as : List A)
  | ioSession (sid : Sid) (i o h : Bool) (as : List A)
  | ioListener (lid : Lid) (i o : Bool) (as : List A)
  | ioGc (picks : List Sid)
  | ioDrainBegin
  | ioDrainClose (sid : Sid)
  | ioDrainFinish
  deriving Repr

/-- the steps that are the same on both engines; `none` = not a shared input -/
def stepShared (g : G) : In → Option G
  | .apiConnect tls named => some (apiConnect tls named g)
  | .apiClose sid => some (apiPlain (.close sid .app) g)
  | .apiSend sid => some (apiPlain (.send sid) g)
  | .apiAddListener lid tls => some (apiPlain (.addListener lid tls) g)
  | .apiStop => some (apiStop g)
  | .apiStart => some (apiStart g)
  | .ioSwap => some (if g.phase = .loop then ioSwap g else g)
  | .ioGc picks => some (if g.phase = .loop then runGc picks g else g)
  | .ioDrainBegin =>
    some (if g.phase = .loop ∧ !g.running ∧ g.batch = [] ∧ g.cur = none
          then { g with phase := .drainProc, batch := g.queue, queue := [] } else g)
  | .ioDrainClose sid =>
    some (if (g.phase = .drainProc ∨ g.phase = .drainSess) ∧ g.batch = [] ∧ g.cur = none
          then drainClose sid { g with phase := .drainSess } else g)
  | .ioDrainFinish =>
    some (if (g.phase = .drainProc ∨ g.phase = .drainSess) ∧ g.batch = [] ∧ g.cur = none
          then drainFinish g else g)
  | _ => none

/-! ## TcpEngine -/
namespace Tcp

/-- mirrors TcpEngine::readAvail (`tlsOpen` = `tlsMode != None && tlsState == Open`, constant during the loop) -/
def readAvail (sid : Sid) (tlsOpen : Bool) : List A → G → G × List A
  | [], g => (g, [])
  | a :: r, g =>
    if tlsOpen then
      -- beforeSslRead hook, then SSL_read
      if a = .fail then (closeNow sid .rdHook g, r) else
      match r with
      | [] => (g, [])
      | .data :: r2 => readAvail sid tlsOpen r2 (dataCb sid g)
      | .again :: r2 => (g, r2)
      | .eof :: r2 => (closeNow sid .tlsZeroReturn g, r2)
      | _ :: r2 => (closeNow sid .tlsReadErr g, r2)
    else
      match a with
      | .data => readAvail sid tlsOpen r (dataCb sid g)
      | .again => (g, r)
      | .eof => (closeNow sid .fin g, r)
      | _ => (closeNow sid .recvErr g, r)

/-- mirrors TcpEngine::writePending -/
def writePending (sid : Sid) (tlsOpen : Bool) : List A → G → G × List A
  | [], g => (g, [])
  | a :: r, g =>
    match g.table sid with
    | none => ({ g with stale := true }, a :: r)
    | some s =>
      if s.wq = 0 then (g, a :: r) else
      if tlsOpen then
        if a = .fail then (closeNow sid .wrHook g, r) else
        match r with
        | [] => (g, [])
        | .full :: r2 => writePending sid tlsOpen r2 (setWq sid (s.wq - 1) g)
        | .part :: r2 => (g, r2)
        | .again :: r2 => (g, r2)
        | _ :: r2 => (closeNow sid .tlsWriteErr g, r2)
      else
        match a with
        | .full => writePending sid tlsOpen r (setWq sid (s.wq - 1) g)
        | .part => (g, r)
        | .again => (g, r)
        | _ => (closeNow sid .sendErr g, r)

/-- the tail of doSend: `wq.emplace_back`, then the `wq.size() > maxWriteQueue` check (close on backpressure, or drop the oldest) -/
def queueWrite (sid : Sid) (wq : Nat) (g : G) : G :=
  let n := wq + 1
  if n > g.cfg.maxWriteQueue then
    if g.cfg.closeOnBackpressure then closeNow sid .backpressure (setWq sid n (bumpBp g))
    else setWq sid (n - 1) (bumpBp g)
  else setWq sid n g

/-- mirrors TcpEngine::doSend -/
def doSend (sid : Sid) (as : List A) (g : G) : G × List A :=
  match g.table sid with
  | none => (g, as)
  | some s =>
    if s.closed then (g, as) else
    if s.tls = .handshake then (setWq sid (s.wq + 1) g, as) else
    if s.wq = 0 then
      if s.tls = .opened then
        let (h, as) := nextA as
        if h = .fail then (closeNow sid .dsHook g, as) else
        let (w, as) := nextA as
        match w with
        | .full => (g, as)
        | .part => (setWq sid 1 g, as)
        | .again => (queueWrite sid s.wq g, as)
        | _ => (closeNow sid .dsTlsErr g, as)
      else
        let (w, as) := nextA as
        match w with
        | .full => (g, as)
        | .part => (setWq sid 1 g, as)
        | .again => (queueWrite sid s.wq g, as)
        | _ => (closeNow sid .dsSendErr g, as)
    else (queueWrite sid s.wq g, as)

/-- TcpEngine::driveHandshake after the inline timeout check: hook, SSL_do_handshake, hook, then success / want / fatal -/
def handshakeStep (sid : Sid) (as : List A) (g : G) : Bool × G × List A :=
  let (hb, as) := nextA as
  if hb = .fail then (false, closeNow sid .hsHookBefore g, as) else
  let (rc, as) := nextA as
  if rc = .ok then
    let (ha, as) := nextA as
    if ha = .fail then (false, closeNow sid .hsHookAfterOk g, as) else
    let r := readAvail sid true as (announceConnect sid g)
    (true, r.1, r.2)
  else
    let (ha, as) := nextA as
    if ha = .fail then (false, closeNow sid .hsHookAfterErr g, as) else
    if rc = .again then (false, g, as)
    else (false, closeNow sid .hsFatal g, as)

/-- mirrors TcpEngine::driveHandshake; the Bool is its return value -/
def driveHandshake (sid : Sid) (as : List A) (g : G) : Bool × G × List A :=
  if g.cfg.inlineHsTimeout then
    let (t, as) := nextA as
    if t = .timeout then (false, closeNow sid .hsTimeoutInline g, as) else handshakeStep sid as g
  else handshakeStep sid as g

/-- the `connectPending && tlsMode == None` block of onSession and the immediate check of doConnect share this shape:
SO_ERROR, then getpeername, then the connect callback -/
def connectCheck (sid : Sid) (gso peer soerr : Site) (as : List A) (g : G) : Bool × G × List A :=
  let (e, as) := nextA as
  match e with
  | .fail => (false, closeNow sid gso g, as)
  | .soerr => (false, closeNow sid soerr g, as)
  | _ =>
    let (p, as) := nextA as
    match p with
    | .ok => (true, announceConnect sid g, as)
    | .refused => (false, closeNow sid peer g, as)
    | _ => (true, g, as)

/-- onSession, `if (events & EPOLLOUT)`: the early SO_ERROR probe; the Bool says "return" -/
def sessEarly (sid : Sid) (o : Bool) (as : List A) (g : G) : Bool × G × List A :=
  if o then
    let (e, as) := nextA as
    if e = .soerr then (true, closeNow sid .evSoErrEarly g, as) else (false, g, as)
  else (false, g, as)

/-- onSession, the handshake / connect-completion alternative (`s` = the session as it was at entry); the Bool says "return" -/
def sessConnect (sid : Sid) (s : Sess) (o : Bool) (as : List A) (g : G) : Bool × G × List A :=
  if s.tls = .handshake then
    let r := driveHandshake sid as g
    if !r.1 then (true, r.2.1, r.2.2)
    else match r.2.1.table sid with       -- re-lookup: readAvail inside driveHandshake may have closed the session
      | none => (true, r.2.1, r.2.2)
      | some _ => (false, r.2.1, r.2.2)
  else if o ∧ s.connectPending ∧ s.tls = .none then
    let r := connectCheck sid .evGsoFail .evPeerFail .evSoErr as g
    (!r.1, r.2.1, r.2.2)
  else (false, g, as)

def tlsOpenOf (sid : Sid) (g : G) : Bool :=
  match g.table sid with
  | some s => decide (s.tls = .opened)
  | none => false

/-- onSession, `if (events & EPOLLIN)`: readAvail and the re-lookup; the Bool says "return" -/
def sessRead (sid : Sid) (i : Bool) (as : List A) (g : G) : Bool × G × List A :=
  if i then
    let r := readAvail sid (tlsOpenOf sid g) as g
    match r.1.table sid with
    | none => (true, r.1, r.2)
    | some _ => (false, r.1, r.2)
  else (false, g, as)

/-- mirrors TcpEngine::onSession -/
def onSession (sid : Sid) (i o h : Bool) (as : List A) (g : G) : G × List A :=
  match g.table sid with
  | none => (g, as)                       -- handleFdEvent: tag not found
  | some s =>
    if s.closed then (g, as) else
    let r1 := sessEarly sid o as g
    if r1.1 then (r1.2.1, r1.2.2) else
    let r2 := sessConnect sid s o r1.2.2 r1.2.1
    if r2.1 then (r2.2.1, r2.2.2) else
    if h then (closeNow sid .hup r2.2.1, r2.2.2) else
    let r3 := sessRead sid i r2.2.2 r2.2.1
    if r3.1 then (r3.2.1, r3.2.2) else
    if o then writePending sid (tlsOpenOf sid r3.2.1) r3.2.2 r3.2.1 else (r3.2.1, r3.2.2)

/-- THE ENVIRONMENT CONTRACT of T3 (an input hypothesis): the kernel does not hand payload bytes to a socket whose connect has not
completed.  In model terms, for an event delivered to a plain client session that is still `connectPending`: after the part of
onSession that can complete the connect (SO_ERROR probe, getsockopt/getpeername check), either the handler has returned, or the
session is announced now, or no read is attempted (no EPOLLIN / EPOLLHUP first), or the first recv does not return data.
The epoll mask the engine registers (EPOLLOUT while `connectPending`: `Gen.tcpConnectEpollMask`, `Gen.tcpUpdateInterest`) is what makes
real kernels honour this: a completed connect is always reported (EPOLLOUT) together with the first readable data. -/
def envOkSession (sid : Sid) (i o h : Bool) (as : List A) (g : G) : Bool :=
  match g.table sid with
  | none => true
  | some s =>
    if s.client && s.connectPending && s.tls == .none && !s.closed then
      let r1 := sessEarly sid o as g
      if r1.1 then true else
      let r2 := sessConnect sid s o r1.2.2 r1.2.1
      if r2.1 then true else
      !i || h ||
      (match r2.2.1.table sid with | some s' => s'.announced | none => true) ||
      (r2.2.2.head? != some A.data)
    else true

/-- the contract as a predicate on (state before the step, input) -/
def envOk (g : G) : In → Bool
  | .ioSession sid i o h as => envOkSession sid i o h as g
  | _ => true

/-- every step of the history honours the contract -/
def envOkHistory (stepf : G → In → G) : G → List In → Bool
  | _, [] => true
  | g, i :: r => envOk g i && envOkHistory stepf (stepf g i) r

/-- the connect loop of doConnect over the `n` resolved addresses: `some true` = a socket is connecting/connected,
`some false` = refused (the loop gives up at once), `none` = list exhausted. One answer per iteration: the result of
connect(), or `fail` when socket() itself failed. -/
def connLoop : Nat → List A → Option Bool × List A
  | 0, as => (none, as)
  | n + 1, as =>
    let (a, as) := nextA as
    match a with
    | .ok => (some true, as)
    | .again => (some true, as)
    | .refused => (some false, as)
    | _ => connLoop n as

/-- doConnect, name resolution (only for non-literal hosts): (return?, number of addresses, state, answers) -/
def resolveStep (named : Bool) (as : List A) (g : G) : Bool × Nat × G × List A :=
  if named then
    let (r, as) := nextA as
    match r with
    -- std::async threw (no resolver thread): since FC02b caught inside doConnect, the id gets its close like any failed resolve
    | .throw => (true, 0, failConnect .resolveThrow g, as)
    | .timeout => (true, 0, failConnect .resolveTimeout g, as)
    | .addrs 0 => (true, 0, failConnect .resolveFail g, as)        -- `rc != 0 || !res`
    | .addrs n => (false, n, g, as)
    | _ => (true, 0, failConnect .resolveFail g, as)
  else (false, 1, g, as)

/-- doConnect, the `cr.tls == Client && clientTls.enabled && _sslCli` block: SSL_new (and, with F20, SSL_set1_host); Bool = return -/
def tlsSetup (useTls named : Bool) (as : List A) (g : G) : Bool × G × List A :=
  if useTls then
    let (n, as) := nextA as
    if n = .fail then (true, failConnect .sslNewFail g, as)
    else if g.cfg.sniCheck ∧ named then
      let (h, as) := nextA as
      if h = .fail then (true, failConnect .sniFail g, as) else (false, g, as)
    else (false, g, as)
  else (false, g, as)

/-- mirrors TcpEngine::doConnect (the request's id is `g.cur`) -/
def doConnect (tls : TlsReq) (named : Bool) (as : List A) (g : G) : G × List A :=
  -- F18: `cr.tls != None && !(cr.tls == Client && clientTls.enabled && _sslCli)` is refused
  if g.cfg.tlsRefuse ∧ tls ≠ .none ∧ !(tls = .client ∧ g.cfg.cliCtx) then (failConnect .tlsRefused g, as) else
  let r := resolveStep named as g
  if r.1 then (r.2.2.1, r.2.2.2) else
  let c := connLoop r.2.1 r.2.2.2
  match c.1 with
  | some false => (failConnect .refused r.2.2.1, c.2)
  | none => (failConnect .noSocket r.2.2.1, c.2)
  | some true =>
    let useTls := decide (tls = .client) && g.cfg.cliCtx
    let t := tlsSetup useTls named c.2 r.2.2.1
    if t.1 then (t.2.1, t.2.2) else
    match t.2.1.cur with
    | none => ({ t.2.1 with stale := true }, t.2.2)
    | some sid =>
      let g1 := insertCur useTls none 0 t.2.1
      if tls = .none then
        let k := connectCheck sid .immGsoFail .immPeerFail .immSoErr t.2.2 g1
        (k.2.1, k.2.2)
      else (g1, t.2.2)

/-- mirrors TcpEngine::onListener -/
def onListener (lstTls : Bool) : List A → G → G × List A
  | [], g => (g, [])
  | a :: r, g =>
    match a with
    | .ok =>
      if lstTls ∧ g.cfg.srvCtx then
        match r with
        | [] => (g, [])
        | n :: r2 =>
          if n = .fail then onListener lstTls r2 (burnId g)   -- id burnt, nothing inserted
          else onListener lstTls r2 (acceptFresh .handshake none 0 g).1
      else onListener lstTls r (acceptFresh .none none 0 g).1
    | _ => (g, r)       -- EAGAIN or accept4 error: leave the loop

/-- mirrors one iteration of the command loop of TcpEngine::process -/
def dispatch (as : List A) (g : G) : G × List A :=
  match popCmd g with
  | (none, g) => (g, as)
  | (some c, g) =>
    match c with
    | .shutdown => ({ g with running := false }, as)
    | .addListener lid _ =>
      let (b, as) := nextA as
      (if b = .ok then { g with listeners := upd g.listeners lid (some 0) } else g, as)
    | .connect _ tls named => doConnect tls named as g
    | .via _ _ _ => (failConnect .vNoListener g, as)     -- never queued on tcp (connectViaListener is refused synchronously)
    | .send sid => doSend sid as g
    | .close sid o => (closeCmd sid o g, as)

def step (g : G) (i : In) : G :=
  match stepShared g i with
  | some g' => g'
  | none =>
    match i with
    | .timer sid o => apiPlain (.close sid o) g
    | .ioCmd as => if (g.phase = .loop ∨ g.phase = .drainProc) ∧ g.cur = none then (dispatch as g).1 else g
    | .ioAccept t as => if g.phase = .loop then (onListener t as g).1 else g
    | .ioSession sid i o h as => if g.phase = .loop then (onSession sid i o h as g).1 else g
    | _ => g

end Tcp

/-! ## UdpEngine -/
namespace Udp

def capReached (g : G) : Bool := g.cfg.maxSessions != 0 && decide (g.current ≥ (g.cfg.maxSessions : Int))

/-- mirrors UdpEngine::readFromListener -/
def readFromListener (lid : Lid) : List A → G → G × List A
  | [], g => (g, [])
  | a :: r, g =>
    match a with
    | .dgram k =>
      match g.index k with
      | none =>
        if capReached g then readFromListener lid r g else
        let f := acceptFresh .none (some k) lid g
        readFromListener lid r (dataCb f.2 f.1)
      | some sid => readFromListener lid r (dataCb sid g)
    | .eof => readFromListener lid r g
    -- key(from) failed (FC06a): the datagram is dropped with an error event - no session, no index entry, no callback
    | .dgramNoKey => readFromListener lid r g
    | _ => (g, r)

/-- mirrors UdpEngine::flushListener (listener write queue only) -/
def flushListener (lid : Lid) : List A → G → G × List A
  | [], g => (g, [])
  | a :: r, g =>
    match g.listeners lid with
    | none => (g, a :: r)
    | some n =>
      if n = 0 then (g, a :: r) else
      match a with
      | .again => (g, r)
      | _ => flushListener lid r { g with listeners := upd g.listeners lid (some (n - 1)) }

/-- mirrors UdpEngine::writeClient -/
def writeClient (sid : Sid) : List A → G → G × List A
  | [], g => (g, [])
  | a :: r, g =>
    match g.table sid with
    | none => ({ g with stale := true }, a :: r)
    | some s =>
      if s.wq = 0 then (g, a :: r) else
      match a with
      | .full => writeClient sid r (setWq sid (s.wq - 1) g)
      | .part => writeClient sid r (setWq sid (s.wq - 1) g)
      | .again => (g, r)
      | _ => (closeNow sid .ucWriteErr g, r)

/-- the receive loop of UdpEngine::onClient; the Bool says whether the handler goes on to the EPOLLOUT part -/
def clientRead (sid : Sid) : List A → G → Bool × G × List A
  | [], g => (true, g, [])
  | a :: r, g =>
    match a with
    | .data => clientRead sid r (dataCb sid g)
    -- a zero-length datagram is delivered (empty view) and the loop goes on (since fix 9828b32 it no longer ends the loop)
    | .eof => clientRead sid r (dataCb sid g)
    | .again => (true, g, r)
    | _ => (false, closeNow sid .ucRecvErr g, r)

/-- mirrors UdpEngine::onClient (reached through the fd tag, which exists exactly for client-role sessions in the map) -/
def onClient (sid : Sid) (i o : Bool) (as : List A) (g : G) : G × List A :=
  match g.table sid with
  | none => (g, as)
  | some s =>
    if s.pkey.isSome ∨ s.closed then (g, as) else
    let r := if i then clientRead sid as g else (true, g, as)
    if r.1 ∧ o then writeClient sid r.2.2 r.2.1 else (r.2.1, r.2.2)

/-- client-role tail of sendDo after EAGAIN: queue, then the backpressure check -/
def queueClient (sid : Sid) (wq : Nat) (g : G) : G :=
  let n := wq + 1
  if n > g.cfg.maxWriteQueue then
    if g.cfg.closeOnBackpressure then closeNow sid .usBackpressure (setWq sid n (bumpBp g))
    else setWq sid (n - 1) (bumpBp g)
  else setWq sid n g

/-- server-peer tail of sendDo after EAGAIN: the datagram goes to the LISTENER's queue, then the backpressure check -/
def queueListener (sid : Sid) (owner : Lid) (n : Nat) (g : G) : G :=
  let n1 := n + 1
  if n1 > g.cfg.maxWriteQueue then
    if g.cfg.closeOnBackpressure then closeNow sid .usLstBackpressure { bumpBp g with listeners := upd g.listeners owner (some n1) }
    else { bumpBp g with listeners := upd g.listeners owner (some (n1 - 1)) }
  else { g with listeners := upd g.listeners owner (some n1) }

/-- mirrors UdpEngine::sendDo -/
def sendDo (sid : Sid) (as : List A) (g : G) : G × List A :=
  match g.table sid with
  | none => (g, as)
  | some s =>
    if s.closed then (g, as) else
    match s.pkey with
    | none =>
      let (w, as) := nextA as
      match w with
      | .full => (g, as)
      | .part => (g, as)
      | .again => (queueClient sid s.wq g, as)
      | _ => (closeNow sid .usSendErr g, as)
    | some _ =>
      match g.listeners s.owner with
      | none => (closeNow sid .usListenerGone g, as)
      | some n =>
        let (w, as) := nextA as
        match w with
        | .full => (g, as)
        | .part => (g, as)
        | .again => (queueListener sid s.owner n g, as)
        | _ => (closeNow sid .usPeerSendErr g, as)

/-- the socket/connect loop of connectDo over the `n` resolved addresses: true = a socket connected -/
def connLoop : Nat → List A → Bool × List A
  | 0, as => (false, as)
  | n + 1, as =>
    let (a, as) := nextA as
    match a with
    | .ok => (true, as)
    | _ => connLoop n as

/-- mirrors UdpEngine::connectDo -/
def connectDo (as : List A) (g : G) : G × List A :=
  let (r, as) := nextA as
  match r with
  | .addrs (n + 1) =>
    let (c, as) := connLoop (n + 1) as
    if !c then (failConnect .uNoSocket g, as) else
    (connectNow none 0 true g, as)
  | _ => (failConnect .uResolveFail g, as)

/-- mirrors UdpEngine::viaDo (`connected` is not bumped there) -/
def viaDo (lid : Lid) (k : Key) (as : List A) (g : G) : G × List A :=
  match g.listeners lid with
  | none => (failConnect .vNoListener g, as)
  | some _ =>
    -- sockAf(lst->fd): only a failure is visible to the environment log
    let p1 := peekA .afFail as
    if p1.1 then (failConnect .vAfUnknown g, p1.2) else
    let r := nextA p1.2
    let resolved := match r.1 with | .addrs (_ + 1) => true | _ => false
    if !resolved then (failConnect .vResolveFail g, r.2) else
    let p2 := peekA .noMatch r.2
    if p2.1 then (failConnect .vAfMismatch g, p2.2) else
    -- key(to): an empty key (getnameinfo failed) is refused before _peerIndex is touched (FC06a): one close, nothing created
    let p3 := peekA .keyFail p2.2
    if p3.1 then (failConnect .vKeyFail g, p3.2) else
    if capReached g then (failConnect .vCap g, p3.2) else
    match g.cur with
    | none => ({ g with stale := true }, p3.2)
    | some sid => (viaIndex sid k (connectNow (some k) lid false g), p3.2)

/-- mirrors one iteration of the command loop of UdpEngine::process -/
def dispatch (as : List A) (g : G) : G × List A :=
  match popCmd g with
  | (none, g) => (g, as)
  | (some c, g) =>
    match c with
    | .shutdown => ({ g with running := false }, as)
    | .addListener lid _ =>
      let (b, as) := nextA as
      (if b = .ok then { g with listeners := upd g.listeners lid (some 0) } else g, as)
    | .connect _ _ _ => connectDo as g
    | .via _ lid k => viaDo lid k as g
    | .send sid => sendDo sid as g
    | .close sid _ => (closeCmd sid .app g, as)

def step (g : G) (i : In) : G :=
  match stepShared g i with
  | some g' => g'
  | none =>
    match i with
    | .apiVia lid k => apiVia lid k g
    | .ioCmd as => if (g.phase = .loop ∨ g.phase = .drainProc) ∧ g.cur = none then (dispatch as g).1 else g
    | .ioListener lid i o as =>
      if g.phase = .loop then
        let (g, as) := if i then readFromListener lid as g else (g, as)
        if o then (flushListener lid as g).1 else g
      else g
    | .ioSession sid i o _ as => if g.phase = .loop then (onClient sid i o as g).1 else g
    | _ => g

end Udp

def run (stepf : G → In → G) (g0 : G) (is : List In) : G := is.foldl stepf g0

end Iora.Lifecycle
