import IoraModel.Common.Bytes
import IoraModel.Gen.Dns
/-
Model of `include/iora/network/dns/dns_message.hpp` (DNS wire-format parser and query builder).
Every definition mirrors one C++ function; limits and tables come from the regenerated `Gen/Dns.lean`.

Conventions
* a message is `Bytes`; every read of `data[i]` / `rdata[i]` goes through `rd`, whose out-of-range answer is the
  explicit outcome `Err.oob` (what would be an out-of-bounds read in C++).  "`oob` never happens" is theorem N3.
* `std::string` names are `Bytes` (labels joined with `.` exactly as the C++ appends them).
* C++ exceptions are `Except.error` with a small enum; `parseTypedRecord`'s `catch (std::exception)` swallows
  every one of them — but not `oob`/`fuel`, which are not exceptions.
* the only fuel is in `decodeGo` (the `while (offset < size)` loop that follows compression pointers);
  "fuel is never exhausted" is theorem N4.
-/
namespace Iora.Dns
open Iora

inductive Err where
  | tooShort        -- "Message too short for DNS header"
  | bounds          -- checkBounds: "Insufficient data at offset"
  | badPointer      -- "Invalid compression pointer"
  | loop            -- "Compression pointer loop detected"
  | labelTooLong    -- "Label too long" (decode)
  | nameTooLong     -- "Domain name too long" (decode)
  | unterminated    -- "Domain name not terminated within message"
  | tooManyJumps    -- "Too many compression pointers in one name"
  | malicious       -- validateRdataSecurity
  | rdShort         -- "RDATA too short for compression pointer"
  | rdBadPointer    -- "Invalid compression pointer in RDATA"
  | rdBeyond        -- "RDATA name offset beyond message bounds"
  | rdLabel         -- "Invalid label length in RDATA"
  | rdExtends       -- "Name extends beyond RDATA bounds"
  | typedLen        -- a typed parser's length check ("Invalid … record data length", "SOA record truncated")
  | encLabel        -- encodeName: "Label too long"
  | encName         -- encodeName: "Domain name too long"
  | oob             -- a read outside the buffer (NOT an exception: undefined behaviour in C++)
  | fuel            -- the name loop ran out of fuel (cannot happen, N4)
  deriving DecidableEq, Repr

abbrev R (α : Type) := Except Err α

/-- `data[i]`: the only way the model reads a byte -/
def rd (m : Bytes) (i : Nat) : R UInt8 :=
  match m[i]? with
  | some b => .ok b
  | none => .error .oob

/-- mirrors `readUint16(data, offset)` (network byte order) -/
def rd16 (m : Bytes) (i : Nat) : R Nat := do
  let a ← rd m i
  let b ← rd m (i + 1)
  pure (a.toNat * 256 + b.toNat)

/-- mirrors `readUint32(data, offset)` -/
def rd32 (m : Bytes) (i : Nat) : R Nat := do
  let a ← rd16 m i
  let b ← rd16 m (i + 2)
  pure (a * 65536 + b)

/-- mirrors `checkBounds(offset, needed, total)` -/
def checkBounds (off needed total : Nat) : R Unit :=
  if off + needed > total then .error .bounds else .ok ()

/-- the bytes `[o, o + n)` of `m` as a value (specification level: total, used by the reference relation) -/
def slice (m : Bytes) (o n : Nat) : Bytes := (m.drop o).take n

/-- a BULK copy out of a buffer — `name.append(data + o, n)`, `rdata.assign(data + o, data + o + n)`, `memcpy(&addr, rdata, 16)`,
`str.assign(rdata + o, n)`: reading `n` bytes from offset `o`.  Like `rd`, it has the explicit outcome `oob` when the range
is not inside the buffer, so a missing guard in the model shows up as a reachable `oob` (and breaks N3). -/
def copy (m : Bytes) (o n : Nat) : R Bytes :=
  if o + n ≤ m.length then .ok (slice m o n) else .error .oob

/-- `(b & DNS_COMPRESSION_MASK) == DNS_COMPRESSION_MASK` (the translator checks that the mask is a run of high bits) -/
def isPtr (b : UInt8) : Bool := decide (Gen.Dns.compressionMask ≤ b.toNat)

/-- `name += "."` (unless empty) `; name.append(label)` -/
def appendLabel (name lbl : Bytes) : Bytes :=
  if name.isEmpty then lbl else name ++ 46 :: lbl

/-! ### names -/

/-- local variables of `decodeNameWithLoopDetection` -/
structure NSt where
  off : Nat
  visited : List Nat := []      -- `visitedPointers`
  jumped : Bool := false
  orig : Nat := 0               -- `originalOffset`
  total : Nat := 0              -- `totalLength`
  jumps : Nat := 0              -- `jumps`
  name : Bytes := []
  deriving Repr

/-- `totalLength + 1 > DNS_MAX_NAME_SIZE` counts the root label; the older `totalLength > …` does not -/
def rootOctet : Nat := if Gen.Dns.nameLimitCountsRoot then 1 else 0

/-- mirrors the loop of `decodeNameWithLoopDetection` (one unit of fuel per iteration) -/
def decodeGo (m : Bytes) : Nat → NSt → R (Bytes × Nat)
  | 0, _ => .error .fuel
  | f + 1, s =>
    if s.off < m.length then
      match rd m s.off with
      | .error e => .error e
      | .ok b =>
        let len := b.toNat
        if isPtr b then
          let orig := if s.jumped then s.orig else s.off + 2
          if s.off + 2 > m.length then .error .bounds
          else
            match rd16 m s.off with
            | .error e => .error e
            | .ok w =>
              let p := w % (Gen.Dns.pointerMask + 1)
              if p ≥ m.length then .error .badPointer
              else if s.visited.contains p then .error .loop
              else if Gen.Dns.hasJumpCap && decide (s.jumps + 1 > Gen.Dns.maxJumps) then .error .tooManyJumps
              else decodeGo m f { s with off := p, visited := p :: s.visited, jumped := true, orig := orig, jumps := s.jumps + 1 }
        else if len = 0 then .ok (s.name, if s.jumped then s.orig else s.off + 1)
        else if len > Gen.Dns.maxLabel then .error .labelTooLong
        else if s.off + 1 + len > m.length then .error .bounds
        else
          match copy m (s.off + 1) len with
          | .error e => .error e
          | .ok lbl =>
            if s.total + (len + 1) + rootOctet > Gen.Dns.maxName then .error .nameTooLong
            else decodeGo m f { s with off := s.off + (len + 1), total := s.total + (len + 1), name := appendLabel s.name lbl }
    else if Gen.Dns.unterminatedIsError then .error .unterminated
    else .ok (s.name, if s.jumped then s.orig else s.off)

/-- fuel handed to the name loop.  With the bound on compression pointers per name it is a CONSTANT (N4: at most
`maxJumps + maxName / 2 + 1` iterations per name, whatever the message); without it, it grows with the message. -/
def nameFuel (m : Bytes) : Nat :=
  if Gen.Dns.hasJumpCap then Gen.Dns.maxJumps + Gen.Dns.maxName / 2 + 2 else m.length + 130

/-- mirrors `decodeName(data, offset, size, name)`: (name, new offset) -/
def decodeName (m : Bytes) (off : Nat) : R (Bytes × Nat) :=
  decodeGo m (nameFuel m) { off := off, orig := off }

/-- mirrors the public `decodeNameWithLoopDetection(data, offset, size, name, visitedPointers)` called with a visited set the
CALLER supplies (possibly non-empty: every offset in it is refused as a pointer target) -/
def decodeNameVisited (m : Bytes) (off : Nat) (visited : List Nat) : R (Bytes × Nat) :=
  decodeGo m (nameFuel m) { off := off, orig := off, visited := visited }

/-- the scan of `decodeNameFromRdata` that recomputes how many RDATA bytes the name occupied -/
def scanRdata (r : Bytes) (c : Nat) : R Nat :=
  if c < r.length then
    match rd r c with
    | .error e => .error e
    | .ok b =>
      if isPtr b || b.toNat = 0 then .ok c
      else if b.toNat > Gen.Dns.maxLabel then .error .rdLabel
      else if c + (1 + b.toNat) ≥ r.length then .error .rdExtends
      else scanRdata r (c + (1 + b.toNat))
  else .ok c
termination_by r.length - c
decreasing_by omega

/-- mirrors `decodeNameFromRdata(messageData, messageSize, rdataStart, rdataOffset, rdata, rdataSize, name)`:
(name, new offset inside RDATA) -/
def rdataName (m : Bytes) (rdStart rdOff : Nat) (r : Bytes) : R (Bytes × Nat) :=
  if r.length = 0 ∨ rdOff ≥ r.length then .ok ([], rdOff)
  else do
    let direct : Option Nat ←
      (if rdOff + 1 < r.length then do
        let fb ← rd r rdOff
        if isPtr fb then
          if rdOff + 2 > r.length then .error .rdShort
          else do
            let w ← rd16 r rdOff
            pure (some (w % (Gen.Dns.pointerMask + 1)))
        else pure none
      else pure none)
    match direct with
    | some p =>
      if p + Gen.Dns.rdataPointerMargin < m.length then do
        let (n, _) ← decodeName m p
        pure (n, rdOff + 2)
      else .error .rdBadPointer
    | none =>
      let abs := rdStart + rdOff
      if abs ≥ m.length then .error .rdBeyond
      else do
        let (n, newOff) ← decodeName m abs
        if newOff ≥ rdStart ∧ newOff ≤ rdStart + r.length then pure (n, newOff - rdStart)
        else do
          let c ← scanRdata r rdOff
          if c < r.length then do
            let b ← rd r c
            if isPtr b then pure (n, c + 2)
            else if b.toNat = 0 then pure (n, c + 1)
            else pure (n, c)
          else pure (n, c)

/-! ### header, questions, resource records -/

structure Header where
  id : Nat
  qr : Bool
  opcode : Nat
  aa : Bool
  tc : Bool
  rd : Bool
  ra : Bool
  z : Nat
  rcode : Nat
  qd : Nat
  an : Nat
  ns : Nat
  ar : Nat
  deriving DecidableEq, Repr

structure Question where
  qname : Bytes
  qtype : Nat
  qclass : Nat
  deriving DecidableEq, Repr

structure RR where
  name : Bytes
  type : Nat
  cls : Nat
  ttl : Nat
  rdlength : Nat
  rdata : Bytes
  deriving DecidableEq, Repr

def bitOf (flags k : Nat) : Bool := decide (flags / k % 2 = 1)

/-- mirrors `parseHeader` -/
def parseHeader (m : Bytes) (off : Nat) : R (Header × Nat) := do
  checkBounds off Gen.Dns.headerSize m.length
  let id ← rd16 m off
  let flags ← rd16 m (off + 2)
  let qd ← rd16 m (off + 4)
  let an ← rd16 m (off + 6)
  let ns ← rd16 m (off + 8)
  let ar ← rd16 m (off + 10)
  pure ({ id := id, qr := bitOf flags 32768, opcode := flags / 2048 % 16, aa := bitOf flags 1024, tc := bitOf flags 512,
          rd := bitOf flags 256, ra := bitOf flags 128, z := flags / 16 % 8, rcode := flags % 16,
          qd := qd, an := an, ns := ns, ar := ar }, off + 12)

/-- mirrors `parseQuestion` -/
def parseQuestion (m : Bytes) (off : Nat) : R (Question × Nat) := do
  let (n, off) ← decodeName m off
  checkBounds off 2 m.length
  let t ← rd16 m off
  checkBounds (off + 2) 2 m.length
  let c ← rd16 m (off + 2)
  pure ({ qname := n, qtype := t, qclass := c }, off + 4)

/-- `(rdata[0] & 0xC0) == 0xC0` on a byte that may not exist is never evaluated by the code: every use is guarded -/
def firstIsPtr (r : Bytes) : R Bool := do
  let b ← rd r 0
  pure (isPtr b)

/-- mirrors `validateRdataSecurity` -/
def validateRdata (rr : RR) : R Unit :=
  if rr.type = 1 ∧ Gen.Dns.validatedTypes.contains 1 then
    if rr.rdata.length ≠ Gen.Dns.aLen then
      if rr.rdata.length ≥ Gen.Dns.aWrongMin then do
        let p ← firstIsPtr rr.rdata
        if p then .error .malicious else pure ()
      else pure ()
    else do
      let b0 ← rd rr.rdata 0
      if isPtr b0 then do
        let b1 ← rd rr.rdata 1
        let b2 ← rd rr.rdata 2
        let b3 ← rd rr.rdata 3
        let pointer := (b0.toNat % (256 - Gen.Dns.compressionMask)) * 256 + b1.toNat
        if pointer < Gen.Dns.aPointerLimit ∧ b2.toNat = 0 ∧ b3.toNat = 0 then .error .malicious else pure ()
      else pure ()
  else pure ()

/-- mirrors `parseResourceRecord(data, offset, size, rr, rdataOffset)`: (record, rdataOffset, new offset) -/
def parseRR (m : Bytes) (off : Nat) : R (RR × Nat × Nat) := do
  let (n, off) ← decodeName m off
  checkBounds off 2 m.length
  let t ← rd16 m off
  checkBounds (off + 2) 2 m.length
  let c ← rd16 m (off + 2)
  checkBounds (off + 4) 4 m.length
  let ttl ← rd32 m (off + 4)
  checkBounds (off + 8) 2 m.length
  let rdl ← rd16 m (off + 8)
  let rdOff := off + 10
  checkBounds rdOff rdl m.length
  let rdata ← copy m rdOff rdl
  let rr : RR := { name := n, type := t, cls := c, ttl := ttl, rdlength := rdl, rdata := rdata }
  validateRdata rr
  pure (rr, rdOff, rdOff + rdl)

/-! ### typed RDATA -/

inductive Typed where
  | a (name : Bytes) (addr : Bytes) (ttl : Nat)                    -- 4 octets; the dotted text is produced by the driver
  | aaaa (name : Bytes) (addr : Bytes) (ttl : Nat)                 -- 16 octets; `inet_ntop` text is libc's
  | srv (name : Bytes) (prio weight port : Nat) (target : Bytes) (ttl : Nat)
  | naptr (name : Bytes) (order pref : Nat) (flags service regexp replacement : Bytes) (ttl : Nat)
  | cname (name : Bytes) (cname : Bytes) (ttl : Nat)
  | mx (name : Bytes) (pref : Nat) (exchange : Bytes) (ttl : Nat)
  | txt (name : Bytes) (text : List Bytes) (ttl : Nat)
  | ptr (name : Bytes) (ptrdname : Bytes) (ttl : Nat)
  | soa (name : Bytes) (mname rname : Bytes) (serial refresh retry expire minimum : Nat) (ttl : Nat)
  deriving DecidableEq, Repr

def Typed.ttl : Typed → Nat
  | .a _ _ t | .aaaa _ _ t | .srv _ _ _ _ _ t | .naptr _ _ _ _ _ _ _ t | .cname _ _ t | .mx _ _ _ t | .txt _ _ t | .ptr _ _ t
  | .soa _ _ _ _ _ _ _ _ t => t

/-- record type number of a typed record -/
def Typed.type : Typed → Nat
  | .a .. => 1 | .aaaa .. => 28 | .srv .. => 33 | .naptr .. => 35 | .cname .. => 5 | .mx .. => 15 | .txt .. => 16 | .ptr .. => 12
  | .soa .. => 6

/-- mirrors `parseARecord` -/
def parseA (rr : RR) : R Typed :=
  if rr.rdata.length ≠ Gen.Dns.lenA then .error .typedLen
  else do
    let b0 ← rd rr.rdata 0
    let b1 ← rd rr.rdata 1
    let b2 ← rd rr.rdata 2
    let b3 ← rd rr.rdata 3
    pure (.a rr.name [b0, b1, b2, b3] rr.ttl)

/-- mirrors `parseAAAARecord` (`memcpy` of 16 bytes after the length check) -/
def parseAAAA (rr : RR) : R Typed :=
  if rr.rdata.length ≠ Gen.Dns.lenAAAA then .error .typedLen
  else do
    let addr ← copy rr.rdata 0 16
    pure (.aaaa rr.name addr rr.ttl)

/-- mirrors `parseSrvRecord` -/
def parseSrv (rr : RR) (m : Bytes) (rdStart : Nat) : R Typed :=
  if rr.rdata.length < Gen.Dns.minSrv then .error .typedLen
  else do
    let prio ← rd16 rr.rdata 0
    let weight ← rd16 rr.rdata 2
    let port ← rd16 rr.rdata 4
    let target ← (if 6 < rr.rdata.length then do
                    let (n, _) ← rdataName m rdStart 6 rr.rdata
                    pure n
                  else pure [])
    pure (.srv rr.name prio weight port target rr.ttl)

/-- the `parseString` lambda of `parseNaptrRecord`: (string, new offset) -/
def naptrString (r : Bytes) (off : Nat) : R (Bytes × Nat) :=
  if off ≥ r.length then pure ([], off)
  else do
    let l ← rd r off
    if off + 1 + l.toNat > r.length then pure ([], off + 1)
    else do
      let str ← copy r (off + 1) l.toNat
      pure (str, off + 1 + l.toNat)

/-- mirrors `parseNaptrRecord` -/
def parseNaptr (rr : RR) (m : Bytes) (rdStart : Nat) : R Typed :=
  if rr.rdata.length < Gen.Dns.minNaptr then .error .typedLen
  else do
    let order ← rd16 rr.rdata 0
    let pref ← rd16 rr.rdata 2
    let (flags, o1) ← naptrString rr.rdata 4
    let (service, o2) ← naptrString rr.rdata o1
    let (regexp, o3) ← naptrString rr.rdata o2
    let repl ← (if o3 < rr.rdata.length then do
                  let (n, _) ← rdataName m rdStart o3 rr.rdata
                  pure n
                else pure [])
    pure (.naptr rr.name order pref flags service regexp repl rr.ttl)

/-- mirrors `parseCnameRecord` -/
def parseCname (rr : RR) (m : Bytes) (rdStart : Nat) : R Typed :=
  if rr.rdata.length ≠ 0 then do
    let (n, _) ← rdataName m rdStart 0 rr.rdata
    pure (.cname rr.name n rr.ttl)
  else pure (.cname rr.name [] rr.ttl)

/-- mirrors `parsePtrRecord` -/
def parsePtr (rr : RR) (m : Bytes) (rdStart : Nat) : R Typed :=
  if rr.rdata.length ≠ 0 then do
    let (n, _) ← rdataName m rdStart 0 rr.rdata
    pure (.ptr rr.name n rr.ttl)
  else pure (.ptr rr.name [] rr.ttl)

/-- mirrors `parseMxRecord` -/
def parseMx (rr : RR) (m : Bytes) (rdStart : Nat) : R Typed :=
  if rr.rdata.length < Gen.Dns.minMx then .error .typedLen
  else do
    let pref ← rd16 rr.rdata 0
    let exch ← (if rr.rdata.length > 2 then do
                  let (n, _) ← rdataName m rdStart 2 rr.rdata
                  pure n
                else pure [])
    pure (.mx rr.name pref exch rr.ttl)

/-- the loop of `parseTxtRecord` -/
def txtGo (r : Bytes) (off : Nat) (acc : List Bytes) : R (List Bytes) :=
  if off < r.length then
    match rd r off with
    | .error e => .error e
    | .ok l =>
      if off + 1 + l.toNat > r.length then .ok acc
      else
        match copy r (off + 1) l.toNat with
        | .error e => .error e
        | .ok txt => txtGo r (off + 1 + l.toNat) (acc ++ [txt])
  else .ok acc
termination_by r.length - off
decreasing_by omega

/-- mirrors `parseTxtRecord` -/
def parseTxt (rr : RR) : R Typed := do
  let ts ← txtGo rr.rdata 0 []
  pure (.txt rr.name ts rr.ttl)

/-- mirrors `parseSoaRecord` -/
def parseSoa (rr : RR) (m : Bytes) (rdStart : Nat) : R Typed :=
  if rr.rdata.length < Gen.Dns.minSoa then .error .typedLen
  else do
    let (mname, o1) ← rdataName m rdStart 0 rr.rdata
    let (rname, o2) ← (if o1 < rr.rdata.length then rdataName m rdStart o1 rr.rdata else pure ([], o1))
    if o2 + Gen.Dns.soaTail > rr.rdata.length then .error .typedLen
    else do
      let serial ← rd32 rr.rdata o2
      let refresh ← rd32 rr.rdata (o2 + 4)
      let retry ← rd32 rr.rdata (o2 + 8)
      let expire ← rd32 rr.rdata (o2 + 12)
      let minimum ← rd32 rr.rdata (o2 + 16)
      pure (.soa rr.name mname rname serial refresh retry expire minimum rr.ttl)

/-- the `switch (rr.type)` of `parseTypedRecord` -/
def typedOf (rr : RR) (m : Bytes) (rdStart : Nat) : R (Option Typed) :=
  if !Gen.Dns.typedTypes.contains rr.type then pure none
  else if rr.type = 1 then (parseA rr).map some
  else if rr.type = 28 then (parseAAAA rr).map some
  else if rr.type = 33 then (parseSrv rr m rdStart).map some
  else if rr.type = 35 then (parseNaptr rr m rdStart).map some
  else if rr.type = 5 then (parseCname rr m rdStart).map some
  else if rr.type = 15 then (parseMx rr m rdStart).map some
  else if rr.type = 16 then (parseTxt rr).map some
  else if rr.type = 12 then (parsePtr rr m rdStart).map some
  else if rr.type = 6 then (parseSoa rr m rdStart).map some
  else pure none

/-- mirrors `parseTypedRecord`: `catch (const std::exception &)` swallows every exception of the typed parser
(the raw record stays); an out-of-bounds read is not an exception and is not swallowed -/
def parseTypedRecord (rr : RR) (m : Bytes) (rdStart : Nat) : R (Option Typed) :=
  match typedOf rr m rdStart with
  | .ok t => .ok t
  | .error .oob => .error .oob
  | .error .fuel => .error .fuel
  | .error _ => .ok none

/-! ### whole message -/

structure Result where
  header : Header
  questions : List Question := []
  answers : List RR := []
  authority : List RR := []
  additional : List RR := []
  typed : List Typed := []        -- every `*_records` vector, in order of appearance (the vectors are its per-type filters)
  deriving DecidableEq, Repr

/-- the question loop of `parse` -/
def parseQuestions (m : Bytes) : Nat → Nat → List Question → R (List Question × Nat)
  | 0, off, acc => .ok (acc, off)
  | n + 1, off, acc =>
    match parseQuestion m off with
    | .error e => .error e
    | .ok (q, off') => parseQuestions m n off' (acc ++ [q])

/-- one record-section loop of `parse` -/
def parseSection (m : Bytes) : Nat → Nat → List RR → List Typed → R (List RR × List Typed × Nat)
  | 0, off, rs, ts => .ok (rs, ts, off)
  | n + 1, off, rs, ts =>
    match parseRR m off with
    | .error e => .error e
    | .ok (rr, rdOff, off') =>
      match parseTypedRecord rr m rdOff with
      | .error e => .error e
      | .ok t => parseSection m n off' (rs ++ [rr]) (ts ++ t.toList)

/-- mirrors `DnsMessage::parse(data, size)` -/
def parse (m : Bytes) : R Result :=
  if m.length < Gen.Dns.headerSize then .error .tooShort
  else do
    let (h, off) ← parseHeader m 0
    let (qs, off) ← parseQuestions m h.qd off []
    let (an, ts, off) ← parseSection m h.an off [] []
    let (ns, ts, off) ← parseSection m h.ns off [] ts
    let (ar, ts, _) ← parseSection m h.ar off [] ts
    pure { header := h, questions := qs, answers := an, authority := ns, additional := ar, typed := ts }

/-! ### building queries -/

/-- `std::getline(iss, label, '.')` over the whole string: the pieces between dots -/
def splitDots : Bytes → List Bytes
  | [] => [[]]
  | c :: cs =>
    if c = 46 then [] :: splitDots cs
    else
      match splitDots cs with
      | [] => [[c]]
      | l :: ls => (c :: l) :: ls

/-- the labels `encodeName` emits: non-empty pieces -/
def labelsOf (name : Bytes) : List Bytes := (splitDots name).filter (fun l => !l.isEmpty)

/-- the loop of `encodeName` over the labels -/
def encodeLabels : List Bytes → R Bytes
  | [] => .ok [0]
  | l :: ls =>
    if l.length > Gen.Dns.maxLabel then .error .encLabel
    else
      match encodeLabels ls with
      | .error e => .error e
      | .ok rest => .ok (b8 l.length :: l ++ rest)

/-- mirrors `encodeName` -/
def encodeName (name : Bytes) : R Bytes :=
  if name.isEmpty ∨ name = [46] then .ok [0]
  else
    match encodeLabels (labelsOf name) with
    | .error e => .error e
    | .ok enc =>
      -- the length test sits behind `encoded.push_back(0)` (the root octet is counted) — or, in a tree where it sits inside
      -- the label loop, before the root label is appended
      if (if Gen.Dns.encodeLimitCountsRoot then enc.length else enc.length - 1) > Gen.Dns.maxName then .error .encName else .ok enc

/-- the questions loop of `buildQuery` -/
def encodeQuestions : List Question → R Bytes
  | [] => .ok []
  | q :: qs =>
    match encodeName q.qname with
    | .error e => .error e
    | .ok n =>
      match encodeQuestions qs with
      | .error e => .error e
      | .ok rest => .ok (n ++ be16 q.qtype ++ be16 q.qclass ++ rest)

/-- mirrors `buildQuery(questions, recursionDesired, id)`.  `id == 0` asks for a generated id: `generated` is what
`generateQueryId()` returns (an input of the model; the code draws it from `uniform_int_distribution(1, 65535)`). -/
def buildQuery (qs : List Question) (recursionDesired : Bool) (id : Nat) (generated : Nat := 1) : R Bytes :=
  let id := if id = 0 then generated else id
  match encodeQuestions qs with
  | .error e => .error e
  | .ok body =>
    .ok (be16 id ++ be16 (if recursionDesired then Gen.Dns.rdFlag else 0) ++ be16 qs.length ++ be16 0 ++ be16 0 ++ be16 0 ++ body)

end Iora.Dns
